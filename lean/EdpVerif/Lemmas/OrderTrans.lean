import EdpVerif.Lemmas.NumKey
/-!
Transitivity of the model order `Term.cmp` (C11), for all terms whose big integers carry minimal digits (`WFo`).
`Tr3 ab bc ac` packages the four upward clauses (lt/lt, lt/eq, eq/lt, eq/eq) for three comparison results; it
lifts through `Ordering.then` (`then_tr`), holds for the leaf comparisons, and is carried through the nested
term type by well-founded induction on the size of the first term (`cmpN_tr`).
-/
open Edp Edp.Term
namespace Edp

/-- the four upward transitivity clauses for three comparison results `ab`, `bc`, `ac` -/
structure Tr3 (ab bc ac : Ordering) : Prop where
  ll : ab = .lt → bc = .lt → ac = .lt
  le : ab = .lt → bc = .eq → ac = .lt
  el : ab = .eq → bc = .lt → ac = .lt
  ee : ab = .eq → bc = .eq → ac = .eq

/-- lexicographic combination; the second components matter only when the first ones are equal -/
theorem then_tr' {a1 b1 c1 a2 b2 c2 : Ordering} (h1 : Tr3 a1 b1 c1) (h2 : a1 = .eq → b1 = .eq → Tr3 a2 b2 c2) :
    Tr3 (a1.then a2) (b1.then b2) (c1.then c2) := by
  constructor
  · intro hab hbc
    rcases Ordering.then_eq_lt.mp hab with ha | ⟨ha1, ha2⟩ <;> rcases Ordering.then_eq_lt.mp hbc with hb | ⟨hb1, hb2⟩
    · exact Ordering.then_eq_lt.mpr (.inl (h1.ll ha hb))
    · exact Ordering.then_eq_lt.mpr (.inl (h1.le ha hb1))
    · exact Ordering.then_eq_lt.mpr (.inl (h1.el ha1 hb))
    · exact Ordering.then_eq_lt.mpr (.inr ⟨h1.ee ha1 hb1, (h2 ha1 hb1).ll ha2 hb2⟩)
  · intro hab hbc
    obtain ⟨hb1, hb2⟩ := Ordering.then_eq_eq.mp hbc
    rcases Ordering.then_eq_lt.mp hab with ha | ⟨ha1, ha2⟩
    · exact Ordering.then_eq_lt.mpr (.inl (h1.le ha hb1))
    · exact Ordering.then_eq_lt.mpr (.inr ⟨h1.ee ha1 hb1, (h2 ha1 hb1).le ha2 hb2⟩)
  · intro hab hbc
    obtain ⟨ha1, ha2⟩ := Ordering.then_eq_eq.mp hab
    rcases Ordering.then_eq_lt.mp hbc with hb | ⟨hb1, hb2⟩
    · exact Ordering.then_eq_lt.mpr (.inl (h1.el ha1 hb))
    · exact Ordering.then_eq_lt.mpr (.inr ⟨h1.ee ha1 hb1, (h2 ha1 hb1).el ha2 hb2⟩)
  · intro hab hbc
    obtain ⟨ha1, ha2⟩ := Ordering.then_eq_eq.mp hab
    obtain ⟨hb1, hb2⟩ := Ordering.then_eq_eq.mp hbc
    exact Ordering.then_eq_eq.mpr ⟨h1.ee ha1 hb1, (h2 ha1 hb1).ee ha2 hb2⟩

theorem then_tr {a1 b1 c1 a2 b2 c2 : Ordering} (h1 : Tr3 a1 b1 c1) (h2 : Tr3 a2 b2 c2) :
    Tr3 (a1.then a2) (b1.then b2) (c1.then c2) := then_tr' h1 (fun _ _ => h2)

theorem tr_nat (a b c : Nat) : Tr3 (compare a b) (compare b c) (compare a c) := by
  constructor <;> simp only [Nat.compare_eq_lt, Nat.compare_eq_eq] <;> omega

theorem tr_int (a b c : Int) : Tr3 (compare a b) (compare b c) (compare a c) := by
  constructor <;> simp only [Int.compare_eq_lt, Int.compare_eq_eq] <;> omega

theorem tr_eq : Tr3 .eq .eq .eq := by constructor <;> simp

theorem tr_lex : ∀ (a b c : List Nat), Tr3 (lexCmp a b) (lexCmp b c) (lexCmp a c)
  | [], [], [] => tr_eq
  | [], [], _ :: _ => by constructor <;> simp [lexCmp]
  | [], _ :: _, [] => by constructor <;> simp [lexCmp]
  | [], _ :: _, _ :: _ => by constructor <;> simp [lexCmp]
  | _ :: _, [], [] => by constructor <;> simp [lexCmp]
  | _ :: _, [], _ :: _ => by constructor <;> simp [lexCmp]
  | _ :: _, _ :: _, [] => by constructor <;> simp [lexCmp]
  | x :: xs, y :: ys, z :: zs => by
    simp only [lexCmp, thenO]
    exact then_tr (tr_nat x y z) (tr_lex xs ys zs)

theorem tr_bytes (a b c : Bytes) : Tr3 (bytesCmp a b) (bytesCmp b c) (bytesCmp a c) := tr_lex _ _ _

theorem tr_key (p q r : Int × Int) : Tr3 (cmpKey p q) (cmpKey q r) (cmpKey p r) :=
  then_tr (tr_int _ _ _) (tr_int _ _ _)

theorem tr_pid (p q r : PidF) : Tr3 (pidCmp p q) (pidCmp q r) (pidCmp p r) := by
  unfold pidCmp thenO
  exact then_tr (tr_bytes _ _ _) (then_tr (tr_nat _ _ _) (then_tr (tr_nat _ _ _) (tr_nat _ _ _)))


/-- generic transitivity of `cmpZip` given element-wise transitivity and the seven conditions on what happens when
lists run out (`b..` = both out, `α.` = first out, `β.` = second out) -/
theorem zip_tr {bab bbc bac αa αb βb βc : Ordering}
    (T1 : Tr3 bab bbc bac) (T2 : Tr3 bab αb αa) (T3 : Tr3 αa βc bac) (T4 : ∀ o, Tr3 αa o αa)
    (T5 : Tr3 βb bbc βc) (T6 : ∀ o, Tr3 βb αb o) (T7 : ∀ o, Tr3 o βc βc) :
    ∀ (xs ys zs : List Term),
      (∀ x ∈ xs, ∀ y ∈ ys, ∀ z ∈ zs, Tr3 (cmpN x y) (cmpN y z) (cmpN x z)) →
      Tr3 (cmpZip xs ys bab αa βb) (cmpZip ys zs bbc αb βc) (cmpZip xs zs bac αa βc)
  | [], [], [], _ => by simpa [cmpZip] using T1
  | [], [], _ :: _, _ => by simpa [cmpZip] using T2
  | [], _ :: _, [], _ => by simpa [cmpZip] using T3
  | [], _ :: _, _ :: _, _ => by simpa [cmpZip] using T4 _
  | _ :: _, [], [], _ => by simpa [cmpZip] using T5
  | _ :: _, [], _ :: _, _ => by simpa [cmpZip] using T6 _
  | _ :: _, _ :: _, [], _ => by simpa [cmpZip] using T7 _
  | x :: xs, y :: ys, z :: zs, ih => by
    simp only [cmpZip, thenO]
    exact then_tr (ih x (by simp) y (by simp) z (by simp))
      (zip_tr T1 T2 T3 T4 T5 T6 T7 xs ys zs (fun x hx y hy z hz =>
        ih x (List.mem_cons_of_mem _ hx) y (List.mem_cons_of_mem _ hy) z (List.mem_cons_of_mem _ hz)))

theorem zipLex_tr (xs ys zs : List Term)
    (ih : ∀ x ∈ xs, ∀ y ∈ ys, ∀ z ∈ zs, Tr3 (cmpN x y) (cmpN y z) (cmpN x z)) :
    Tr3 (cmpZip xs ys .eq .lt .gt) (cmpZip ys zs .eq .lt .gt) (cmpZip xs zs .eq .lt .gt) := by
  apply zip_tr _ _ _ _ _ _ _ xs ys zs ih <;> (try intro o) <;> constructor <;> simp

theorem cmpZip_eqlen : ∀ (xs ys : List Term) (b a1 b1 a2 b2 : Ordering), xs.length = ys.length →
    cmpZip xs ys b a1 b1 = cmpZip xs ys b a2 b2
  | [], [], _, _, _, _, _, _ => by simp [cmpZip]
  | [], _ :: _, _, _, _, _, _, h => by simp at h
  | _ :: _, [], _, _, _, _, _, h => by simp at h
  | x :: xs, y :: ys, b, a1, b1, a2, b2, h => by
    simp only [cmpZip]; rw [cmpZip_eqlen xs ys b a1 b1 a2 b2 (by simpa using h)]

theorem keys_tr : ∀ (xs ys zs : List (Term × Term)), xs.length = ys.length → ys.length = zs.length →
    (∀ x ∈ xs, ∀ y ∈ ys, ∀ z ∈ zs, Tr3 (cmpN x.1 y.1) (cmpN y.1 z.1) (cmpN x.1 z.1)) →
    Tr3 (cmpKeys xs ys) (cmpKeys ys zs) (cmpKeys xs zs)
  | [], [], [], _, _, _ => by simpa [cmpKeys] using tr_eq
  | [], _ :: _, _, h, _, _ => by simp at h
  | _ :: _, [], _, h, _, _ => by simp at h
  | _, [], _ :: _, _, h, _ => by simp at h
  | _, _ :: _, [], _, h, _ => by simp at h
  | (k, v) :: xs, (k2, v2) :: ys, (k3, v3) :: zs, h1, h2, ih => by
    simp only [cmpKeys, thenO]
    exact then_tr (ih (k, v) (by simp) (k2, v2) (by simp) (k3, v3) (by simp))
      (keys_tr xs ys zs (by simpa using h1) (by simpa using h2) (fun x hx y hy z hz =>
        ih x (List.mem_cons_of_mem _ hx) y (List.mem_cons_of_mem _ hy) z (List.mem_cons_of_mem _ hz)))

theorem vals_tr : ∀ (xs ys zs : List (Term × Term)), xs.length = ys.length → ys.length = zs.length →
    (∀ x ∈ xs, ∀ y ∈ ys, ∀ z ∈ zs, Tr3 (cmpN x.2 y.2) (cmpN y.2 z.2) (cmpN x.2 z.2)) →
    Tr3 (cmpVals xs ys) (cmpVals ys zs) (cmpVals xs zs)
  | [], [], [], _, _, _ => by simpa [cmpVals] using tr_eq
  | [], _ :: _, _, h, _, _ => by simp at h
  | _ :: _, [], _, h, _, _ => by simp at h
  | _, [], _ :: _, _, h, _ => by simp at h
  | _, _ :: _, [], _, h, _ => by simp at h
  | (k, v) :: xs, (k2, v2) :: ys, (k3, v3) :: zs, h1, h2, ih => by
    simp only [cmpVals, thenO]
    exact then_tr (ih (k, v) (by simp) (k2, v2) (by simp) (k3, v3) (by simp))
      (vals_tr xs ys zs (by simpa using h1) (by simpa using h2) (fun x hx y hy z hz =>
        ih x (List.mem_cons_of_mem _ hx) y (List.mem_cons_of_mem _ hy) z (List.mem_cons_of_mem _ hz)))


mutual
/-- the guard of the order laws: every big integer carries minimal digits (no high-order zero digit) -/
def WFo : Term → Bool
  | .big _ d => minDigits d
  | .list l => WFoL l
  | .ilist l t => WFoL l && WFo t
  | .map kvs => WFoKV kvs
  | .tuple l => WFoL l
  | .ifun _ _ _ _ _ _ _ _ fr => WFoL fr
  | _ => true
def WFoL : List Term → Bool
  | [] => true
  | t :: ts => WFo t && WFoL ts
def WFoKV : List (Term × Term) → Bool
  | [] => true
  | (k, v) :: r => WFo k && WFo v && WFoKV r
end

mutual
/-- normal forms (the image of `norm`) satisfying `WFo`: no empty `.list`, `.ilist` has elements and a tail that is
not a list -/
def NF : Term → Bool
  | .big _ d => minDigits d
  | .list l => !l.isEmpty && NFL l
  | .ilist l t => !l.isEmpty && NFL l && NF t && !isListLike t
  | .map kvs => NFKV kvs
  | .tuple l => NFL l
  | .ifun _ _ _ _ _ _ _ _ fr => NFL fr
  | _ => true
def NFL : List Term → Bool
  | [] => true
  | t :: ts => NF t && NFL ts
def NFKV : List (Term × Term) → Bool
  | [] => true
  | (k, v) :: r => NF k && NF v && NFKV r
end

theorem NFL_append : ∀ (a b : List Term), NFL (a ++ b) = (NFL a && NFL b)
  | [], b => by simp [NFL]
  | x :: a, b => by simp [NFL, NFL_append a b, Bool.and_assoc]

theorem NFL_mem : ∀ {l : List Term} {x : Term}, NFL l → x ∈ l → NF x
  | y :: l, x, h, hx => by
    simp only [NFL, Bool.and_eq_true] at h
    rcases List.mem_cons.mp hx with rfl | hx
    · exact h.1
    · exact NFL_mem h.2 hx

theorem NFKV_mem : ∀ {l : List (Term × Term)} {x : Term × Term}, NFKV l → x ∈ l → NF x.1 ∧ NF x.2
  | (k, v) :: l, x, h, hx => by
    simp only [NFKV, Bool.and_eq_true] at h
    rcases List.mem_cons.mp hx with rfl | hx
    · exact ⟨h.1.1, h.1.2⟩
    · exact NFKV_mem h.2 hx

theorem normL_nil_iff : ∀ (l : List Term), normL l = [] ↔ l = []
  | [] => by simp [normL]
  | _ :: _ => by simp [normL]

mutual
theorem NF_norm : ∀ (t : Term), WFo t → NF (norm t)
  | .atom _, _ | .int _, _ | .float _, _ | .pid _, _ | .port _ _ _ _, _ | .ref _ _ _ _, _ | .bin _, _
  | .bits _ _, _ | .str _, _ | .xfun _ _ _, _ | .nil, _ => by simp [norm, NF]
  | .big _ d, h => by simpa [norm, NF, WFo] using h
  | .tuple l, h => by simpa [norm, NF] using NFL_normL l (by simpa [WFo] using h)
  | .map kvs, h => by simpa [norm, NF] using NFKV_normKV kvs (by simpa [WFo] using h)
  | .ifun _ _ _ _ _ _ _ _ fr, h => by simpa [norm, NF] using NFL_normL fr (by simpa [WFo] using h)
  | .list l, h => by
    have := NFL_normL l (by simpa [WFo] using h)
    simp only [norm]
    split
    · simp [NF]
    · rename_i h'; simp [NF, this]; intro h0; exact h' h0
  | .ilist l t, h => by
    simp only [WFo, Bool.and_eq_true] at h
    have h1 := NFL_normL l h.1
    have h2 := NF_norm t h.2
    simp only [norm]
    split
    · exact h2
    · rename_i heq hne; simp [NF, h1]; exact hne
    · rename_i l2 heq hne
      rw [heq] at h2
      simp only [NF, Bool.and_eq_true] at h2
      simp [NF, NFL_append, h1, h2.2]
      intro h0; exact absurd h0 hne
    · rename_i l2 t2 heq hne
      rw [heq] at h2
      simp only [NF, Bool.and_eq_true] at h2
      simp [NF, NFL_append, h1, h2.1.1.2, h2.1.2, h2.2]
      intro h0; exact absurd h0 hne
    · rename_i hne h3 h4 h5
      simp [NF, h1, h2]
      refine ⟨hne, ?_⟩
      cases ht : norm t <;> simp [isListLike]
      · exact h4 _ ht
      · exact h5 _ _ ht
      · exact h3 ht
theorem NFL_normL : ∀ (l : List Term), WFoL l → NFL (normL l)
  | [], _ => by simp [normL, NFL]
  | t :: ts, h => by
    simp only [WFoL, Bool.and_eq_true] at h
    simp [normL, NFL, NF_norm t h.1, NFL_normL ts h.2]
theorem NFKV_normKV : ∀ (l : List (Term × Term)), WFoKV l → NFKV (normKV l)
  | [], _ => by simp [normKV, NFKV]
  | (k, v) :: r, h => by
    simp only [WFoKV, Bool.and_eq_true] at h
    simp [normKV, NFKV, NF_norm k h.1.1, NF_norm v h.1.2, NFKV_normKV r h.2]
end


theorem cmpN_lt_rank {a b : Term} (h : cmpN a b = .lt) : rank a ≤ rank b := by
  by_cases hr : rank a = rank b
  · omega
  · rw [cmpN_of_rank_ne a b hr, Nat.compare_eq_lt] at h; omega

theorem cmpN_eq_rank {a b : Term} (h : cmpN a b = .eq) : rank a = rank b := by
  by_cases hr : rank a = rank b
  · exact hr
  · rw [cmpN_of_rank_ne a b hr, Nat.compare_eq_eq] at h; exact h

theorem tr_of_rank_ne (a b c : Term) (h : ¬ (rank a = rank b ∧ rank b = rank c)) :
    Tr3 (cmpN a b) (cmpN b c) (cmpN a c) := by
  have lt_of : ∀ {x y : Term}, rank x < rank y → cmpN x y = .lt := fun {x y} hxy => by
    rw [cmpN_of_rank_ne x y (by omega), Nat.compare_eq_lt]; exact hxy
  constructor
  · intro h1 h2
    have := cmpN_lt_rank h1; have := cmpN_lt_rank h2
    exact lt_of (by omega)
  · intro h1 h2
    have := cmpN_lt_rank h1; have := cmpN_eq_rank h2
    exact lt_of (by omega)
  · intro h1 h2
    have := cmpN_eq_rank h1; have := cmpN_lt_rank h2
    exact lt_of (by omega)
  · intro h1 h2
    have := cmpN_eq_rank h1; have := cmpN_eq_rank h2
    omega

theorem isNum_of_rank {a : Term} (h : rank a = 0) : isNum a := by cases a <;> simp [rank] at h <;> rfl
theorem numOk_of_NF {a : Term} (h : NF a) : numOk a := by cases a <;> simp [numOk] ; simpa [NF] using h

theorem tr_r0 (a b c : Term) (ha : rank a = 0) (hb : rank b = 0) (hc : rank c = 0) (na : NF a) (nb : NF b) (nc : NF c) :
    Tr3 (cmpN a b) (cmpN b c) (cmpN a c) := by
  rw [cmpN_num a b (isNum_of_rank ha) (isNum_of_rank hb) (numOk_of_NF na) (numOk_of_NF nb),
    cmpN_num b c (isNum_of_rank hb) (isNum_of_rank hc) (numOk_of_NF nb) (numOk_of_NF nc),
    cmpN_num a c (isNum_of_rank ha) (isNum_of_rank hc) (numOk_of_NF na) (numOk_of_NF nc)]
  exact tr_key _ _ _

theorem rank_eq_1 {a : Term} (h : rank a = 1) : ∃ x, a = .atom x := by cases a <;> simp [rank] at h; exact ⟨_, rfl⟩
theorem rank_eq_2 {a : Term} (h : rank a = 2) : ∃ n c i l, a = .ref n c i l := by
  cases a <;> simp [rank] at h; exact ⟨_, _, _, _, rfl⟩
theorem rank_eq_4 {a : Term} (h : rank a = 4) : ∃ n i c l, a = .port n i c l := by
  cases a <;> simp [rank] at h; exact ⟨_, _, _, _, rfl⟩
theorem rank_eq_5 {a : Term} (h : rank a = 5) : ∃ p, a = .pid p := by cases a <;> simp [rank] at h; exact ⟨_, rfl⟩
theorem rank_eq_6 {a : Term} (h : rank a = 6) : ∃ l, a = .tuple l := by cases a <;> simp [rank] at h; exact ⟨_, rfl⟩
theorem rank_eq_7 {a : Term} (h : rank a = 7) : ∃ l, a = .map l := by cases a <;> simp [rank] at h; exact ⟨_, rfl⟩
theorem rank_eq_3 {a : Term} (h : rank a = 3) :
    (∃ m f ar, a = .xfun m f ar) ∨ (∃ ar u i nf m oi ou p fr, a = .ifun ar u i nf m oi ou p fr) := by
  cases a <;> simp [rank] at h
  · exact .inl ⟨_, _, _, rfl⟩
  · exact .inr ⟨_, _, _, _, _, _, _, _, _, rfl⟩

theorem tr_r1 (a b c : Term) (ha : rank a = 1) (hb : rank b = 1) (hc : rank c = 1) :
    Tr3 (cmpN a b) (cmpN b c) (cmpN a c) := by
  obtain ⟨x, rfl⟩ := rank_eq_1 ha; obtain ⟨y, rfl⟩ := rank_eq_1 hb; obtain ⟨z, rfl⟩ := rank_eq_1 hc
  simp only [cmpN, rank, ne_eq, not_true_eq_false, if_false]
  exact tr_bytes _ _ _

theorem tr_r2 (a b c : Term) (ha : rank a = 2) (hb : rank b = 2) (hc : rank c = 2) :
    Tr3 (cmpN a b) (cmpN b c) (cmpN a c) := by
  obtain ⟨_, _, _, _, rfl⟩ := rank_eq_2 ha; obtain ⟨_, _, _, _, rfl⟩ := rank_eq_2 hb; obtain ⟨_, _, _, _, rfl⟩ := rank_eq_2 hc
  simp only [cmpN, rank, ne_eq, not_true_eq_false, if_false, thenO]
  exact then_tr (tr_bytes _ _ _) (then_tr (tr_nat _ _ _) (tr_lex _ _ _))

theorem tr_r4 (a b c : Term) (ha : rank a = 4) (hb : rank b = 4) (hc : rank c = 4) :
    Tr3 (cmpN a b) (cmpN b c) (cmpN a c) := by
  obtain ⟨_, _, _, _, rfl⟩ := rank_eq_4 ha; obtain ⟨_, _, _, _, rfl⟩ := rank_eq_4 hb; obtain ⟨_, _, _, _, rfl⟩ := rank_eq_4 hc
  simp only [cmpN, rank, ne_eq, not_true_eq_false, if_false, thenO]
  exact then_tr (tr_bytes _ _ _) (then_tr (tr_nat _ _ _) (tr_nat _ _ _))

theorem tr_r5 (a b c : Term) (ha : rank a = 5) (hb : rank b = 5) (hc : rank c = 5) :
    Tr3 (cmpN a b) (cmpN b c) (cmpN a c) := by
  obtain ⟨_, rfl⟩ := rank_eq_5 ha; obtain ⟨_, rfl⟩ := rank_eq_5 hb; obtain ⟨_, rfl⟩ := rank_eq_5 hc
  simp only [cmpN, rank, ne_eq, not_true_eq_false, if_false]
  exact tr_pid _ _ _


/-! ### lists as cons cells -/

/-- elements and final tail (`none` = nil) of a list-like term -/
def cells : Term → List Term × Option Term
  | .list x => (x, none)
  | .ilist x t => (x, some t)
  | _ => ([], none)

def cmpTail : Option Term → Option Term → Ordering
  | none, none => .eq
  | none, some t => compare listRank (rank t)
  | some t, none => compare (rank t) listRank
  | some t, some u => cmpN t u
def aOutOf : Option Term → Ordering
  | none => .lt
  | some t => compare (rank t) listRank
def bOutOf : Option Term → Ordering
  | none => .gt
  | some t => compare listRank (rank t)

theorem rank_eq_8 {a : Term} (h : rank a = 8) : a = .nil ∨ (∃ x, a = .list x) ∨ (∃ x t, a = .ilist x t) := by
  cases a <;> simp [rank] at h
  · exact .inr (.inl ⟨_, rfl⟩)
  · exact .inr (.inr ⟨_, _, rfl⟩)
  · exact .inl rfl

theorem cmpN_cells (a b : Term) (ha : rank a = 8) (hb : rank b = 8) :
    cmpN a b = cmpZip (cells a).1 (cells b).1 (cmpTail (cells a).2 (cells b).2) (aOutOf (cells a).2) (bOutOf (cells b).2) := by
  rcases rank_eq_8 ha with rfl | ⟨x, rfl⟩ | ⟨x, t, rfl⟩ <;> rcases rank_eq_8 hb with rfl | ⟨y, rfl⟩ | ⟨y, u, rfl⟩ <;>
    simp only [cmpN, rank, ne_eq, not_true_eq_false, if_false, cells, cmpTail, aOutOf, bOutOf, cmpZip]
  · cases y <;> simp [cmpZip]
  · cases y <;> simp [cmpZip]
  · cases x <;> simp [cmpZip]
  · cases x <;> simp [cmpZip]

/-- a tail is not itself a list -/
def tailOk : Option Term → Prop
  | none => True
  | some t => rank t ≠ 8

def tcode : Option Term → Nat
  | none => 16
  | some t => 2 * rank t

theorem tcode_ne (t : Option Term) : tcode t ≠ 17 := by cases t <;> simp [tcode] <;> omega

theorem aOutOf_eq (t : Option Term) (h : tailOk t) : aOutOf t = compare (tcode t) 17 := by
  cases t with
  | none => rfl
  | some t =>
    simp only [aOutOf, tcode, listRank, tailOk] at h ⊢
    rcases Nat.lt_trichotomy (rank t) 8 with h1 | h1 | h1
    · rw [Nat.compare_eq_lt.mpr h1, Nat.compare_eq_lt.mpr (by omega)]
    · exact absurd h1 h
    · rw [Nat.compare_eq_gt.mpr h1, Nat.compare_eq_gt.mpr (by omega)]

theorem bOutOf_eq (t : Option Term) (h : tailOk t) : bOutOf t = compare 17 (tcode t) := by
  cases t with
  | none => rfl
  | some t =>
    simp only [bOutOf, tcode, listRank, tailOk] at h ⊢
    rcases Nat.lt_trichotomy (rank t) 8 with h1 | h1 | h1
    · rw [Nat.compare_eq_gt.mpr h1, Nat.compare_eq_gt.mpr (by omega)]
    · exact absurd h1 h
    · rw [Nat.compare_eq_lt.mpr h1, Nat.compare_eq_lt.mpr (by omega)]

theorem cmpTail_facts (t u : Option Term) (ht : tailOk t) (hu : tailOk u) :
    (cmpTail t u = .lt → tcode t ≤ tcode u) ∧ (cmpTail t u = .eq → tcode t = tcode u) ∧
      (tcode t < tcode u → cmpTail t u = .lt) := by
  cases t with
  | none =>
    cases u with
    | none => simp [cmpTail, tcode]
    | some u =>
      simp only [tailOk] at hu
      simp only [cmpTail, tcode, listRank, Nat.compare_eq_lt, Nat.compare_eq_eq]
      refine ⟨?_, ?_, ?_⟩ <;> omega
  | some t =>
    cases u with
    | none =>
      simp only [tailOk] at ht
      simp only [cmpTail, tcode, listRank, Nat.compare_eq_lt, Nat.compare_eq_eq]
      refine ⟨?_, ?_, ?_⟩ <;> omega
    | some u =>
      simp only [cmpTail, tcode]
      refine ⟨fun h => ?_, fun h => ?_, fun h => ?_⟩
      · have := cmpN_lt_rank h; omega
      · have := cmpN_eq_rank h; omega
      · rw [cmpN_of_rank_ne t u (by omega), Nat.compare_eq_lt]; omega

theorem tail_T1 (tx ty tz : Option Term) (hx : tailOk tx) (hy : tailOk ty) (hz : tailOk tz)
    (h3 : ∀ t u w, tx = some t → ty = some u → tz = some w → Tr3 (cmpN t u) (cmpN u w) (cmpN t w)) :
    Tr3 (cmpTail tx ty) (cmpTail ty tz) (cmpTail tx tz) := by
  obtain ⟨a1, a2, a3⟩ := cmpTail_facts tx ty hx hy
  obtain ⟨b1, b2, b3⟩ := cmpTail_facts ty tz hy hz
  obtain ⟨c1, c2, c3⟩ := cmpTail_facts tx tz hx hz
  by_cases hc : tcode tx = tcode ty ∧ tcode ty = tcode tz
  · cases tx with
    | none =>
      cases ty with
      | none =>
        cases tz with
        | none => exact tr_eq
        | some w => simp only [tailOk, tcode] at hz hc; omega
      | some u => simp only [tailOk, tcode] at hy hc; omega
    | some t =>
      cases ty with
      | none => simp only [tailOk, tcode] at hx hc; omega
      | some u =>
        cases tz with
        | none => simp only [tailOk, tcode] at hy hc; omega
        | some w => exact h3 t u w rfl rfl rfl
  · constructor
    · intro h1 h2; have := a1 h1; have := b1 h2; exact c3 (by omega)
    · intro h1 h2; have := a1 h1; have := b2 h2; exact c3 (by omega)
    · intro h1 h2; have := a2 h1; have := b1 h2; exact c3 (by omega)
    · intro h1 h2; have := a2 h1; have := b2 h2; omega

theorem tail_T2 (tx ty : Option Term) (hx : tailOk tx) (hy : tailOk ty) :
    Tr3 (cmpTail tx ty) (aOutOf ty) (aOutOf tx) := by
  obtain ⟨a1, a2, _⟩ := cmpTail_facts tx ty hx hy
  have := tcode_ne tx; have := tcode_ne ty
  rw [aOutOf_eq _ hx, aOutOf_eq _ hy]
  constructor <;> intro h1 h2 <;> simp only [Nat.compare_eq_lt, Nat.compare_eq_eq] at h2 ⊢
  · have := a1 h1; omega
  · omega
  · have := a2 h1; omega
  · omega

theorem tail_T3 (tx tz : Option Term) (hx : tailOk tx) (hz : tailOk tz) :
    Tr3 (aOutOf tx) (bOutOf tz) (cmpTail tx tz) := by
  obtain ⟨_, _, c3⟩ := cmpTail_facts tx tz hx hz
  have := tcode_ne tx; have := tcode_ne tz
  rw [aOutOf_eq _ hx, bOutOf_eq _ hz]
  constructor <;> intro h1 h2 <;> simp only [Nat.compare_eq_lt, Nat.compare_eq_eq] at h1 h2
  · exact c3 (by omega)
  · omega
  · omega
  · omega

theorem tail_T4 (tx : Option Term) (hx : tailOk tx) (o : Ordering) : Tr3 (aOutOf tx) o (aOutOf tx) := by
  have := tcode_ne tx
  rw [aOutOf_eq _ hx]
  constructor <;> intro h1 h2 <;> simp only [Nat.compare_eq_lt, Nat.compare_eq_eq] at h1 ⊢ <;> omega

theorem tail_T5 (ty tz : Option Term) (hy : tailOk ty) (hz : tailOk tz) :
    Tr3 (bOutOf ty) (cmpTail ty tz) (bOutOf tz) := by
  obtain ⟨b1, b2, _⟩ := cmpTail_facts ty tz hy hz
  have := tcode_ne ty; have := tcode_ne tz
  rw [bOutOf_eq _ hy, bOutOf_eq _ hz]
  constructor <;> intro h1 h2 <;> simp only [Nat.compare_eq_lt, Nat.compare_eq_eq] at h1 ⊢
  · have := b1 h2; omega
  · have := b2 h2; omega
  · omega
  · omega

theorem tail_T6 (ty : Option Term) (hy : tailOk ty) (o : Ordering) : Tr3 (bOutOf ty) (aOutOf ty) o := by
  have := tcode_ne ty
  rw [aOutOf_eq _ hy, bOutOf_eq _ hy]
  constructor <;> intro h1 h2 <;> simp only [Nat.compare_eq_lt, Nat.compare_eq_eq] at h1 h2 <;> omega

theorem tail_T7 (tz : Option Term) (hz : tailOk tz) (o : Ordering) : Tr3 o (bOutOf tz) (bOutOf tz) := by
  have := tcode_ne tz
  rw [bOutOf_eq _ hz]
  constructor <;> intro h1 h2 <;> simp only [Nat.compare_eq_lt, Nat.compare_eq_eq] at h2 ⊢ <;> omega


/-- transitivity at a first term `x`, against all normal second and third terms -/
def TrAt (x : Term) : Prop := ∀ y z, NF x → NF y → NF z → Tr3 (cmpN x y) (cmpN y z) (cmpN x z)

theorem elems_ih {xs ys zs : List Term} (ih : ∀ x ∈ xs, TrAt x) (hx : NFL xs) (hy : NFL ys) (hz : NFL zs) :
    ∀ x ∈ xs, ∀ y ∈ ys, ∀ z ∈ zs, Tr3 (cmpN x y) (cmpN y z) (cmpN x z) :=
  fun x mx y my z mz => ih x mx y z (NFL_mem hx mx) (NFL_mem hy my) (NFL_mem hz mz)

theorem tr_r3 (a b c : Term) (ha : rank a = 3) (hb : rank b = 3) (hc : rank c = 3) (na : NF a) (nb : NF b) (nc : NF c)
    (ih : ∀ x, sizeOf x < sizeOf a → TrAt x) : Tr3 (cmpN a b) (cmpN b c) (cmpN a c) := by
  rcases rank_eq_3 ha with ⟨_, _, _, rfl⟩ | ⟨_, _, _, _, _, _, _, _, fr, rfl⟩ <;>
  rcases rank_eq_3 hb with ⟨_, _, _, rfl⟩ | ⟨_, _, _, _, _, _, _, _, fr2, rfl⟩ <;>
  rcases rank_eq_3 hc with ⟨_, _, _, rfl⟩ | ⟨_, _, _, _, _, _, _, _, fr3, rfl⟩ <;>
    simp only [cmpN, rank, ne_eq, not_true_eq_false, if_false, thenO]
  · exact then_tr (tr_bytes _ _ _) (then_tr (tr_bytes _ _ _) (tr_nat _ _ _))
  · constructor <;> simp
  · constructor <;> simp
  · constructor <;> simp
  · constructor <;> simp
  · constructor <;> simp
  · constructor <;> simp
  · simp only [NF] at na nb nc
    refine then_tr (tr_bytes _ _ _) (then_tr (tr_nat _ _ _) (then_tr (tr_nat _ _ _) (then_tr (tr_nat _ _ _)
      (then_tr (tr_bytes _ _ _) (then_tr (tr_pid _ _ _) (zipLex_tr _ _ _ (elems_ih (fun x mx => ih x ?_) na nb nc)))))))
    have := List.sizeOf_lt_of_mem mx
    simp only [Term.ifun.sizeOf_spec]; omega

theorem tr_r6 (a b c : Term) (ha : rank a = 6) (hb : rank b = 6) (hc : rank c = 6) (na : NF a) (nb : NF b) (nc : NF c)
    (ih : ∀ x, sizeOf x < sizeOf a → TrAt x) : Tr3 (cmpN a b) (cmpN b c) (cmpN a c) := by
  obtain ⟨x, rfl⟩ := rank_eq_6 ha; obtain ⟨y, rfl⟩ := rank_eq_6 hb; obtain ⟨z, rfl⟩ := rank_eq_6 hc
  simp only [cmpN, rank, ne_eq, not_true_eq_false, if_false, thenO]
  simp only [NF] at na nb nc
  refine then_tr' (tr_nat _ _ _) (fun h1 h2 => ?_)
  have l1 := Nat.compare_eq_eq.mp h1
  have l2 := Nat.compare_eq_eq.mp h2
  rw [cmpZip_eqlen x y .eq .eq .eq .lt .gt l1, cmpZip_eqlen y z .eq .eq .eq .lt .gt l2,
    cmpZip_eqlen x z .eq .eq .eq .lt .gt (l1.trans l2)]
  refine zipLex_tr _ _ _ (elems_ih (fun x mx => ih x ?_) na nb nc)
  have := List.sizeOf_lt_of_mem mx
  simp only [Term.tuple.sizeOf_spec]; omega

theorem tr_r7 (a b c : Term) (ha : rank a = 7) (hb : rank b = 7) (hc : rank c = 7) (na : NF a) (nb : NF b) (nc : NF c)
    (ih : ∀ x, sizeOf x < sizeOf a → TrAt x) : Tr3 (cmpN a b) (cmpN b c) (cmpN a c) := by
  obtain ⟨x, rfl⟩ := rank_eq_7 ha; obtain ⟨y, rfl⟩ := rank_eq_7 hb; obtain ⟨z, rfl⟩ := rank_eq_7 hc
  simp only [cmpN, rank, ne_eq, not_true_eq_false, if_false, thenO]
  simp only [NF] at na nb nc
  refine then_tr' (tr_nat _ _ _) (fun h1 h2 => ?_)
  have l1 := Nat.compare_eq_eq.mp h1
  have l2 := Nat.compare_eq_eq.mp h2
  have sz : ∀ p ∈ x, sizeOf p.1 < sizeOf (Term.map x) ∧ sizeOf p.2 < sizeOf (Term.map x) := by
    intro p mp
    have := List.sizeOf_lt_of_mem mp
    obtain ⟨k, v⟩ := p
    simp only [Term.map.sizeOf_spec, Prod.mk.sizeOf_spec] at this ⊢; omega
  refine then_tr (keys_tr x y z l1 l2 ?_) (vals_tr x y z l1 l2 ?_)
  · intro p mp q mq r mr
    exact ih p.1 (sz p mp).1 q.1 r.1 (NFKV_mem na mp).1 (NFKV_mem nb mq).1 (NFKV_mem nc mr).1
  · intro p mp q mq r mr
    exact ih p.2 (sz p mp).2 q.2 r.2 (NFKV_mem na mp).2 (NFKV_mem nb mq).2 (NFKV_mem nc mr).2

/-- normal list-like terms: elements normal, tail not a list -/
theorem cells_NF {a : Term} (ha : rank a = 8) (na : NF a) :
    NFL (cells a).1 ∧ tailOk (cells a).2 ∧ (∀ t, (cells a).2 = some t → NF t) := by
  rcases rank_eq_8 ha with rfl | ⟨x, rfl⟩ | ⟨x, t, rfl⟩
  · simp [cells, NFL, tailOk]
  · simp only [NF, Bool.and_eq_true] at na; simp [cells, tailOk, na.2]
  · simp only [NF, Bool.and_eq_true] at na
    refine ⟨na.1.1.2, ?_, ?_⟩
    · simp only [cells, tailOk]
      intro h8
      have : isListLike t = true := by
        rcases rank_eq_8 h8 with rfl | ⟨_, rfl⟩ | ⟨_, _, rfl⟩ <;> rfl
      simp [this] at na
    · intro t' ht; simp only [cells, Option.some.injEq] at ht; subst ht; exact na.1.2

theorem cells_size {a : Term} (ha : rank a = 8) :
    (∀ x ∈ (cells a).1, sizeOf x < sizeOf a) ∧ (∀ t, (cells a).2 = some t → sizeOf t < sizeOf a) := by
  rcases rank_eq_8 ha with rfl | ⟨x, rfl⟩ | ⟨x, t, rfl⟩
  · simp [cells]
  · refine ⟨fun e me => ?_, by simp [cells]⟩
    have := List.sizeOf_lt_of_mem (show e ∈ x from me)
    simp only [Term.list.sizeOf_spec]; omega
  · refine ⟨fun e me => ?_, fun t' ht => ?_⟩
    · have := List.sizeOf_lt_of_mem (show e ∈ x from me)
      simp only [Term.ilist.sizeOf_spec]; omega
    · simp only [cells, Option.some.injEq] at ht; subst ht
      simp only [Term.ilist.sizeOf_spec]; omega

theorem tr_r8 (a b c : Term) (ha : rank a = 8) (hb : rank b = 8) (hc : rank c = 8) (na : NF a) (nb : NF b) (nc : NF c)
    (ih : ∀ x, sizeOf x < sizeOf a → TrAt x) : Tr3 (cmpN a b) (cmpN b c) (cmpN a c) := by
  rw [cmpN_cells a b ha hb, cmpN_cells b c hb hc, cmpN_cells a c ha hc]
  obtain ⟨ea, oa, ta⟩ := cells_NF ha na
  obtain ⟨eb, ob, tb⟩ := cells_NF hb nb
  obtain ⟨ec, oc, tc⟩ := cells_NF hc nc
  obtain ⟨s1, s2⟩ := cells_size ha
  refine zip_tr (tail_T1 _ _ _ oa ob oc ?_) (tail_T2 _ _ oa ob) (tail_T3 _ _ oa oc) (tail_T4 _ oa)
    (tail_T5 _ _ ob oc) (tail_T6 _ ob) (tail_T7 _ oc) _ _ _ (elems_ih (fun x mx => ih x (s1 x mx)) ea eb ec)
  intro t u w h1 h2 h3
  exact ih t (s2 t h1) u w (ta t h1) (tb u h2) (tc w h3)

/-- bytes and used bits of the last byte -/
def bp (a : Term) : Bytes × Nat := (bitParts a).getD ([], 0)

theorem rank_eq_9 {a : Term} (h : rank a = 9) : (∃ x, a = .bin x) ∨ (∃ x n, a = .bits x n) ∨ (∃ x, a = .str x) := by
  cases a <;> simp [rank] at h
  · exact .inl ⟨_, rfl⟩
  · exact .inr (.inl ⟨_, _, rfl⟩)
  · exact .inr (.inr ⟨_, rfl⟩)

theorem cmpN_bits (a b : Term) (ha : rank a = 9) (hb : rank b = 9) :
    cmpN a b = thenO (bytesCmp (bp a).1 (bp b).1) (compare (bp a).2 (bp b).2) := by
  rcases rank_eq_9 ha with ⟨x, rfl⟩ | ⟨x, n, rfl⟩ | ⟨x, rfl⟩ <;> rcases rank_eq_9 hb with ⟨y, rfl⟩ | ⟨y, m, rfl⟩ | ⟨y, rfl⟩ <;>
    simp [cmpN, bp, bitParts]

theorem tr_r9 (a b c : Term) (ha : rank a = 9) (hb : rank b = 9) (hc : rank c = 9) :
    Tr3 (cmpN a b) (cmpN b c) (cmpN a c) := by
  rw [cmpN_bits a b ha hb, cmpN_bits b c hb hc, cmpN_bits a c ha hc]
  exact then_tr (tr_bytes _ _ _) (tr_nat _ _ _)

theorem rank_le_9 (a : Term) : rank a ≤ 9 := by cases a <;> simp [rank]

theorem cmpN_step (a : Term) (ih : ∀ x, sizeOf x < sizeOf a → TrAt x) : TrAt a := by
  intro b c na nb nc
  by_cases hr : rank a = rank b ∧ rank b = rank c
  · obtain ⟨h1, h2⟩ := hr
    have hb : rank b = rank a := h1.symm
    have hc : rank c = rank a := by omega
    have := rank_le_9 a
    rcases Nat.lt_or_ge (rank a) 1 with h | h
    · exact tr_r0 a b c (by omega) (by omega) (by omega) na nb nc
    rcases Nat.lt_or_ge (rank a) 2 with h | h
    · exact tr_r1 a b c (by omega) (by omega) (by omega)
    rcases Nat.lt_or_ge (rank a) 3 with h | h
    · exact tr_r2 a b c (by omega) (by omega) (by omega)
    rcases Nat.lt_or_ge (rank a) 4 with h | h
    · exact tr_r3 a b c (by omega) (by omega) (by omega) na nb nc ih
    rcases Nat.lt_or_ge (rank a) 5 with h | h
    · exact tr_r4 a b c (by omega) (by omega) (by omega)
    rcases Nat.lt_or_ge (rank a) 6 with h | h
    · exact tr_r5 a b c (by omega) (by omega) (by omega)
    rcases Nat.lt_or_ge (rank a) 7 with h | h
    · exact tr_r6 a b c (by omega) (by omega) (by omega) na nb nc ih
    rcases Nat.lt_or_ge (rank a) 8 with h | h
    · exact tr_r7 a b c (by omega) (by omega) (by omega) na nb nc ih
    rcases Nat.lt_or_ge (rank a) 9 with h | h
    · exact tr_r8 a b c (by omega) (by omega) (by omega) na nb nc ih
    · exact tr_r9 a b c (by omega) (by omega) (by omega)
  · exact tr_of_rank_ne a b c hr

theorem cmpN_tr (a : Term) : TrAt a := cmpN_step a (fun x _ => cmpN_tr x)
termination_by sizeOf a

namespace Term

/-- the four transitivity clauses for `Ord::cmp` on terms whose big integers have minimal digits -/
theorem cmp_tr (a b c : Term) (ha : WFo a) (hb : WFo b) (hc : WFo c) : Tr3 (cmp a b) (cmp b c) (cmp a c) :=
  cmpN_tr (norm a) (norm b) (norm c) (NF_norm a ha) (NF_norm b hb) (NF_norm c hc)

theorem cmp_trans_lt_lt {a b c : Term} (ha : WFo a) (hb : WFo b) (hc : WFo c) :
    cmp a b = .lt → cmp b c = .lt → cmp a c = .lt := (cmp_tr a b c ha hb hc).ll
theorem cmp_trans_lt_eq {a b c : Term} (ha : WFo a) (hb : WFo b) (hc : WFo c) :
    cmp a b = .lt → cmp b c = .eq → cmp a c = .lt := (cmp_tr a b c ha hb hc).le
theorem cmp_trans_eq_lt {a b c : Term} (ha : WFo a) (hb : WFo b) (hc : WFo c) :
    cmp a b = .eq → cmp b c = .lt → cmp a c = .lt := (cmp_tr a b c ha hb hc).el
theorem cmp_trans_eq_eq {a b c : Term} (ha : WFo a) (hb : WFo b) (hc : WFo c) :
    cmp a b = .eq → cmp b c = .eq → cmp a c = .eq := (cmp_tr a b c ha hb hc).ee

theorem cmp_trans_le {a b c : Term} (ha : WFo a) (hb : WFo b) (hc : WFo c)
    (h1 : cmp a b ≠ .gt) (h2 : cmp b c ≠ .gt) : cmp a c ≠ .gt := by
  have t := cmp_tr a b c ha hb hc
  cases h : cmp a b with
  | gt => exact absurd h h1
  | lt =>
    cases h' : cmp b c with
    | gt => exact absurd h' h2
    | lt => rw [t.ll h h']; simp
    | eq => rw [t.le h h']; simp
  | eq =>
    cases h' : cmp b c with
    | gt => exact absurd h' h2
    | lt => rw [t.el h h']; simp
    | eq => rw [t.ee h h']; simp

theorem cmp_refl (a : Term) : cmp a a = .eq := by
  have h := cmp_swap a a
  cases h' : cmp a a <;> rw [h'] at h <;> simp at h ⊢

end Term
end Edp
