#!/usr/bin/env python3
"""Keeps a confirmed seeded change: copies patch.diff, demo_test.rs, README.md from /tmp/mut/<name>-out into
seeded/<id>/ and writes meta.json.
usage: tools/keep_seed.py <name> <id> <property> <crate> <change> <needs> <confirmed-line> <detection> [cfg]"""
import json, os, shutil, sys
name, sid, prop, crate, change, needs, confirmed, detection = sys.argv[1:9]
cfg = len(sys.argv) > 9 and sys.argv[9] == "cfg"
src = f"/tmp/mut/{name}-out"
dst = os.path.join(os.path.dirname(os.path.dirname(os.path.abspath(__file__))), "seeded", sid)
os.makedirs(dst, exist_ok=True)
for f in ("patch.diff", "demo_test.rs", "README.md"):
    shutil.copy(os.path.join(src, f), os.path.join(dst, f))
meta = {
    "id": sid, "property": prop, "crate": crate, "change": change, "needs_to_manifest": needs,
    "author": "independent sub-agent given only the property text and a scratch worktree",
    "confirmed": {"how": "tools/confirm_seed.py" + (" --cfg (the demonstration alone is built with --cfg edp_rs_verif for the EPMD port override)" if cfg else "")
                  + ": fresh scratch worktree; cargo test -p " + crate + " --offline before/after; demo without and with the change",
                  "result": confirmed},
    "ran": "git -C /repo apply patch.diff; python3 check.py " + prop + " quick; git -C /repo checkout -- .",
    "detection": detection,
}
json.dump(meta, open(os.path.join(dst, "meta.json"), "w"), indent=1)
print(dst)
