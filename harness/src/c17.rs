//! C17: each remote call gets its own reply; nothing is left behind afterwards.
//!
//! A real `Node` (registered with `FakeEpmd`, connected to the scripted peer of `peer.rs`) runs k concurrent
//! `rpc_call_raw_with_timeout` calls on a current-thread runtime. The peer reads every REG_SEND to `rex`, takes the
//! reply pid out of `{Pid, {call, c17, f<i>, [], user}}` and answers per a seeded script: in any order, twice, late
//! (only after the harness saw the call return — causal, not timed), to a pid nobody has, never, around the timeout,
//! or it closes the socket. The yield hook (H3) records the step trace with `Node::pending_rpc_count()` (H4) sampled at
//! every point and makes the tasks yield a seeded number of times there; it can also cancel a call (drop its future)
//! at a chosen point.
//!
//!   T c17trace …  the trace is replayed through the Lean model (`Impl/Rpc.lean`): every observed step must be enabled,
//!                 the table size must agree at every point, the model must end with the same outcomes
//!   P c17spec …   the outcomes are judged against the script by the independent Spec (`Spec/Rpc.lean`)
//!
//! Timing never decides a verdict: calls that must get their reply have a long timeout (they return as soon as the
//! reply is there), calls that must time out are never answered before they returned, and for the calls answered
//! around their timeout both results are admissible.
use crate::peer::*;
use crate::rng::Rng;
use crate::Ctx;
use edp_node::{Message, Node, Process};
use erltf::{Atom, ExternalPid, OwnedTerm};
use std::cell::Cell;
use std::future::Future;
use std::pin::Pin;
use std::sync::{Arc, Mutex};
use std::task::{Context, Poll};
use std::time::{Duration, Instant};

thread_local! {
    /// index of the call whose future is being polled on this thread (-1: some other task)
    static CUR: Cell<i64> = const { Cell::new(-1) };
}

pub const POINTS: [&str; 5] = ["rpc:before_insert", "rpc:after_insert", "rpc:before_lock", "rpc:after_send", "rpc:timed_out"];
const SHORT: [&str; 5] = ["bi", "ai", "bl", "as", "to"];

#[derive(Clone, Copy, Debug, PartialEq)]
pub enum Kind {
    /// answered once
    Reply,
    /// answered twice in a row (bodies differ in the last digit)
    Dup,
    /// answered, and once more after the call returned
    DupLate,
    /// never answered
    Never,
    /// answered only after the call returned
    Late,
    /// the answer goes to a pid nobody has: 0 id+100000, 1 serial+1, 2 creation+1
    Unknown(u8),
    /// answered about when the timer fires
    Race,
    /// the call names a node there is no connection to
    NoConn,
    /// second wave: the harness closed the `Connection` object, so the write fails
    SendErr,
    /// second wave: the peer closed the socket and the receiver task removed the connection
    AfterClose,
    /// the call future is dropped at yield point n (0..4); the peer answers it (if it saw it) after that
    DropAt(u8),
    /// the call future is dropped while it waits for the reply
    DropAwait,
    /// the peer closes the socket while this call sits between `connections.get` and the write
    Closing,
    /// the answer carries the call's numbers under a foreign node name (documented behaviour, no verdict on delivery)
    ForeignNode,
    /// answered once with the trace-token form of SEND (`{12, Unused, ToPid, TraceToken}`)
    Traced,
    /// answered once with something that is not `{rex, Result}` (tag 10i+7): 0 the bare integer, 1 `{rexx, t}`,
    /// 2 `{rex, t, t}`, 3 `{t, rex}`, 4 `[rex, t]`
    Shape(u8),
    /// "answered" with a SEND that `route_message` ignores: 0 the target is an atom, 1 no payload
    Ignored(u8),
    /// answered once, but only after call `j` is over (causal, not timed): the reply meets whatever call `j`'s exit did
    /// to the table
    After(u8),
}

impl Kind {
    pub fn code(&self) -> String {
        match self {
            Kind::Reply => "R".into(),
            Kind::Dup => "D".into(),
            Kind::DupLate => "E".into(),
            Kind::Never => "N".into(),
            Kind::Late => "L".into(),
            Kind::Unknown(v) => format!("U{}", v),
            Kind::Race => "X".into(),
            Kind::NoConn => "C".into(),
            Kind::SendErr => "S".into(),
            Kind::AfterClose => "A".into(),
            Kind::DropAt(p) => format!("P{}", p),
            Kind::DropAwait => "W".into(),
            Kind::Closing => "K".into(),
            Kind::ForeignNode => "F".into(),
            Kind::Traced => "T".into(),
            Kind::Shape(v) => format!("M{}", v),
            Kind::Ignored(v) => format!("Z{}", v),
            Kind::After(j) => format!("G{}", j),
        }
    }
    fn second_wave(&self) -> bool {
        matches!(self, Kind::SendErr | Kind::AfterClose)
    }
    /// the peer will see the request of this call
    fn sends_request(&self) -> bool {
        !matches!(self, Kind::NoConn | Kind::SendErr | Kind::AfterClose | Kind::DropAt(0) | Kind::DropAt(1) | Kind::DropAt(2))
    }
    fn timeout_ms(&self) -> u64 {
        match self {
            Kind::Reply | Kind::Dup | Kind::DupLate | Kind::Traced | Kind::Shape(_) | Kind::After(_) => 10000,
            Kind::Race => 120,
            Kind::DropAt(4) => 150,
            Kind::DropAt(_) | Kind::DropAwait => 8000,
            Kind::ForeignNode => 300,
            _ => 160,
        }
    }
}

#[derive(Clone, Copy, Debug, PartialEq)]
pub enum Ending {
    Keep,
    /// the peer closes the socket when its script is done
    PeerCloses,
    /// the harness closes the `Connection` object after the first wave
    LocalClose,
}

#[derive(Clone, Debug)]
pub struct Scenario {
    pub kinds: Vec<Kind>,
    /// order in which the peer performs its immediate actions (indices into `kinds`)
    pub order: Vec<usize>,
    pub ending: Ending,
    pub yield_seed: u64,
    pub max_yields: u32,
    /// a local process exists and the peer sends it this many messages (interleaved with the replies);
    /// additionally one message to the same numbers under a foreign node name
    pub proc_msgs: u32,
    /// (call, point, yields): one long stay at a point (the other points get the seeded 0..max_yields)
    pub long_stay: Option<(usize, u8, u32)>,
    /// the peer closes the socket as soon as it has seen this many requests (used with `long_stay`)
    pub close_after_requests: Option<usize>,
    /// the calls go through `rpc_call_with_timeout` (which unwraps `{rex, Result}`)
    pub wrapped: bool,
    /// run on a multi-thread runtime (4 workers)
    pub mt: bool,
    /// the first `prestart` calls are made BEFORE `Node::start` (connect and rpc_call* do not ask whether the node was
    /// started); when they are over the node is started and the other calls follow. Only kinds that end without an
    /// immediate answer (`N`, `L`, `W`) may come first.
    pub prestart: usize,
    /// the creation the fake EPMD assigns at `Node::start` (1 = the placeholder creation of a node that was not started)
    pub epmd_creation: u32,
}

pub struct Shared {
    log: Mutex<Vec<String>>,
    node: Mutex<Option<Arc<Node>>>,
    rng: Mutex<Rng>,
    max_yields: u32,
    abort: Mutex<Vec<Option<tokio::task::AbortHandle>>>,
    drop_at: Vec<Option<u8>>,
    long_stay: Option<(usize, u8, u32)>,
    returned: Mutex<Vec<bool>>,
}

impl Shared {
    fn count(&self) -> usize {
        self.node.lock().unwrap().as_ref().map(|n| n.pending_rpc_count()).unwrap_or(0)
    }
    fn push(&self, s: String) {
        self.log.lock().unwrap().push(s);
    }
    fn n_route(&self) -> usize {
        self.log.lock().unwrap().iter().filter(|e| e.starts_with("rt.")).count()
    }
    fn n_peer_routed(&self) -> usize {
        self.log.lock().unwrap().iter().filter(|e| e.starts_with("pm.")).count()
    }
}

/// The yield hook: records the point with the table size and decides how long the task stays there.
fn hook(sh: &Arc<Shared>, name: &str) -> u32 {
    let cur = CUR.with(|c| c.get());
    let cnt = sh.count();
    if name == "route:before_pending_remove" {
        let mut n = sh.rng.lock().unwrap().below(sh.max_yields as u64 + 1) as u32;
        if let Some((_, 5, k)) = sh.long_stay {
            n = k;
        }
        sh.push(format!("rt.{}.{}", n, cnt));
        return n;
    }
    let Some(p) = POINTS.iter().position(|x| *x == name) else { return 0 };
    let who = if cur < 0 { 99 } else { cur as usize };
    sh.push(format!("{}.{}.{}", SHORT[p], who, cnt));
    let mut n = sh.rng.lock().unwrap().below(sh.max_yields as u64 + 1) as u32;
    if let Some((c, pt, k)) = sh.long_stay {
        if c == who && pt as usize == p {
            n = k;
        }
    }
    if who < sh.drop_at.len() && sh.drop_at[who] == Some(p as u8) {
        if let Some(h) = sh.abort.lock().unwrap()[who].as_ref() {
            h.abort();
        }
        n = n.max(1);
    }
    n
}

/// Wraps a call future: tells the hook which call is running, records its result, records its being dropped.
struct Tagged<F: Future<Output = String>> {
    idx: usize,
    fut: Option<Pin<Box<F>>>,
    sh: Arc<Shared>,
}

impl<F: Future<Output = String>> Future for Tagged<F> {
    type Output = String;
    fn poll(mut self: Pin<&mut Self>, cx: &mut Context<'_>) -> Poll<String> {
        let idx = self.idx;
        let prev = CUR.with(|c| c.replace(idx as i64));
        let r = match self.fut.as_mut() {
            Some(f) => f.as_mut().poll(cx),
            None => Poll::Pending,
        };
        CUR.with(|c| c.set(prev));
        if let Poll::Ready(o) = &r {
            self.fut = None;
            let cnt = self.sh.count();
            self.sh.push(format!("ret.{}.{}.{}", idx, o, cnt));
            self.sh.returned.lock().unwrap()[idx] = true;
        }
        r
    }
}

impl<F: Future<Output = String>> Drop for Tagged<F> {
    fn drop(&mut self) {
        if let Some(f) = self.fut.take() {
            drop(f);
            let cnt = self.sh.count();
            self.sh.push(format!("dr.{}.{}", self.idx, cnt));
            self.sh.returned.lock().unwrap()[self.idx] = true;
        }
    }
}

fn first_int(t: &OwnedTerm) -> Option<i64> {
    match t {
        OwnedTerm::Integer(n) => Some(*n),
        OwnedTerm::Tuple(v) | OwnedTerm::List(v) => v.iter().find_map(first_int),
        _ => None,
    }
}

/// the tag of a reply body: `{rex, Tag}`, or the tag of one of the harness's malformed bodies (those end in 7)
fn tag_of(t: &OwnedTerm) -> Option<i64> {
    if let OwnedTerm::Tuple(v) = t {
        if v.len() == 2 {
            if let (OwnedTerm::Atom(a), OwnedTerm::Integer(n)) = (&v[0], &v[1]) {
                if a.as_str() == "rex" {
                    return Some(*n);
                }
            }
        }
    }
    first_int(t).filter(|n| n % 10 == 7)
}

/// the bodies of `Kind::Shape`
pub fn shape_body(v: u8, t: i64) -> OwnedTerm {
    let rex = || OwnedTerm::Atom(Atom::new("rex"));
    match v {
        0 => OwnedTerm::Integer(t),
        1 => OwnedTerm::Tuple(vec![OwnedTerm::Atom(Atom::new("rexx")), OwnedTerm::Integer(t)]),
        2 => OwnedTerm::Tuple(vec![rex(), OwnedTerm::Integer(t), OwnedTerm::Integer(t)]),
        3 => OwnedTerm::Tuple(vec![OwnedTerm::Integer(t), rex()]),
        _ => OwnedTerm::List(vec![rex(), OwnedTerm::Integer(t)]),
    }
}

/// result of a call made through `rpc_call_with_timeout`
fn wrapped_text(r: Result<OwnedTerm, edp_node::Error>) -> String {
    match r {
        Ok(OwnedTerm::Integer(n)) => format!("reply:{}", n),
        Ok(_) => "reply:garbage".into(),
        Err(edp_node::Error::TermConversion(_)) => "badshape".into(),
        Err(e) => outcome_text(Err(e)),
    }
}

fn outcome_text(r: Result<OwnedTerm, edp_node::Error>) -> String {
    match r {
        Ok(t) => match tag_of(&t) {
            Some(n) => format!("reply:{}", n),
            None => "reply:garbage".into(),
        },
        Err(edp_node::Error::RpcTimeout(_)) => "timeout".into(),
        Err(edp_node::Error::RpcCancelled) => "cancelled".into(),
        Err(edp_node::Error::NodeNotConnected(_)) => "noconn".into(),
        Err(edp_node::Error::Client(_)) => "senderr".into(),
        Err(_) => "other".into(),
    }
}

/// a local process that remembers the tags it was sent
struct Recorder {
    got: Arc<Mutex<Vec<i64>>>,
}

impl Process for Recorder {
    async fn handle_message(&mut self, msg: Message) -> edp_node::Result<()> {
        if let Message::Regular { body, .. } = msg {
            self.got.lock().unwrap().push(tag_of(&body).unwrap_or(999_999_999));
        }
        Ok(())
    }
}

/// `{Pid, {call, c17, f<i>, [], user}}` -> (i, Pid)
fn parse_request(frame: &[u8]) -> Option<(usize, ExternalPid)> {
    if frame.first() != Some(&112) {
        return None;
    }
    let (_control, rest) = erltf::decoder::decode_with_trailing(&frame[1..]).ok()?;
    let (payload, _) = erltf::decoder::decode_with_trailing(rest).ok()?;
    let OwnedTerm::Tuple(v) = payload else { return None };
    let OwnedTerm::Pid(p) = v.first()? else { return None };
    let OwnedTerm::Tuple(c) = v.get(1)? else { return None };
    let OwnedTerm::Atom(f) = c.get(2)? else { return None };
    let i: usize = f.as_str().strip_prefix('f')?.parse().ok()?;
    Some((i, p.clone()))
}

fn reply_frame(to: &ExternalPid, tag: i64) -> Vec<u8> {
    let control = OwnedTerm::Tuple(vec![OwnedTerm::Integer(2), OwnedTerm::Atom(Atom::new("")), OwnedTerm::Pid(to.clone())]);
    let payload = OwnedTerm::Tuple(vec![OwnedTerm::Atom(Atom::new("rex")), OwnedTerm::Integer(tag)]);
    pass_through(&control, Some(&payload))
}

/// Cancel-safe frame reader: `read` loses nothing when its timeout fires (unlike `read_u32` + `read_exact`).
struct Frames {
    buf: Vec<u8>,
    closed: bool,
}

impl Frames {
    fn take(&mut self) -> Option<Vec<u8>> {
        if self.buf.len() < 4 {
            return None;
        }
        let n = u32::from_be_bytes([self.buf[0], self.buf[1], self.buf[2], self.buf[3]]) as usize;
        if self.buf.len() < 4 + n {
            return None;
        }
        let f = self.buf[4..4 + n].to_vec();
        self.buf.drain(..4 + n);
        Some(f)
    }
    /// next frame (ticks included as empty frames), `None` when `wait` passes first or the socket is closed
    async fn next(&mut self, pc: &mut PeerConn, wait: Duration) -> Option<Vec<u8>> {
        use tokio::io::AsyncReadExt;
        let end = Instant::now() + wait;
        loop {
            if let Some(f) = self.take() {
                return Some(f);
            }
            let now = Instant::now();
            if self.closed || now >= end {
                return None;
            }
            let mut tmp = [0u8; 4096];
            match tokio::time::timeout(end - now, pc.stream.read(&mut tmp)).await {
                Ok(Ok(0)) | Ok(Err(_)) => self.closed = true,
                Ok(Ok(n)) => self.buf.extend_from_slice(&tmp[..n]),
                Err(_) => return None,
            }
        }
    }
}

struct PeerPlan {
    kinds: Vec<Kind>,
    order: Vec<usize>,
    ending: Ending,
    proc_pid: Option<ExternalPid>,
    proc_msgs: u32,
    local_name: String,
    close_after_requests: Option<usize>,
}

struct PeerReport {
    pids: Vec<Option<ExternalPid>>,
    proc_sent: Vec<i64>,
    handshake_ok: bool,
}

async fn peer_send(pc: &mut PeerConn, sh: &Shared, local: &str, to: &ExternalPid, tag: i64) {
    let node = if to.node.as_str() == local { 0 } else { 1 };
    sh.push(format!("pm.{}.{}.{}.{}.{}", node, to.id, to.serial, to.creation, tag));
    pc.send_frame(&reply_frame(to, tag)).await;
}

async fn peer_task(listener: tokio::net::TcpListener, cfg: PeerCfg, plan: PeerPlan, sh: Arc<Shared>,
                   done: tokio::sync::oneshot::Sender<PeerReport>, mut release: tokio::sync::oneshot::Receiver<()>) {
    let k = plan.kinds.len();
    let mut rep = PeerReport { pids: vec![None; k], proc_sent: vec![], handshake_ok: false };
    let Some(mut pc) = accept_and_handshake(&listener, &cfg).await else {
        let _ = done.send(rep);
        return;
    };
    rep.handshake_ok = pc.hs.completed;
    let expect = plan.kinds.iter().filter(|x| x.sends_request() && !x.second_wave()).count();
    // A: collect the requests of the first wave
    let t0 = Instant::now();
    let mut seen: Vec<(usize, Instant)> = vec![];
    let mut frames = Frames { buf: vec![], closed: false };
    while seen.len() < expect && t0.elapsed() < Duration::from_millis(2500) {
        if let Some(n) = plan.close_after_requests {
            if seen.len() >= n {
                break;
            }
        }
        match frames.next(&mut pc, Duration::from_millis(20)).await {
            Some(f) => {
                if let Some((i, p)) = parse_request(&f) {
                    if i < k && rep.pids[i].is_none() {
                        rep.pids[i] = Some(p);
                        seen.push((i, Instant::now()));
                    }
                }
            }
            None => {
                if frames.closed {
                    break;
                }
            }
        }
    }
    if plan.close_after_requests.is_some() {
        drop(pc);
        let _ = done.send(rep);
        return;
    }
    // B: immediate actions in the scripted order, messages for the local process in between
    let mut proc_left = plan.proc_msgs;
    let mut proc_tag = 900_000i64;
    for &i in &plan.order {
        if let (Some(pp), true) = (&plan.proc_pid, proc_left > 0) {
            proc_left -= 1;
            proc_tag += 1;
            rep.proc_sent.push(proc_tag);
            // addressed to a live local process: must reach that process and nobody else; no route event
            sh.push(format!("pp.{}.{}.{}.{}", pp.id, pp.serial, pp.creation, proc_tag));
            pc.send_frame(&reply_frame(pp, proc_tag)).await;
        }
        let Some(p) = rep.pids[i].clone() else { continue };
        let base = (i as i64) * 10;
        match plan.kinds[i] {
            Kind::Reply | Kind::DupLate => peer_send(&mut pc, &sh, &plan.local_name, &p, base).await,
            Kind::Traced => {
                sh.push(format!("pm.0.{}.{}.{}.{}", p.id, p.serial, p.creation, base));
                let control = OwnedTerm::Tuple(vec![OwnedTerm::Integer(12), OwnedTerm::Atom(Atom::new("")), OwnedTerm::Pid(p.clone()),
                                                    OwnedTerm::Tuple(vec![OwnedTerm::Integer(1), OwnedTerm::Integer(2)])]);
                let payload = OwnedTerm::Tuple(vec![OwnedTerm::Atom(Atom::new("rex")), OwnedTerm::Integer(base)]);
                pc.send_frame(&pass_through(&control, Some(&payload))).await;
            }
            Kind::Shape(v) => {
                sh.push(format!("pm.0.{}.{}.{}.{}", p.id, p.serial, p.creation, base + 7));
                let control = OwnedTerm::Tuple(vec![OwnedTerm::Integer(2), OwnedTerm::Atom(Atom::new("")), OwnedTerm::Pid(p.clone())]);
                pc.send_frame(&pass_through(&control, Some(&shape_body(v, base + 7)))).await;
            }
            Kind::Ignored(v) => {
                sh.push("px".into());
                let payload = OwnedTerm::Tuple(vec![OwnedTerm::Atom(Atom::new("rex")), OwnedTerm::Integer(base + 8)]);
                if v == 0 {
                    let control = OwnedTerm::Tuple(vec![OwnedTerm::Integer(2), OwnedTerm::Atom(Atom::new("")), OwnedTerm::Atom(Atom::new("not_a_pid"))]);
                    pc.send_frame(&pass_through(&control, Some(&payload))).await;
                } else {
                    let control = OwnedTerm::Tuple(vec![OwnedTerm::Integer(2), OwnedTerm::Atom(Atom::new("")), OwnedTerm::Pid(p.clone())]);
                    pc.send_frame(&pass_through(&control, None)).await;
                }
            }
            Kind::Dup => {
                peer_send(&mut pc, &sh, &plan.local_name, &p, base).await;
                peer_send(&mut pc, &sh, &plan.local_name, &p, base + 1).await;
            }
            Kind::ForeignNode => {
                let mut q = p.clone();
                q.node = Atom::new("elsewhere@127.0.0.1");
                peer_send(&mut pc, &sh, &plan.local_name, &q, base + 6).await;
            }
            Kind::Unknown(v) => {
                let mut q = p.clone();
                match v {
                    0 => q.id += 100_000,
                    1 => q.serial += 1,
                    _ => q.creation += 1,
                }
                peer_send(&mut pc, &sh, &plan.local_name, &q, base + 5).await;
            }
            _ => {}
        }
    }
    if let Some(pp) = &plan.proc_pid {
        // the process's numbers under a foreign node name: not that process; and no call has these numbers
        let mut q = pp.clone();
        q.node = Atom::new("elsewhere@127.0.0.1");
        peer_send(&mut pc, &sh, &plan.local_name, &q, 990_000).await;
    }
    // C: answers around the timer
    let mut racers: Vec<(usize, Instant)> = seen.iter().filter(|(i, _)| plan.kinds[*i] == Kind::Race).cloned().collect();
    racers.sort_by_key(|x| x.1);
    for (i, at) in racers {
        let due = at + Duration::from_millis(plan.kinds[i].timeout_ms());
        let now = Instant::now();
        if due > now {
            tokio::time::sleep(due - now).await;
        }
        if let Some(p) = rep.pids[i].clone() {
            peer_send(&mut pc, &sh, &plan.local_name, &p, (i as i64) * 10).await;
        }
    }
    // D: answers that must come after the call is over (the harness tells us when it is)
    let mut late: Vec<usize> = (0..k)
        .filter(|&i| matches!(plan.kinds[i], Kind::Late | Kind::DupLate | Kind::DropAt(_) | Kind::DropAwait | Kind::After(_)) && rep.pids[i].is_some())
        .collect();
    let t1 = Instant::now();
    while !late.is_empty() && t1.elapsed() < Duration::from_millis(8000) {
        let ret = sh.returned.lock().unwrap().clone();
        let mut rest = vec![];
        for i in late {
            if let Kind::After(j) = plan.kinds[i] {
                if ret[(j as usize).min(k - 1)] {
                    let p = rep.pids[i].clone().unwrap();
                    peer_send(&mut pc, &sh, &plan.local_name, &p, (i as i64) * 10).await;
                } else {
                    rest.push(i);
                }
            } else if ret[i] {
                let p = rep.pids[i].clone().unwrap();
                peer_send(&mut pc, &sh, &plan.local_name, &p, (i as i64) * 10 + 2).await;
            } else {
                rest.push(i);
            }
        }
        late = rest;
        if !late.is_empty() {
            tokio::time::sleep(Duration::from_millis(5)).await;
        }
    }
    // E: ending
    if plan.ending == Ending::PeerCloses {
        // give the receiver the time to take what was sent, then close
        let t2 = Instant::now();
        while sh.n_route() < sh.n_peer_routed() && t2.elapsed() < Duration::from_millis(10_000) {
            tokio::time::sleep(Duration::from_millis(3)).await;
        }
        sh.push("pc".into());
        drop(pc);
        let _ = done.send(rep);
        return;
    }
    let _ = done.send(rep);
    // keep the socket open (and drained) until the scenario is over
    loop {
        tokio::select! {
            _ = &mut release => break,
            f = frames.next(&mut pc, Duration::from_millis(50)) => {
                if f.is_none() && frames.closed {
                    let _ = (&mut release).await;
                    break;
                }
            }
        }
    }
}

pub struct Outcome {
    pub creation: u32,
    pub pids: Vec<Option<ExternalPid>>,
    pub trace: Vec<String>,
    pub outcomes: Vec<String>,
    pub fin: usize,
    pub proc_sent: Vec<i64>,
    pub proc_got: Vec<i64>,
    pub setup_ok: bool,
}

static CASE: std::sync::atomic::AtomicUsize = std::sync::atomic::AtomicUsize::new(0);
/// scenarios whose result already looks wrong to the harness (only used to stop a failing run early)
static SUSPICIOUS: std::sync::atomic::AtomicUsize = std::sync::atomic::AtomicUsize::new(0);

async fn scenario(sc: Scenario) -> Outcome {
    let case = CASE.fetch_add(1, std::sync::atomic::Ordering::SeqCst) + 1;
    let k = sc.kinds.len();
    let epmd = FakeEpmd::start().await;
    let short = format!("c17p{}", case);
    let peer_name = format!("{}@127.0.0.1", short);
    let local_name = format!("c17n{}@127.0.0.1", case);
    let listener = listen_as(&epmd, &short).await;
    *epmd.creation.lock().unwrap() = sc.epmd_creation.wrapping_sub(1);
    let mut node = Node::new(local_name.clone(), "secret");
    let mut out = Outcome { creation: 0, pids: vec![None; k], trace: vec![], outcomes: vec!["unstarted".into(); k], fin: 0,
                            proc_sent: vec![], proc_got: vec![], setup_ok: false };
    if sc.prestart == 0 && node.start(0).await.is_err() {
        return out;
    }
    let mut node = Arc::new(node);
    out.creation = node.creation();
    let mut drop_at = vec![None; k];
    for (i, kd) in sc.kinds.iter().enumerate() {
        if let Kind::DropAt(p) = kd {
            drop_at[i] = Some(*p);
        }
    }
    let sh = Arc::new(Shared {
        log: Mutex::new(vec![]),
        node: Mutex::new(Some(node.clone())),
        rng: Mutex::new(Rng::new(sc.yield_seed)),
        max_yields: sc.max_yields,
        abort: Mutex::new((0..k).map(|_| None).collect()),
        drop_at,
        long_stay: sc.long_stay,
        returned: Mutex::new(vec![false; k]),
    });
    // a local process (its pid is the allocator's first)
    let got = Arc::new(Mutex::new(vec![]));
    let mut proc_pid = None;
    if sc.proc_msgs > 0 {
        match node.spawn(Recorder { got: got.clone() }).await {
            Ok(p) => {
                sh.push(format!("sp.{}.{}.{}", p.id, p.serial, p.creation));
                proc_pid = Some(p);
            }
            Err(_) => return out,
        }
    }
    let plan = PeerPlan { kinds: sc.kinds.clone(), order: sc.order.clone(), ending: sc.ending, proc_pid: proc_pid.clone(),
                          proc_msgs: sc.proc_msgs, local_name: local_name.clone(), close_after_requests: sc.close_after_requests };
    let (done_tx, done_rx) = tokio::sync::oneshot::channel();
    let (rel_tx, rel_rx) = tokio::sync::oneshot::channel();
    let peer = tokio::spawn(peer_task(listener, PeerCfg::new(&peer_name, "secret"), plan, sh.clone(), done_tx, rel_rx));
    if node.connect(peer_name.clone()).await.is_err() {
        peer.abort();
        return out;
    }
    out.setup_ok = true;
    let sh2 = sh.clone();
    edp_client::verif_hooks::set_yield_hook(Some(Box::new(move |name: &str| hook(&sh2, name))));

    let mut handles: Vec<Option<tokio::task::JoinHandle<String>>> = (0..k).map(|_| None).collect();
    let start_wave = |node: &Arc<Node>, wave: u8, handles: &mut Vec<Option<tokio::task::JoinHandle<String>>>| {
        for i in 0..k {
            let w = if i < sc.prestart { 0 } else if sc.kinds[i].second_wave() { 2 } else { 1 };
            if w != wave {
                continue;
            }
            let n = node.clone();
            let target = if sc.kinds[i] == Kind::NoConn { "nobody@127.0.0.1".to_string() } else { peer_name.clone() };
            let to = Duration::from_millis(sc.kinds[i].timeout_ms());
            let wrapped = sc.wrapped;
            let (go_tx, go_rx) = tokio::sync::oneshot::channel::<()>();
            let fut = async move {
                // not before the harness holds the abort handle of this task
                let _ = go_rx.await;
                if wrapped {
                    wrapped_text(n.rpc_call_with_timeout(&target, "c17", &format!("f{}", i), vec![], to).await)
                } else {
                    outcome_text(n.rpc_call_raw_with_timeout(&target, "c17", &format!("f{}", i), vec![], to).await)
                }
            };
            let h = tokio::spawn(Tagged { idx: i, fut: Some(Box::pin(fut)), sh: sh.clone() });
            sh.abort.lock().unwrap()[i] = Some(h.abort_handle());
            handles[i] = Some(h);
            let _ = go_tx.send(());
            if sc.mt {
                // the events are logged after the fact: keep the order of the `bi` events the order of the allocations
                let t = Instant::now();
                let mark = format!("bi.{}.", i);
                while !sh.log.lock().unwrap().iter().any(|e| e.starts_with(&mark)) && t.elapsed() < Duration::from_millis(2000) {
                    std::thread::yield_now();
                }
            }
        }
    };
    let collect = |i: usize, r: Result<Result<String, tokio::task::JoinError>, tokio::time::error::Elapsed>| -> String {
        let _ = i;
        match r {
            Ok(Ok(o)) => o,
            Ok(Err(e)) if e.is_cancelled() => "dropped".into(),
            Ok(Err(_)) => "panic".into(),
            Err(_) => "hang".into(),
        }
    };
    let drop_waiters = |lo: usize, hi: usize| {
        for i in lo..hi {
            if sc.kinds[i] == Kind::DropAwait {
                let sh3 = sh.clone();
                tokio::spawn(async move {
                    tokio::time::sleep(Duration::from_millis(60)).await;
                    if let Some(h) = sh3.abort.lock().unwrap()[i].as_ref() {
                        h.abort();
                    }
                });
            }
        }
    };
    if sc.prestart > 0 {
        // calls on a node that was not started yet; then `Node::start`
        start_wave(&node, 0, &mut handles);
        drop_waiters(0, sc.prestart);
        for i in 0..sc.prestart {
            if let Some(h) = handles[i].take() {
                out.outcomes[i] = collect(i, tokio::time::timeout(Duration::from_millis(30000), h).await);
            }
        }
        *sh.node.lock().unwrap() = None;
        let t = Instant::now();
        let mut started = false;
        while t.elapsed() < Duration::from_millis(3000) {
            if let Some(n) = Arc::get_mut(&mut node) {
                started = n.start(0).await.is_ok();
                break;
            }
            tokio::time::sleep(Duration::from_millis(2)).await;
        }
        if !started {
            out.setup_ok = false;
            edp_client::verif_hooks::set_yield_hook(None);
            peer.abort();
            return out;
        }
        sh.push(format!("st.{}", node.creation()));
        *sh.node.lock().unwrap() = Some(node.clone());
    }
    start_wave(&node, 1, &mut handles);
    drop_waiters(sc.prestart, k);
    for i in 0..k {
        if let Some(h) = handles[i].take() {
            out.outcomes[i] = collect(i, tokio::time::timeout(Duration::from_millis(30000), h).await);
        }
    }
    let rep = tokio::time::timeout(Duration::from_millis(30000), done_rx).await.ok().and_then(|r| r.ok());
    // second wave
    if sc.kinds.iter().any(|x| x.second_wave()) {
        match sc.ending {
            Ending::LocalClose => {
                let conn = node.connections().get(&peer_name).map(|c| c.value().clone());
                if let Some(c) = conn {
                    let _ = c.lock().await.close().await;
                }
            }
            _ => {
                let t = Instant::now();
                while node.connections().contains_key(&peer_name) && t.elapsed() < Duration::from_millis(3000) {
                    tokio::time::sleep(Duration::from_millis(3)).await;
                }
                if !node.connections().contains_key(&peer_name) {
                    sh.push("rs".into());
                }
            }
        }
        start_wave(&node, 2, &mut handles);
        for i in 0..k {
            if let Some(h) = handles[i].take() {
                out.outcomes[i] = collect(i, tokio::time::timeout(Duration::from_millis(30000), h).await);
            }
        }
    }
    // let the receiver finish with what the peer sent, then look at the table
    let sc_closed_early = sc.close_after_requests.is_some();
    let t = Instant::now();
    while !sc_closed_early && sh.n_route() < sh.n_peer_routed() && t.elapsed() < Duration::from_millis(10_000) {
        tokio::time::sleep(Duration::from_millis(3)).await;
    }
    tokio::time::sleep(Duration::from_millis(5)).await;
    tokio::time::sleep(Duration::from_millis(5)).await;
    if !node.connections().contains_key(&peer_name) && !sh.log.lock().unwrap().iter().any(|e| e == "rs") {
        sh.push("rs".into());
    }
    let fin = node.pending_rpc_count();
    sh.push(format!("fin.{}", fin));
    edp_client::verif_hooks::set_yield_hook(None);
    let _ = rel_tx.send(());
    out.fin = fin;
    if let Some(r) = rep {
        out.pids = r.pids;
        out.proc_sent = r.proc_sent;
        out.setup_ok = out.setup_ok && r.handshake_ok;
    } else {
        out.setup_ok = false;
    }
    out.proc_got = got.lock().unwrap().clone();
    out.trace = sh.log.lock().unwrap().clone();
    *sh.node.lock().unwrap() = None;
    out
}

/// Runs one scenario on its own thread and runtime; `None` when it does not come back (a task blocked the thread).
pub fn run_scenario(sc: &Scenario) -> Option<Outcome> {
    run_scenario_within(sc, Duration::from_secs(120))
}

pub fn run_scenario_within(sc: &Scenario, limit: Duration) -> Option<Outcome> {
    let (tx, rx) = std::sync::mpsc::channel();
    let sc2 = sc.clone();
    std::thread::spawn(move || {
        let rt = if sc2.mt {
            tokio::runtime::Builder::new_multi_thread().worker_threads(4).enable_all().build().unwrap()
        } else {
            tokio::runtime::Builder::new_current_thread().enable_all().build().unwrap()
        };
        let o = rt.block_on(scenario(sc2));
        let _ = tx.send(o);
    });
    rx.recv_timeout(limit).ok()
}

fn pid_text(p: &Option<ExternalPid>) -> String {
    match p {
        Some(p) => format!("{}.{}.{}", p.id, p.serial, p.creation),
        None => "-".into(),
    }
}

fn list<T: ToString>(v: &[T]) -> String {
    if v.is_empty() { "-".into() } else { v.iter().map(|x| x.to_string()).collect::<Vec<_>>().join(",") }
}

pub fn script_text(sc: &Scenario) -> String {
    format!("{}/{}/{}", list(&sc.kinds.iter().map(|k| k.code()).collect::<Vec<_>>()), list(&sc.order),
            match sc.ending { Ending::Keep => "keep", Ending::PeerCloses => "peercloses", Ending::LocalClose => "localclose" })
}

/// Writes the lines of one scenario.
fn emit(ctx: &mut Ctx, sc: &Scenario, o: &Option<Outcome>) {
    let script = script_text(sc);
    let Some(o) = o else {
        SUSPICIOUS.fetch_add(1, std::sync::atomic::Ordering::SeqCst);
        ctx.fail("c17-call-never-returns", &format!("script={} seed={} the runtime thread stopped making progress", script, sc.yield_seed));
        return;
    };
    if !o.setup_ok {
        ctx.count("setup_failed");
        return;
    }
    let odd = o.fin != 0
        || o.outcomes.iter().zip(&sc.kinds).any(|(oc, kd)| {
            oc == "hang" || oc == "cancelled" || oc == "panic" || (matches!(kd, Kind::Reply | Kind::Dup | Kind::DupLate | Kind::Traced | Kind::After(_)) && !oc.starts_with("reply:"))
        });
    if odd {
        SUSPICIOUS.fetch_add(1, std::sync::atomic::Ordering::SeqCst);
    }
    ctx.add("traces_validated", 1);
    ctx.add("trace_events", o.trace.len() as u64);
    ctx.add("calls", sc.kinds.len() as u64);
    for kd in &sc.kinds {
        ctx.count(&format!("kind_{}", kd.code()));
    }
    for oc in &o.outcomes {
        ctx.count(&format!("outcome_{}", oc.split(':').next().unwrap_or("")));
    }
    let outs = o.outcomes.join(";");
    if sc.kinds.contains(&Kind::ForeignNode) {
        // keys omit the node name: what the code does with such a message is recorded, not judged (notes/C17.md)
        for (i, kd) in sc.kinds.iter().enumerate() {
            if *kd == Kind::ForeignNode {
                ctx.count(if o.outcomes[i].starts_with("reply:") { "foreign_node_reply_delivered" } else { "foreign_node_reply_not_delivered" });
            }
        }
        ctx.prop("gen", &format!("c17spec {} {} {} {} {}", script.replace('/', " "), outs, o.fin, list(&o.proc_sent), list(&o.proc_got)), "ok");
        return;
    }
    let word = match (sc.wrapped, sc.mt) {
        (false, false) => "c17trace",
        (false, true) => "c17mt",
        (true, false) => "c17wtrace",
        (true, true) => "c17wmt",
    };
    if sc.mt {
        ctx.add("mt_traces_validated", 1);
        // how often a call saw the table without its own entry when its timer had fired: the receiver's `remove` had
        // happened and its `send` came too late (the two steps observed apart)
        let pms: Vec<String> = o.trace.iter().filter(|e| e.starts_with("pm.")).cloned().collect();
        let mut k = 0;
        for (pos, e) in o.trace.iter().enumerate() {
            if e.starts_with("rt.") {
                if let Some(pm) = pms.get(k) {
                    let f: Vec<&str> = pm.split('.').collect();
                    let key = format!("{}.{}.{}", f[2], f[3], f[4]);
                    if let Some(i) = o.pids.iter().position(|p| pid_text(p) == key) {
                        let to = o.trace.iter().position(|x| x.starts_with(&format!("to.{}.", i)));
                        if matches!(to, Some(t) if t > pos) && o.outcomes[i] == "timeout" {
                            ctx.count("mt_routed_before_timer_yet_timeout");
                        }
                    }
                }
                k += 1;
            }
        }
    }
    let spec_word = if sc.wrapped { "c17wspec" } else { "c17spec" };
    let req = format!("{} {} {} {}", word, o.creation, list(&o.pids.iter().map(pid_text).collect::<Vec<_>>()), o.trace.join(","));
    ctx.tie("trace", &req, &format!("ok out={} fin={} proc={}", outs, o.fin, list(&o.proc_got)));
    // failure class: scenarios in which a call future is dropped by its owner are told apart from the rest
    let class = if sc.kinds.iter().any(|k| matches!(k, Kind::DropAt(_) | Kind::DropAwait)) { "c17-with-dropped-call" } else { "gen" };
    ctx.prop(class, &format!("{} {} {} {} {} {}", spec_word, script.replace('/', " "), outs, o.fin, list(&o.proc_sent), list(&o.proc_got)), "ok");
}

/// Sequential family: call i+1 starts only after call i has returned.  Per call the peer reads the request and then, BEFORE
/// it answers, sends once more (tag 10j+2) the replies of a seeded non-empty set of EARLIER calls — calls that were
/// answered and have returned (`E`) or that timed out unanswered (`L`: their only answer comes now) — to the reply pids of
/// those calls; then the current call's own reply (tag 10i).  A call is outstanding whenever a late copy arrives, and
/// that copy is never addressed to it: it must return its own reply.  Judged by the Spec's per-call content rule.
async fn sequential(kinds: Vec<Kind>, resend: Vec<Vec<usize>>, wrapped: bool) -> Option<(Vec<String>, usize, Vec<Option<ExternalPid>>)> {
    let case = CASE.fetch_add(1, std::sync::atomic::Ordering::SeqCst) + 1;
    let k = kinds.len();
    let epmd = FakeEpmd::start().await;
    let short = format!("c17q{}", case);
    let peer_name = format!("{}@127.0.0.1", short);
    let local_name = format!("c17m{}@127.0.0.1", case);
    let listener = listen_as(&epmd, &short).await;
    let mut node = Node::new(local_name.clone(), "secret");
    node.start(0).await.ok()?;
    let node = Arc::new(node);
    let cfg = PeerCfg::new(&peer_name, "secret");
    let (kinds2, resend2) = (kinds.clone(), resend.clone());
    let (pid_tx, pid_rx) = tokio::sync::oneshot::channel::<Vec<Option<ExternalPid>>>();
    let peer = tokio::spawn(async move {
        let Some(mut pc) = accept_and_handshake(&listener, &cfg).await else { return };
        let mut frames = Frames { buf: vec![], closed: false };
        let mut pids: Vec<Option<ExternalPid>> = vec![None; kinds2.len()];
        let mut seen = 0;
        let t0 = Instant::now();
        while seen < kinds2.len() && t0.elapsed() < Duration::from_secs(20) && !frames.closed {
            let Some(f) = frames.next(&mut pc, Duration::from_millis(50)).await else { continue };
            let Some((i, p)) = parse_request(&f) else { continue };
            if i >= kinds2.len() || pids[i].is_some() {
                continue;
            }
            pids[i] = Some(p.clone());
            seen += 1;
            for &j in &resend2[i] {
                if let Some(q) = pids[j].clone() {
                    pc.send_frame(&reply_frame(&q, (j as i64) * 10 + 2)).await;
                }
            }
            if matches!(kinds2[i], Kind::Reply | Kind::DupLate) {
                pc.send_frame(&reply_frame(&p, (i as i64) * 10)).await;
            }
        }
        let _ = pid_tx.send(pids);
        // keep the socket open and drained until the harness is done
        loop {
            if frames.next(&mut pc, Duration::from_millis(50)).await.is_none() && frames.closed {
                break;
            }
        }
    });
    if node.connect(peer_name.clone()).await.is_err() {
        peer.abort();
        return None;
    }
    edp_client::verif_hooks::set_yield_hook(None);
    let mut outs = vec![];
    for (i, kd) in kinds.iter().enumerate() {
        let to = Duration::from_millis(if matches!(kd, Kind::Late | Kind::Never) { 120 } else { 10_000 });
        let n = node.clone();
        let pn = peer_name.clone();
        // in a task of its own, like every caller of a node
        let h = tokio::spawn(async move {
            if wrapped {
                wrapped_text(n.rpc_call_with_timeout(&pn, "c17", &format!("f{}", i), vec![], to).await)
            } else {
                outcome_text(n.rpc_call_raw_with_timeout(&pn, "c17", &format!("f{}", i), vec![], to).await)
            }
        });
        outs.push(match tokio::time::timeout(Duration::from_secs(15), h).await {
            Ok(Ok(o)) => o,
            Ok(Err(_)) => "panic".to_string(),
            Err(_) => "hang".to_string(),
        });
    }
    let pids = tokio::time::timeout(Duration::from_secs(5), pid_rx).await.ok().and_then(|r| r.ok()).unwrap_or_else(|| vec![None; k]);
    // what was sent last has been routed when a fence call behind it has come back
    let fin = node.pending_rpc_count();
    peer.abort();
    Some((outs, fin, pids))
}

fn sequential_families(ctx: &mut Ctx) {
    let rounds = ctx.n(10, 80);
    for round in 0..rounds {
        let k = ctx.rng.range(2, 6) as usize;
        let wrapped = round % 5 == 4;
        // which calls are never answered in time (their answer comes during a later call); the last call is answered
        let mut kinds: Vec<Kind> = (0..k).map(|i| if i + 1 < k && round % 3 == 2 && ctx.rng.chance(1, 3) { Kind::Late } else { Kind::Reply }).collect();
        let mut resend: Vec<Vec<usize>> = vec![vec![]; k];
        for i in 1..k {
            let mut js: Vec<usize> = match round % 4 {
                0 => vec![i - 1],                     // the call that returned last
                1 => (0..i).collect(),                // every earlier call, oldest first
                2 => (0..i).rev().collect(),          // newest first
                _ => {
                    let mut v: Vec<usize> = (0..i).filter(|_| ctx.rng.chance(1, 2)).collect();
                    if v.is_empty() {
                        v.push(ctx.rng.below(i as u64) as usize);
                    }
                    ctx.rng.shuffle(&mut v);
                    v
                }
            };
            if ctx.rng.chance(1, 4) {
                // the same late copy twice
                let again = js[0];
                js.push(again);
            }
            resend[i] = js;
        }
        // an answered call whose reply is sent once more later is the Spec's `E`; an unanswered one whose only answer comes later `L`
        for i in 0..k {
            let resent = resend.iter().any(|js| js.contains(&i));
            kinds[i] = match (kinds[i], resent) {
                (Kind::Reply, true) => Kind::DupLate,
                (Kind::Late, false) => Kind::Never,
                (kd, _) => kd,
            };
        }
        let codes = list(&kinds.iter().map(|k| k.code()).collect::<Vec<_>>());
        let plan = resend.iter().map(|js| if js.is_empty() { "_".to_string() } else { js.iter().map(|j| j.to_string()).collect::<Vec<_>>().join("+") }).collect::<Vec<_>>().join(",");
        let (kinds2, resend2) = (kinds.clone(), resend.clone());
        let (tx, rx) = std::sync::mpsc::channel();
        std::thread::spawn(move || {
            let rt = tokio::runtime::Builder::new_current_thread().enable_all().build().unwrap();
            let o = rt.block_on(sequential(kinds2, resend2, wrapped));
            let _ = tx.send(o);
        });
        ctx.count("sequential_scenarios");
        match rx.recv_timeout(Duration::from_secs(120)) {
            Err(_) => ctx.fail("c17-call-never-returns", &format!("sequential calls={} late-copies-before-the-reply-of-call={} the runtime thread stopped making progress", codes, plan)),
            Ok(None) => ctx.count("setup_failed"),
            Ok(Some((outs, fin, pids))) => {
                ctx.add("calls", k as u64);
                ctx.add("sequential_late_copies", resend.iter().map(|js| js.len() as u64).sum());
                for kd in &kinds {
                    ctx.count(&format!("seq_kind_{}", kd.code()));
                }
                let distinct = {
                    let mut v: Vec<String> = pids.iter().map(pid_text).collect();
                    v.sort();
                    v.dedup();
                    v.len() == k
                };
                if !distinct {
                    ctx.fail("c17-reply-pid-reused", &format!("sequential calls={} reply pids={} (call i+1 started after call i returned)", codes, list(&pids.iter().map(pid_text).collect::<Vec<_>>())));
                }
                // `order` carries the plan of late copies (the Spec does not read it): call i's entry lists the earlier calls
                // whose reply was sent again just before call i was answered
                let spec_word = if wrapped { "c17wspec" } else { "c17spec" };
                ctx.prop("gen", &format!("{} {} seq:{} keep {} {} - -", spec_word, codes, plan, outs.join(";"), fin), "ok");
            }
        }
    }
}

fn perms(n: usize) -> Vec<Vec<usize>> {
    if n == 0 {
        return vec![vec![]];
    }
    let mut out = vec![];
    for p in perms(n - 1) {
        for pos in 0..=p.len() {
            let mut q = p.clone();
            q.insert(pos, n - 1);
            out.push(q);
        }
    }
    out
}

fn base(ctx: &mut Ctx, kinds: Vec<Kind>) -> Scenario {
    let k = kinds.len();
    let mut order: Vec<usize> = (0..k).collect();
    ctx.rng.shuffle(&mut order);
    Scenario { kinds, order, ending: Ending::Keep, yield_seed: ctx.rng.next(), max_yields: 3, proc_msgs: 0, long_stay: None,
               close_after_requests: None, wrapped: false, mt: false, prestart: 0, epmd_creation: 8 }
}

fn random_kind(ctx: &mut Ctx) -> Kind {
    match ctx.rng.below(20) {
        0..=5 => Kind::Reply,
        6 => Kind::Dup,
        7 => Kind::DupLate,
        8 | 9 => Kind::Never,
        10 | 11 => Kind::Late,
        12 => Kind::Unknown(ctx.rng.below(3) as u8),
        13 | 14 => Kind::Race,
        15 => Kind::NoConn,
        16 | 17 => Kind::DropAt(ctx.rng.below(5) as u8),
        18 => Kind::DropAwait,
        _ => match ctx.rng.below(4) {
            0 => Kind::Traced,
            1 => Kind::Shape(ctx.rng.below(5) as u8),
            2 => Kind::Ignored(ctx.rng.below(2) as u8),
            _ => Kind::Reply,
        },
    }
}

fn go_within(ctx: &mut Ctx, sc: Scenario, family: &str, limit: Duration) {
    if SUSPICIOUS.load(std::sync::atomic::Ordering::SeqCst) >= 3 {
        ctx.count("skipped_after_failures");
        return;
    }
    let o = run_scenario_within(&sc, limit);
    emit(ctx, &sc, &o);
    ctx.count(family);
}

fn go(ctx: &mut Ctx, sc: Scenario, family: &str) {
    if SUSPICIOUS.load(std::sync::atomic::Ordering::SeqCst) >= 3 {
        // the run has its failing cases; the remaining scenarios would only add waiting time
        ctx.count("skipped_after_failures");
        return;
    }
    let o = run_scenario(&sc);
    emit(ctx, &sc, &o);
    ctx.count(family);
}

pub fn run(ctx: &mut Ctx) {
    if ctx.args.first().map(|s| s.as_str()) == Some("probe") {
        probe(ctx);
        return;
    }
    // 1. every order of the replies for up to 3 (quick) / 4 (thorough) concurrent calls
    let maxk = ctx.n(3, 4);
    for k in 1..=maxk {
        for p in perms(k) {
            let mut sc = base(ctx, vec![Kind::Reply; k]);
            sc.order = p;
            go(ctx, sc, "perm_scenarios");
        }
    }
    ctx.add("exhaustive", 1);
    // 2. each way a call can end, next to two calls that get their replies
    let each = [Kind::Dup, Kind::DupLate, Kind::Never, Kind::Late, Kind::Unknown(0), Kind::Unknown(1), Kind::Unknown(2), Kind::Race,
                Kind::NoConn, Kind::DropAt(0), Kind::DropAt(1), Kind::DropAt(2), Kind::DropAt(3), Kind::DropAt(4), Kind::DropAwait];
    for kd in each {
        let pos = ctx.rng.below(3) as usize;
        let mut kinds = vec![Kind::Reply; 3];
        kinds[pos] = kd;
        let sc = base(ctx, kinds);
        go(ctx, sc, "exit_path_scenarios");
    }
    // 3. the write fails: the connection object was closed under the node
    for _ in 0..ctx.n(2, 6) {
        let mut sc = base(ctx, vec![Kind::Reply, Kind::Never, Kind::SendErr, Kind::SendErr]);
        sc.ending = Ending::LocalClose;
        go(ctx, sc, "send_error_scenarios");
    }
    // 4. the peer closes the socket; later calls find no connection
    for _ in 0..ctx.n(2, 6) {
        let mut sc = base(ctx, vec![Kind::Reply, Kind::Late, Kind::AfterClose, Kind::AfterClose]);
        sc.ending = Ending::PeerCloses;
        go(ctx, sc, "peer_close_scenarios");
    }
    // 5. the peer closes while a call sits between the connection lookup and the write (the receiver task ends and
    //    removes the connection meanwhile): every call must still return
    for _ in 0..ctx.n(2, 5) {
        let mut sc = base(ctx, vec![Kind::Closing, Kind::Closing]);
        sc.long_stay = Some((1, 2, 300_000));
        sc.close_after_requests = Some(1);
        go_within(ctx, sc, "close_mid_call_scenarios", Duration::from_secs(30));
    }
    // 6. a live local process: its messages reach it, not a call; its numbers under a foreign name reach nobody
    for _ in 0..ctx.n(2, 6) {
        let mut sc = base(ctx, vec![Kind::Reply, Kind::Reply, Kind::Never]);
        sc.proc_msgs = 2;
        go(ctx, sc, "local_process_scenarios");
    }
    // 6b. one long stay at each yield point (the other tasks get through whole calls meanwhile)
    for p in 0..6u8 {
        for _ in 0..ctx.n(1, 3) {
            let kinds = match p {
                4 => vec![Kind::Never, Kind::Reply],
                5 => vec![Kind::Race, Kind::Reply, Kind::Never],
                _ => vec![Kind::Reply, Kind::Reply],
            };
            let mut sc = base(ctx, kinds);
            sc.long_stay = Some((0, p, if p == 5 { 20_000 } else { 60_000 }));
            go(ctx, sc, "long_stay_scenarios");
        }
    }
    // 7. a reply to the call's numbers under a foreign node name (recorded, not judged)
    {
        let sc = base(ctx, vec![Kind::ForeignNode, Kind::Reply]);
        go(ctx, sc, "foreign_node_scenarios");
    }
    // 8. seeded mixes
    for _ in 0..ctx.n(30, 400) {
        let k = ctx.rng.range(1, 6) as usize;
        let kinds: Vec<Kind> = (0..k).map(|_| random_kind(ctx)).collect();
        let mut sc = base(ctx, kinds);
        sc.max_yields = ctx.rng.range(0, 4) as u32;
        if ctx.rng.chance(1, 3) {
            sc.proc_msgs = ctx.rng.range(1, 3) as u32;
        }
        match ctx.rng.below(6) {
            0 => {
                sc.ending = Ending::PeerCloses;
                sc.kinds.push(Kind::AfterClose);
                sc.order.push(sc.kinds.len() - 1);
            }
            1 => {
                sc.ending = Ending::LocalClose;
                sc.kinds.push(Kind::SendErr);
                sc.order.push(sc.kinds.len() - 1);
            }
            _ => {}
        }
        go(ctx, sc, "random_scenarios");
    }
    // 9. replies in the trace-token form of SEND, replies that are not `{rex, Result}`, SENDs the router ignores
    let odd = [Kind::Traced, Kind::Shape(0), Kind::Shape(1), Kind::Shape(2), Kind::Shape(3), Kind::Shape(4), Kind::Ignored(0), Kind::Ignored(1)];
    for kd in odd {
        let pos = ctx.rng.below(3) as usize;
        let mut kinds = vec![Kind::Reply; 3];
        kinds[pos] = kd;
        let sc = base(ctx, kinds);
        go(ctx, sc, "reply_form_scenarios");
    }
    // 10. the same calls through `rpc_call_with_timeout` (which unwraps `{rex, Result}`): every reply form and exit path
    let wrapped = [Kind::Reply, Kind::Traced, Kind::Shape(0), Kind::Shape(1), Kind::Shape(2), Kind::Shape(3), Kind::Shape(4), Kind::Dup,
                   Kind::Never, Kind::Late, Kind::Race, Kind::NoConn, Kind::DropAt(3), Kind::DropAwait, Kind::Ignored(1), Kind::Unknown(1)];
    for kd in wrapped {
        let pos = ctx.rng.below(3) as usize;
        let mut kinds = vec![Kind::Reply, Kind::Shape(ctx.rng.below(5) as u8), Kind::Reply];
        kinds[pos] = kd;
        let mut sc = base(ctx, kinds);
        sc.wrapped = true;
        go(ctx, sc, "wrapped_scenarios");
    }
    for _ in 0..ctx.n(2, 6) {
        let mut sc = base(ctx, vec![Kind::Reply, Kind::Never, Kind::Shape(1), Kind::SendErr, Kind::AfterClose]);
        sc.wrapped = true;
        sc.ending = if ctx.rng.chance(1, 2) { Ending::LocalClose } else { Ending::PeerCloses };
        if sc.ending == Ending::LocalClose { sc.kinds[4] = Kind::SendErr } else { sc.kinds[3] = Kind::AfterClose }
        go(ctx, sc, "wrapped_scenarios");
    }
    // 11. a multi-thread runtime (4 workers): the receiver task, the timers and the calls really run in parallel; the
    //     traces are validated against the model without the sizes sampled at the points
    for p in perms(3) {
        let mut sc = base(ctx, vec![Kind::Reply; 3]);
        sc.order = p;
        sc.mt = true;
        go(ctx, sc, "mt_scenarios");
    }
    let each_mt = [Kind::Dup, Kind::DupLate, Kind::Never, Kind::Late, Kind::Unknown(0), Kind::Race, Kind::NoConn, Kind::DropAt(0), Kind::DropAt(1),
                   Kind::DropAt(2), Kind::DropAt(3), Kind::DropAt(4), Kind::DropAwait, Kind::Traced, Kind::Shape(2), Kind::Ignored(0)];
    for kd in each_mt {
        let pos = ctx.rng.below(3) as usize;
        let mut kinds = vec![Kind::Reply; 3];
        kinds[pos] = kd;
        let mut sc = base(ctx, kinds);
        sc.mt = true;
        go(ctx, sc, "mt_scenarios");
    }
    for _ in 0..ctx.n(3, 40) {
        // several calls answered about when their timers fire
        let mut sc = base(ctx, vec![Kind::Race, Kind::Race, Kind::Reply, Kind::Race, Kind::Race]);
        sc.mt = true;
        sc.max_yields = ctx.rng.range(0, 3) as u32;
        go(ctx, sc, "mt_race_scenarios");
    }
    for _ in 0..ctx.n(2, 6) {
        let mut sc = base(ctx, vec![Kind::Reply, Kind::Late, Kind::AfterClose, Kind::AfterClose]);
        sc.ending = Ending::PeerCloses;
        sc.mt = true;
        go(ctx, sc, "mt_scenarios");
    }
    for _ in 0..ctx.n(10, 150) {
        let k = ctx.rng.range(2, 7) as usize;
        let kinds: Vec<Kind> = (0..k).map(|_| random_kind(ctx)).collect();
        let mut sc = base(ctx, kinds);
        sc.max_yields = ctx.rng.range(0, 4) as u32;
        sc.mt = true;
        sc.wrapped = ctx.rng.chance(1, 3);
        if ctx.rng.chance(1, 3) {
            sc.proc_msgs = ctx.rng.range(1, 3) as u32;
        }
        go(ctx, sc, "mt_random_scenarios");
    }
    // 13. calls before and after `Node::start`: a node that was not started hands out reply pids with the placeholder
    //     creation 1; EPMD then assigns 1 again, 2, or 7; late replies to the early calls arrive while later calls wait
    for c in [1u32, 2, 7] {
        for (v, kinds, pre) in [(0, vec![Kind::Late, Kind::Never, Kind::Reply], 1usize),
                                (1, vec![Kind::Late, Kind::Never, Kind::Late, Kind::After(2), Kind::Reply, Kind::Never], 2),
                                (2, vec![Kind::DropAwait, Kind::Late, Kind::After(1), Kind::Never, Kind::Dup], 2),
                                (3, vec![Kind::Never, Kind::Late, Kind::Never, Kind::Late, Kind::Never, Kind::After(0), Kind::After(1)], 3)] {
            let mut sc = base(ctx, kinds);
            sc.prestart = pre;
            sc.epmd_creation = c;
            sc.wrapped = v == 2 && c == 2;
            sc.mt = v == 1 && c != 1;
            go(ctx, sc, "start_scenarios");
        }
    }
    for _ in 0..ctx.n(6, 80) {
        let pre = ctx.rng.range(1, 3) as usize;
        let k = ctx.rng.range(1, 4) as usize;
        let mut kinds: Vec<Kind> = (0..pre).map(|_| *ctx.rng.pick(&[Kind::Late, Kind::Late, Kind::Never, Kind::DropAwait])).collect();
        for _ in 0..k {
            let kd = match ctx.rng.below(8) {
                0 | 1 => Kind::Never,
                2 => Kind::Late,
                3 | 4 => Kind::After(ctx.rng.below(pre as u64) as u8),
                5 => Kind::Race,
                _ => Kind::Reply,
            };
            kinds.push(kd);
        }
        let mut sc = base(ctx, kinds);
        sc.prestart = pre;
        sc.epmd_creation = *ctx.rng.pick(&[1u32, 1, 2, 7, 8]);
        sc.mt = ctx.rng.chance(1, 3);
        sc.wrapped = ctx.rng.chance(1, 4);
        go(ctx, sc, "start_random_scenarios");
    }
    // 14. many calls at once, so that the key texts of different calls are prefixes of one another (1 / 10, 11, 12):
    //     the exit of the call with the short key (timeout, drop, no connection) must leave the others alone
    for kd in [Kind::Never, Kind::DropAwait, Kind::DropAt(3), Kind::NoConn] {
        let mut kinds = vec![Kind::Reply; 13];
        kinds[0] = kd;
        for i in 9..13 {
            kinds[i] = Kind::After(0);
        }
        let mut sc = base(ctx, kinds);
        sc.mt = kd == Kind::DropAwait;
        go(ctx, sc, "key_prefix_scenarios");
    }
    // 15. sequential calls with late copies of earlier replies arriving while a LATER call is outstanding
    sequential_families(ctx);
    // 12. term level: `into_rex_response`, the request frames of the wrappers and of the `erlang_*` calls
    term_ties(ctx);
}

/// a reply pid and the whole frame of a request
fn parse_any_request(frame: &[u8]) -> Option<ExternalPid> {
    if frame.first() != Some(&112) {
        return None;
    }
    let (_control, rest) = erltf::decoder::decode_with_trailing(&frame[1..]).ok()?;
    let (payload, _) = erltf::decoder::decode_with_trailing(rest).ok()?;
    let OwnedTerm::Tuple(v) = payload else { return None };
    let OwnedTerm::Pid(p) = v.first()? else { return None };
    Some(p.clone())
}

#[derive(Clone)]
enum CallSpec {
    /// `rpc_call_raw(m, f, args)`
    Raw(String, String, Vec<OwnedTerm>),
    /// `rpc_call_raw_with_timeout(m, f, args, 5 s)`
    RawT(String, String, Vec<OwnedTerm>),
    /// `rpc_call(m, f, args)`
    Call(String, String, Vec<OwnedTerm>),
    /// `rpc_call_with_timeout(m, f, args, 5 s)`
    CallT(String, String, Vec<OwnedTerm>),
    /// an `erlang_*` function with its parameters in the driver's convention
    Erl(&'static str, Vec<OwnedTerm>),
}

/// Runs the calls one after the other against a peer that answers request `j` with `bodies[j]`.
/// Returns per call the frame the peer read and the call's result.
async fn request_session(calls: Vec<CallSpec>, bodies: Vec<OwnedTerm>) -> Option<Vec<(Vec<u8>, Result<OwnedTerm, String>)>> {
    let case = CASE.fetch_add(1, std::sync::atomic::Ordering::SeqCst) + 1;
    let epmd = FakeEpmd::start().await;
    let short = format!("c17q{}", case);
    let peer_name = format!("{}@127.0.0.1", short);
    let listener = listen_as(&epmd, &short).await;
    let mut node = Node::new(format!("c17m{}@127.0.0.1", case), "secret");
    node.start(0).await.ok()?;
    let frames_seen: Arc<Mutex<Vec<Vec<u8>>>> = Arc::new(Mutex::new(vec![]));
    let fs = frames_seen.clone();
    let cfg = PeerCfg::new(&peer_name, "secret");
    let n_calls = calls.len();
    let peer = tokio::spawn(async move {
        let Some(mut pc) = accept_and_handshake(&listener, &cfg).await else { return };
        let mut frames = Frames { buf: vec![], closed: false };
        let mut j = 0;
        let t0 = Instant::now();
        while j < n_calls && t0.elapsed() < Duration::from_secs(20) && !frames.closed {
            if let Some(f) = frames.next(&mut pc, Duration::from_millis(50)).await {
                if let Some(p) = parse_any_request(&f) {
                    fs.lock().unwrap().push(f.clone());
                    let control = OwnedTerm::Tuple(vec![OwnedTerm::Integer(2), OwnedTerm::Atom(Atom::new("")), OwnedTerm::Pid(p)]);
                    pc.send_frame(&pass_through(&control, Some(&bodies[j]))).await;
                    j += 1;
                }
            }
        }
        // keep the socket open until the harness is done
        tokio::time::sleep(Duration::from_secs(30)).await;
    });
    if node.connect(peer_name.clone()).await.is_err() {
        peer.abort();
        return None;
    }
    let to = Duration::from_secs(5);
    let mut out = vec![];
    for (j, c) in calls.iter().enumerate() {
        let r = match c.clone() {
            CallSpec::Raw(m, f, a) => node.rpc_call_raw(&peer_name, &m, &f, a).await,
            CallSpec::RawT(m, f, a) => node.rpc_call_raw_with_timeout(&peer_name, &m, &f, a, to).await,
            CallSpec::Call(m, f, a) => node.rpc_call(&peer_name, &m, &f, a).await,
            CallSpec::CallT(m, f, a) => node.rpc_call_with_timeout(&peer_name, &m, &f, a, to).await,
            CallSpec::Erl(name, ps) => {
                let s = |t: &OwnedTerm| match t {
                    OwnedTerm::Binary(b) => String::from_utf8_lossy(b).to_string(),
                    _ => String::new(),
                };
                match name {
                    "erlang_system_info" => node.erlang_system_info(&peer_name, &s(&ps[0])).await,
                    "erlang_statistics" => node.erlang_statistics(&peer_name, &s(&ps[0])).await,
                    "erlang_memory" => node.erlang_memory(&peer_name).await,
                    "erlang_processes" => node.erlang_processes(&peer_name).await,
                    "erlang_process_info" => {
                        let items = match &ps[1] {
                            OwnedTerm::List(l) => l.iter().filter_map(|x| if let OwnedTerm::Atom(a) = x { Some(a.clone()) } else { None }).collect(),
                            _ => vec![],
                        };
                        node.erlang_process_info(&peer_name, ps[0].clone(), items).await
                    }
                    _ => node.erlang_list_to_pid(&peer_name, &s(&ps[0])).await,
                }
            }
        };
        let r = r.map_err(|e| match e {
            edp_node::Error::TermConversion(_) => "conversion".to_string(),
            edp_node::Error::RpcTimeout(_) => "timeout".to_string(),
            _ => "other".to_string(),
        });
        let frame = frames_seen.lock().unwrap().get(j).cloned().unwrap_or_default();
        out.push((frame, r));
    }
    let left = node.pending_rpc_count();
    peer.abort();
    if left != 0 {
        return None;
    }
    Some(out)
}

/// candidates for `into_rex_response`: pairs with `rex`, near misses, everything else
fn rex_candidate(r: &mut Rng, cfg: &crate::tgen::Cfg) -> (OwnedTerm, &'static str) {
    let x = crate::tgen::gen_term(r, cfg, 1);
    let rex = |n: &str| OwnedTerm::Atom(Atom::new(n));
    match r.below(12) {
        0..=2 => (OwnedTerm::Tuple(vec![rex("rex"), x]), "rex_pair"),
        3 => (OwnedTerm::Tuple(vec![rex(*r.pick(&["rexx", "re", "Rex", "", "ok", "error"])), x]), "other_atom_pair"),
        4 => (OwnedTerm::Tuple(vec![rex("rex")]), "rex_1_tuple"),
        5 => (OwnedTerm::Tuple(vec![rex("rex"), x.clone(), x]), "rex_3_tuple"),
        6 => (OwnedTerm::Tuple(vec![x, rex("rex")]), "rex_second"),
        7 => (OwnedTerm::Tuple(vec![OwnedTerm::Binary(b"rex".to_vec().into()), x]), "rex_as_binary"),
        8 => (OwnedTerm::List(vec![rex("rex"), x]), "rex_list"),
        9 => (OwnedTerm::Tuple(vec![]), "empty_tuple"),
        10 => (OwnedTerm::Tuple(vec![OwnedTerm::Tuple(vec![rex("rex"), x.clone()]), x]), "nested"),
        _ => (x, "any_term"),
    }
}

fn term_ties(ctx: &mut Ctx) {
    use crate::canon::{hex, pid_text as ptext, term_text};
    let cfg = crate::tgen::Cfg { max_depth: 3, wf: true, maps: true, local_ids: false, huge: false, funs: false };
    for _ in 0..ctx.n(80, 1500) {
        let (t, class) = rex_candidate(&mut ctx.rng, &cfg);
        ctx.count(&format!("rex_{}", class));
        let t2 = t.clone();
        let r = std::panic::catch_unwind(move || t2.into_rex_response());
        let res = match r {
            Ok(Ok(v)) => format!("ok {}", term_text(&v)),
            Ok(Err(_)) => "err".to_string(),
            Err(_) => "panic".to_string(),
        };
        ctx.tie("rex", &format!("c17rex {}", term_text(&t)), &res);
    }
    // request frames and results of the wrappers, against a peer that answers at once
    let acfg = crate::tgen::Cfg { max_depth: 2, wf: true, maps: false, local_ids: false, huge: false, funs: false };
    let mut calls = vec![];
    let mut bodies = vec![];
    let names = ["erlang", "c17", "m", "lists", "a_rather_long_module_name_0123456789"];
    for j in 0..ctx.n(16, 120) {
        let m = ctx.rng.pick(&names).to_string();
        let f = ctx.rng.pick(&["f", "node", "system_info", "x1"]).to_string();
        let n = ctx.rng.below(4) as usize;
        let args: Vec<OwnedTerm> = (0..n).map(|_| crate::tgen::gen_term(&mut ctx.rng, &acfg, 1)).collect();
        calls.push(match j % 4 {
            0 => CallSpec::Raw(m, f, args),
            1 => CallSpec::RawT(m, f, args),
            2 => CallSpec::Call(m, f, args),
            _ => CallSpec::CallT(m, f, args),
        });
        bodies.push(rex_candidate(&mut ctx.rng, &acfg).0);
    }
    let item = |s: &str| OwnedTerm::Binary(s.as_bytes().to_vec().into());
    let a_pid = OwnedTerm::Pid(ExternalPid::new(Atom::new("x@127.0.0.1"), 77, 3, 2));
    let erl: Vec<(&'static str, Vec<OwnedTerm>)> = vec![
        ("erlang_system_info", vec![item("otp_release")]),
        ("erlang_system_info", vec![item("process_count")]),
        ("erlang_statistics", vec![item("reductions")]),
        ("erlang_memory", vec![]),
        ("erlang_processes", vec![]),
        ("erlang_process_info", vec![a_pid.clone(), OwnedTerm::List(vec![OwnedTerm::Atom(Atom::new("memory")), OwnedTerm::Atom(Atom::new("status"))])]),
        ("erlang_process_info", vec![a_pid, OwnedTerm::List(vec![])]),
        ("erlang_list_to_pid", vec![item("<0.77.0>")]),
        ("erlang_list_to_pid", vec![item("")]),
        ("erlang_list_to_pid", vec![item("<0.\u{e9}\u{4e16}.0>")]),
    ];
    for (name, ps) in &erl {
        calls.push(CallSpec::Erl(name, ps.clone()));
        bodies.push(rex_candidate(&mut ctx.rng, &acfg).0);
    }
    let (tx, rx) = std::sync::mpsc::channel();
    let (c2, b2) = (calls.clone(), bodies.clone());
    std::thread::spawn(move || {
        let rt = tokio::runtime::Builder::new_current_thread().enable_all().build().unwrap();
        let o = rt.block_on(request_session(c2, b2));
        let _ = tx.send(o);
    });
    let Some(Some(res)) = rx.recv_timeout(Duration::from_secs(90)).ok() else {
        ctx.fail("c17-request-session", "the sequential calls against an answering peer did not all return with an empty table");
        return;
    };
    for (j, (frame, r)) in res.iter().enumerate() {
        let Some(pid) = parse_any_request(frame) else {
            ctx.fail("c17-request-session", &format!("call {} wrote no request the peer could read", j));
            continue;
        };
        let pid_t = ptext(&pid);
        let (wrapped, req) = match &calls[j] {
            CallSpec::Raw(m, f, a) | CallSpec::RawT(m, f, a) =>
                (false, format!("c17req {} {} {} {}", pid_t, hex(m.as_bytes()), hex(f.as_bytes()), term_text(&OwnedTerm::List(a.clone())))),
            CallSpec::Call(m, f, a) | CallSpec::CallT(m, f, a) =>
                (true, format!("c17req {} {} {} {}", pid_t, hex(m.as_bytes()), hex(f.as_bytes()), term_text(&OwnedTerm::List(a.clone())))),
            CallSpec::Erl(name, ps) => (true, format!("c17erl {} {} {}", name, pid_t, term_text(&OwnedTerm::List(ps.clone())))),
        };
        ctx.count(match &calls[j] {
            CallSpec::Raw(..) => "req_rpc_call_raw",
            CallSpec::RawT(..) => "req_rpc_call_raw_with_timeout",
            CallSpec::Call(..) => "req_rpc_call",
            CallSpec::CallT(..) => "req_rpc_call_with_timeout",
            CallSpec::Erl(..) => "req_erlang_fn",
        });
        ctx.tie("req", &req, &hex(frame));
        // the request as an independent reader of the wire sees it, against what the call was asked to do
        match &calls[j] {
            CallSpec::Raw(m, f, a) | CallSpec::RawT(m, f, a) | CallSpec::Call(m, f, a) | CallSpec::CallT(m, f, a) => ctx.prop(
                "gen", &format!("c17reqspec {} {} {} {} {}", hex(frame), pid_t, hex(m.as_bytes()), hex(f.as_bytes()), term_text(&OwnedTerm::List(a.clone()))), "ok"),
            CallSpec::Erl(name, ps) => ctx.prop("gen", &format!("c17erlspec {} {} {} {}", hex(frame), name, pid_t, term_text(&OwnedTerm::List(ps.clone()))), "ok"),
        }
        // the result: the second element of a `{rex, Result}` body for the wrappers, the body itself for the raw calls
        let want = match (&bodies[j], wrapped) {
            (b, false) => Some(b.clone()),
            (OwnedTerm::Tuple(v), true) if v.len() == 2 && matches!(&v[0], OwnedTerm::Atom(a) if a.as_str() == "rex") => Some(v[1].clone()),
            _ => None,
        };
        let want = want.map(|w| erltf::encode(&w).ok().and_then(|b| erltf::decode(&b).ok()));
        let fine = match (&want, r) {
            (Some(Some(w)), Ok(v)) => w == v,
            (None, Err(e)) => e == "conversion",
            (Some(None), _) => true,
            _ => false,
        };
        if !fine {
            ctx.fail("gen", &format!("c17-request-session call {} ({}) answered with {} returned {:?}", j, req, term_text(&bodies[j]),
                                     r.as_ref().map(term_text)));
        }
        // what the node saw of the body: the body after one trip through the codec
        let seen = erltf::encode(&bodies[j]).ok().and_then(|b| erltf::decode(&b).ok());
        let Some(seen) = seen else { continue };
        let res = match r {
            Ok(v) => format!("ok {}", term_text(v)),
            Err(e) => format!("err:{}", e),
        };
        if wrapped {
            ctx.tie("wrap", &format!("c17wrap ok {}", term_text(&seen)), &res);
        } else {
            // the raw call returns the body as it is
            ctx.tie("raw", &format!("c17rawbody {}", term_text(&seen)), &res);
        }
    }
}

fn probe(ctx: &mut Ctx) {
    // the receiver task ends (peer closed) while a call sits between `connections.get` and `lock().await`
    let mut sc = base(ctx, vec![Kind::Never, Kind::Never]);
    sc.long_stay = Some((1, 2, 300000));
    sc.close_after_requests = Some(1);
    let o = run_scenario_within(&sc, Duration::from_secs(8));
    eprintln!("close while a call holds the map reference: {:?}", o.as_ref().map(|o| (o.outcomes.clone(), o.fin, o.trace.clone())));
    // a call future dropped while it waits
    for kd in [Kind::DropAwait, Kind::DropAt(0), Kind::DropAt(1), Kind::DropAt(2), Kind::DropAt(3)] {
        let sc = base(ctx, vec![kd, Kind::Reply]);
        let o = run_scenario_within(&sc, Duration::from_secs(20));
        eprintln!("{:?}: {:?}", kd, o.as_ref().map(|o| (o.outcomes.clone(), o.fin, o.trace.clone())));
    }
}
