import EdpVerif.Impl.Connect
import EdpVerif.Lemmas.Handshake
import EdpVerif.Lemmas.Epmd
/-! Lemmas about the model of `Connection::connect`: each helper step characterised, the six steps chained, and
"an error never ends in Connected" by induction over an arbitrary step list. -/
namespace Edp.Impl.Connect
open Edp Edp.Impl.Handshake Edp.Spec.Handshake Edp.Lemmas.Handshake

/-- the old-style send_name `prepare_send_name` builds -/
def nameMsg (cfg : Cfg) : Bytes :=
  be16 (1 + 2 + 4 + cfg.name.length) ++ [tagNOld] ++ be16 version5 ++ be32 (cfg.flags % 4294967296) ++ cfg.name
/-- the complement `prepare_complement` builds -/
def complMsg (cfg : Cfg) : Bytes := be16 9 ++ [tagC] ++ be32 (cfg.flags / 4294967296) ++ be32 cfg.creation

theorem send_name_iff (cfg : Cfg) (dg : Bytes → Nat → Bytes) (c : Nat) (wr : WrEv) (s : State) (w : List Bytes) (a' : Acc)
    (hs : s.state = .connecting) :
    sendStep cfg dg c "prepare_send_name" wr ⟨s, w⟩ = (a', .ok ()) ↔
      cfg.name.length ≤ 255 ∧ wr = .ok ∧ a' = ⟨{ s with state := .awaitingStatus }, w ++ [nameMsg cfg]⟩ := by
  simp only [sendStep, opOf, ↓reduceIte, step, hs, ne_eq, not_true_eq_false, encodeSendNameOld]
  by_cases hn : cfg.name.length > 255
  · simp [hn]; omega
  · have hn' : cfg.name.length ≤ 255 := by omega
    cases wr <;> simp [hn, hn', nameMsg] <;> exact eq_comm

theorem recv_status_iff (cfg : Cfg) (dg : Bytes → Nat → Bytes) (c : Nat) (ev : PeerEv) (s : State) (w : List Bytes) (a' : Acc)
    (hs : s.state = .awaitingStatus) :
    recvStep cfg dg c "handle_status" ev ⟨s, w⟩ = (a', .ok ()) ↔
      ∃ sb st, ev = .frame sb ∧ parseStatus sb = some st ∧ st.accepts = true ∧ a' = ⟨{ s with state := .awaitingChallenge }, w⟩ := by
  cases ev with
  | close => simp [recvStep]
  | silent => simp [recvStep]
  | frame b =>
    simp only [recvStep, opOf, step, hs, decodeStatus_eq]
    simp only [show ("handle_status" = "prepare_send_name") = False by decide, ↓reduceIte, ne_eq, not_true_eq_false]
    cases hp : parseStatus b with
    | none => simp [hp]
    | some st =>
      cases ha : st.accepts
      · simp [hp, convStatus_isOk, ha]
      · simp [hp, convStatus_isOk, ha]; exact eq_comm

theorem send_compl_iff (cfg : Cfg) (dg : Bytes → Nat → Bytes) (c : Nat) (wr : WrEv) (s : State) (w : List Bytes) (a' : Acc)
    (hs : s.state = .awaitingChallenge) :
    sendStep cfg dg c "prepare_complement" wr ⟨s, w⟩ = (a', .ok ()) ↔ wr = .ok ∧ a' = ⟨s, w ++ [complMsg cfg]⟩ := by
  simp only [sendStep, opOf, step, hs]
  simp only [show ("prepare_complement" = "prepare_send_name") = False by decide,
    show ("prepare_complement" = "handle_status") = False by decide, ↓reduceIte, ne_eq, not_true_eq_false]
  cases wr <;> simp [complMsg] <;> exact eq_comm

theorem recv_chal_iff (cfg : Cfg) (dg : Bytes → Nat → Bytes) (c : Nat) (ev : PeerEv) (s : State) (w : List Bytes) (a' : Acc)
    (hs : s.state = .awaitingChallenge) :
    recvStep cfg dg c "handle_challenge" ev ⟨s, w⟩ = (a', .ok ()) ↔
      ∃ cb m, ev = .frame cb ∧ parseChallenge cb = some m ∧
        a' = ⟨⟨.sendingChallengeReply, some c, some m.challenge, some (m.flags &&& cfg.flags)⟩, w⟩ := by
  cases ev with
  | close => simp [recvStep]
  | silent => simp [recvStep]
  | frame b =>
    simp only [recvStep, opOf, step, hs, decodeChallenge_eq]
    simp only [show ("handle_challenge" = "prepare_send_name") = False by decide,
      show ("handle_challenge" = "handle_status") = False by decide,
      show ("handle_challenge" = "prepare_complement") = False by decide, ↓reduceIte, ne_eq, not_true_eq_false]
    cases hp : parseChallenge b with
    | none => simp [hp]
    | some m => simp [hp, convMsg]; exact eq_comm

theorem send_reply_iff (cfg : Cfg) (dg : Bytes → Nat → Bytes) (c : Nat) (wr : WrEv) (s : State) (w : List Bytes) (a' : Acc)
    (o t : Nat) (hs : s.state = .sendingChallengeReply) (ho : s.our = some o) (ht : s.their = some t) :
    sendStep cfg dg c "prepare_challenge_reply" wr ⟨s, w⟩ = (a', .ok ()) ↔
      wr = .ok ∧ a' = ⟨{ s with state := .awaitingChallengeAck }, w ++ [encodeReply o (dg cfg.cookie t)]⟩ := by
  simp only [sendStep, opOf, step, hs, ho, ht]
  simp only [show ("prepare_challenge_reply" = "prepare_send_name") = False by decide,
    show ("prepare_challenge_reply" = "handle_status") = False by decide,
    show ("prepare_challenge_reply" = "prepare_complement") = False by decide,
    show ("prepare_challenge_reply" = "handle_challenge") = False by decide, ↓reduceIte, ne_eq, not_true_eq_false]
  cases wr <;> simp <;> exact eq_comm

theorem recv_ack_iff (cfg : Cfg) (dg : Bytes → Nat → Bytes) (c : Nat) (ev : PeerEv) (s : State) (w : List Bytes) (a' : Acc)
    (o : Nat) (hs : s.state = .awaitingChallengeAck) (ho : s.our = some o) :
    recvStep cfg dg c "handle_challenge_ack" ev ⟨s, w⟩ = (a', .ok ()) ↔
      ∃ ab, ev = .frame ab ∧ parseAck ab = some (dg cfg.cookie o) ∧ a' = ⟨{ s with state := .connected }, w⟩ := by
  cases ev with
  | close => simp [recvStep]
  | silent => simp [recvStep]
  | frame b =>
    simp only [recvStep, opOf, step, hs, ho, decodeAck_eq]
    simp only [show ("handle_challenge_ack" = "prepare_send_name") = False by decide,
      show ("handle_challenge_ack" = "handle_status") = False by decide,
      show ("handle_challenge_ack" = "prepare_complement") = False by decide,
      show ("handle_challenge_ack" = "handle_challenge") = False by decide,
      show ("handle_challenge_ack" = "prepare_challenge_reply") = False by decide, ↓reduceIte, ne_eq, not_true_eq_false]
    cases hp : parseAck b with
    | none => simp [hp]
    | some d =>
      by_cases hd : d = dg cfg.cookie o
      · simp [hp, hd]; exact eq_comm
      · simp [hp, hd]

/-- the machine after `begin_connect` on a fresh connection -/
def sBegun : State := ⟨.connecting, none, none, none⟩

/-- the six helpers from the begun state: they all succeed exactly when every write went out and the peer sent, in
turn, an accepting status, a well-formed challenge and the digest of (cookie, the challenge generated here) -/
theorem handshake_ok_iff (cfg : Cfg) (dg : Bytes → Nat → Bytes) (c : Nat) (e1 e2 e3 : PeerEv) (w1 w2 w3 : WrEv) (af : Acc) :
    runSteps cfg dg c Gen.CONNECT_STEPS [e1, e2, e3] [w1, w2, w3] ⟨sBegun, []⟩ = (af, .ok ()) ↔
      cfg.name.length ≤ 255 ∧ w1 = .ok ∧ w2 = .ok ∧ w3 = .ok ∧
      (∃ sb st, e1 = .frame sb ∧ parseStatus sb = some st ∧ st.accepts = true) ∧
      (∃ cb m, e2 = .frame cb ∧ parseChallenge cb = some m ∧
        (∃ ab, e3 = .frame ab ∧ parseAck ab = some (dg cfg.cookie c)) ∧
        af = ⟨⟨.connected, some c, some m.challenge, some (m.flags &&& cfg.flags)⟩,
              [nameMsg cfg, complMsg cfg, encodeReply c (dg cfg.cookie m.challenge)]⟩) := by
  simp only [Gen.CONNECT_STEPS, runSteps, ↓reduceIte, List.headD_cons, List.tail_cons,
    show ("read" = "write_raw") = False by decide]
  rcases h1 : sendStep cfg dg c "prepare_send_name" w1 ⟨sBegun, []⟩ with ⟨a1, r1⟩
  have i1 := send_name_iff cfg dg c w1 sBegun [] a1 rfl
  rw [h1] at i1
  cases r1 with
  | error e =>
    simp only [Prod.mk.injEq, reduceCtorEq, and_false, false_iff, not_and]
    intro hn hw
    have := (send_name_iff cfg dg c w1 sBegun [] _ rfl).mpr ⟨hn, hw, rfl⟩
    rw [h1] at this; simp at this
  | ok u =>
    cases u
    obtain ⟨hn, hw1, ha1⟩ := i1.mp rfl
    subst ha1
    simp only [hn, hw1, true_and, List.nil_append]
    rcases h2 : recvStep cfg dg c "handle_status" e1 ⟨{ sBegun with state := .awaitingStatus }, [nameMsg cfg]⟩ with ⟨a2, r2⟩
    have i2 := recv_status_iff cfg dg c e1 { sBegun with state := .awaitingStatus } [nameMsg cfg] a2 rfl
    rw [h2] at i2
    cases r2 with
    | error e =>
      simp only [Prod.mk.injEq, reduceCtorEq, and_false, false_iff, not_and]
      intro _ _ ⟨sb, st, he, hp, ha⟩
      have := (recv_status_iff cfg dg c e1 { sBegun with state := .awaitingStatus } [nameMsg cfg] _ rfl).mpr ⟨sb, st, he, hp, ha, rfl⟩
      rw [h2] at this; simp at this
    | ok u =>
      cases u
      obtain ⟨sb, st, he1, hp1, hacc, ha2⟩ := i2.mp rfl
      subst ha2
      simp only
      rcases h3 : sendStep cfg dg c "prepare_complement" w2 ⟨{ sBegun with state := .awaitingChallenge }, [nameMsg cfg]⟩ with ⟨a3, r3⟩
      have i3 := send_compl_iff cfg dg c w2 { sBegun with state := .awaitingChallenge } [nameMsg cfg] a3 rfl
      rw [h3] at i3
      cases r3 with
      | error e =>
        simp only [Prod.mk.injEq, reduceCtorEq, and_false, false_iff, not_and]
        intro hw
        have := (send_compl_iff cfg dg c w2 { sBegun with state := .awaitingChallenge } [nameMsg cfg] _ rfl).mpr ⟨hw, rfl⟩
        rw [h3] at this; simp at this
      | ok u =>
        cases u
        obtain ⟨hw2, ha3⟩ := i3.mp rfl
        subst ha3
        simp only [hw2, true_and]
        rcases h4 : recvStep cfg dg c "handle_challenge" e2 ⟨{ sBegun with state := .awaitingChallenge }, [nameMsg cfg] ++ [complMsg cfg]⟩ with ⟨a4, r4⟩
        have i4 := recv_chal_iff cfg dg c e2 { sBegun with state := .awaitingChallenge } ([nameMsg cfg] ++ [complMsg cfg]) a4 rfl
        rw [h4] at i4
        cases r4 with
        | error e =>
          simp only [Prod.mk.injEq, reduceCtorEq, and_false, false_iff, not_and]
          intro _ _ ⟨cb, m, he, hp, _⟩
          have := (recv_chal_iff cfg dg c e2 { sBegun with state := .awaitingChallenge } ([nameMsg cfg] ++ [complMsg cfg]) _ rfl).mpr ⟨cb, m, he, hp, rfl⟩
          rw [h4] at this; simp at this
        | ok u =>
          cases u
          obtain ⟨cb, m, he2, hp2, ha4⟩ := i4.mp rfl
          subst ha4
          simp only
          rcases h5 : sendStep cfg dg c "prepare_challenge_reply" w3
            ⟨⟨.sendingChallengeReply, some c, some m.challenge, some (m.flags &&& cfg.flags)⟩, [nameMsg cfg] ++ [complMsg cfg]⟩ with ⟨a5, r5⟩
          have i5 := send_reply_iff cfg dg c w3 ⟨.sendingChallengeReply, some c, some m.challenge, some (m.flags &&& cfg.flags)⟩
            ([nameMsg cfg] ++ [complMsg cfg]) a5 c m.challenge rfl rfl rfl
          rw [h5] at i5
          cases r5 with
          | error e =>
            simp only [Prod.mk.injEq, reduceCtorEq, and_false, false_iff, not_and]
            intro hw
            have := (send_reply_iff cfg dg c w3 ⟨.sendingChallengeReply, some c, some m.challenge, some (m.flags &&& cfg.flags)⟩
              ([nameMsg cfg] ++ [complMsg cfg]) _ c m.challenge rfl rfl rfl).mpr ⟨hw, rfl⟩
            rw [h5] at this; simp at this
          | ok u =>
            cases u
            obtain ⟨hw3, ha5⟩ := i5.mp rfl
            subst ha5
            simp only [hw3, true_and]
            rcases h6 : recvStep cfg dg c "handle_challenge_ack" e3
              ⟨⟨.awaitingChallengeAck, some c, some m.challenge, some (m.flags &&& cfg.flags)⟩,
                [nameMsg cfg] ++ [complMsg cfg] ++ [encodeReply c (dg cfg.cookie m.challenge)]⟩ with ⟨a6, r6⟩
            have i6 := recv_ack_iff cfg dg c e3 ⟨.awaitingChallengeAck, some c, some m.challenge, some (m.flags &&& cfg.flags)⟩
              ([nameMsg cfg] ++ [complMsg cfg] ++ [encodeReply c (dg cfg.cookie m.challenge)]) a6 c rfl rfl
            rw [h6] at i6
            have hex1 : ∃ sb st, e1 = PeerEv.frame sb ∧ parseStatus sb = some st ∧ st.accepts = true := ⟨sb, st, he1, hp1, hacc⟩
            cases r6 with
            | error e =>
              simp only [Prod.mk.injEq, reduceCtorEq, and_false, false_iff, not_and]
              intro _ ⟨cb', m', _, _, ⟨ab, he, hp⟩, _⟩
              have := (recv_ack_iff cfg dg c e3 ⟨.awaitingChallengeAck, some c, some m.challenge, some (m.flags &&& cfg.flags)⟩
                ([nameMsg cfg] ++ [complMsg cfg] ++ [encodeReply c (dg cfg.cookie m.challenge)]) _ c rfl rfl).mpr ⟨ab, he, hp, rfl⟩
              rw [h6] at this; simp at this
            | ok u =>
              cases u
              obtain ⟨ab, he3, hp3, ha6⟩ := i6.mp rfl
              subst ha6
              simp only [Prod.mk.injEq, and_true]
              constructor
              · intro h
                subst h
                refine ⟨hex1, cb, m, he2, hp2, ⟨ab, he3, hp3⟩, rfl⟩
              · rintro ⟨_, cb', m', he2', hp2', _, haf⟩
                have : cb' = cb := by rw [he2] at he2'; injection he2' with h; exact h.symm
                subst this
                rw [hp2] at hp2'
                injection hp2' with h
                subst h
                exact haf.symm

/-- the only call that enters `Connected` is a successful `handle_challenge_ack` -/
theorem step_enter_connected (cfg : Cfg) (dg : Bytes → Nat → Bytes) (s : State) (op : Op)
    (hn : s.state ≠ .connected) (hc : (step cfg dg s op).1.state = .connected) :
    (∃ d, op = .handleChallengeAck d) ∧ (step cfg dg s op).2 = .unit := by
  cases op with
  | handleChallengeAck d =>
    refine ⟨⟨d, rfl⟩, ?_⟩
    revert hc
    simp only [step]
    repeat' split
    all_goals simp_all
  | _ =>
    revert hc
    simp only [step]
    repeat' split
    all_goals simp_all

theorem opOf_ack (m : String) (b : Bytes) (c : Nat) (d : Bytes) (h : opOf m b c = some (.handleChallengeAck d)) :
    m = "handle_challenge_ack" := by
  unfold opOf at h
  repeat' split at h
  all_goals simp_all

theorem sendStep_not_connected (cfg : Cfg) (dg : Bytes → Nat → Bytes) (c : Nat) (m : String) (wr : WrEv) (a a' : Acc)
    (r : Except CErr Unit) (hn : a.st.state ≠ .connected) (h : sendStep cfg dg c m wr a = (a', r)) :
    a'.st.state ≠ .connected := by
  intro hc
  unfold sendStep at h
  split at h
  · simp at h; rw [← h.1] at hc; exact hn hc
  · rename_i op hop
    have key : ∀ s' o, step cfg dg a.st op = (s', o) → s'.state = .connected → o = .unit := by
      intro s' o hs hcs
      have := step_enter_connected cfg dg a.st op hn (by rw [hs]; exact hcs)
      rw [hs] at this; exact this.2
    split at h
    · rename_i s' b hs
      have := key s' _ hs
      split at h <;> (simp at h; rw [← h.1] at hc; simp at hc; simp [hc] at this)
    · rename_i s' e hs
      have := key s' _ hs
      simp at h; rw [← h.1] at hc; simp at hc; simp [hc] at this
    · rename_i s' hs
      have := key s' _ hs
      simp at h; rw [← h.1] at hc; simp at hc; simp [hc] at this
    · simp at h; rw [← h.1] at hc; exact hn hc

theorem recvStep_not_connected (cfg : Cfg) (dg : Bytes → Nat → Bytes) (c : Nat) (m : String) (ev : PeerEv) (a a' : Acc)
    (r : Except CErr Unit) (hn : a.st.state ≠ .connected) (h : recvStep cfg dg c m ev a = (a', r))
    (hm : r = .ok () → m ≠ "handle_challenge_ack") :
    a'.st.state ≠ .connected := by
  intro hc
  unfold recvStep at h
  split at h
  · simp at h; rw [← h.1] at hc; exact hn hc
  · simp at h; rw [← h.1] at hc; exact hn hc
  · rename_i b
    split at h
    · simp at h; rw [← h.1] at hc; exact hn hc
    · rename_i op hop
      have key : ∀ s' o, step cfg dg a.st op = (s', o) → s'.state = .connected → o = .unit ∧ m = "handle_challenge_ack" := by
        intro s' o hs hcs
        have := step_enter_connected cfg dg a.st op hn (by rw [hs]; exact hcs)
        rw [hs] at this
        obtain ⟨⟨d, hd⟩, h2⟩ := this
        subst hd
        exact ⟨h2, opOf_ack m b c d hop⟩
      split at h
      · rename_i s' hs
        have := key s' _ hs
        simp at h; rw [← h.1] at hc; simp at hc
        exact hm h.2.symm (this hc).2
      · rename_i s' e hs
        have := key s' _ hs
        simp at h; rw [← h.1] at hc; simp at hc; simp [hc] at this
      · rename_i s' hs
        have := key s' _ hs
        simp at h; rw [← h.1] at hc; simp at hc; simp [hc] at this
      · simp at h; rw [← h.1] at hc; exact hn hc

/-- whatever the step list: when the acknowledgement is read by the LAST step only, a run that ends in an error does not
end in `Connected` -/
theorem runSteps_error_not_connected (cfg : Cfg) (dg : Bytes → Nat → Bytes) (c : Nat) :
    ∀ (steps : List (String × String × String)) (evs : List PeerEv) (ws : List WrEv) (a a' : Acc) (e : CErr),
      (∀ x ∈ steps.dropLast, x.2.1 ≠ "handle_challenge_ack") → a.st.state ≠ .connected →
      runSteps cfg dg c steps evs ws a = (a', .error e) → a'.st.state ≠ .connected := by
  intro steps
  induction steps with
  | nil => intro evs ws a a' e _ _ h; simp [runSteps] at h
  | cons x rest ih =>
    intro evs ws a a' e hdl hn h
    obtain ⟨hname, m, io⟩ := x
    have hrest : ∀ y ∈ rest.dropLast, y.2.1 ≠ "handle_challenge_ack" := by
      intro y hy
      cases rest with
      | nil => simp at hy
      | cons z zs => exact hdl y (by simp [List.dropLast]; right; exact hy)
    simp only [runSteps] at h
    split at h
    · rcases hs : sendStep cfg dg c m (ws.headD .ok) a with ⟨a1, r1⟩
      have hn1 := sendStep_not_connected cfg dg c m _ a a1 r1 hn hs
      rw [hs] at h
      cases r1 with
      | error e1 => simp at h; rw [← h.1]; exact hn1
      | ok u => cases u; exact ih _ _ a1 a' e hrest hn1 h
    · split at h
      · rcases hs : recvStep cfg dg c m (evs.headD .silent) a with ⟨a1, r1⟩
        rw [hs] at h
        cases r1 with
        | error e1 =>
          simp at h; rw [← h.1]
          exact recvStep_not_connected cfg dg c m _ a a1 _ hn hs (by simp)
        | ok u =>
          cases u
          cases rest with
          | nil => simp [runSteps] at h
          | cons z zs =>
            have hm : m ≠ "handle_challenge_ack" := hdl (hname, m, io) (by simp [List.dropLast])
            have hn1 := recvStep_not_connected cfg dg c m _ a a1 _ hn hs (fun _ => hm)
            exact ih _ _ a1 a' e hrest hn1 h
      · simp at h; rw [← h.1]; exact hn

theorem splitOnce_of_validate (name : Bytes) (p : Bytes × Bytes) (h : validateNodeName name = .ok p) :
    splitOnce name = some p := by
  unfold validateNodeName at h
  split at h
  · simp at h
  · split at h
    · simp at h
    · split at h
      · simp at h
      · simp at h; subst h; assumption

/-- a successful lookup implies the remote name has an '@' (the split `connect` itself makes cannot fail after it) -/
theorem lookup_split (env : Env) (p : Nat) (h : lookupRemote env = .ok p) : ∃ q, splitOnce env.remote = some q := by
  unfold lookupRemote at h
  split at h
  · simp at h
  · rename_i n hh hv
    exact ⟨_, splitOnce_of_validate _ _ hv⟩

end Edp.Impl.Connect
