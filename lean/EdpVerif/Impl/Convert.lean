import EdpVerif.Impl.Decode
/-
Model of crates/erltf/src/borrowed.rs: the zero-copy term type `BorrowedTerm<'a>` as a type of its own (`BTerm`), and the
conversions between the two representations, arm by arm as they are written in the source:

* `BorrowedTerm::to_owned`            → `toOwned`      (17 arms)
* `From<&OwnedTerm> for BorrowedTerm`  → `fromOwned`    (17 arms)
* `BorrowedTerm::is_borrowed`          → `isBorrowed`   (8 arms + `_ => false`)
* `#[derive(Clone)]` of `ExternalPid` / `ExternalPort` / `ExternalReference` (types.rs) → `clonePid` / `clonePort` / `cloneRef`:
  field by field, the preserved LOCAL_EXT bytes included (which fields there are is regenerated, `Gen.C10_*_FIELDS`)
* `#[derive(Clone)]` of `OwnedTerm` / `BorrowedTerm` → `cloneT` / `cloneB`

`Cow<'a, _>` is a flag (`true` = `Cow::Borrowed`).  The free variables of a fun are owned terms in both representations
(`Box<InternalFun>`).  `.collect()` into a `BTreeMap` re-inserts every pair under the order of the TARGET key type:
`insertAll` (`mapInsert` under `Term.cmp`) for `to_owned`, `insertAllB` for `From` — `BorrowedTerm::cmp` is the order of the
converted terms (that is C12's statement; tied to `Term.cmp` by the `c11cmp`/`c12cmp` lines on `BorrowedTerm::from` of both sides).
-/
namespace Edp

inductive BTerm where
  | atom (borrowed : Bool) (n : Bytes)
  | int (i : Int)
  | float (bits : Nat)
  | pid (p : PidF)
  | port (node : Bytes) (id creation : Nat) (loc : Option Bytes)
  | ref (node : Bytes) (creation : Nat) (ids : List Nat) (loc : Option Bytes)
  | bin (borrowed : Bool) (b : Bytes)
  | bits (borrowed : Bool) (b : Bytes) (n : Nat)
  | str (borrowed : Bool) (s : Bytes)
  | list (l : List BTerm)
  | ilist (l : List BTerm) (tail : BTerm)
  | map (kvs : List (BTerm × BTerm))
  | tuple (l : List BTerm)
  | big (neg : Bool) (digits : Bytes)
  | xfun (m f : Bytes) (arity : Nat)
  | ifun (arity : Nat) (uniq : Bytes) (index numFree : Nat) (mod : Bytes)
         (oldIndex oldUniq : Nat) (pid : PidF) (free : List Term)
  | nil
  deriving Repr, Inhabited

/-! ### `derive(Clone)` of the identifier structs: every field, the preserved bytes among them -/

/-- `<ExternalPid as Clone>::clone` -/
def clonePid (p : PidF) : PidF :=
  { node := p.node, id := p.id, serial := p.serial, creation := p.creation, loc := p.loc }

/-- `<ExternalPort as Clone>::clone` (the model keeps the struct's fields as constructor arguments) -/
def clonePort (node : Bytes) (id creation : Nat) (loc : Option Bytes) : Bytes × Nat × Nat × Option Bytes :=
  (node, id, creation, loc)

/-- `<ExternalReference as Clone>::clone` -/
def cloneRef (node : Bytes) (creation : Nat) (ids : List Nat) (loc : Option Bytes) : Bytes × Nat × List Nat × Option Bytes :=
  (node, creation, ids, loc)

mutual
/-- `<OwnedTerm as Clone>::clone` (derived: constructor by constructor, field by field) -/
def cloneT : Term → Term
  | .atom n => .atom n
  | .int i => .int i
  | .float b => .float b
  | .pid p => .pid (clonePid p)
  | .port n i c l => let (n', i', c', l') := clonePort n i c l; .port n' i' c' l'
  | .ref n c ids l => let (n', c', ids', l') := cloneRef n c ids l; .ref n' c' ids' l'
  | .bin b => .bin b
  | .bits b n => .bits b n
  | .str s => .str s
  | .list l => .list (cloneTL l)
  | .ilist l t => .ilist (cloneTL l) (cloneT t)
  | .map kvs => .map (cloneTKV kvs)
  | .tuple l => .tuple (cloneTL l)
  | .big neg d => .big neg d
  | .xfun m f a => .xfun m f a
  | .ifun a u i nf m oi ou p fr => .ifun a u i nf m oi ou (clonePid p) (cloneTL fr)
  | .nil => .nil
def cloneTL : List Term → List Term
  | [] => []
  | t :: ts => cloneT t :: cloneTL ts
def cloneTKV : List (Term × Term) → List (Term × Term)
  | [] => []
  | (k, v) :: r => (cloneT k, cloneT v) :: cloneTKV r
end

mutual
/-- `<BorrowedTerm as Clone>::clone` (derived; a cloned `Cow::Borrowed` stays borrowed, a `Cow::Owned` stays owned) -/
def cloneB : BTerm → BTerm
  | .atom c n => .atom c n
  | .int i => .int i
  | .float b => .float b
  | .pid p => .pid (clonePid p)
  | .port n i c l => let (n', i', c', l') := clonePort n i c l; .port n' i' c' l'
  | .ref n c ids l => let (n', c', ids', l') := cloneRef n c ids l; .ref n' c' ids' l'
  | .bin c b => .bin c b
  | .bits c b n => .bits c b n
  | .str c s => .str c s
  | .list l => .list (cloneBL l)
  | .ilist l t => .ilist (cloneBL l) (cloneB t)
  | .map kvs => .map (cloneBKV kvs)
  | .tuple l => .tuple (cloneBL l)
  | .big neg d => .big neg d
  | .xfun m f a => .xfun m f a
  | .ifun a u i nf m oi ou p fr => .ifun a u i nf m oi ou (clonePid p) (cloneTL fr)
  | .nil => .nil
def cloneBL : List BTerm → List BTerm
  | [] => []
  | t :: ts => cloneB t :: cloneBL ts
def cloneBKV : List (BTerm × BTerm) → List (BTerm × BTerm)
  | [] => []
  | (k, v) :: r => (cloneB k, cloneB v) :: cloneBKV r
end

/-! ### the structural image (no re-collection): what the tree holds, ownership flags forgotten -/

mutual
def erase : BTerm → Term
  | .atom _ n => .atom n
  | .int i => .int i
  | .float b => .float b
  | .pid p => .pid p
  | .port n i c l => .port n i c l
  | .ref n c ids l => .ref n c ids l
  | .bin _ b => .bin b
  | .bits _ b n => .bits b n
  | .str _ s => .str s
  | .list l => .list (eraseL l)
  | .ilist l t => .ilist (eraseL l) (erase t)
  | .map kvs => .map (eraseKV kvs)
  | .tuple l => .tuple (eraseL l)
  | .big neg d => .big neg d
  | .xfun m f a => .xfun m f a
  | .ifun a u i nf m oi ou p fr => .ifun a u i nf m oi ou p fr
  | .nil => .nil
def eraseL : List BTerm → List Term
  | [] => []
  | t :: ts => erase t :: eraseL ts
def eraseKV : List (BTerm × BTerm) → List (Term × Term)
  | [] => []
  | (k, v) :: r => (erase k, erase v) :: eraseKV r
end

/-- `BorrowedTerm::cmp` (C12: the order of the converted terms) -/
def BTerm.cmp (a b : BTerm) : Ordering := Term.cmp (erase a) (erase b)

/-- `BTreeMap<BorrowedTerm, _>::insert` -/
def mapInsertB : List (BTerm × BTerm) → BTerm → BTerm → List (BTerm × BTerm)
  | [], k, v => [(k, v)]
  | (k', v') :: r, k, v =>
    match BTerm.cmp k k' with
    | .lt => (k, v) :: (k', v') :: r
    | .eq => (k', v) :: r
    | .gt => (k', v') :: mapInsertB r k v

/-- `.collect::<BTreeMap<BorrowedTerm, _>>()` of the pairs in iteration order -/
def insertAllB (m : List (BTerm × BTerm)) : List (BTerm × BTerm) → List (BTerm × BTerm)
  | [] => m
  | (k, v) :: r => insertAllB (mapInsertB m k v) r

/-- `.collect::<BTreeMap<OwnedTerm, _>>()` -/
def collectT (m : List (Term × Term)) : List (Term × Term) → List (Term × Term)
  | [] => m
  | (k, v) :: r => collectT (mapInsert m k v) r

/-! ### the conversions -/

mutual
/-- `BorrowedTerm::to_owned` (borrowed.rs), arm by arm -/
def toOwned : BTerm → Term
  | .atom _ s => .atom s                              -- `Atom::new(s.as_ref())`
  | .int i => .int i
  | .float f => .float f
  | .pid p => .pid (clonePid p)                        -- `p.clone()`
  | .port n i c l => let (n', i', c', l') := clonePort n i c l; .port n' i' c' l'
  | .ref n c ids l => let (n', c', ids', l') := cloneRef n c ids l; .ref n' c' ids' l'
  | .bin _ b => .bin b                                 -- `b.as_ref().to_vec()`
  | .bits _ b n => .bits b n
  | .str _ s => .str s                                 -- `s.to_string()`
  | .list l => .list (toOwnedL l)
  | .ilist l t => .ilist (toOwnedL l) (toOwned t)
  | .map kvs => .map (collectT [] (toOwnedKV kvs))     -- `.map(|(k, v)| (k.to_owned(), v.to_owned())).collect()`
  | .tuple l => .tuple (toOwnedL l)
  | .big neg d => .big neg d                           -- `b.clone()`
  | .xfun m f a => .xfun m f a                         -- `f.clone()`
  | .ifun a u i nf m oi ou p fr => .ifun a u i nf m oi ou (clonePid p) (cloneTL fr)   -- `f.clone()` of the box
  | .nil => .nil
def toOwnedL : List BTerm → List Term
  | [] => []
  | t :: ts => toOwned t :: toOwnedL ts
def toOwnedKV : List (BTerm × BTerm) → List (Term × Term)
  | [] => []
  | (k, v) :: r => (toOwned k, toOwned v) :: toOwnedKV r
end

mutual
/-- `impl From<&OwnedTerm> for BorrowedTerm` (borrowed.rs), arm by arm: text and bytes are borrowed from the owned term -/
def fromOwned : Term → BTerm
  | .atom a => .atom true a                            -- `Cow::Borrowed(a.as_str())`
  | .int i => .int i
  | .float f => .float f
  | .pid p => .pid (clonePid p)
  | .port n i c l => let (n', i', c', l') := clonePort n i c l; .port n' i' c' l'
  | .ref n c ids l => let (n', c', ids', l') := cloneRef n c ids l; .ref n' c' ids' l'
  | .bin b => .bin true b
  | .bits b n => .bits true b n
  | .str s => .str true s
  | .list l => .list (fromOwnedL l)
  | .ilist l t => .ilist (fromOwnedL l) (fromOwned t)
  | .map kvs => .map (insertAllB [] (fromOwnedKV kvs))
  | .tuple l => .tuple (fromOwnedL l)
  | .big neg d => .big neg d
  | .xfun m f a => .xfun m f a
  | .ifun a u i nf m oi ou p fr => .ifun a u i nf m oi ou (clonePid p) (cloneTL fr)
  | .nil => .nil
def fromOwnedL : List Term → List BTerm
  | [] => []
  | t :: ts => fromOwned t :: fromOwnedL ts
def fromOwnedKV : List (Term × Term) → List (BTerm × BTerm)
  | [] => []
  | (k, v) :: r => (fromOwned k, fromOwned v) :: fromOwnedKV r
end

mutual
/-- `BorrowedTerm::is_borrowed` -/
def isBorrowed : BTerm → Bool
  | .atom c _ => c
  | .bin c _ => c
  | .bits c _ _ => c
  | .str c _ => c
  | .list l => isBorrowedL l
  | .ilist l t => isBorrowedL l || isBorrowed t
  | .map kvs => isBorrowedKV kvs
  | .tuple l => isBorrowedL l
  | _ => false
def isBorrowedL : List BTerm → Bool
  | [] => false
  | t :: ts => isBorrowed t || isBorrowedL ts
def isBorrowedKV : List (BTerm × BTerm) → Bool
  | [] => false
  | (k, v) :: r => (isBorrowed k || isBorrowed v) || isBorrowedKV r
end

/-! ### the tree a zero-copy result is, given the converted term's shape and the ownership flags in pre-order
(driver: the harness writes the canonical text from the `BorrowedTerm` tree itself plus one letter per `Cow`) -/

mutual
def tagWith : Term → List Bool → BTerm × List Bool
  | .atom n, fl => (.atom (fl.headD true) n, fl.tail)
  | .int i, fl => (.int i, fl)
  | .float b, fl => (.float b, fl)
  | .pid p, fl => (.pid p, fl)
  | .port n i c l, fl => (.port n i c l, fl)
  | .ref n c ids l, fl => (.ref n c ids l, fl)
  | .bin b, fl => (.bin (fl.headD true) b, fl.tail)
  | .bits b n, fl => (.bits (fl.headD true) b n, fl.tail)
  | .str s, fl => (.str (fl.headD true) s, fl.tail)
  | .list l, fl => let (l', fl') := tagWithL l fl; (.list l', fl')
  | .ilist l t, fl =>
    let (l', fl') := tagWithL l fl
    let (t', fl'') := tagWith t fl'
    (.ilist l' t', fl'')
  | .map kvs, fl => let (m, fl') := tagWithKV kvs fl; (.map m, fl')
  | .tuple l, fl => let (l', fl') := tagWithL l fl; (.tuple l', fl')
  | .big neg d, fl => (.big neg d, fl)
  | .xfun m f a, fl => (.xfun m f a, fl)
  | .ifun a u i nf m oi ou p fr, fl => (.ifun a u i nf m oi ou p fr, fl)
  | .nil, fl => (.nil, fl)
def tagWithL : List Term → List Bool → List BTerm × List Bool
  | [], fl => ([], fl)
  | t :: ts, fl =>
    let (t', fl') := tagWith t fl
    let (ts', fl'') := tagWithL ts fl'
    (t' :: ts', fl'')
def tagWithKV : List (Term × Term) → List Bool → List (BTerm × BTerm) × List Bool
  | [], fl => ([], fl)
  | (k, v) :: r, fl =>
    let (k', fl1) := tagWith k fl
    let (v', fl2) := tagWith v fl1
    let (r', fl3) := tagWithKV r fl2
    ((k', v') :: r', fl3)
end

/-- one conversion step an application can make with a term it holds -/
inductive Conv where
  /-- `t.clone()` -/
  | clone
  /-- `BorrowedTerm::from(&t).to_owned()` -/
  | viaBorrowed
  /-- `BorrowedTerm::from(&t).clone().to_owned()` -/
  | viaBorrowedClone
  /-- a move -/
  | move
  deriving Repr, DecidableEq

def Conv.apply : Conv → Term → Term
  | .clone, t => cloneT t
  | .viaBorrowed, t => toOwned (fromOwned t)
  | .viaBorrowedClone, t => toOwned (cloneB (fromOwned t))
  | .move, t => t

def applyConvs : List Conv → Term → Term
  | [], t => t
  | c :: cs, t => applyConvs cs (c.apply t)

end Edp

namespace Edp

mutual
/-- the ownership flags of a tree in pre-order (one per `Cow`) -/
def flagsOf : BTerm → List Bool
  | .atom c _ => [c]
  | .bin c _ => [c]
  | .bits c _ _ => [c]
  | .str c _ => [c]
  | .list l => flagsOfL l
  | .ilist l t => flagsOfL l ++ flagsOf t
  | .map kvs => flagsOfKV kvs
  | .tuple l => flagsOfL l
  | _ => []
def flagsOfL : List BTerm → List Bool
  | [] => []
  | t :: ts => flagsOf t ++ flagsOfL ts
def flagsOfKV : List (BTerm × BTerm) → List Bool
  | [] => []
  | (k, v) :: r => flagsOf k ++ flagsOf v ++ flagsOfKV r
end

def flagsText (fl : List Bool) : String :=
  if fl.isEmpty then "-" else String.ofList (fl.map fun b => if b then 'b' else 'o')

def flagsOfText (s : String) : List Bool :=
  if s == "-" then [] else s.toList.map (· == 'b')

def convsOfText (s : String) : List Conv :=
  if s == "-" then [] else s.toList.filterMap fun c =>
    match c with
    | 'c' => some .clone
    | 'v' => some .viaBorrowed
    | 'w' => some .viaBorrowedClone
    | 'm' => some .move
    | _ => none

/-- `sub` is a contiguous block of `bs` (decidable form of `Occurs`) -/
def occursIn (sub : Bytes) : Bytes → Bool
  | [] => sub.isEmpty
  | b :: bs => sub.isPrefixOf (b :: bs) || occursIn sub bs

end Edp
