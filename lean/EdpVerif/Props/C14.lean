import EdpVerif.Lemmas.DistHeader
/-
C14 — distribution headers and the atom cache resolve every atom correctly.

`DistHeader.header` / `encodeDist` model `encode_with_dist_header(_multi)`, `DistHeader.parseHeader` /
`decodeWithAtomCache` model `parse_dist_header_with_cache` / `decode_with_atom_cache` (Impl/DistHeader.lean).
The oracle is `Spec.DistHeader` (an independent reader of the header layout and a conforming sender with an
atom cache, written from the protocol).  The order in which the encoder's hash set yields the atoms is
universally quantified (`order`).
-/
namespace Edp.Props.C14
open Edp Edp.DistHeader Edp.Spec.DistHeader

/-- **The header the library writes is read by the independent reader as exactly its atoms, every one intact**:
for every order of the atoms, any number of them from 1 to 255, any lengths up to 65535 bytes (so: both parities
of the reference count, short and long atoms), whatever the reader's cache held before and whatever follows. -/
theorem C14_header_read_by_spec (order : List Bytes) (s : Slots) (rest : Bytes)
    (hne : order ≠ []) (hn : order.length ≤ 255) (hl : ∀ a ∈ order, a.length < 65536) :
    readHeader s (header order ++ rest) = some (order, sendSlots s (entriesOf 0 order), rest) := by
  rw [header_eq_send order hne]
  have := readHeader_send (isLong order) s (entriesOf 0 order) rest (by rw [entriesOf_length]; exact hn)
    (entriesOf_conforming s order 0 (by omega) hl)
  rw [this, entriesOf_atoms]

example : ∃ s', readHeader [] (header [[97], [98, 99], [100]] ++ [106]) = some ([[97], [98, 99], [100]], s', [106]) :=
  ⟨_, C14_header_read_by_spec _ _ _ (by simp) (by simp) (by simp)⟩

/-- the flag fields, one by one: `new entry, segment 0` for each reference, then the LongAtoms field — which for an
odd number of references is the HIGH nibble of the last flag byte, for an even number the low nibble of an extra byte -/
theorem C14_flag_fields (order : List Bytes) (i : Nat) (hi : i ≤ order.length) :
    field (packNibbles (flagNibbles order)) i =
      if i < order.length then 8 else if isLong order then 1 else 0 := by
  rw [pack_eq]
  have hl : ∀ x ∈ flagNibbles order, x < 16 := by
    intro x hx
    simp only [flagNibbles, List.mem_append, List.mem_replicate, List.mem_singleton] at hx
    rcases hx with ⟨_, rfl⟩ | rfl
    · omega
    · split <;> omega
  rw [field_pack _ hl i (by simp [flagNibbles]; omega)]
  by_cases h : i < order.length
  · simp only [h, ↓reduceIte, flagNibbles]
    rw [List.getElem_append_left (by simpa using h)]
    simp
  · have : i = order.length := by omega
    subst this
    simp only [Nat.lt_irrefl, ↓reduceIte, flagNibbles]
    rw [List.getElem_append_right (by simp)]
    simp

/-- and there are exactly `N/2 + 1` flag bytes -/
theorem C14_flag_byte_count (order : List Bytes) :
    (packNibbles (flagNibbles order)).length = order.length / 2 + 1 := by
  rw [pack_eq, pack_length]; simp [flagNibbles]; omega

/-- one atom longer than 255 bytes: the single flag byte is `0x18` (LongAtoms in the high nibble) — the witness of
the defect repaired by fc7340a, which wrote `0x09` -/
theorem C14_one_long_atom_flag_byte (a : Bytes) (h : a.length > 255) : packNibbles (flagNibbles [a]) = [0x18] := by
  simp [flagNibbles, isLong, packNibbles, h]

/-- more than 255 distinct atoms: an error, nothing is written -/
theorem C14_limit_too_many (order : List Bytes) (terms : List Term) (h : order.length > 255) :
    encodeDist order terms = .error .tooManyAtoms := by
  have : order.isEmpty = false := by cases order <;> simp_all
  simp [encodeDist, this, h]

/-- an atom longer than the 16-bit length field: an error (never a truncated length) -/
theorem C14_limit_atom_too_large (order : List Bytes) (terms : List Term) (hn : order.length ≤ 255)
    (a : Bytes) (ha : a ∈ order) (hl : a.length > 65535) :
    encodeDist order terms = .error .atomTooLarge := by
  have h1 : order.isEmpty = false := by cases order <;> simp_all
  have h2 : ¬ order.length > 255 := by omega
  have h3 : (order.any fun a => decide (a.length > u16max)) = true := by
    simp only [List.any_eq_true, decide_eq_true_eq]; exact ⟨a, ha, by simpa [u16max] using hl⟩
  simp [encodeDist, h1, h2, h3]

/-- no atoms at all: still a header (`131, 68, 0`, no flag bytes), which the independent reader accepts -/
theorem C14_zero_atoms (terms : List Term) (bs : Bytes) (s : Slots) (h : encodeDist [] terms = .ok bs) :
    ∃ body, bs = 131 :: 68 :: 0 :: body ∧ encL [] terms = .ok body ∧ readHeader s (0 :: body) = some ([], s, body) := by
  simp only [encodeDist, List.isEmpty_nil, ↓reduceIte] at h
  split at h
  · rename_i b hb
    refine ⟨b, by simpa using h.symm, hb, by simp [readHeader]⟩
  · simp at h

/-- whenever encoding succeeds with atoms, the bytes are `131, 68`, the header of exactly these atoms, the terms -/
theorem C14_layout (order : List Bytes) (terms : List Term) (bs : Bytes) (hne : order ≠ [])
    (h : encodeDist order terms = .ok bs) :
    ∃ body, bs = 131 :: 68 :: (header order ++ body) ∧ encL order terms = .ok body ∧
      order.length ≤ 255 ∧ ∀ a ∈ order, a.length < 65536 := by
  have h1 : order.isEmpty = false := by cases order <;> simp_all
  simp only [encodeDist, h1, Bool.false_eq_true, ↓reduceIte] at h
  split at h
  · simp at h
  · rename_i hn
    split at h
    · simp at h
    · rename_i hl
      split at h
      · rename_i b hb
        refine ⟨b, by simpa using h.symm, hb, by omega, ?_⟩
        intro a ha
        simp only [List.any_eq_true, not_exists, not_and, u16max] at hl
        have := hl a ha; simp at this; omega
      · simp at h

/-- **The library's own reader on the library's own header**: every position resolves to its atom -/
theorem C14_own_header (order : List Bytes) (c : Cache) (rest : Bytes)
    (hne : order ≠ []) (hn : order.length ≤ 255) (hl : ∀ a ∈ order, a.length < 65536)
    (hv : ∀ a ∈ order, validUtf8 a = true) :
    ∃ c', parseHeader c (header order ++ rest) = (c', .ok rest) ∧
      ∀ j (h : j < order.length), c'.atoms.lookup j = some order[j] := by
  rw [header_eq_send order hne]
  -- the receiver's cache need not agree with anything: every reference is new
  obtain ⟨c', h1, h2, _⟩ := parseHeader_send (isLong order) c c.slots (entriesOf 0 order) rest
    (by rw [entriesOf_length]; exact hn) (entriesOf_conforming _ order 0 (by omega) hl)
    (by
      intro e he
      have : e.atom ∈ (entriesOf 0 order).map (·.atom) := List.mem_map_of_mem he
      rw [entriesOf_atoms] at this
      exact hv _ this)
    (fun _ => rfl)
  refine ⟨c', h1, ?_⟩
  intro j hj
  rw [h2]
  have := lookup_posTable (entriesOf 0 order) 0 j c.atoms (by rw [entriesOf_length]; exact hj)
  rw [Nat.zero_add] at this
  rw [this]
  have e := entriesOf_atoms 0 order
  have : ((entriesOf 0 order).map (·.atom))[j]'(by simp [entriesOf_length]; exact hj) = order[j] := by simp [e]
  simpa using this

/-- the atoms of the header, as the code points the spec reader hands to `ATOM_CACHE_REF` -/
theorem C14_atoms_as_code_points (order : List Bytes) (hv : ∀ a ∈ order, validUtf8 a = true) :
    order.mapM utf8Decode = some (order.map fun a => (utf8Decode a).getD []) := by
  induction order with
  | nil => rfl
  | cons a r ih =>
    have ha := hv a (by simp)
    unfold validUtf8 at ha
    obtain ⟨v, hv'⟩ := Option.isSome_iff_exists.mp ha
    have := ih (fun b hb => hv b (by simp [hb]))
    simp [List.mapM_cons, hv', this]

/-- **A whole header-mode message**: whenever the independent reader reads the bytes of the terms — with reference i
meaning the i-th atom of the header — as the values `vs`, it reads the whole message the library wrote as `vs`.
(That the term bytes denote the terms' values is the codec's round trip, C01/C03, generic in the atom cache.) -/
theorem C14_message (inflate : Bytes → Option (Bytes × Nat)) (order : List Bytes) (terms : List Term) (bs : Bytes)
    (vs : List Value) (hne : order ≠ []) (hv : ∀ a ∈ order, validUtf8 a = true)
    (h : encodeDist order terms = .ok bs)
    (hbody : ∀ body, encL order terms = .ok body →
      readTerms { inflate, refs := order.map fun a => (utf8Decode a).getD [] } (body.length + 1) body = some vs) :
    ∃ s', readMessage inflate [] bs = some (vs, s') := by
  obtain ⟨body, rfl, hb, hn, hl⟩ := C14_layout order terms bs hne h
  refine ⟨sendSlots [] (entriesOf 0 order), ?_⟩
  simp only [readMessage]
  rw [C14_header_read_by_spec order [] body hne hn hl]
  simp only [C14_atoms_as_code_points order hv, hbody body hb, Option.map_some]

/-! ### histories: a conforming sender that creates, re-uses and overwrites cache entries across messages -/

/-- a message as the sender decides it: its LongAtoms flag, its references, the bytes of its terms -/
abbrev Msg := Bool × List Entry × Bytes

/-- the sender is conforming throughout the history (relative to ITS OWN evolving cache) -/
def ConformingSeq : Slots → List Msg → Prop
  | _, [] => True
  | s, (long, es, _) :: r =>
    es.length ≤ 255 ∧ Conforming long s es ∧ (∀ e ∈ es, validUtf8 e.atom = true) ∧ ConformingSeq (sendSlots s es) r

/-- the library reads every header of the history without error and, in every message, every position
resolves to the atom the sender meant; the cache is carried from message to message -/
def Resolves : Cache → List Msg → Prop
  | _, [] => True
  | c, (long, es, body) :: r =>
    (parseHeader c (sendHeader long es ++ body)).2 = .ok body ∧
    (∀ j (h : j < es.length), (parseHeader c (sendHeader long es ++ body)).1.atoms.lookup j = some es[j].atom) ∧
    Resolves (parseHeader c (sendHeader long es ++ body)).1 r

/-- **Every cached-atom reference in every message of any conforming sender's history resolves to the atom the
sender meant** — new entries, references to entries created in earlier messages, overwrites of a slot, all eight
segment indices, header position different from cache slot, both parities, long and short atoms; unbounded history. -/
theorem C14_history (msgs : List Msg) (c : Cache) (s : Slots) (ha : SlotsAgree c s) (hc : ConformingSeq s msgs) :
    Resolves c msgs := by
  induction msgs generalizing c s with
  | nil => trivial
  | cons m r ih =>
    obtain ⟨long, es, body⟩ := m
    obtain ⟨hn, hconf, hv, hrest⟩ := hc
    obtain ⟨c', h1, h2, h3⟩ := parseHeader_send long c s es body hn hconf hv ha
    refine ⟨by rw [h1], ?_, ?_⟩
    · intro j hj
      rw [h1]
      simp only [h2]
      have := lookup_posTable es 0 j c.atoms hj
      rwa [Nat.zero_add] at this
    · rw [h1]; exact ih c' _ h3 hrest

/-- non-vacuity: message 1 creates slot (3, 7) = `foo` at position 0; message 2 refers to it at position 1 (after a new
`bar` in slot (0, 7), same internal index, other segment); message 3 overwrites slot (3, 7) with `baz` -/
example : ConformingSeq []
    [ (false, [⟨[102, 111, 111], 3, 7, true⟩], [106]),
      (false, [⟨[98, 97, 114], 0, 7, true⟩, ⟨[102, 111, 111], 3, 7, false⟩], [106]),
      (true, [⟨[98, 97, 122], 3, 7, true⟩], [106]) ] := by
  simp [ConformingSeq, Conforming, upd, sendSlots, List.lookup, validUtf8, utf8Decode]
  decide

/-- the receiver's cache tracks the sender's, slot by slot, after every header -/
theorem C14_cache_tracks_sender (long : Bool) (c : Cache) (s : Slots) (es : List Entry) (rest : Bytes)
    (hn : es.length ≤ 255) (hc : Conforming long s es) (hv : ∀ e ∈ es, validUtf8 e.atom = true) (ha : SlotsAgree c s) :
    SlotsAgree (parseHeader c (sendHeader long es ++ rest)).1 (sendSlots s es) := by
  obtain ⟨c', h1, _, h3⟩ := parseHeader_send long c s es rest hn hc hv ha
  rw [h1]; exact h3

/-- the oracle is self-consistent: the spec's reader reads the spec's sender -/
theorem C14_spec_sound (long : Bool) (s : Slots) (es : List Entry) (rest : Bytes)
    (hn : es.length ≤ 255) (hc : Conforming long s es) :
    readHeader s (sendHeader long es ++ rest) = some (es.map (·.atom), sendSlots s es, rest) :=
  readHeader_send long s es rest hn hc

/-- a reference to a slot that was never filled is refused — it never resolves to some other atom -/
theorem C14_unfilled_slot_rejected (long : Bool) (flags : Bytes) (k i : Nat) (c : Cache) (idx : Nat) (bs r : Bytes)
    (seg : Nat) (hseg : seg < 8) (hr : rdU 1 bs = .ok (idx, r)) (hnib : nibbleAt flags i = some seg)
    (hnone : c.slots.lookup (seg, idx) = none) :
    parseRefs long flags (k + 1) i c bs = (c, .error .err) := by
  have h1 : seg / 8 = 0 := by omega
  simp [parseRefs, hr, hnib, h1, Nat.mod_eq_of_lt hseg, hnone]

/-- reading a header never reaches an out-of-range index into the flag bytes (no panic), for any input at all -/
theorem C14_no_panic_refs (long : Bool) (flags : Bytes) (k i : Nat) (c : Cache) (bs : Bytes)
    (h : i + k ≤ 2 * flags.length - 1) :
    (parseRefs long flags k i c bs).2 ≠ .error .panic := parseRefs_np long flags k i c bs h

theorem C14_no_panic (c : Cache) (bs : Bytes) : (parseHeader c bs).2 ≠ .error .panic := parseHeader_np c bs

end Edp.Props.C14
