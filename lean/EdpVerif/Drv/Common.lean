import EdpVerif.Impl.Encode
import EdpVerif.Impl.Decode
import EdpVerif.Impl.Den
import EdpVerif.Spec.Etf
/-! Driver helpers: argument parsing, the external-call oracle table, result printing. -/
namespace Edp.Drv
open Edp

def getTerm (s : String) : Except String Term :=
  match Term.ofText s with
  | some t => .ok t
  | none => .error ("bad-term " ++ s.take 40)

def getHex (s : String) : Except String Bytes :=
  match unhex s with
  | some b => .ok b
  | none => .error "bad-hex"

structure Oracle where
  z : List (Bytes × Bytes × Nat) := []
  f : List (Bytes × Option Nat) := []

/-- `-` or `;`-separated entries `z:<in>:<out>:<consumed>` (flate2) and `f:<field>:<bits|x>` (`parse::<f64>`) -/
def parseOracle (s : String) : Oracle :=
  if s == "-" then {} else
  (s.splitOn ";").foldl (fun o e =>
    match e.splitOn ":" with
    | ["z", i, outp, c] =>
      match unhex i, unhex outp with
      | some ib, some ob => { o with z := (ib, ob, c.toNat!) :: o.z }
      | _, _ => o
    | ["f", fld, b] =>
      match unhex fld with
      | some fb => { o with f := (fb, if b == "x" then none else some b.toNat!) :: o.f }
      | none => o
    | _ => o) {}

def Oracle.ext (o : Oracle) : Ext :=
  { inflate := fun i => (o.z.find? (·.1 == i)).map fun (_, outp, c) => (outp, c)
    parseFloat := fun fld => ((o.f.find? (·.1 == fld)).map (·.2)).join
    extra := o.z.foldl (fun a e => a + e.2.1.length + 2) 0 }

def Oracle.env (o : Oracle) : Spec.Env :=
  { inflate := fun i => (o.z.find? (·.1 == i)).map fun (_, outp, c) => (outp, c) }

def showDec : Except DErr Term → String
  | .ok t => "ok " ++ t.text
  | .error .err => "err"
  | .error (.trailing n) => "trailing " ++ toString n
  | .error .panic => "panic"

def showEnc : Except EncErr Bytes → String
  | .ok b => "ok " ++ hexOf b
  | .error _ => "err"

end Edp.Drv
