import EdpVerif.Drv.Common
namespace Edp.Drv

/-- driver requests of property C18 (stub: nothing handled yet) -/
def handleC18 : List String → Option String
  | _ => none

end Edp.Drv
