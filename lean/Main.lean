import EdpVerif.Drv.All
/-! Line-protocol driver (`lake exe edpdrv`): one request per line on stdin, one result per line on stdout. -/
open Edp

partial def loop (h : IO.FS.Stream) (out : IO.FS.Stream) : IO Unit := do
  let line ← h.getLine
  if line.isEmpty then return ()
  let l := line.trimAscii.toString
  out.putStrLn (Drv.handle (l.splitOn " "))
  loop h out

def main : IO Unit := do
  let out ← IO.getStdout
  loop (← IO.getStdin) out
  out.flush
