import EdpVerif.Drv.Etf
import EdpVerif.Generated.Control
import EdpVerif.Spec.Control
import EdpVerif.Impl.ControlCtor
import EdpVerif.Spec.ControlCtor
namespace Edp.Drv
open Edp Edp.Control

def c08tbl : Table := Gen.controlTable

def optText : Option Term → String
  | some t => t.text
  | none => "none"

def getMsg (s : String) : Except String Msg :=
  match Msg.ofText s with
  | some m => .ok m
  | none => .error ("bad-msg " ++ s.take 40)

/-- model of `from_term` followed by both serialisers -/
def c08rt (t : Term) : String :=
  match parse c08tbl t with
  | .ok m =>
    -- `=` abbreviates "the same text as the input" / "the same text as to_term"
    let to := optText (toTerm c08tbl m)
    let into := optText (intoTerm c08tbl m)
    "ok " ++ m.text ++ " " ++ (if to == t.text then "=" else to) ++ " " ++ (if into == to then "=" else into)
  | .error .err => "err"
  | .error .panic => "panic"

def outText : Out → String
  | .fld f => f
  | .uid f => "#" ++ f

/-! ### Spec oracle on the implementation's observed behaviour (no use of the model's `parse`/`toTerm`) -/

def sameTerm (a b : Term) : Bool := Value.same a.den b.den

/-- a structured message the implementation returned for tuple `els` agrees with the protocol table: the variant
implements an operation with this tag, and every field holds the element at the position of its role -/
def structuredOk (v : String) (fs : List (String × FVal)) (tag : Nat) (els : List Term) : Option String :=
  match lookup Spec.opOfVariant v with
  | none => some ("unknown-variant " ++ v)
  | some pn =>
    match Spec.findOp pn with
    | none => some ("no-protocol-op " ++ pn)
    | some op =>
      if op.tag != tag then some ("tag " ++ toString tag ++ " protocol " ++ pn ++ "=" ++ toString op.tag) else
      match (op.fields :: op.alt).find? (fun l => l.length + 1 == els.length) with
      | none => some ("arity " ++ toString els.length ++ " protocol " ++ pn ++ "=" ++ toString (op.fields.length + 1))
      | some layout =>
        if fs.length != layout.length then some "field-count" else
        let bad := fs.filter fun (f, x) =>
          match lookup Spec.roleOfField f with
          | none => true
          | some role =>
            match layout.idxOf? role with
            | none => true
            | some k =>
              match els[k + 1]?, x with
              | some e, .term t => !(t == e)
              | some e, .uid n => !(role == Spec.idRole && Spec.intOf e == some (n : Int))
              | none, _ => true
        match bad with
        | [] => none
        | (f, _) :: _ => some ("field " ++ f)

/-- the property on one `from_term`/`to_term`/`into_term` observation -/
def c08prop (t : Term) (res : List String) : String :=
  match Spec.shape t, res with
  | .notControl, ["err"] => "ok"
  | .notControl, r => "FAIL not-a-control-tuple-but " ++ (r.head?.getD "?")
  | _, ["panic"] => "FAIL panic"
  | .badId, ["err"] => "ok"
  | .control, ["err"] => "FAIL rejected"
  | _, ["ok", m, to, into] =>
    let to := if to == "=" then t.text else to
    let into := if into == "=" then to else into
    match Msg.ofText m, Term.ofText to, Term.ofText into, t with
    | some msg, some tt, some it, .tuple (.int tag :: rest) =>
      if !(sameTerm tt t) then "FAIL to_term-differs"
      else if !(tt == it) then "FAIL into_term-differs"
      else
        match msg with
        | .generic ty l =>
          if (ty : Int) == tag && l == rest then "ok" else "FAIL generic-fields"
        | .known v fs =>
          match structuredOk v fs tag.toNat (.int tag :: rest) with
          | none => "ok"
          | some why => "FAIL " ++ why
    | _, _, _, _ => "bad-op c08prop-parse"
  | _, _ => "bad-op c08prop-result"

/-- what `to_term` produced for a message built with marker fields: protocol tag and element order -/
def c08num (v : String) (tag : Nat) (fields : List String) : String :=
  match lookup Spec.opOfVariant v with
  | none => "FAIL unknown-variant"
  | some pn =>
    match Spec.findOp pn with
    | none => "FAIL no-protocol-op"
    | some op =>
      let roles := fields.map fun f => (lookup Spec.roleOfField f).getD "?"
      if op.tag != tag then "FAIL tag " ++ toString tag ++ " protocol " ++ pn ++ "=" ++ toString op.tag
      else if roles == op.fields || op.alt.contains roles then "ok"
      else "FAIL layout " ++ ",".intercalate roles

/-- after the wire: same variant, same field names, every field denotes what it did; ids unchanged -/
def c08wireprop (m : Msg) (res : List String) : String :=
  match res with
  | ["ok", m'] =>
    match Msg.ofText m', m with
    | some (.known w gs), .known v fs =>
      if v != w then "FAIL variant " ++ w
      else if fs.length != gs.length then "FAIL field-count"
      else
        let bad := fs.filter fun (f, x) =>
          match x, lookup gs f with
          | .term a, some (.term b) => !(sameTerm a b)
          | .uid a, some (.uid b) => a != b
          | _, _ => true
        match bad with
        | [] => "ok"
        | (f, _) :: _ => "FAIL field " ++ f
    | some (.generic a l), .generic b r =>
      if a == b && l.length == r.length && (l.zip r).all (fun (x, y) => sameTerm x y) then "ok" else "FAIL generic"
    | some _, _ => "FAIL variant-kind"
    | none, _ => "bad-op c08wireprop-parse"
  | ["err"] => "FAIL rejected-after-wire"
  | r => "FAIL " ++ (r.head?.getD "?")

def modelWire (t : Term) : Except String Term :=
  match encode t with
  | .error _ => .error "encerr"
  | .ok b =>
    match decode Ext.none b with
    | .ok t' => .ok t'
    | .error _ => .error "decerr"

def handleC08 : List String → Option String
  | ["c08rt", t] => some <| run do
    let t ← getTerm t
    pure (c08rt t)
  | ["c08ser", m] => some <| run do
    let m ← getMsg m
    pure (optText (toTerm c08tbl m) ++ " " ++ optText (intoTerm c08tbl m))
  | ["c08wire", m] => some <| run do
    let m ← getMsg m
    match toTerm c08tbl m with
    | none => pure "none"
    | some t =>
      match modelWire t with
      | .error e => pure e
      | .ok t' =>
        match parse c08tbl t' with
        | .ok m' => pure ("ok " ++ m'.text)
        | .error .err => pure "err"
        | .error .panic => pure "panic"
  | ["c08row", v] => some <|
    match findTo c08tbl.toArms v, findTo c08tbl.intoArms v with
    | some b, some c =>
      match enumDisc c08tbl b.head, enumDisc c08tbl c.head with
      | some d, some e =>
        toString d ++ " ," ++ ",".intercalate (b.outs.map outText) ++ " " ++
          toString e ++ " ," ++ ",".intercalate (c.outs.map outText)
      | _, _ => "none"
    | _, _ => "none"
  | ["c08try", n] => some <|
    match fromU8 c08tbl n.toNat! with
    | some name => "Some(" ++ name ++ ")=" ++ (match enumDisc c08tbl name with | some d => toString d | none => "?")
    | none => "None"
  | "c08prop" :: t :: res => some <| run do
    let t ← getTerm t
    pure (c08prop t res)
  | ["c08num", v, tag, fields] => some <|
    c08num v tag.toNat! ((fields.splitOn ",").filter (· != ""))
  | "c08wireprop" :: m :: res => some <| run do
    let m ← getMsg m
    pure (c08wireprop m res)
  | ["c08idprop", id, t] => some <| run do
    let t ← getTerm t
    match t with
    | .tuple (_ :: e :: _) =>
      if Spec.intOf e == some (id.toNat! : Int) then pure "ok"
      else pure ("FAIL id " ++ id ++ " serialised-as " ++ e.text)
    | _ => pure "FAIL not-a-tuple"
  -- a constructor of `impl ControlMessage` called with these arguments, then `to_term` and `into_term`
  | "c08ctor" :: name :: args => some <| run do
    let args ← args.mapM getTerm
    match ctors.find? (fun c => c.name == name) with
    | none => pure "no-such-constructor"
    | some c =>
      match construct c args with
      | none => pure "none"
      | some m => pure (m.text ++ " " ++ optText (toTerm c08tbl m) ++ " " ++ optText (intoTerm c08tbl m))
  -- Spec oracle: the tuple the implementation produced is the protocol's for this operation and these arguments
  | "c08ctorprop" :: name :: tup :: args => some <| run do
    let tup ← getTerm tup
    let args ← args.mapM getTerm
    match ctors.find? (fun c => c.name == name) with
    | none => pure "FAIL no-such-constructor"
    | some c =>
      match Spec.ctorTuple c.variant c.params args with
      | none => pure "FAIL no-protocol-operation"
      | some want => pure (if want == tup then "ok" else "FAIL protocol-expects " ++ want.text)
  | _ => none

end Edp.Drv
