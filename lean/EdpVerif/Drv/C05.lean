import EdpVerif.Drv.Etf
import EdpVerif.Impl.Framing
namespace Edp.Drv
open Edp Edp.Framing

namespace C05

/-- tail-recursive hex parser (frames of 64 KiB arrive as one token) -/
def unhexTR : List Char → Bytes → Option Bytes
  | [], acc => some acc.reverse
  | [_], _ => none
  | a :: b :: r, acc =>
    match hexVal a, hexVal b with
    | some x, some y => unhexTR r (UInt8.ofNat (x * 16 + y) :: acc)
    | _, _ => none

def getBytes (s : String) : Except String Bytes :=
  if s == "-" then .ok [] else
  match unhexTR s.toList [] with
  | some b => .ok b
  | none => .error "bad-hex"

def getMode (s : String) : Except String Mode :=
  if s == "h" then .ok .handshake else if s == "d" then .ok .distribution else .error "bad-mode"

def getEv (t : String) : Except String Ev :=
  match t.toList with
  | ['p'] => .ok .pending
  | ['e'] => .ok .eof
  | ['f'] => .ok .fail
  | ['s'] => .ok .stall
  | 'c' :: r =>
    match unhexTR r [] with
    | some b => .ok (.chunk b)
    | none => .error "bad-chunk"
  | _ => .error "bad-event"

def getEvs (s : String) : Except String (List Ev) :=
  if s == "-" then .ok [] else (s.splitOn ",").mapM getEv

def getWEv (t : String) : Except String WEv :=
  match t.toList with
  | ['p'] => .ok .pending
  | ['f'] => .ok .fail
  | 'a' :: r =>
    match (String.ofList r).toNat? with
    | some k => .ok (.accept k)
    | none => .error "bad-accept"
  | _ => .error "bad-wevent"

def getWEvs (s : String) : Except String (List WEv) :=
  if s == "-" then .ok [] else (s.splitOn ",").mapM getWEv

def getMsgs (s : String) : Except String (List Bytes) :=
  if s == "-" then .ok [] else
  (s.splitOn ",").mapM fun t =>
    match t.toList with
    | 'm' :: r =>
      match unhexTR r [] with
      | some b => .ok b
      | none => .error "bad-msg"
    | _ => .error "bad-msg"

def hexArg (b : Bytes) : String := if b.isEmpty then "-" else hexOf b

def showRErr (cap : Nat) : RErr → String
  | .eof => "err-eof"
  | .io => "err-io"
  | .timeout => "err-timeout"
  | .tooLarge n => "err-toolarge:" ++ toString n ++ ":" ++ toString cap

def showRes (cap : Nat) : Except RErr Bytes → String
  | .ok b => "ok=" ++ hexArg b
  | .error e => showRErr cap e

def showWErr : WErr → String
  | .writeZero => "err-writezero"
  | .io => "err-io"

/-- what the harness prints for one body returned by the second copy: the payload of `112 ++ ctl ++ 131,109,len32,data`,
or the class of the error the rest of the function raises. `none` = keep going, `some` = the call failed. -/
def rhToken (ctl : Bytes) (body : Bytes) : String × Bool :=
  match classifyBody body with
  | .empty => ("err-empty", true)
  | .badMarker _ => ("err-protocol", true)
  | .pass rest =>
    if rest.take ctl.length == ctl then
      match rest.drop ctl.length with
      | 131 :: 109 :: r =>
        match rdN 4 r with
        | some (n, d) => if d.length == n then ("ok=" ++ hexArg d, false) else ("err-decode", true)
        | none => ("err-decode", true)
      | _ => ("err-decode", true)
    else ("err-decode", true)

def rhTokens (ctl : Bytes) : List (Except RErr Bytes) → List String
  | [] => []
  | .error .timeout :: r => "err-timeout" :: rhTokens ctl r
  | .error e :: _ => [showRErr connCap e]
  | .ok b :: r =>
    match rhToken ctl b with
    | (t, true) => [t]
    | (t, false) => t :: rhTokens ctl r

def isClean : List Ev → Bool
  | [] => true
  | .chunk bs :: r => !bs.isEmpty && isClean r
  | .pending :: r => isClean r
  | _ :: _ => false

end C05

open C05 in
/-- driver requests of property C05 -/
def handleC05 : List String → Option String
  | ["c05frame", m, h] => some <| run do
    let m ← getMode m
    let b ← getBytes h
    pure ("ok " ++ hexOf (frame m b))
  | ["c05write", m, h, s] => some <| run do
    let m ← getMode m
    let b ← getBytes h
    let s ← getWEvs s
    let o := writeFramed m b s
    let r := match o.res with
      | .ok () => "ok"
      | .error e => showWErr e
    let c := if o.chunks.isEmpty then "-" else ",".intercalate (o.chunks.map hexOf)
    pure (r ++ " " ++ c ++ " " ++ toString o.flushes)
  | ["c05read", m, e] => some <| run do
    let m ← getMode m
    let evs ← getEvs e
    pure (" ".intercalate ((readAll framingCap m evs).map (showRes framingCap)))
  | ["c05readt", m, e] => some <| run do
    let m ← getMode m
    let evs ← getEvs e
    pure (" ".intercalate ((readRetry framingCap m evs).map (showRes framingCap)))
  | ["c05rht", ctl, e] => some <| run do
    let ctl ← getBytes ctl
    let evs ← getEvs e
    pure (" ".intercalate (rhTokens ctl (recvRetry connCap evs)))
  | ["c05rh", ctl, e] => some <| run do
    let ctl ← getBytes ctl
    let evs ← getEvs e
    pure (" ".intercalate (rhTokens ctl (recvAll connCap evs)))
  -- the hypotheses of C05_split_invariance hold for this case and its conclusion evaluates as stated
  | ["c05split", m, ms, e] => some <| run do
    let m ← getMode m
    let msgs ← getMsgs ms
    let evs ← getEvs e
    if !isClean evs then pure "FAIL script-not-clean"
    else if payload evs != (msgs.map (frame m)).flatten then pure "FAIL payload-is-not-the-frames"
    else if !msgs.all (fun x => decide (fits m x) && x.length ≤ framingCap) then pure "FAIL message-does-not-fit"
    else if (readAll framingCap m evs).map (showRes framingCap)
        == (msgs.map fun x => "ok=" ++ hexArg x) ++ ["err-eof"] then pure "ok"
    else pure "FAIL model-readAll-differs"
  | _ => none

end Edp.Drv
