import EdpVerif.Spec.Etf
/-! A FLOAT_EXT field that the format's `%.20e` reading accepts is ASCII, hence passes `str::from_utf8`. -/
namespace Edp

theorem validUtf8_ascii : ∀ (b : Bytes), (∀ x ∈ b, x.toNat < 128) → validUtf8 b = true
  | [], _ => by simp [validUtf8, utf8Decode]
  | x :: r, h => by
    have hx := h x (by simp)
    have ih := validUtf8_ascii r (fun y hy => h y (by simp [hy]))
    simp only [validUtf8] at ih ⊢
    rw [utf8Decode.eq_def]
    cases hr : utf8Decode r with
    | none => simp [hr] at ih
    | some c => simp [hx, hr]

theorem drop_takeWhile_length {α : Type} (p : α → Bool) : ∀ l : List α, l.drop (l.takeWhile p).length = l.dropWhile p
  | [] => rfl
  | a :: l => by
    by_cases h : p a <;> simp [List.takeWhile, List.dropWhile, h, drop_takeWhile_length p l]

theorem mem_takeWhile_sat {α : Type} (p : α → Bool) : ∀ (l : List α) (c : α), c ∈ l.takeWhile p → p c = true
  | [], c, h => by simp at h
  | a :: l, c, h => by
    by_cases ha : p a
    · simp only [List.takeWhile, ha] at h
      rcases List.mem_cons.mp h with rfl | h'
      · exact ha
      · exact mem_takeWhile_sat p l c h'
    · simp [List.takeWhile, ha] at h

def asciiL (l : List Char) : Prop := ∀ c ∈ l, c.toNat < 128

theorem digit_ascii (c : Char) (h : c.isDigit = true) : c.toNat < 128 := by
  simp [Char.isDigit] at h
  have := h.2
  show c.val.toNat < 128
  have h2 : c.val ≤ 57 := this
  have : c.val.toNat ≤ 57 := by simpa using UInt32.le_iff_toNat_le.mp h2
  omega

theorem ascii_split (l : List Char) (h : asciiL (l.drop (l.takeWhile Char.isDigit).length)) : asciiL l := by
  rw [drop_takeWhile_length] at h
  intro c hc
  rw [← List.takeWhile_append_dropWhile (p := Char.isDigit) (l := l)] at hc
  rcases List.mem_append.mp hc with h1 | h1
  · exact digit_ascii c (mem_takeWhile_sat _ _ _ h1)
  · exact h c h1

theorem digitsVal_ascii (cs : List Char) (n : Nat) (h : Spec.digitsVal cs = some n) : asciiL cs := by
  unfold Spec.digitsVal at h
  split at h
  · simp at h
  · rename_i hc
    simp only [Bool.or_eq_true, not_or, Bool.not_eq_true, Bool.not_eq_false'] at hc
    intro c hcm
    have := hc.2
    simp at this
    exact digit_ascii c (this c hcm)

/-- the text part: whatever `parseFloatText` accepts consists of sign, digits, `.`, `e` only -/
theorem floatText_ascii (field : Bytes) (b : Nat) (h : Spec.parseFloatText field = some b) :
    asciiL ((field.takeWhile (· != 0)).map (fun b => Char.ofNat b.toNat)) ∧
      ¬ (field.dropWhile (· != 0)).any (· != 0) = true := by
  unfold Spec.parseFloatText at h
  simp only at h
  split at h
  · simp at h
  rename_i hz
  refine ⟨?_, hz⟩
  generalize (field.takeWhile (· != 0)).map (fun b => Char.ofNat b.toNat) = txt at h
  split at h
  rotate_left
  · simp at h
  rename_i r1 r2 heq1
  split at h
  rotate_left
  · simp at h
  rename_i r3 r4 heq2
  split at h
  rotate_left
  · simp at h
  clear h
  rename_i mant ex hm hed hie hfe
  have cons_ascii : ∀ (c : Char) (l : List Char), c.toNat < 128 → asciiL l → asciiL (c :: l) := by
    intro c l hc hl d hd
    rcases List.mem_cons.mp hd with rfl | h1
    · exact hc
    · exact hl d h1
  have h4s := digitsVal_ascii _ _ hed
  have h4 : asciiL r4 := by
    split at h4s
    · exact cons_ascii _ _ (by decide) h4s
    · exact cons_ascii _ _ (by decide) h4s
    · exact h4s
  have h2 : asciiL r2 := ascii_split r2 (by rw [heq2]; exact cons_ascii _ _ (by decide) h4)
  have h1s := ascii_split _ (by rw [heq1]; exact cons_ascii _ _ (by decide) h2)
  clear heq1 hm hie
  split at h1s
  · exact cons_ascii _ _ (by decide) h1s
  · exact cons_ascii _ _ (by decide) h1s
  · exact h1s

set_option maxRecDepth 20000 in
theorem ofNat_ascii : ∀ n, n < 256 → (Char.ofNat n).toNat < 128 → n < 128 := by decide

/-- a FLOAT_EXT field the format's reading accepts is valid UTF-8 (`str::from_utf8` passes) -/
theorem floatText_validUtf8 (field : Bytes) (b : Nat) (h : Spec.parseFloatText field = some b) :
    validUtf8 field = true := by
  obtain ⟨ha, hz⟩ := floatText_ascii field b h
  apply validUtf8_ascii
  intro x hx
  rw [← List.takeWhile_append_dropWhile (p := (· != 0)) (l := field)] at hx
  rcases List.mem_append.mp hx with h1 | h1
  · have := ha (Char.ofNat x.toNat) (List.mem_map.mpr ⟨x, h1, rfl⟩)
    have hx256 : x.toNat < 256 := x.toNat_lt
    exact ofNat_ascii x.toNat hx256 this
  · have hzz : ∀ y ∈ field.dropWhile (· != 0), y = 0 := by
      intro y hy
      have := hz
      simp only [List.any_eq_true, not_exists, not_and] at this
      have := this y hy
      simpa using this
    rw [hzz x h1]; decide

end Edp
