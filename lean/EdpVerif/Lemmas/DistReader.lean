import EdpVerif.Lemmas.DistHeader
/-
C14, the reader on EVERY input (conforming sender or not): whatever header the library's `parse_dist_header_with_cache`
accepts, the independent reader of the layout accepts too, reads the same atoms at the same positions, leaves the same
bytes for the terms and the same cache.  So a header the protocol refuses (a reference to a slot that was never
filled, a truncated reference, …) is refused by the library, for every state of the cache.
-/
namespace Edp.DistHeader
open Edp Edp.Spec.DistHeader

theorem rdU1_cons (bs : Bytes) (v : Nat) (r : Bytes) (h : rdU 1 bs = .ok (v, r)) : ∃ b : UInt8, bs = b :: r ∧ v = b.toNat := by
  cases bs with
  | nil => simp [rdU, rdN] at h
  | cons b t =>
    simp only [rdU, rdN, Nat.pow_zero, Nat.mul_one, Nat.add_zero, Except.ok.injEq, Prod.mk.injEq] at h
    exact ⟨b, by rw [h.2], h.1.symm⟩

theorem rdU_some (k : Nat) (bs : Bytes) (v : Nat) (r : Bytes) (h : rdU k bs = .ok (v, r)) : rdN k bs = some (v, r) := by
  unfold rdU at h
  split at h
  · rename_i x hx; simp only [Except.ok.injEq] at h; rw [hx, h]
  · simp at h

theorem takeE_some (n : Nat) (bs a r : Bytes) (h : takeE n bs = .ok (a, r)) : takeN n bs = some (a, r) := by
  unfold takeE at h
  split at h
  · rename_i x hx; simp only [Except.ok.injEq] at h; rw [hx, h]
  · simp at h

/-- the library's and the protocol's reading of flag field `i` coincide -/
theorem nibbleAt_field (flags : Bytes) (i nib : Nat) (h : nibbleAt flags i = some nib) :
    field flags i = nib ∧ nib < 16 := by
  unfold nibbleAt at h
  unfold field
  cases hb : flags[i / 2]? with
  | none => simp [hb] at h
  | some b =>
    simp only [hb, Option.some.injEq] at h
    have hlt : b.toNat < 256 := b.toNat_lt
    by_cases hi : i % 2 = 0
    · simp only [hi, BEq.rfl, ↓reduceIte] at h ⊢
      subst h; exact ⟨rfl, by omega⟩
    · have hi' : (i % 2 == 0) = false := by simpa using hi
      simp only [hi', Bool.false_eq_true, ↓reduceIte, hi] at h ⊢
      subst h; exact ⟨by omega, by omega⟩

/-- **soundness of the reference loop on every input**: an accepted run of `parse_dist_header_with_cache`'s loop is a
run of the protocol's reader with the same atoms (by position), the same remaining bytes, and caches that still agree -/
theorem parseRefs_sound (long : Bool) (flags : Bytes) :
    ∀ (k i : Nat) (c : Cache) (s : Slots) (bs : Bytes) (c' : Cache) (rest : Bytes),
      SlotsAgree c s → parseRefs long flags k i c bs = (c', .ok rest) →
      ∃ as s', readRefs long flags k i s bs = some (as, s', rest) ∧ SlotsAgree c' s' ∧ as.length = k ∧
        (∀ j (hj : j < as.length), c'.atoms.lookup (i + j) = some as[j]) ∧
        (∀ m, m < i → c'.atoms.lookup m = c.atoms.lookup m) := by
  intro k
  induction k with
  | zero =>
    intro i c s bs c' rest ha h
    simp only [parseRefs, Prod.mk.injEq, Except.ok.injEq] at h
    obtain ⟨rfl, rfl⟩ := h
    exact ⟨[], s, by simp [readRefs], ha, rfl, by intro j hj; simp at hj, fun _ _ => rfl⟩
  | succ k ih =>
    intro i c s bs c' rest ha h
    simp only [parseRefs] at h
    cases h1 : rdU 1 bs with
    | error e => simp [h1] at h
    | ok v1 =>
      obtain ⟨idx, r⟩ := v1
      obtain ⟨b, rfl, rfl⟩ := rdU1_cons bs idx r h1
      simp only [h1] at h
      cases h2 : nibbleAt flags i with
      | none => simp [h2] at h
      | some nib =>
        obtain ⟨hfield, hnib⟩ := nibbleAt_field flags i nib h2
        simp only [h2] at h
        by_cases hnew : nib / 8 = 1
        · -- a new entry
          have hge : nib ≥ 8 := by omega
          simp only [hnew, BEq.rfl, ↓reduceIte] at h
          cases h3 : rdU (if long then 2 else 1) r with
          | error e => simp [h3] at h
          | ok v3 =>
            obtain ⟨len, r1⟩ := v3
            simp only [h3] at h
            cases h4 : takeE len r1 with
            | error e => simp [h4] at h
            | ok v4 =>
              obtain ⟨text, r2⟩ := v4
              simp only [h4] at h
              by_cases hu : validUtf8 text = true
              · simp only [hu, Bool.not_true, Bool.false_eq_true, ↓reduceIte] at h
                have ha' : SlotsAgree { atoms := (i, text) :: c.atoms, slots := ((nib % 8, b.toNat), text) :: c.slots }
                    (((nib % 8, b.toNat), text) :: s) := by
                  intro key
                  simp only [List.lookup]
                  split <;> simp_all [SlotsAgree]
                obtain ⟨as, s', hr, hs, hl, hpos, hlow⟩ := ih (i + 1) _ _ r2 c' rest ha' h
                refine ⟨text :: as, s', ?_, hs, by simp [hl], ?_, ?_⟩
                · simp only [readRefs, hfield, hge, ↓reduceIte, rdU_some _ _ _ _ h3, takeE_some _ _ _ _ h4, hr]
                · intro j hj
                  cases j with
                  | zero =>
                    rw [Nat.add_zero, hlow i (by omega)]
                    simp [List.lookup]
                  | succ j =>
                    have := hpos j (by simpa using hj)
                    simpa [Nat.add_assoc, Nat.add_comm 1 j] using this
                · intro m hm
                  rw [hlow m (by omega)]
                  have : (m == i) = false := by simp; omega
                  simp [List.lookup, this]
              · simp [hu] at h
        · -- a reference to an existing slot
          have hlt : ¬ nib ≥ 8 := by omega
          have hne : (nib / 8 == 1) = false := by simpa using hnew
          simp only [hne, Bool.false_eq_true, ↓reduceIte] at h
          cases h3 : c.slots.lookup (nib % 8, b.toNat) with
          | none => simp [h3] at h
          | some a =>
            simp only [h3] at h
            have hs3 : s.lookup (nib % 8, b.toNat) = some a := by rw [← ha]; exact h3
            obtain ⟨as, s', hr, hs, hl, hpos, hlow⟩ := ih (i + 1) { c with atoms := (i, a) :: c.atoms } s r c' rest
              (by simpa [SlotsAgree] using ha) h
            refine ⟨a :: as, s', ?_, hs, by simp [hl], ?_, ?_⟩
            · simp only [readRefs, hfield, hlt, ↓reduceIte, hs3, hr]
            · intro j hj
              cases j with
              | zero =>
                rw [Nat.add_zero, hlow i (by omega)]
                simp [List.lookup]
              | succ j =>
                have := hpos j (by simpa using hj)
                simpa [Nat.add_assoc, Nat.add_comm 1 j] using this
            · intro m hm
              rw [hlow m (by omega)]
              have : (m == i) = false := by simp; omega
              simp [List.lookup, this]

/-- **soundness of the header reader on every input** -/
theorem parseHeader_sound (c : Cache) (s : Slots) (bs : Bytes) (c' : Cache) (rest : Bytes)
    (ha : SlotsAgree c s) (h : parseHeader c bs = (c', .ok rest)) :
    ∃ as s', readHeader s bs = some (as, s', rest) ∧ SlotsAgree c' s' ∧
      (∀ j (hj : j < as.length), c'.atoms.lookup j = some as[j]) := by
  unfold parseHeader at h
  cases h1 : rdU 1 bs with
  | error e => simp [h1] at h
  | ok v1 =>
    obtain ⟨n, r⟩ := v1
    obtain ⟨nb, rfl, rfl⟩ := rdU1_cons bs n r h1
    simp only [h1] at h
    by_cases hn : nb.toNat = 0
    · simp only [hn, BEq.rfl, ↓reduceIte, Prod.mk.injEq, Except.ok.injEq] at h
      obtain ⟨rfl, rfl⟩ := h
      exact ⟨[], s, by simp [readHeader, hn], ha, by intro j hj; simp at hj⟩
    · have hn' : (nb.toNat == 0) = false := by simpa using hn
      simp only [hn', Bool.false_eq_true, ↓reduceIte] at h
      cases h2 : takeE (nb.toNat / 2 + 1) r with
      | error e => simp [h2] at h
      | ok v2 =>
        obtain ⟨flags, r1⟩ := v2
        simp only [h2] at h
        cases h3 : flags[nb.toNat / 2]? with
        | none => simp [h3] at h
        | some last =>
          simp only [h3] at h
          have hlong : (if nb.toNat % 2 == 0 then last.toNat % 2 == 1 else last.toNat / 16 % 2 == 1) =
              decide (field flags nb.toNat % 2 = 1) := by
            have hlt : last.toNat < 256 := last.toNat_lt
            unfold field
            rw [h3]
            by_cases hp : nb.toNat % 2 = 0
            · simp only [hp, BEq.rfl, ↓reduceIte]
              by_cases hq : last.toNat % 2 = 1
              · have : last.toNat % 16 % 2 = 1 := by omega
                simp [hq, this]
              · have : ¬ last.toNat % 16 % 2 = 1 := by omega
                simp [hq, this]
            · have hp' : (nb.toNat % 2 == 0) = false := by simpa using hp
              simp only [hp', Bool.false_eq_true, ↓reduceIte, hp]
              by_cases hq : last.toNat / 16 % 2 = 1 <;> simp [hq]
          rw [hlong] at h
          obtain ⟨as, s', hr, hs, _, hpos, _⟩ := parseRefs_sound _ flags nb.toNat 0 c s r1 c' rest ha h
          refine ⟨as, s', ?_, hs, ?_⟩
          · simp only [readHeader, hn, ↓reduceIte, takeE_some _ _ _ _ h2, hr]
          · intro j hj
            have := hpos j hj
            simpa using this

end Edp.DistHeader
