import EdpVerif.Lemmas.SpecValid
/-! The decoder model against the independent spec reader, for ALL byte strings: whenever both accept, they agree
(C03).  One lemma per tag; `dec_agrees` at the end dispatches. -/
set_option linter.unusedSectionVars false
namespace Edp
open Term

mutual
/-- every map of the term re-inserted entry by entry into the ordered map, in stored order — what the decoder does to
the pairs as they arrive (`BTreeMap::insert`: reorders, and merges keys that compare equal) -/
def reins : Term → Term
  | .list l => .list (reinsL l)
  | .ilist l t => .ilist (reinsL l) (reins t)
  | .map kvs => .map (insertAll [] (reinsKV kvs))
  | .tuple l => .tuple (reinsL l)
  | .ifun a u i nf m oi ou p fr => .ifun a u i nf m oi ou p (reinsL fr)
  | t => t
def reinsL : List Term → List Term
  | [] => []
  | t :: ts => reins t :: reinsL ts
def reinsKV : List (Term × Term) → List (Term × Term)
  | [] => []
  | (k, v) :: r => (reins k, reins v) :: reinsKV r
end

/-- `v ≈ den t`: `v` is the value of a term `t₀` (maps in arrival order) of which `t` is the re-inserted form -/
def arrivalOf (v : Value) (t : Term) : Prop := ∃ t₀, v = den t₀ ∧ t = reins t₀

theorem reins_atom (t₀ : Term) (n : Bytes) (h : Term.atom n = reins t₀) : t₀ = .atom n := by
  cases t₀ <;> simp [reins] at h ⊢; exact h.symm
theorem reins_int (t₀ : Term) (i : Int) (h : Term.int i = reins t₀) : t₀ = .int i := by
  cases t₀ <;> simp [reins] at h ⊢; exact h.symm
theorem reins_pid (t₀ : Term) (p : PidF) (h : Term.pid p = reins t₀) : t₀ = .pid p := by
  cases t₀ <;> simp [reins] at h ⊢; exact h.symm
theorem reins_nil (t₀ : Term) (h : Term.nil = reins t₀) : t₀ = .nil := by
  cases t₀ <;> simp [reins] at h ⊢

/-- the induction hypothesis at one fuel level -/
def AgreeT (x : Ext) (cfg : DecCfg) (env : Spec.Env) (fuel : Nat) : Prop :=
  ∀ d bs t r f' v r', dec x cfg fuel d bs = .ok (t, r) → Spec.parse env f' bs = some (v, r') →
    r' = r ∧ arrivalOf v t
def AgreeN (x : Ext) (cfg : DecCfg) (env : Spec.Env) (fuel : Nat) : Prop :=
  ∀ d n bs ts r f' vs r', decN x cfg fuel d n bs = .ok (ts, r) → Spec.parseN env f' n bs = some (vs, r') →
    r' = r ∧ ∃ ts₀, vs = denL ts₀ ∧ ts = reinsL ts₀
def AgreeKV (x : Ext) (cfg : DecCfg) (env : Spec.Env) (fuel : Nat) : Prop :=
  ∀ d n bs acc m r f' ps r', decKV x cfg fuel d n bs acc = .ok (m, r) → Spec.parseKV env f' n bs = some (ps, r') →
    r' = r ∧ ∃ kvs₀, ps = denKV kvs₀ ∧ m = insertAll acc (reinsKV kvs₀)

variable {x : Ext} {cfg : DecCfg} {env : Spec.Env} {fuel : Nat}

theorem agree_atom (ih : AgreeT x cfg env fuel) {d bs n r f' v r'}
    (h1 : dec x cfg fuel d bs = .ok (.atom n, r)) (h2 : Spec.parse env f' bs = some (v, r')) :
    r' = r ∧ v = .atom (cps n) := by
  obtain ⟨hr, t₀, hv, ht⟩ := ih d bs _ r f' v r' h1 h2
  have := reins_atom t₀ n ht; subst this
  exact ⟨hr, by simpa [den] using hv⟩

theorem agree_int (ih : AgreeT x cfg env fuel) {d bs i r f' v r'}
    (h1 : dec x cfg fuel d bs = .ok (.int i, r)) (h2 : Spec.parse env f' bs = some (v, r')) :
    r' = r ∧ v = .int i := by
  obtain ⟨hr, t₀, hv, ht⟩ := ih d bs _ r f' v r' h1 h2
  have := reins_int t₀ i ht; subst this
  exact ⟨hr, by simpa [den] using hv⟩

theorem agree_pid (ih : AgreeT x cfg env fuel) {d bs p r f' v r'}
    (h1 : dec x cfg fuel d bs = .ok (.pid p, r)) (h2 : Spec.parse env f' bs = some (v, r')) :
    r' = r ∧ v = .pid (cps p.node) p.id p.serial p.creation := by
  obtain ⟨hr, t₀, hv, ht⟩ := ih d bs _ r f' v r' h1 h2
  have := reins_pid t₀ p ht; subst this
  exact ⟨hr, by simpa [den] using hv⟩

/-- a term without containers is its own arrival form -/
theorem arrival_leaf (t : Term) (v : Value) (hv : v = den t) (h : t = reins t) : arrivalOf v t := ⟨t, hv, h⟩


set_option hygiene false in
macro "open_tag" n:num : tactic => `(tactic| (
  rw [dec.eq_3] at h1; rw [Spec.parse.eq_3] at h2
  simp only [show ($n : UInt8).toNat = $n by decide] at h1 h2
  split at h1
  · simp at h1
  split at h1
  · simp at h1))

theorem rdWords_spec (n : Nat) (bs : Bytes) :
    rdWords n bs = (match Spec.rdWords n bs with | some p => .ok p | none => .error .err) := by
  induction n generalizing bs with
  | zero => simp [rdWords, Spec.rdWords]
  | succ n ih =>
    simp only [rdWords, Spec.rdWords, rdU]
    cases h : rdN 4 bs with
    | none => simp
    | some p =>
      obtain ⟨w, r⟩ := p
      simp only [ih r]
      cases h2 : Spec.rdWords n r with
      | none => simp
      | some q => simp

theorem reins_port (t₀ : Term) (n i c l) (h : Term.port n i c l = reins t₀) : t₀ = .port n i c l := by
  cases t₀ <;> simp [reins] at h ⊢; exact ⟨h.1.symm, h.2.1.symm, h.2.2.1.symm, h.2.2.2.symm⟩
theorem reins_ref (t₀ : Term) (n c ids l) (h : Term.ref n c ids l = reins t₀) : t₀ = .ref n c ids l := by
  cases t₀ <;> simp [reins] at h ⊢; exact ⟨h.1.symm, h.2.1.symm, h.2.2.1.symm, h.2.2.2.symm⟩

section
variable (ih : AgreeT x cfg env fuel) {d : Nat} {bs : Bytes} {t : Term} {r : Bytes} {f' : Nat} {v : Value} {r' : Bytes}

theorem agree_97 (h1 : dec x cfg (fuel + 1) d (97 :: bs) = .ok (t, r)) (h2 : Spec.parse env (f' + 1) (97 :: bs) = some (v, r')) :
    r' = r ∧ arrivalOf v t := by
  open_tag 97
  simp only [rdU] at h1
  cases hr : rdN 1 bs with
  | none => simp [hr] at h1
  | some p =>
    obtain ⟨a, b⟩ := p
    simp [hr] at h1 h2
    obtain ⟨rfl, rfl⟩ := h1
    obtain ⟨rfl, rfl⟩ := h2
    exact ⟨rfl, arrival_leaf _ _ (by simp [den]) (by simp [reins])⟩

theorem agree_98 (h1 : dec x cfg (fuel + 1) d (98 :: bs) = .ok (t, r)) (h2 : Spec.parse env (f' + 1) (98 :: bs) = some (v, r')) :
    r' = r ∧ arrivalOf v t := by
  open_tag 98
  simp only [rdU] at h1
  cases hr : rdN 4 bs with
  | none => simp [hr] at h1
  | some p =>
    obtain ⟨a, b⟩ := p
    simp [hr] at h1 h2
    obtain ⟨rfl, rfl⟩ := h1
    obtain ⟨rfl, rfl⟩ := h2
    refine ⟨rfl, arrival_leaf _ _ ?_ (by simp [reins])⟩
    simp [den, Spec.i32, i32OfU32]

theorem agree_70 (h1 : dec x cfg (fuel + 1) d (70 :: bs) = .ok (t, r)) (h2 : Spec.parse env (f' + 1) (70 :: bs) = some (v, r')) :
    r' = r ∧ arrivalOf v t := by
  open_tag 70
  simp only [rdU] at h1
  cases hr : rdN 8 bs with
  | none => simp [hr] at h1
  | some p =>
    obtain ⟨a, b⟩ := p
    simp [hr] at h1 h2
    obtain ⟨rfl, rfl⟩ := h1
    obtain ⟨_, rfl, rfl⟩ := h2
    exact ⟨rfl, arrival_leaf _ _ (by simp [den]) (by simp [reins])⟩

theorem agree_106 (h1 : dec x cfg (fuel + 1) d (106 :: bs) = .ok (t, r)) (h2 : Spec.parse env (f' + 1) (106 :: bs) = some (v, r')) :
    r' = r ∧ arrivalOf v t := by
  open_tag 106
  simp at h1 h2
  obtain ⟨rfl, rfl⟩ := h1
  obtain ⟨rfl, rfl⟩ := h2
  exact ⟨rfl, arrival_leaf _ _ (by simp [den]) (by simp [reins])⟩

theorem agree_atomBody (k : Nat) (h1 : decAtomBody k bs = .ok (t, r))
    (h2 : (match rdN k bs with
      | some (n, r) => match takeN n r with
        | some (a, r') => (utf8Decode a).map fun cps => (Value.atom cps, r')
        | none => none
      | none => none) = some (v, r')) : r' = r ∧ arrivalOf v t := by
  simp only [decAtomBody, rdU, takeE] at h1
  cases hr : rdN k bs with
  | none => simp [hr] at h1
  | some p =>
    obtain ⟨n, b⟩ := p
    simp only [hr] at h1 h2
    split at h1
    · simp at h1
    cases ht : takeN n b with
    | none => simp [ht] at h1
    | some q =>
      obtain ⟨a, c⟩ := q
      simp only [ht] at h1 h2
      split at h1
      · rename_i hu
        simp at h1
        obtain ⟨rfl, rfl⟩ := h1
        rw [utf8_cps a hu] at h2
        simp at h2
        obtain ⟨rfl, rfl⟩ := h2
        exact ⟨rfl, arrival_leaf _ _ (by simp [den]) (by simp [reins])⟩
      · simp at h1

theorem agree_119 (h1 : dec x cfg (fuel + 1) d (119 :: bs) = .ok (t, r)) (h2 : Spec.parse env (f' + 1) (119 :: bs) = some (v, r')) :
    r' = r ∧ arrivalOf v t := by
  open_tag 119
  exact agree_atomBody 1 h1 h2

theorem agree_118 (h1 : dec x cfg (fuel + 1) d (118 :: bs) = .ok (t, r)) (h2 : Spec.parse env (f' + 1) (118 :: bs) = some (v, r')) :
    r' = r ∧ arrivalOf v t := by
  open_tag 118
  exact agree_atomBody 2 h1 h2

theorem latin1_cps (b : Bytes) : cps (latin1ToUtf8 b) = Spec.latin1 b := by
  unfold cps
  have : utf8Decode (latin1ToUtf8 b) = some (Spec.latin1 b) := by
    unfold latin1ToUtf8 utf8Encode Spec.latin1
    induction b with
    | nil => simp [utf8Decode]
    | cons c cs ih =>
      simp only [List.map_cons, List.flatMap_cons]
      have hc : c.toNat < 256 := c.toNat_lt
      by_cases h1 : c.toNat < 128
      · simp only [utf8EncodeCp, h1, ↓reduceIte, List.cons_append, List.nil_append]
        have : (UInt8.ofNat c.toNat) = c := by simp
        rw [this, utf8Decode.eq_def]
        simp [h1, ih]
      · have h2 : c.toNat < 2048 := by omega
        simp only [utf8EncodeCp, h1, h2, ↓reduceIte, List.cons_append, List.nil_append]
        have e1 : (UInt8.ofNat (192 + c.toNat / 64)).toNat = 192 + c.toNat / 64 := by
          simp; omega
        have e2 : (UInt8.ofNat (128 + c.toNat % 64)).toNat = 128 + c.toNat % 64 := by
          simp; omega
        have n1 : ¬ 192 + c.toNat / 64 < 128 := by omega
        have n2 : 194 ≤ 192 + c.toNat / 64 ∧ 192 + c.toNat / 64 ≤ 223 := by omega
        have n3 : (128 + c.toNat % 64) / 64 = 2 := by omega
        rw [utf8Decode.eq_def]
        simp only [e1, e2, isCont]
        rw [if_neg n1, if_pos n2, n3, ih]
        have n4 : (192 + c.toNat / 64) % 32 * 64 + (128 + c.toNat % 64) % 64 = c.toNat := by omega
        simp
        omega
  simp [this]

theorem agree_latin1Body (k : Nat) (h1 : decLatin1Body k bs = .ok (t, r))
    (h2 : (match rdN k bs with
      | some (n, r) => (takeN n r).map fun (a, r') => (Value.atom (Spec.latin1 a), r')
      | none => none) = some (v, r')) : r' = r ∧ arrivalOf v t := by
  simp only [decLatin1Body, rdU, takeE] at h1
  cases hr : rdN k bs with
  | none => simp [hr] at h1
  | some p =>
    obtain ⟨n, b⟩ := p
    simp only [hr] at h1 h2
    split at h1
    · simp at h1
    cases ht : takeN n b with
    | none => simp [ht] at h1
    | some q =>
      obtain ⟨a, c⟩ := q
      simp [ht] at h1 h2
      obtain ⟨rfl, rfl⟩ := h1
      obtain ⟨rfl, rfl⟩ := h2
      exact ⟨rfl, arrival_leaf _ _ (by simp [den, latin1_cps]) (by simp [reins])⟩

theorem agree_100 (h1 : dec x cfg (fuel + 1) d (100 :: bs) = .ok (t, r)) (h2 : Spec.parse env (f' + 1) (100 :: bs) = some (v, r')) :
    r' = r ∧ arrivalOf v t := by
  open_tag 100
  exact agree_latin1Body 2 h1 h2

theorem agree_115 (h1 : dec x cfg (fuel + 1) d (115 :: bs) = .ok (t, r)) (h2 : Spec.parse env (f' + 1) (115 :: bs) = some (v, r')) :
    r' = r ∧ arrivalOf v t := by
  open_tag 115
  exact agree_latin1Body 1 h1 h2

theorem agree_bigBody (k : Nat) (h1 : decBig k bs = .ok (t, r))
    (h2 : (match rdN k bs with
      | some (n, r) => match rdN 1 r with
        | some (s, r1) => (takeN n r1).map fun (d, r2) => (Value.int (if s != 0 then -(Spec.leVal d : Int) else Spec.leVal d), r2)
        | none => none
      | none => none) = some (v, r')) : r' = r ∧ arrivalOf v t := by
  simp only [decBig, rdU, takeE] at h1
  cases hr : rdN k bs with
  | none => simp [hr] at h1
  | some p =>
    obtain ⟨n, b⟩ := p
    simp only [hr] at h1 h2
    cases hs : rdN 1 b with
    | none => simp [hs] at h1
    | some p2 =>
      obtain ⟨s, b1⟩ := p2
      simp only [hs] at h1 h2
      cases ht : takeN n b1 with
      | none => simp [ht] at h1
      | some q =>
        obtain ⟨a, c⟩ := q
        simp [ht] at h1 h2
        obtain ⟨rfl, rfl⟩ := h1
        obtain ⟨rfl, rfl⟩ := h2
        refine ⟨rfl, arrival_leaf _ _ ?_ (by simp [reins])⟩
        simp only [den, bigVal, leVal_eq_magVal]
        by_cases h0 : s = 0 <;> simp [h0]

theorem agree_110 (h1 : dec x cfg (fuel + 1) d (110 :: bs) = .ok (t, r)) (h2 : Spec.parse env (f' + 1) (110 :: bs) = some (v, r')) :
    r' = r ∧ arrivalOf v t := by
  open_tag 110
  exact agree_bigBody 1 h1 h2

theorem agree_111 (h1 : dec x cfg (fuel + 1) d (111 :: bs) = .ok (t, r)) (h2 : Spec.parse env (f' + 1) (111 :: bs) = some (v, r')) :
    r' = r ∧ arrivalOf v t := by
  open_tag 111
  exact agree_bigBody 4 h1 h2

theorem agree_82 (hcache : ∀ i a c, cfg.cache.lookup i = some a → env.refs[i]? = some c → c = cps a)
    (h1 : dec x cfg (fuel + 1) d (82 :: bs) = .ok (t, r)) (h2 : Spec.parse env (f' + 1) (82 :: bs) = some (v, r')) :
    r' = r ∧ arrivalOf v t := by
  open_tag 82
  simp only [rdU] at h1
  cases hr : rdN 1 bs with
  | none => simp [hr] at h1
  | some p =>
    obtain ⟨i, b⟩ := p
    simp only [hr] at h1 h2
    cases hl : cfg.cache.lookup i with
    | none => simp [hl] at h1
    | some a =>
      cases hg : env.refs[i]? with
      | none => simp [hg] at h2
      | some c =>
        simp [hl] at h1; simp [hg] at h2
        obtain ⟨rfl, rfl⟩ := h1
        obtain ⟨rfl, rfl⟩ := h2
        exact ⟨rfl, arrival_leaf _ _ (by simp [den, hcache i a c hl hg]) (by simp [reins])⟩

theorem agree_99 (hpf : ∀ f b b', x.parseFloat f = some b → Spec.parseFloatText f = some b' → b' = b)
    (h1 : dec x cfg (fuel + 1) d (99 :: bs) = .ok (t, r)) (h2 : Spec.parse env (f' + 1) (99 :: bs) = some (v, r')) :
    r' = r ∧ arrivalOf v t := by
  open_tag 99
  simp only [takeE] at h1
  cases ht : takeN 31 bs with
  | none => simp [ht] at h1
  | some q =>
    obtain ⟨fl, c⟩ := q
    simp only [ht] at h1 h2
    split at h1
    · simp at h1
    cases hp : x.parseFloat fl with
    | none => simp [hp] at h1
    | some b =>
      cases hq : Spec.parseFloatText fl with
      | none => simp [hq] at h2
      | some b' =>
        simp [hp] at h1; simp [hq] at h2
        obtain ⟨rfl, rfl⟩ := h1
        obtain ⟨rfl, rfl⟩ := h2
        exact ⟨rfl, arrival_leaf _ _ (by simp [den, hpf fl b b' hp hq]) (by simp [reins])⟩

theorem denL_ints (s : Bytes) : denL (s.map fun b => Term.int b.toNat) = s.map fun b => Value.int b.toNat := by
  induction s with
  | nil => simp [denL]
  | cons a s ih => simp [denL, den, ih]

theorem reinsL_ints (s : Bytes) : reinsL (s.map fun b => Term.int b.toNat) = s.map fun b => Term.int b.toNat := by
  induction s with
  | nil => simp [reinsL]
  | cons a s ih => simp [reinsL, reins, ih]

theorem agree_107 (h1 : dec x cfg (fuel + 1) d (107 :: bs) = .ok (t, r)) (h2 : Spec.parse env (f' + 1) (107 :: bs) = some (v, r')) :
    r' = r ∧ arrivalOf v t := by
  open_tag 107
  simp only [rdU, takeE] at h1
  cases hr : rdN 2 bs with
  | none => simp [hr] at h1
  | some p =>
    obtain ⟨n, b⟩ := p
    simp only [hr] at h1 h2
    cases ht : takeN n b with
    | none => simp [ht] at h1
    | some q =>
      obtain ⟨a, c⟩ := q
      simp [ht] at h1 h2
      obtain ⟨rfl, rfl⟩ := h1
      obtain ⟨rfl, rfl⟩ := h2
      exact ⟨rfl, arrival_leaf _ _ (by simp [den, denL_ints]) (by simp [reins, reinsL_ints])⟩

theorem agree_109 (h1 : dec x cfg (fuel + 1) d (109 :: bs) = .ok (t, r)) (h2 : Spec.parse env (f' + 1) (109 :: bs) = some (v, r')) :
    r' = r ∧ arrivalOf v t := by
  open_tag 109
  simp only [rdU, takeE] at h1
  cases hr : rdN 4 bs with
  | none => simp [hr] at h1
  | some p =>
    obtain ⟨n, b⟩ := p
    simp only [hr] at h1 h2
    split at h1
    · simp at h1
    cases ht : takeN n b with
    | none => simp [ht] at h1
    | some q =>
      obtain ⟨a, c⟩ := q
      simp [ht] at h1 h2
      obtain ⟨rfl, rfl⟩ := h1
      obtain ⟨rfl, rfl⟩ := h2
      exact ⟨rfl, arrival_leaf _ _ (by simp [den]) (by simp [reins])⟩

theorem agree_77 (h1 : dec x cfg (fuel + 1) d (77 :: bs) = .ok (t, r)) (h2 : Spec.parse env (f' + 1) (77 :: bs) = some (v, r')) :
    r' = r ∧ arrivalOf v t := by
  open_tag 77
  simp only [rdU, takeE] at h1
  cases hr : rdN 4 bs with
  | none => simp [hr] at h1
  | some p =>
    obtain ⟨n, b⟩ := p
    simp only [hr] at h1 h2
    split at h1
    · simp at h1
    cases hs : rdN 1 b with
    | none => simp [hs] at h1
    | some p2 =>
      obtain ⟨bits, b1⟩ := p2
      simp only [hs] at h1 h2
      split at h1
      · simp at h1
      split at h1
      · simp at h1
      split at h2
      · simp at h2
      cases ht : takeN n b1 with
      | none => simp [ht] at h1
      | some q =>
        obtain ⟨a, c⟩ := q
        simp [ht] at h1 h2
        obtain ⟨rfl, rfl⟩ := h1
        obtain ⟨rfl, rfl⟩ := h2
        exact ⟨rfl, arrival_leaf _ _ (by simp [den]) (by simp [reins])⟩

include ih

theorem agree_88 (h1 : dec x cfg (fuel + 1) d (88 :: bs) = .ok (t, r)) (h2 : Spec.parse env (f' + 1) (88 :: bs) = some (v, r')) :
    r' = r ∧ arrivalOf v t := by
  open_tag 88
  split at h1
  · rename_i node r0 heq1
    split at h2
    · rename_i node' r0' heq2
      obtain ⟨hrr, hv⟩ := agree_atom ih heq1 heq2
      subst hrr
      injection hv with hv; subst hv
      simp only [rdU] at h1
      cases hr0 : rdN 4 r0' with
      | none => simp [hr0] at h1
      | some p0 =>
        obtain ⟨a0, b0⟩ := p0
        simp only [hr0] at h1 h2
        cases hr1 : rdN 4 b0 with
        | none => simp [hr1] at h1
        | some p1 =>
          obtain ⟨a1, b1⟩ := p1
          simp only [hr1] at h1 h2
          cases hr2 : rdN 4 b1 with
          | none => simp [hr2] at h1
          | some p2 =>
            obtain ⟨a2, b2⟩ := p2
            simp only [hr2] at h1 h2
            simp at h1 h2
            obtain ⟨rfl, rfl⟩ := h1
            obtain ⟨rfl, rfl⟩ := h2
            exact ⟨rfl, arrival_leaf _ _ (by simp [den]) (by simp [reins])⟩
    · simp at h2
  · simp at h1
  · simp at h1

theorem agree_103 (h1 : dec x cfg (fuel + 1) d (103 :: bs) = .ok (t, r)) (h2 : Spec.parse env (f' + 1) (103 :: bs) = some (v, r')) :
    r' = r ∧ arrivalOf v t := by
  open_tag 103
  split at h1
  · rename_i node r0 heq1
    split at h2
    · rename_i node' r0' heq2
      obtain ⟨hrr, hv⟩ := agree_atom ih heq1 heq2
      subst hrr
      injection hv with hv; subst hv
      simp only [rdU] at h1
      cases hr0 : rdN 4 r0' with
      | none => simp [hr0] at h1
      | some p0 =>
        obtain ⟨a0, b0⟩ := p0
        simp only [hr0] at h1 h2
        cases hr1 : rdN 4 b0 with
        | none => simp [hr1] at h1
        | some p1 =>
          obtain ⟨a1, b1⟩ := p1
          simp only [hr1] at h1 h2
          cases hr2 : rdN 1 b1 with
          | none => simp [hr2] at h1
          | some p2 =>
            obtain ⟨a2, b2⟩ := p2
            simp only [hr2] at h1 h2
            simp at h1 h2
            obtain ⟨rfl, rfl⟩ := h1
            obtain ⟨rfl, rfl⟩ := h2
            exact ⟨rfl, arrival_leaf _ _ (by simp [den]) (by simp [reins])⟩
    · simp at h2
  · simp at h1
  · simp at h1

theorem agree_120 (h1 : dec x cfg (fuel + 1) d (120 :: bs) = .ok (t, r)) (h2 : Spec.parse env (f' + 1) (120 :: bs) = some (v, r')) :
    r' = r ∧ arrivalOf v t := by
  open_tag 120
  split at h1
  · rename_i node r0 heq1
    split at h2
    · rename_i node' r0' heq2
      obtain ⟨hrr, hv⟩ := agree_atom ih heq1 heq2
      subst hrr
      injection hv with hv; subst hv
      simp only [rdU] at h1
      cases hr0 : rdN 8 r0' with
      | none => simp [hr0] at h1
      | some p0 =>
        obtain ⟨a0, b0⟩ := p0
        simp only [hr0] at h1 h2
        cases hr1 : rdN 4 b0 with
        | none => simp [hr1] at h1
        | some p1 =>
          obtain ⟨a1, b1⟩ := p1
          simp only [hr1] at h1 h2
          simp at h1 h2
          obtain ⟨rfl, rfl⟩ := h1
          obtain ⟨rfl, rfl⟩ := h2
          exact ⟨rfl, arrival_leaf _ _ (by simp [den]) (by simp [reins])⟩
    · simp at h2
  · simp at h1
  · simp at h1

theorem agree_89 (h1 : dec x cfg (fuel + 1) d (89 :: bs) = .ok (t, r)) (h2 : Spec.parse env (f' + 1) (89 :: bs) = some (v, r')) :
    r' = r ∧ arrivalOf v t := by
  open_tag 89
  split at h1
  · rename_i node r0 heq1
    split at h2
    · rename_i node' r0' heq2
      obtain ⟨hrr, hv⟩ := agree_atom ih heq1 heq2
      subst hrr
      injection hv with hv; subst hv
      simp only [rdU] at h1
      cases hr0 : rdN 4 r0' with
      | none => simp [hr0] at h1
      | some p0 =>
        obtain ⟨a0, b0⟩ := p0
        simp only [hr0] at h1 h2
        cases hr1 : rdN 4 b0 with
        | none => simp [hr1] at h1
        | some p1 =>
          obtain ⟨a1, b1⟩ := p1
          simp only [hr1] at h1 h2
          simp at h1 h2
          obtain ⟨rfl, rfl⟩ := h1
          obtain ⟨rfl, rfl⟩ := h2
          exact ⟨rfl, arrival_leaf _ _ (by simp [den]) (by simp [reins])⟩
    · simp at h2
  · simp at h1
  · simp at h1

theorem agree_102 (h1 : dec x cfg (fuel + 1) d (102 :: bs) = .ok (t, r)) (h2 : Spec.parse env (f' + 1) (102 :: bs) = some (v, r')) :
    r' = r ∧ arrivalOf v t := by
  open_tag 102
  split at h1
  · rename_i node r0 heq1
    split at h2
    · rename_i node' r0' heq2
      obtain ⟨hrr, hv⟩ := agree_atom ih heq1 heq2
      subst hrr
      injection hv with hv; subst hv
      simp only [rdU] at h1
      cases hr0 : rdN 4 r0' with
      | none => simp [hr0] at h1
      | some p0 =>
        obtain ⟨a0, b0⟩ := p0
        simp only [hr0] at h1 h2
        cases hr1 : rdN 1 b0 with
        | none => simp [hr1] at h1
        | some p1 =>
          obtain ⟨a1, b1⟩ := p1
          simp only [hr1] at h1 h2
          simp at h1 h2
          obtain ⟨rfl, rfl⟩ := h1
          obtain ⟨rfl, rfl⟩ := h2
          exact ⟨rfl, arrival_leaf _ _ (by simp [den]) (by simp [reins])⟩
    · simp at h2
  · simp at h1
  · simp at h1

theorem agree_101 (h1 : dec x cfg (fuel + 1) d (101 :: bs) = .ok (t, r)) (h2 : Spec.parse env (f' + 1) (101 :: bs) = some (v, r')) :
    r' = r ∧ arrivalOf v t := by
  open_tag 101
  split at h1
  · rename_i node r0 heq1
    split at h2
    · rename_i node' r0' heq2
      obtain ⟨hrr, hv⟩ := agree_atom ih heq1 heq2
      subst hrr
      injection hv with hv; subst hv
      simp only [rdU] at h1
      cases hr0 : rdN 4 r0' with
      | none => simp [hr0] at h1
      | some p0 =>
        obtain ⟨a0, b0⟩ := p0
        simp only [hr0] at h1 h2
        cases hr1 : rdN 1 b0 with
        | none => simp [hr1] at h1
        | some p1 =>
          obtain ⟨a1, b1⟩ := p1
          simp only [hr1] at h1 h2
          simp at h1 h2
          obtain ⟨rfl, rfl⟩ := h1
          obtain ⟨rfl, rfl⟩ := h2
          exact ⟨rfl, arrival_leaf _ _ (by simp [den]) (by simp [reins])⟩
    · simp at h2
  · simp at h1
  · simp at h1

theorem agree_90 (h1 : dec x cfg (fuel + 1) d (90 :: bs) = .ok (t, r)) (h2 : Spec.parse env (f' + 1) (90 :: bs) = some (v, r')) :
    r' = r ∧ arrivalOf v t := by
  open_tag 90
  simp only [rdU] at h1
  cases hl : rdN 2 bs with
  | none => simp [hl] at h1
  | some pl =>
    obtain ⟨len, bl⟩ := pl
    simp only [hl] at h1 h2
    split at h1
    · rename_i node r0 heq1
      split at h2
      · rename_i node' r0' heq2
        obtain ⟨hrr, hv⟩ := agree_atom ih heq1 heq2
        subst hrr
        injection hv with hv; subst hv
        cases hr0 : rdN 4 r0' with
        | none => simp [hr0] at h1
        | some p0 =>
          obtain ⟨a0, b0⟩ := p0
          simp only [hr0, rdWords_spec] at h1 h2
          cases hw : Spec.rdWords len b0 with
          | none => simp [hw] at h1
          | some pw =>
            obtain ⟨ws, bw⟩ := pw
            simp [hw] at h1 h2
            obtain ⟨rfl, rfl⟩ := h1
            obtain ⟨rfl, rfl⟩ := h2
            exact ⟨rfl, arrival_leaf _ _ (by simp [den]) (by simp [reins])⟩
      · simp at h2
    · simp at h1
    · simp at h1

theorem agree_114 (h1 : dec x cfg (fuel + 1) d (114 :: bs) = .ok (t, r)) (h2 : Spec.parse env (f' + 1) (114 :: bs) = some (v, r')) :
    r' = r ∧ arrivalOf v t := by
  open_tag 114
  simp only [rdU] at h1
  cases hl : rdN 2 bs with
  | none => simp [hl] at h1
  | some pl =>
    obtain ⟨len, bl⟩ := pl
    simp only [hl] at h1 h2
    split at h1
    · rename_i node r0 heq1
      split at h2
      · rename_i node' r0' heq2
        obtain ⟨hrr, hv⟩ := agree_atom ih heq1 heq2
        subst hrr
        injection hv with hv; subst hv
        cases hr0 : rdN 1 r0' with
        | none => simp [hr0] at h1
        | some p0 =>
          obtain ⟨a0, b0⟩ := p0
          simp only [hr0, rdWords_spec] at h1 h2
          cases hw : Spec.rdWords len b0 with
          | none => simp [hw] at h1
          | some pw =>
            obtain ⟨ws, bw⟩ := pw
            simp [hw] at h1 h2
            obtain ⟨rfl, rfl⟩ := h1
            obtain ⟨rfl, rfl⟩ := h2
            exact ⟨rfl, arrival_leaf _ _ (by simp [den]) (by simp [reins])⟩
      · simp at h2
    · simp at h1
    · simp at h1

theorem agree_113 (h1 : dec x cfg (fuel + 1) d (113 :: bs) = .ok (t, r)) (h2 : Spec.parse env (f' + 1) (113 :: bs) = some (v, r')) :
    r' = r ∧ arrivalOf v t := by
  open_tag 113
  split at h1
  · rename_i m r0 heq1
    split at h2
    · rename_i m' r0' heq2
      obtain ⟨hrr, hv⟩ := agree_atom ih heq1 heq2
      subst hrr
      injection hv with hv; subst hv
      split at h1
      · rename_i fn r1 heq3
        split at h2
        · rename_i fn' r1' heq4
          obtain ⟨hrr, hv⟩ := agree_atom ih heq3 heq4
          subst hrr
          injection hv with hv; subst hv
          split at h1
          · rename_i a r2 heq5
            split at h2
            · rename_i a' r2' heq6
              obtain ⟨hrr, hv⟩ := agree_int ih heq5 heq6
              subst hrr
              injection hv with hv; subst hv
              split at h1
              · rename_i hrange
                simp only [hrange, and_self, ↓reduceIte] at h2
                simp at h1 h2
                obtain ⟨rfl, rfl⟩ := h1
                obtain ⟨rfl, rfl⟩ := h2
                exact ⟨rfl, arrival_leaf _ _ (by simp [den]) (by simp [reins])⟩
              · simp at h1
            · simp at h2
          · simp at h1
          · simp at h1
        · simp at h2
      · simp at h1
      · simp at h1
    · simp at h2
  · simp at h1
  · simp at h1

theorem agree_121 (h1 : dec x cfg (fuel + 1) d (121 :: bs) = .ok (t, r)) (h2 : Spec.parse env (f' + 1) (121 :: bs) = some (v, r')) :
    r' = r ∧ arrivalOf v t := by
  open_tag 121
  simp only [rdU] at h1
  cases hl : rdN 8 bs with
  | none => simp [hl] at h1
  | some pl =>
    obtain ⟨hash, b0⟩ := pl
    simp only [hl] at h1 h2
    split at h1
    · simp at h1
    · rename_i t' r1 heq1
      obtain ⟨hrr, t₀, hv, ht⟩ := ih _ _ _ _ _ _ _ heq1 h2
      subst hrr
      split at h1
      · rename_i p
        simp at h1; obtain ⟨rfl, rfl⟩ := h1
        have := reins_pid t₀ p ht; subst this
        exact ⟨rfl, arrival_leaf _ _ (by simp [hv, den]) (by simp [reins])⟩
      · rename_i n i c l
        simp at h1; obtain ⟨rfl, rfl⟩ := h1
        have := reins_port t₀ n i c l ht; subst this
        exact ⟨rfl, arrival_leaf _ _ (by simp [hv, den]) (by simp [reins])⟩
      · rename_i n c ids l
        simp at h1; obtain ⟨rfl, rfl⟩ := h1
        have := reins_ref t₀ n c ids l ht; subst this
        exact ⟨rfl, arrival_leaf _ _ (by simp [hv, den]) (by simp [reins])⟩
      · simp at h1; obtain ⟨rfl, rfl⟩ := h1
        exact ⟨rfl, t₀, hv, ht⟩

theorem agree_80 (_h1 : dec x cfg (fuel + 1) d (80 :: bs) = .ok (t, r)) (h2 : Spec.parse env (f' + 1) (80 :: bs) = some (v, r')) :
    r' = r ∧ arrivalOf v t := by
  rw [Spec.parse.eq_3] at h2
  simp at h2

variable (ihN : AgreeN x cfg env fuel)
include ihN

theorem agree_104 (h1 : dec x cfg (fuel + 1) d (104 :: bs) = .ok (t, r)) (h2 : Spec.parse env (f' + 1) (104 :: bs) = some (v, r')) :
    r' = r ∧ arrivalOf v t := by
  open_tag 104
  simp only [rdU] at h1
  cases hl : rdN 1 bs with
  | none => simp [hl] at h1
  | some pl =>
    obtain ⟨n, b0⟩ := pl
    simp only [hl] at h1 h2
    split at h1
    · rename_i l r1 heq1
      cases hp : Spec.parseN env f' n b0 with
      | none => simp [hp] at h2
      | some q =>
        obtain ⟨vs, r1'⟩ := q
        obtain ⟨hrr, ts₀, hvs, hts⟩ := ihN _ _ _ _ _ _ _ _ heq1 hp
        simp [hp] at h1 h2
        obtain ⟨rfl, rfl⟩ := h1
        obtain ⟨rfl, rfl⟩ := h2
        exact ⟨hrr, .tuple ts₀, by simp [den, hvs], by simp [reins, hts]⟩
    · simp at h1

theorem agree_105 (h1 : dec x cfg (fuel + 1) d (105 :: bs) = .ok (t, r)) (h2 : Spec.parse env (f' + 1) (105 :: bs) = some (v, r')) :
    r' = r ∧ arrivalOf v t := by
  open_tag 105
  simp only [rdU] at h1
  cases hl : rdN 4 bs with
  | none => simp [hl] at h1
  | some pl =>
    obtain ⟨n, b0⟩ := pl
    simp only [hl] at h1 h2
    split at h1
    · simp at h1
    split at h1
    · rename_i l r1 heq1
      cases hp : Spec.parseN env f' n b0 with
      | none => simp [hp] at h2
      | some q =>
        obtain ⟨vs, r1'⟩ := q
        obtain ⟨hrr, ts₀, hvs, hts⟩ := ihN _ _ _ _ _ _ _ _ heq1 hp
        simp [hp] at h1 h2
        obtain ⟨rfl, rfl⟩ := h1
        obtain ⟨rfl, rfl⟩ := h2
        exact ⟨hrr, .tuple ts₀, by simp [den, hvs], by simp [reins, hts]⟩
    · simp at h1

theorem agree_108 (h1 : dec x cfg (fuel + 1) d (108 :: bs) = .ok (t, r)) (h2 : Spec.parse env (f' + 1) (108 :: bs) = some (v, r')) :
    r' = r ∧ arrivalOf v t := by
  open_tag 108
  simp only [rdU] at h1
  cases hl : rdN 4 bs with
  | none => simp [hl] at h1
  | some pl =>
    obtain ⟨n, b0⟩ := pl
    simp only [hl] at h1 h2
    split at h1
    · simp at h1
    split at h1
    · simp at h1
    · rename_i l r1 heq1
      cases hp : Spec.parseN env f' n b0 with
      | none => simp [hp] at h2
      | some q =>
        obtain ⟨vs, r1'⟩ := q
        obtain ⟨hrr, ts₀, hvs, hts⟩ := ihN _ _ _ _ _ _ _ _ heq1 hp
        subst hrr
        simp only [hp] at h2
        cases hq : Spec.parse env f' r1' with
        | none => simp [hq] at h2
        | some q2 =>
          obtain ⟨tv, r2'⟩ := q2
          simp [hq] at h2
          obtain ⟨rfl, rfl⟩ := h2
          split at h1
          · simp at h1
          · rename_i r2 heq2
            obtain ⟨hrr, tl₀, htv, htl⟩ := ih _ _ _ _ _ _ _ heq2 hq
            have := reins_nil tl₀ htl; subst this
            simp at h1; obtain ⟨rfl, rfl⟩ := h1
            exact ⟨hrr, .list ts₀, by simp [den, hvs, htv], by simp [reins, hts]⟩
          · rename_i tl r2 hne heq2
            obtain ⟨hrr, tl₀, htv, htl⟩ := ih _ _ _ _ _ _ _ heq2 hq
            simp at h1; obtain ⟨rfl, rfl⟩ := h1
            exact ⟨hrr, .ilist ts₀ tl₀, by simp [den, hvs, htv], by simp [reins, hts, htl]⟩

variable (ihKV : AgreeKV x cfg env fuel)
include ihKV

theorem agree_116 (h1 : dec x cfg (fuel + 1) d (116 :: bs) = .ok (t, r)) (h2 : Spec.parse env (f' + 1) (116 :: bs) = some (v, r')) :
    r' = r ∧ arrivalOf v t := by
  open_tag 116
  simp only [rdU] at h1
  cases hl : rdN 4 bs with
  | none => simp [hl] at h1
  | some pl =>
    obtain ⟨n, b0⟩ := pl
    simp only [hl] at h1 h2
    split at h1
    · simp at h1
    split at h1
    · rename_i m r1 heq1
      cases hp : Spec.parseKV env f' n b0 with
      | none => simp [hp] at h2
      | some q =>
        obtain ⟨ps, r1'⟩ := q
        obtain ⟨hrr, kvs₀, hps, hm⟩ := ihKV _ _ _ _ _ _ _ _ _ heq1 hp
        simp [hp] at h1 h2
        obtain ⟨rfl, rfl⟩ := h1
        obtain ⟨rfl, rfl⟩ := h2
        exact ⟨hrr, .map kvs₀, by simp [den, hps], by simp [reins, hm]⟩
    · simp at h1

theorem agree_112 (h1 : dec x cfg (fuel + 1) d (112 :: bs) = .ok (t, r)) (h2 : Spec.parse env (f' + 1) (112 :: bs) = some (v, r')) :
    r' = r ∧ arrivalOf v t := by
  open_tag 112
  simp only [rdU, takeE] at h1
  cases hl : rdN 4 bs with
  | none => simp [hl] at h1
  | some pl =>
    obtain ⟨size, b0⟩ := pl
    simp only [hl] at h1 h2
    split at h2
    · simp at h2
    cases hr1 : rdN 1 b0 with
    | none => simp [hr1] at h1
    | some p1 =>
      obtain ⟨arity, b1⟩ := p1
      simp only [hr1] at h1 h2
      cases hr2 : takeN 16 b1 with
      | none => simp [hr2] at h1
      | some p2 =>
        obtain ⟨uniq, b2⟩ := p2
        simp only [hr2] at h1 h2
        cases hr3 : rdN 4 b2 with
        | none => simp [hr3] at h1
        | some p3 =>
          obtain ⟨index, b3⟩ := p3
          simp only [hr3] at h1 h2
          cases hr4 : rdN 4 b3 with
          | none => simp [hr4] at h1
          | some p4 =>
            obtain ⟨nf, b4⟩ := p4
            simp only [hr4] at h1 h2
            split at h1
            · rename_i m r5 heq1
              split at h2
              · rename_i m' r5' heq2
                obtain ⟨hrr, hv⟩ := agree_atom ih heq1 heq2
                subst hrr
                injection hv with hv; subst hv
                split at h1
                · rename_i oi r6 heq3
                  split at h2
                  · rename_i oi' r6' heq4
                    obtain ⟨hrr, hv⟩ := agree_int ih heq3 heq4
                    subst hrr
                    injection hv with hv; subst hv
                    split at h1
                    · simp at h1
                    split at h1
                    · rename_i ou r7 heq5
                      split at h2
                      · rename_i ou' r7' heq6
                        obtain ⟨hrr, hv⟩ := agree_int ih heq5 heq6
                        subst hrr
                        injection hv with hv; subst hv
                        split at h1
                        · simp at h1
                        split at h1
                        · rename_i p r8 heq7
                          split at h2
                          · rename_i pn pi ps pc r8' heq8
                            obtain ⟨hrr, hv⟩ := agree_pid ih heq7 heq8
                            subst hrr
                            split at h1
                            · rename_i fr r9 heq9
                              cases hp : Spec.parseN env f' nf r8' with
                              | none => simp [hp] at h2
                              | some q =>
                                obtain ⟨vs, r9'⟩ := q
                                obtain ⟨hrr, ts₀, hvs, hts⟩ := ihN _ _ _ _ _ _ _ _ heq9 hp
                                simp only [hp] at h2
                                split at h2
                                · simp at h2
                                simp at h1 h2
                                obtain ⟨rfl, rfl⟩ := h1
                                obtain ⟨rfl, rfl⟩ := h2
                                refine ⟨hrr, .ifun arity uniq index nf m oi'.toNat ou'.toNat p ts₀, ?_, by simp [reins, hts]⟩
                                simp [den, hvs, hv]
                            · simp at h1
                          · simp at h2
                        · simp at h1
                        · simp at h1
                      · simp at h2
                    · simp at h1
                    · simp at h1
                  · simp at h2
                · simp at h1
                · simp at h1
              · simp at h2
            · simp at h1
            · simp at h1

end

/-- whenever the decoder model and the spec reader both accept a byte string, they consumed the same bytes and the
decoder's term is the re-inserted form of a term that denotes the reader's value — for ALL byte strings, every tag,
every depth and fuel, any atom cache that agrees with the reader's reference table.
`hpf`: the two float-text parsers agree where both are defined (FLOAT_EXT, tag 99). -/
theorem dec_agrees (x : Ext) (cfg : DecCfg) (env : Spec.Env)
    (hpf : ∀ f b b', x.parseFloat f = some b → Spec.parseFloatText f = some b' → b' = b)
    (hcache : ∀ i a c, cfg.cache.lookup i = some a → env.refs[i]? = some c → c = cps a) :
    ∀ fuel, AgreeT x cfg env fuel ∧ AgreeN x cfg env fuel ∧ AgreeKV x cfg env fuel := by
  intro fuel
  induction fuel with
  | zero =>
    refine ⟨?_, ?_, ?_⟩
    · intro d bs t r f' v r' h1 _; simp [dec] at h1
    · intro d n bs ts r f' vs r' h1 h2
      cases n with
      | zero =>
        simp [decN] at h1
        cases f' <;> simp [Spec.parseN] at h2 <;>
          (obtain ⟨rfl, rfl⟩ := h1; obtain ⟨rfl, rfl⟩ := h2; exact ⟨rfl, [], by simp [denL], by simp [reinsL]⟩)
      | succ n => simp [decN] at h1
    · intro d n bs acc m r f' ps r' h1 h2
      cases n with
      | zero =>
        simp [decKV] at h1
        cases f' <;> simp [Spec.parseKV] at h2 <;>
          (obtain ⟨rfl, rfl⟩ := h1; obtain ⟨rfl, rfl⟩ := h2; exact ⟨rfl, [], by simp [denKV], by simp [reinsKV, insertAll]⟩)
      | succ n => simp [decKV] at h1
  | succ fuel ihh =>
    obtain ⟨ih, ihN, ihKV⟩ := ihh
    refine ⟨?_, ?_, ?_⟩
    · intro d bs t r f' v r' h1 h2
      cases bs with
      | nil => simp [dec] at h1
      | cons tagB bs =>
        cases f' with
        | zero => simp [Spec.parse] at h2
        | succ f' =>
        have h1' := h1
        rw [dec.eq_3] at h1
        split at h1
        · simp at h1
        split at h1
        · simp at h1
        simp only at h1
        split at h1
        · rename_i heq
          have ht : tagB = 97 := UInt8.toNat_inj.mp (by simpa using heq)
          subst ht
          exact agree_97  h1' h2
        · rename_i heq
          have ht : tagB = 98 := UInt8.toNat_inj.mp (by simpa using heq)
          subst ht
          exact agree_98  h1' h2
        · rename_i heq
          have ht : tagB = 99 := UInt8.toNat_inj.mp (by simpa using heq)
          subst ht
          exact agree_99 hpf h1' h2
        · rename_i heq
          have ht : tagB = 70 := UInt8.toNat_inj.mp (by simpa using heq)
          subst ht
          exact agree_70  h1' h2
        · rename_i heq
          have ht : tagB = 100 := UInt8.toNat_inj.mp (by simpa using heq)
          subst ht
          exact agree_100  h1' h2
        · rename_i heq
          have ht : tagB = 118 := UInt8.toNat_inj.mp (by simpa using heq)
          subst ht
          exact agree_118  h1' h2
        · rename_i heq
          have ht : tagB = 119 := UInt8.toNat_inj.mp (by simpa using heq)
          subst ht
          exact agree_119  h1' h2
        · rename_i heq
          have ht : tagB = 115 := UInt8.toNat_inj.mp (by simpa using heq)
          subst ht
          exact agree_115  h1' h2
        · rename_i heq
          have ht : tagB = 104 := UInt8.toNat_inj.mp (by simpa using heq)
          subst ht
          exact agree_104 ih ihN h1' h2
        · rename_i heq
          have ht : tagB = 105 := UInt8.toNat_inj.mp (by simpa using heq)
          subst ht
          exact agree_105 ih ihN h1' h2
        · rename_i heq
          have ht : tagB = 106 := UInt8.toNat_inj.mp (by simpa using heq)
          subst ht
          exact agree_106  h1' h2
        · rename_i heq
          have ht : tagB = 107 := UInt8.toNat_inj.mp (by simpa using heq)
          subst ht
          exact agree_107  h1' h2
        · rename_i heq
          have ht : tagB = 108 := UInt8.toNat_inj.mp (by simpa using heq)
          subst ht
          exact agree_108 ih ihN h1' h2
        · rename_i heq
          have ht : tagB = 109 := UInt8.toNat_inj.mp (by simpa using heq)
          subst ht
          exact agree_109  h1' h2
        · rename_i heq
          have ht : tagB = 77 := UInt8.toNat_inj.mp (by simpa using heq)
          subst ht
          exact agree_77  h1' h2
        · rename_i heq
          have ht : tagB = 110 := UInt8.toNat_inj.mp (by simpa using heq)
          subst ht
          exact agree_110  h1' h2
        · rename_i heq
          have ht : tagB = 111 := UInt8.toNat_inj.mp (by simpa using heq)
          subst ht
          exact agree_111  h1' h2
        · rename_i heq
          have ht : tagB = 116 := UInt8.toNat_inj.mp (by simpa using heq)
          subst ht
          exact agree_116 ih ihN ihKV h1' h2
        · rename_i heq
          have ht : tagB = 88 := UInt8.toNat_inj.mp (by simpa using heq)
          subst ht
          exact agree_88 ih h1' h2
        · rename_i heq
          have ht : tagB = 103 := UInt8.toNat_inj.mp (by simpa using heq)
          subst ht
          exact agree_103 ih h1' h2
        · rename_i heq
          have ht : tagB = 120 := UInt8.toNat_inj.mp (by simpa using heq)
          subst ht
          exact agree_120 ih h1' h2
        · rename_i heq
          have ht : tagB = 89 := UInt8.toNat_inj.mp (by simpa using heq)
          subst ht
          exact agree_89 ih h1' h2
        · rename_i heq
          have ht : tagB = 102 := UInt8.toNat_inj.mp (by simpa using heq)
          subst ht
          exact agree_102 ih h1' h2
        · rename_i heq
          have ht : tagB = 90 := UInt8.toNat_inj.mp (by simpa using heq)
          subst ht
          exact agree_90 ih h1' h2
        · rename_i heq
          have ht : tagB = 114 := UInt8.toNat_inj.mp (by simpa using heq)
          subst ht
          exact agree_114 ih h1' h2
        · rename_i heq
          have ht : tagB = 101 := UInt8.toNat_inj.mp (by simpa using heq)
          subst ht
          exact agree_101 ih h1' h2
        · rename_i heq
          have ht : tagB = 113 := UInt8.toNat_inj.mp (by simpa using heq)
          subst ht
          exact agree_113 ih h1' h2
        · rename_i heq
          have ht : tagB = 112 := UInt8.toNat_inj.mp (by simpa using heq)
          subst ht
          exact agree_112 ih ihN ihKV h1' h2
        · rename_i heq
          have ht : tagB = 121 := UInt8.toNat_inj.mp (by simpa using heq)
          subst ht
          exact agree_121 ih h1' h2
        · rename_i heq
          have ht : tagB = 80 := UInt8.toNat_inj.mp (by simpa using heq)
          subst ht
          exact agree_80 ih h1' h2
        · rename_i heq
          have ht : tagB = 82 := UInt8.toNat_inj.mp (by simpa using heq)
          subst ht
          exact agree_82 hcache h1' h2
        · simp at h1
    · intro d n bs ts r f' vs r' h1 h2
      cases n with
      | zero =>
        simp [decN] at h1
        cases f' <;> simp [Spec.parseN] at h2 <;>
          (obtain ⟨rfl, rfl⟩ := h1; obtain ⟨rfl, rfl⟩ := h2; exact ⟨rfl, [], by simp [denL], by simp [reinsL]⟩)
      | succ n =>
        cases f' with
        | zero => simp [Spec.parseN] at h2
        | succ f' =>
          simp only [decN] at h1
          simp only [Spec.parseN] at h2
          split at h1
          · simp at h1
          · rename_i t1 r1 heq1
            cases hp : Spec.parse env f' bs with
            | none => simp [hp] at h2
            | some q =>
              obtain ⟨v1, r1'⟩ := q
              obtain ⟨hrr, t₀, hv, ht⟩ := ih _ _ _ _ _ _ _ heq1 hp
              subst hrr
              simp only [hp] at h2
              split at h1
              · simp at h1
              · rename_i ts2 r2 heq2
                cases hq : Spec.parseN env f' n r1' with
                | none => simp [hq] at h2
                | some q2 =>
                  obtain ⟨vs2, r2'⟩ := q2
                  obtain ⟨hrr, ts₀, hvs, hts⟩ := ihN _ _ _ _ _ _ _ _ heq2 hq
                  simp [hq] at h1 h2
                  obtain ⟨rfl, rfl⟩ := h1
                  obtain ⟨rfl, rfl⟩ := h2
                  exact ⟨hrr, t₀ :: ts₀, by simp [denL, hv, hvs], by simp [reinsL, ht, hts]⟩
    · intro d n bs acc m r f' ps r' h1 h2
      cases n with
      | zero =>
        simp [decKV] at h1
        cases f' <;> simp [Spec.parseKV] at h2 <;>
          (obtain ⟨rfl, rfl⟩ := h1; obtain ⟨rfl, rfl⟩ := h2; exact ⟨rfl, [], by simp [denKV], by simp [reinsKV, insertAll]⟩)
      | succ n =>
        cases f' with
        | zero => simp [Spec.parseKV] at h2
        | succ f' =>
          simp only [decKV] at h1
          simp only [Spec.parseKV] at h2
          split at h1
          · simp at h1
          · rename_i k1 r1 heq1
            cases hp : Spec.parse env f' bs with
            | none => simp [hp] at h2
            | some q =>
              obtain ⟨kv, r1'⟩ := q
              obtain ⟨hrr, k₀, hk, hkt⟩ := ih _ _ _ _ _ _ _ heq1 hp
              subst hrr
              simp only [hp] at h2
              split at h1
              · simp at h1
              · rename_i v1 r2 heq2
                cases hq : Spec.parse env f' r1' with
                | none => simp [hq] at h2
                | some q2 =>
                  obtain ⟨vv, r2'⟩ := q2
                  obtain ⟨hrr, v₀, hv, hvt⟩ := ih _ _ _ _ _ _ _ heq2 hq
                  subst hrr
                  simp only [hq] at h2
                  cases hz : Spec.parseKV env f' n r2' with
                  | none => simp [hz] at h2
                  | some q3 =>
                    obtain ⟨ps3, r3'⟩ := q3
                    obtain ⟨hrr, kvs₀, hps, hm⟩ := ihKV _ _ _ _ _ _ _ _ _ h1 hz
                    simp [hz] at h2
                    obtain ⟨rfl, rfl⟩ := h2
                    exact ⟨hrr, (k₀, v₀) :: kvs₀, by simp [denKV, hk, hv, hps], by simp [reinsKV, insertAll, hkt, hvt, hm]⟩


mutual
/-- no map anywhere in the term -/
def noMaps : Term → Bool
  | .list l => noMapsL l
  | .ilist l t => noMapsL l && noMaps t
  | .map _ => false
  | .tuple l => noMapsL l
  | .ifun _ _ _ _ _ _ _ _ fr => noMapsL fr
  | _ => true
def noMapsL : List Term → Bool
  | [] => true
  | t :: ts => noMaps t && noMapsL ts
end

mutual
/-- every map's entries arrived in strictly increasing key order (so that insertion neither reorders nor merges) -/
def arrivalSorted : Term → Bool
  | .list l => arrivalSortedL l
  | .ilist l t => arrivalSortedL l && arrivalSorted t
  | .map kvs => arrivalSortedKV kvs && pairwiseLt (reinsKV kvs)
  | .tuple l => arrivalSortedL l
  | .ifun _ _ _ _ _ _ _ _ fr => arrivalSortedL fr
  | _ => true
def arrivalSortedL : List Term → Bool
  | [] => true
  | t :: ts => arrivalSorted t && arrivalSortedL ts
def arrivalSortedKV : List (Term × Term) → Bool
  | [] => true
  | (k, v) :: r => arrivalSorted k && arrivalSorted v && arrivalSortedKV r
end

mutual
theorem reins_sorted (t : Term) (h : arrivalSorted t = true) : reins t = t := by
  match t with
  | .atom a => simp [reins]
  | .int i => simp [reins]
  | .float b => simp [reins]
  | .bin b => simp [reins]
  | .str b => simp [reins]
  | .bits b n => simp [reins]
  | .big neg dg => simp [reins]
  | .nil => simp [reins]
  | .pid p => simp [reins]
  | .port n i c l => simp [reins]
  | .ref n c ids l => simp [reins]
  | .xfun m fn a => simp [reins]
  | .tuple l => simp only [arrivalSorted] at h; simp [reins, reinsL_sorted l h]
  | .list l => simp only [arrivalSorted] at h; simp [reins, reinsL_sorted l h]
  | .ilist l tl =>
    simp only [arrivalSorted, Bool.and_eq_true] at h; simp [reins, reinsL_sorted l h.1, reins_sorted tl h.2]
  | .map kvs =>
    simp only [arrivalSorted, Bool.and_eq_true] at h
    have e := reinsKV_sorted kvs h.1
    have h2 := h.2
    rw [e] at h2
    simp only [reins, e, insertAll_sorted _ h2]
  | .ifun a u i nf m oi ou p fr => simp only [arrivalSorted] at h; simp [reins, reinsL_sorted fr h]
termination_by sizeOf t
decreasing_by all_goals (simp_wf; try omega)
theorem reinsL_sorted (l : List Term) (h : arrivalSortedL l = true) : reinsL l = l := by
  match l with
  | [] => simp [reinsL]
  | t :: ts =>
    simp only [arrivalSortedL, Bool.and_eq_true] at h
    simp [reinsL, reins_sorted t h.1, reinsL_sorted ts h.2]
termination_by sizeOf l
decreasing_by all_goals (simp_wf; try omega)
theorem reinsKV_sorted (kvs : List (Term × Term)) (h : arrivalSortedKV kvs = true) : reinsKV kvs = kvs := by
  match kvs with
  | [] => simp [reinsKV]
  | (k, v) :: ts =>
    simp only [arrivalSortedKV, Bool.and_eq_true] at h
    simp [reinsKV, reins_sorted k h.1.1, reins_sorted v h.1.2, reinsKV_sorted ts h.2]
termination_by sizeOf kvs
decreasing_by all_goals (simp_wf; try omega)
end

mutual
theorem reins_noMaps (t : Term) (h : noMaps (reins t) = true) : reins t = t := by
  match t with
  | .atom a => simp [reins]
  | .int i => simp [reins]
  | .float b => simp [reins]
  | .bin b => simp [reins]
  | .str b => simp [reins]
  | .bits b n => simp [reins]
  | .big neg dg => simp [reins]
  | .nil => simp [reins]
  | .pid p => simp [reins]
  | .port n i c l => simp [reins]
  | .ref n c ids l => simp [reins]
  | .xfun m fn a => simp [reins]
  | .tuple l => simp only [reins, noMaps] at h; simp [reins, reinsL_noMaps l h]
  | .list l => simp only [reins, noMaps] at h; simp [reins, reinsL_noMaps l h]
  | .ilist l tl =>
    simp only [reins, noMaps, Bool.and_eq_true] at h; simp [reins, reinsL_noMaps l h.1, reins_noMaps tl h.2]
  | .map kvs => simp [reins, noMaps] at h
  | .ifun a u i nf m oi ou p fr => simp only [reins, noMaps] at h; simp [reins, reinsL_noMaps fr h]
termination_by sizeOf t
decreasing_by all_goals (simp_wf; try omega)
theorem reinsL_noMaps (l : List Term) (h : noMapsL (reinsL l) = true) : reinsL l = l := by
  match l with
  | [] => simp [reinsL]
  | t :: ts =>
    simp only [reinsL, noMapsL, Bool.and_eq_true] at h
    simp [reinsL, reins_noMaps t h.1, reinsL_noMaps ts h.2]
termination_by sizeOf l
decreasing_by all_goals (simp_wf; try omega)
end

/-- the whole-message level: version byte, optional top-level COMPRESSED section (through the shared inflate
function), nothing left over -/
theorem top_agrees (x : Ext) (cfg : DecCfg) (env : Spec.Env) (hinf : env.inflate = x.inflate)
    (hpf : ∀ f b b', x.parseFloat f = some b → Spec.parseFloatText f = some b' → b' = b)
    (hcache : ∀ i a c, cfg.cache.lookup i = some a → env.refs[i]? = some c → c = cps a)
    (bs : Bytes) (t : Term) (v : Value) (rest : Bytes)
    (h1 : decodeWith x cfg bs = .ok t) (h2 : Spec.parseTop env bs = some (v, rest)) :
    arrivalOf v t := by
  unfold decodeWith at h1
  cases bs with
  | nil => simp at h1
  | cons ver r =>
    simp only at h1
    split at h1
    · simp at h1
    rename_i hver
    have hv : ver = 131 := by simpa using hver
    subst hv
    generalize hF : r.length + 1 + x.extra = F at h1
    split at h1
    · simp at h1
    · rename_i t' heq
      simp at h1; subst h1
      unfold Spec.parseTop at h2
      split at h2
      · -- compressed
        rename_i z heqz
        simp at heqz; subst heqz
        cases F with
        | zero => simp [dec] at heq
        | succ F =>
          rw [dec.eq_3] at heq
          simp only [show (80 : UInt8).toNat = 80 by decide] at heq
          split at heq
          · simp at heq
          split at heq
          · simp at heq
          simp only [rdU] at heq
          cases hl : rdN 4 z with
          | none => simp [hl] at heq
          | some pl =>
            obtain ⟨usize, z'⟩ := pl
            simp only [hl] at heq h2
            split at heq
            · simp at heq
            rw [hinf] at h2
            cases hi : x.inflate z' with
            | none => simp [hi] at heq
            | some po =>
              obtain ⟨out, consumed⟩ := po
              simp only [hi] at heq h2
              split at heq
              · simp at heq
              split at h2
              · simp at h2
              split at heq
              · rename_i t'' heq1
                split at h2
                · rename_i v' heq2
                  obtain ⟨_, ha⟩ := (dec_agrees x cfg env hpf hcache F).1 _ _ _ _ _ _ _ heq1 heq2
                  split at heq
                  · simp at heq
                  · simp at heq h2
                    obtain ⟨rfl, _⟩ := heq
                    obtain ⟨rfl, _⟩ := h2
                    exact ha
                · simp at h2
              · simp at heq
      · rename_i r' _ heqr
        simp at heqr; subst heqr
        exact ((dec_agrees x cfg env hpf hcache F).1 _ _ _ _ _ _ _ heq h2).2
      · rename_i hne1 hne2
        exact absurd rfl (hne2 _)
    · simp at h1

end Edp
