import EdpVerif.Impl.Send
import EdpVerif.Generated.MiscC17
/-!
The term-level part of the remote calls of crates/edp_node/src/node.rs, crates/edp_node/src/erlang_mod_fns.rs and
`OwnedTerm::into_rex_response` (crates/erltf/src/term.rs):

* `callRequest`     — the request `{ReplyPid, {call, Module, Function, Args, user}}` of `rpc_call_raw_with_timeout`
                      (the shape is the one the translator read: `Gen.RPC_REQUEST_SHAPE`),
* `requestFrame`    — the bytes `send_to_name(reply_pid, "rex", request)` puts on a pass-through connection
                      (through the send model of C07, `Send.sendOp`),
* `intoRexResponse` — `OwnedTerm::into_rex_response` (arity, atom and index from `Gen.REX_RESPONSE`),
* `erlangArgs`      — the argument lists the `erlang_*` convenience calls build; module and function names come from
                      `Gen.ERLANG_MOD_FNS`,
* `wrapResult`      — `rpc_call_with_timeout`: `?` on the raw result, then `into_rex_response`.
-/
namespace Edp.Impl.RpcTerm
open Edp

/-- the bytes of an ASCII name (module, function and atom names in the source are ASCII literals) -/
def strBytes (s : String) : Bytes := s.toList.map fun c => UInt8.ofNat c.toNat

/-- one element of the inner request tuple, as listed by the translator -/
def shapeElem (m f : Bytes) (args : List Term) (e : String) : Term :=
  match e.toList with
  | 'a' :: 't' :: 'o' :: 'm' :: ':' :: name => .atom (name.map fun c => UInt8.ofNat c.toNat)
  | _ =>
    if e = "atom=module" then .atom m
    else if e = "atom=function" then .atom f
    else if e = "list=args" then .list args
    else .nil

/-- `call_request` of `rpc_call_raw_with_timeout` -/
def callRequest (reply : PidF) (m f : Bytes) (args : List Term) : Term :=
  .tuple [.pid reply, .tuple (Gen.RPC_REQUEST_SHAPE.map (shapeElem m f args))]

/-- an established pass-through connection with its write half -/
def liveConn : Send.Conn := { state := .connected, neg := none, stream := true }

/-- the frame `conn_guard.send_to_name(reply_to_pid, Atom::new("rex"), call_request)` writes -/
def requestFrame (reply : PidF) (m f : Bytes) (args : List Term) : Except Send.Err Bytes :=
  match Send.sendOp liveConn [] (.regSend reply (strBytes Gen.RPC_REQUEST_TO) (callRequest reply m f args)) with
  | .ok ws => .ok ws.flatten
  | .error e => .error e

/-- `OwnedTerm::into_rex_response`: `Ok(result)` for `{rex, result}`, `Err(WrongType)` for everything else -/
def intoRexResponse : Term → Option Term
  | .tuple l =>
    if l.length = Gen.REX_RESPONSE.1 then
      match l.head? with
      | some (.atom n) => if n = strBytes Gen.REX_RESPONSE.2.1 then l[Gen.REX_RESPONSE.2.2]? else none
      | _ => none
    else none
  | _ => none

/-- the result of the raw call as the wrapper sees it -/
inductive Raw
  | reply (t : Term)
  | err (e : String)
deriving Repr

/-- `rpc_call_with_timeout`: `let response = raw.await?; response.into_rex_response().map_err(Error::from)` -/
def wrapResult : Raw → Raw
  | .reply t => match intoRexResponse t with
    | some v => .reply v
    | none => .err "conversion"
  | .err e => .err e

/-- `.chars().map(|c| Integer(c as i64))` of a string given by its UTF-8 bytes -/
def charlist (b : Bytes) : Option Term :=
  (String.fromUTF8? (ByteArray.mk b.toArray)).map fun s => .list (s.toList.map fun c => .int (Int.ofNat c.toNat))

/-- the argument list each `erlang_*` function of erlang_mod_fns.rs builds from its parameters. A `&str` parameter is
given as a binary, a `Vec<Atom>` as a list of atoms, an `OwnedTerm` as itself. -/
def erlangArgs : String → List Term → Option (List Term)
  | "erlang_system_info", [.bin item] => some [.atom item]
  | "erlang_statistics", [.bin item] => some [.atom item]
  | "erlang_memory", [] => some []
  | "erlang_processes", [] => some []
  | "erlang_process_info", [pid, .list items] => some [pid, .list items]
  | "erlang_list_to_pid", [.bin s] => (charlist s).map fun l => [l]
  | _, _ => none

/-- module and function of an `erlang_*` call, from the translator's table -/
def erlangTarget (name : String) : Option (Bytes × Bytes) :=
  (Gen.ERLANG_MOD_FNS.find? (fun e => e.1 = name)).map fun e => (strBytes e.2.2.2.1, strBytes e.2.2.2.2.1)

/-- the request of an `erlang_*` call -/
def erlangRequest (name : String) (reply : PidF) (params : List Term) : Option Term :=
  match erlangTarget name, erlangArgs name params with
  | some (m, f), some args => some (callRequest reply m f args)
  | _, _ => none

end Edp.Impl.RpcTerm
