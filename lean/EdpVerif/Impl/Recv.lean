import EdpVerif.Impl.Decode
import EdpVerif.Impl.Control
import EdpVerif.Impl.Frag
import EdpVerif.Impl.DistHeader
/-!
Model of the receiving side of `crates/edp_client/src/connection.rs`, function by function:

* `Connection::receive_message` — one iteration of its loop on a deframed body (`recv`): `cleanup_expired` on the
  fragment assembler (once per frame, ticks included), tick skip, `131,69` fragment header, `131,70` fragment
  continuation, `112` pass-through, `131,68` distribution header, anything else is `Error::Protocol` — over the two
  pieces of state the function touches, the connection's atom cache and its fragment assembler (`St`);
* `Connection::decode_complete_fragment` (`decodeCompleteFragment`);
* `Connection::receive_message_from_read_half` (`recvRH`), the copy the node's receiver task runs: pass-through only,
  stateless (no atom cache, no assembler: every `131, …` frame is `Error::Protocol`);
* the entry points of `crates/erltf/src/decoder.rs` the two functions call and that `Impl/Decode.lean` does not have:
  `decode_with_trailing` (`decodeTrailing`), `decode_fragment_header`, `decode_fragment_cont`.

`AtomCache`, `parse_dist_header_with_cache` and `decode_with_atom_cache` are NOT modelled here: they are
`DistHeader.Cache`, `DistHeader.parseHeader`/`parseRefs` and `DistHeader.decodeWithAtomCache` of `Impl/DistHeader.lean`
(property C14) — the cache kept across messages is keyed by (segment index, internal index), a reference without text
reads that slot, `ATOM_CACHE_REF i` is reference `i` of the header read last, and what a header wrote before an error
stays written. `St.cache` is that model's cache.

The frame itself (length prefix, body, tick = empty body, segmentation) is `Impl/Framing.lean` (C05): `recv` takes the
deframed body. The term decoder is `Edp.dec` (`Impl/Decode.lean`), `ControlMessage::from_term` is `Control.parse`
(`Impl/Control.lean`), the assembler is `Frag.Assembler` (`Impl/Frag.lean`).

Time: `Instant::now()` is an explicit input. `recv` takes the reading `now` (milliseconds on a logical clock) of the
iteration: `cleanup_expired` compares it with the time stamps of the pending sequences, `start_fragment` /
`add_fragment` stamp the sequence they touch with it (the code reads the clock a second time there, microseconds later;
the model uses one reading per frame). A history is a list of `(now, body)` pairs.

Every slice / index expression of the Rust code is a conditional `panic` outcome here (there is none left on the
receive path after fix 2a5c554 and the fragment-header fix: `&data[1..]` sits behind `!data.is_empty()`; the
`flags[..]` sites of the header parser are `DErr.panic` in `DistHeader.parseRefs`/`parseHeader` and proved unreachable,
the decoder's one site is `DErr.panic`).
Core Lean only (linked into the driver).
-/
namespace Edp.Recv
open Edp

/-- `AtomCache` (decoder.rs): the model of property C14 -/
abbrev Cache := DistHeader.Cache

/-- the state `receive_message` reads and writes -/
structure St where
  cache : Cache
  asm : Frag.Assembler

/-- `Connection::new`: `AtomCache::new()`, `FragmentAssembler::new()` (`DEFAULT_FRAGMENT_TIMEOUT`, read from the source) -/
def St.init : St := { cache := {}, asm := Frag.Assembler.default }

/-- what one call returns for the frame that ends it -/
inductive Res where
  | ok (control : Control.Msg) (payload : Option Term)
  /-- `Err(_)`: `Error::Decode`, `Error::InvalidControlMessage`, `Error::Protocol` — one class -/
  | err
  /-- the task would panic -/
  | panic
  deriving Repr, Inhabited

def resOfDErr : DErr → Res
  | .panic => .panic
  | _ => .err

/-- fuel for one run of the term decoder over (a suffix of) `data` -/
def fuelFor (x : Ext) (data : Bytes) : Nat := data.length + 1 + x.extra

/-- `decoder::decode_with_trailing`: version byte, one term (empty atom cache), the rest is handed back -/
def decodeTrailing (x : Ext) (data : Bytes) : Except DErr (Term × Bytes) :=
  match data with
  | [] => .error .err
  | v :: r => if v != 131 then .error .err else dec x {} (fuelFor x data) 0 r

/-- `decoder::decode_fragment_header`: `131, 69, seq:u64, fragment_id:u64, num_atom_cache_refs:u8`, the rest -/
def decodeFragmentHeader (data : Bytes) : Except DErr ((Nat × Nat × Nat) × Bytes) :=
  match data with
  | v :: t :: r =>
    if v != 131 then .error .err else
    if t != 69 then .error .err else
    match rdU 8 r with
    | .error e => .error e
    | .ok (seq, r1) =>
      match rdU 8 r1 with
      | .error e => .error e
      | .ok (fid, r2) =>
        match rdU 1 r2 with
        | .error e => .error e
        | .ok (n, r3) => .ok ((seq, fid, n), r3)
  | _ => .error .err

/-- `decoder::decode_fragment_cont`: `131, 70, seq:u64, fragment_id:u64`, the rest -/
def decodeFragmentCont (data : Bytes) : Except DErr ((Nat × Nat) × Bytes) :=
  match data with
  | v :: t :: r =>
    if v != 131 then .error .err else
    if t != 70 then .error .err else
    match rdU 8 r with
    | .error e => .error e
    | .ok (seq, r1) =>
      match rdU 8 r1 with
      | .error e => .error e
      | .ok (fid, r2) => .ok ((seq, fid), r2)
  | _ => .error .err

/-- `ControlMessage::from_term(&control_term)?` followed by `Ok((control, message))` -/
def finish (tbl : Control.Table) (ct : Term) (p : Option Term) : Res :=
  match Control.parse tbl ct with
  | .ok m => .ok m p
  | .error .err => .err
  | .error .panic => .panic

/-- `let (control_term, message) = decode…(…)?; let control = ControlMessage::from_term(&control_term)?; Ok((control, message))` -/
def finishE (tbl : Control.Table) : Except DErr (Term × Option Term) → Res
  | .error e => resOfDErr e
  | .ok (ct, p) => finish tbl ct p

/-- `decoder::decode(complete_data)` of a buffer that does not start with `131, 68`: a bare term, no payload -/
def plainTerm (x : Ext) (data : Bytes) : Except DErr (Term × Option Term) :=
  match decode x data with
  | .error e => .error e
  | .ok ct => .ok (ct, none)

/-- `Connection::decode_complete_fragment(&complete_data, &mut self.atom_cache)` -/
def decodeCompleteFragment (x : Ext) (tbl : Control.Table) (c : Cache) (data : Bytes) : Cache × Res :=
  match data with
  | a :: b :: _ =>
    if a = 131 ∧ b = 68 then
      ((DistHeader.decodeWithAtomCache x c data).1, finishE tbl (DistHeader.decodeWithAtomCache x c data).2)
    else (c, finishE tbl (plainTerm x data))
  | _ => (c, finishE tbl (plainTerm x data))

/-- the pass-through branch of `receive_message` (`rest` = the frame after the `112`): control term, then — if bytes remain —
the payload term, after which nothing may remain; then `from_term` -/
def passThroughBody (x : Ext) (tbl : Control.Table) (rest : Bytes) : Res :=
  match decodeTrailing x rest with
  | .error e => resOfDErr e
  | .ok (ct, []) => finish tbl ct none
  | .ok (ct, remaining) =>
    match decodeTrailing x remaining with
    | .error e => resOfDErr e
    | .ok (p, []) => finish tbl ct (some p)
    | .ok (_, _ :: _) => .err

/-- what the two fragment branches do with the assembler's answer: a completed sequence goes through
`decode_complete_fragment` (the call returns), otherwise the loop goes on (`continue`) -/
def deliver (x : Ext) (tbl : Control.Table) (s : St) (r : Frag.Assembler × Option Bytes) : St × Option Res :=
  match r with
  | (a', some complete) =>
    ({ cache := (decodeCompleteFragment x tbl s.cache complete).1, asm := a' },
      some (decodeCompleteFragment x tbl s.cache complete).2)
  | (a', none) => ({ cache := s.cache, asm := a' }, none)

/-- the `131, 69` branch: `decode_fragment_header`; fragment id 0 is `Error::Protocol`; the version tag, DIST_HEADER and
the reference count go back in front of the first fragment, which is handed to `start_fragment` without atom-cache data -/
def recvFragHeader (x : Ext) (tbl : Control.Table) (now : Nat) (s : St) (data : Bytes) : St × Option Res :=
  match decodeFragmentHeader data with
  | .error e => (s, some (resOfDErr e))
  | .ok ((seq, fid, n), remaining) =>
    if fid = 0 then (s, some .err)
    else deliver x tbl s (s.asm.startFragment now seq fid none (131 :: 68 :: UInt8.ofNat n :: remaining))

/-- the `131, 70` branch: `decode_fragment_cont`; fragment id 0 is `Error::Protocol`; `add_fragment` -/
def recvFragCont (x : Ext) (tbl : Control.Table) (now : Nat) (s : St) (data : Bytes) : St × Option Res :=
  match decodeFragmentCont data with
  | .error e => (s, some (resOfDErr e))
  | .ok ((seq, fid), remaining) =>
    if fid = 0 then (s, some .err)
    else deliver x tbl s (s.asm.addFragment now seq fid remaining)

/-- the `131, 68` branch: `decode_with_atom_cache(&data, &mut self.atom_cache)`, then `from_term` -/
def recvHeader (x : Ext) (tbl : Control.Table) (s : St) (data : Bytes) : St × Option Res :=
  ({ cache := (DistHeader.decodeWithAtomCache x s.cache data).1, asm := s.asm },
    some (finishE tbl (DistHeader.decodeWithAtomCache x s.cache data).2))

/-- `self.fragment_assembler.cleanup_expired()`: the first thing an iteration does with a frame it has read (the first
half of `Frag.Assembler.onFrame`, the assembler's view of one received frame) -/
def expire (now : Nat) (s : St) : St := { cache := s.cache, asm := (s.asm.cleanupExpired now).1 }

/-- the rest of the iteration, on the deframed body `data`:
`none` = `continue` (tick, or a fragment that does not complete its sequence), `some r` = the call returns `r` -/
def dispatch (x : Ext) (tbl : Control.Table) (now : Nat) (s : St) (data : Bytes) : St × Option Res :=
  match data with
  | [] => (s, none)
  | [a] =>
    if a = 112 then (s, some (passThroughBody x tbl [])) else (s, some .err)
  | a :: b :: rest =>
    if a = 131 ∧ b = 69 then recvFragHeader x tbl now s data
    else if a = 131 ∧ b = 70 then recvFragCont x tbl now s data
    else if a = 112 then (s, some (passThroughBody x tbl (b :: rest)))
    else if a = 131 ∧ b = 68 then recvHeader x tbl s data
    else (s, some .err)

/-- one iteration of the loop of `Connection::receive_message` on the deframed body `data`, the clock reading `now` -/
def recv (x : Ext) (tbl : Control.Table) (now : Nat) (s : St) (data : Bytes) : St × Option Res :=
  dispatch x tbl now (expire now s) data

/-- a frame as the connection meets it: the clock when it has been read, and its body -/
abbrev TFrame := Nat × Bytes

/-- the state after a list of frames (a panic ends the task; the state is then irrelevant) -/
def after (x : Ext) (tbl : Control.Table) (s : St) : List TFrame → St
  | [] => s
  | f :: fs => after x tbl (recv x tbl f.1 s f.2).1 fs

/-- what each frame of a history makes the loop do: `none` = the loop goes on to the next frame, `some r` = a call returns `r` -/
def outs (x : Ext) (tbl : Control.Table) (s : St) : List TFrame → List (Option Res)
  | [] => []
  | f :: fs => (recv x tbl f.1 s f.2).2 :: outs x tbl (recv x tbl f.1 s f.2).1 fs

/-- a panic is the last thing a task returns -/
def cutPanic : List Res → List Res
  | [] => []
  | .panic :: _ => [.panic]
  | r :: rs => r :: cutPanic rs

/-- what successive `receive_message` calls return while the peer delivers `frames`: one entry per frame that ends a
call; a panic is the last entry (the receiving task is gone) -/
def recvAll (x : Ext) (tbl : Control.Table) (s : St) (frames : List TFrame) : List Res :=
  cutPanic ((outs x tbl s frames).filterMap id)

/-- the body handling of `Connection::receive_message_from_read_half` (a zero length never gets here: `continue`):
pass-through marker or `Error::Protocol`; control term; `from_term`; payload term; nothing may remain -/
def recvRH (x : Ext) (tbl : Control.Table) (data : Bytes) : Option Res :=
  match data with
  | [] => none
  | m :: rest =>
    if m != 112 then some .err else
    match decodeTrailing x rest with
    | .error e => some (resOfDErr e)
    | .ok (ct, remaining) =>
      match Control.parse tbl ct with
      | .error .err => some .err
      | .error .panic => some .panic
      | .ok msg =>
        match remaining with
        | [] => some (.ok msg none)
        | _ :: _ =>
          match decodeTrailing x remaining with
          | .error e => some (resOfDErr e)
          | .ok (p, []) => some (.ok msg (some p))
          | .ok (_, _ :: _) => some .err

def recvAllRH (x : Ext) (tbl : Control.Table) (frames : List Bytes) : List Res :=
  cutPanic (frames.filterMap (recvRH x tbl))

/-! ### canonical text (driver) -/

def Res.text : Res → String
  | .ok m p => "ok~" ++ m.text ++ "~" ++ (match p with | some t => t.text | none => "-")
  | .err => "err"
  | .panic => "panic"

def resultsText (l : List Res) : String :=
  if l.isEmpty then "-" else "/".intercalate (l.map Res.text)

end Edp.Recv
