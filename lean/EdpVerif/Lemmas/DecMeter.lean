import EdpVerif.Impl.DecodeMeter
import EdpVerif.Lemmas.DecLen
/-! The resource model of the term decoder (Impl/DecodeMeter.lean) stays within its bounds, for every input, cache,
configuration, depth and fuel: the recursion never enters `parse_term` deeper than `MAX_NESTING_DEPTH + 1`; no heap
request asks for more elements than bytes are left in the buffer being parsed; that buffer is (a piece of) the input or a
compressed section the input really contains; every slice / subtraction site has its operands the right way round. -/
namespace Edp

/-- `L`: length of the buffer being parsed, `d`: depth at which the parser was entered -/
structure Meter.OK (L d : Nat) (m : Meter) : Prop where
  depth : m.maxDepth ≤ max d (MAX_NESTING_DEPTH + 1)
  cap : ∀ q ∈ m.reqs, q.n ≤ q.rem
  rem : ∀ q ∈ m.reqs, q.rem ≤ L ∨ ∃ i ∈ m.infl, q.rem ≤ i.2
  chk : ∀ c ∈ m.checks, c.1 ≤ c.2
  inf : ∀ i ∈ m.infl, i.2 ≤ i.1 + 1 ∧ i.1 ≤ MAX_BINARY_SIZE

namespace Meter

theorem ok_empty (L d : Nat) : OK L d {} := by
  constructor <;> simp

theorem ok_enter (L d : Nat) : OK L d (enter d) := by
  constructor <;> simp [enter]; omega

theorem ok_req {L d n rem : Nat} (e : Elem) (h1 : n ≤ rem) (h2 : rem ≤ L) : OK L d (req n e rem) := by
  constructor <;> simp [req, h1, h2]

theorem ok_check {L d a b : Nat} (h : a ≤ b) : OK L d (check a b) := by
  constructor <;> simp [check, h]

theorem ok_add {L d : Nat} {a b : Meter} (ha : OK L d a) (hb : OK L d b) : OK L d (a.add b) := by
  constructor
  · have := ha.depth; have := hb.depth; simp only [add]; omega
  · intro q hq; simp only [add, List.mem_append] at hq
    rcases hq with h | h
    · exact ha.cap q h
    · exact hb.cap q h
  · intro q hq; simp only [add, List.mem_append] at hq ⊢
    rcases hq with h | h
    · rcases ha.rem q h with h' | ⟨i, hi, h'⟩
      · exact .inl h'
      · exact .inr ⟨i, .inl hi, h'⟩
    · rcases hb.rem q h with h' | ⟨i, hi, h'⟩
      · exact .inl h'
      · exact .inr ⟨i, .inr hi, h'⟩
  · intro c hc; simp only [add, List.mem_append] at hc
    rcases hc with h | h
    · exact ha.chk c h
    · exact hb.chk c h
  · intro i hi; simp only [add, List.mem_append] at hi
    rcases hi with h | h
    · exact ha.inf i h
    · exact hb.inf i h

/-- a sub-parser's bounds carry over: it was handed a piece of this parser's buffer, one level down at most -/
theorem ok_sub {L L' d d' : Nat} {m : Meter} (h : OK L' d' m) (hL : L' ≤ L)
    (hd : max d' (MAX_NESTING_DEPTH + 1) ≤ max d (MAX_NESTING_DEPTH + 1)) : OK L d m := by
  constructor
  · have := h.depth; omega
  · exact h.cap
  · intro q hq
    rcases h.rem q hq with h' | h'
    · exact .inl (by omega)
    · exact .inr h'
  · exact h.chk
  · exact h.inf

/-- a compressed section: what is parsed inside is bounded by the inflated length, which the meter has recorded -/
theorem ok_infl {L d usize : Nat} {out : Bytes} {m : Meter} (h : OK out.length (d + 1) m) (hu : out.length = usize)
    (hmax : usize ≤ MAX_BINARY_SIZE) (hd : d ≤ MAX_NESTING_DEPTH) :
    OK L d ((inflated usize (min out.length (usize + 1))).add m) := by
  constructor
  · have := h.depth; simp only [add, inflated]; omega
  · intro q hq; simp only [add, inflated, List.nil_append] at hq; exact h.cap q hq
  · intro q hq; simp only [add, inflated, List.nil_append] at hq
    right
    rcases h.rem q hq with h' | ⟨i, hi, h'⟩
    · exact ⟨(usize, min out.length (usize + 1)), by simp [add, inflated], by simp only; omega⟩
    · exact ⟨i, by simp [add, inflated, hi], h'⟩
  · intro c hc; simp only [add, inflated, List.nil_append] at hc; exact h.chk c hc
  · intro i hi; simp only [add, inflated, List.cons_append, List.nil_append, List.mem_cons] at hi
    rcases hi with rfl | hi
    · simp only; omega
    · exact h.inf i hi

theorem ok_inflated {L d usize p : Nat} (hp : p ≤ usize + 1) (hmax : usize ≤ MAX_BINARY_SIZE) : OK L d (inflated usize p) := by
  constructor <;> simp [inflated, hp, hmax]

end Meter

theorem takeE_facts {n : Nat} {bs a r : Bytes} (h : takeE n bs = .ok (a, r)) :
    n ≤ bs.length ∧ a.length = n ∧ r.length + n = bs.length := by
  simp only [takeE, takeN] at h
  by_cases hn : n ≤ bs.length
  · simp [hn] at h; obtain ⟨rfl, rfl⟩ := h; simp; omega
  · simp [hn] at h

theorem meterAtom_ok (L d k : Nat) (e : Elem) (bs : Bytes) (hL : bs.length ≤ L) : Meter.OK L d (meterAtom k e bs) := by
  unfold meterAtom
  split
  · exact Meter.ok_empty _ _
  · rename_i len r h0
    have := rdU_len h0
    split
    · exact Meter.ok_empty _ _
    · split
      · exact Meter.ok_empty _ _
      · rename_i a r1 h1
        have := takeE_facts h1
        exact Meter.ok_req _ (by omega) (by omega)

theorem meterBig_ok (L d k : Nat) (bs : Bytes) (hL : bs.length ≤ L) : Meter.OK L d (meterBig k bs) := by
  unfold meterBig
  split
  · exact Meter.ok_empty _ _
  · rename_i n r h0
    have := rdU_len h0
    split
    · exact Meter.ok_empty _ _
    · rename_i s r1 h1
      have := rdU_len h1
      split
      · exact Meter.ok_empty _ _
      · rename_i a r2 h2
        have := takeE_facts h2
        exact Meter.ok_req _ (by omega) (by omega)

/-- what is assumed of zlib: it reports no more input consumed than it was given (`total_in` of flate2) -/
def InflateSane (x : Ext) : Prop := ∀ z out n, x.inflate z = some (out, n) → n ≤ z.length

set_option hygiene false in
macro "mstep" : tactic => `(tactic| (
  split <;> (try (rename_i heq; first
        | (have := rdU_len heq)
        | (have := takeE_facts heq)
        | (have := dec_rest_le _ _ _ _ _ _ _ heq)
        | (have := decN_rest_le _ _ _ _ _ _ _ _ heq)
        | (have := hx _ _ _ heq)
        | skip))))

set_option hygiene false in
macro "side" : tactic => `(tactic| (
  (try simp only [boundedCapacity, List.length_cons, List.length_nil, bne_iff_ne, ne_eq, Decidable.not_not] at *) <;> omega))

set_option hygiene false in
macro "okfin" : tactic => `(tactic| (
  repeat' (first
    | exact Meter.ok_empty _ _
    | exact Meter.ok_enter _ _
    | (apply Meter.ok_infl (ih1 _ _) <;> side)
    | (apply Meter.ok_inflated <;> side)
    | (apply Meter.ok_add)
    | (apply meterAtom_ok; side)
    | (apply meterBig_ok; side)
    | (apply Meter.ok_req <;> side)
    | (apply Meter.ok_check; side)
    | (apply Meter.ok_sub (ih1 _ _) <;> side)
    | (apply Meter.ok_sub (ih2 _ _ _) <;> side)
    | (apply Meter.ok_sub (ih3 _ _ _) <;> side))))

set_option maxHeartbeats 4000000 in
theorem meter_ok (x : Ext) (hx : InflateSane x) (cfg : DecCfg) : ∀ (fuel : Nat),
    (∀ d bs, Meter.OK bs.length d (meter x cfg fuel d bs)) ∧
    (∀ d n bs, Meter.OK bs.length d (meterN x cfg fuel d n bs)) ∧
    (∀ d n bs, Meter.OK bs.length d (meterKV x cfg fuel d n bs)) := by
  intro fuel
  induction fuel with
  | zero =>
    refine ⟨?_, ?_, ?_⟩
    · intro d bs; simp only [meter]; exact Meter.ok_enter _ _
    · intro d n bs; cases n <;> simp only [meterN] <;> exact Meter.ok_empty _ _
    · intro d n bs; cases n <;> simp only [meterKV] <;> exact Meter.ok_empty _ _
  | succ f ih =>
    obtain ⟨ih1, ih2, ih3⟩ := ih
    refine ⟨?_, ?_, ?_⟩
    · intro d bs
      cases bs with
      | nil => simp only [meter]; exact Meter.ok_enter _ _
      | cons tg bs =>
        simp only [meter]
        by_cases hd : d > MAX_NESTING_DEPTH
        · simp only [hd, ↓reduceIte]; exact Meter.ok_enter _ _
        · simp only [hd, ↓reduceIte]
          split
          · exact Meter.ok_enter _ _
          · split
            all_goals (repeat' mstep)
            all_goals (try okfin)
    · intro d n bs
      cases n with
      | zero => simp only [meterN]; exact Meter.ok_empty _ _
      | succ n =>
        simp only [meterN]
        repeat' mstep
        all_goals okfin
    · intro d n bs
      cases n with
      | zero => simp only [meterKV]; exact Meter.ok_empty _ _
      | succ n =>
        simp only [meterKV]
        repeat' mstep
        all_goals okfin


/-! ### the entry points -/

open DistHeader in
theorem parseRefs_len (long : Bool) (flags : Bytes) : ∀ (k i : Nat) (c : Cache) (bs body : Bytes),
    (parseRefs long flags k i c bs).2 = .ok body → body.length ≤ bs.length := by
  intro k
  induction k with
  | zero => intro i c bs body h; simp [parseRefs] at h; simp [h]
  | succ k ih =>
    intro i c bs body h
    unfold parseRefs at h
    split at h
    · simp at h
    · rename_i idx r h0
      have := rdU_len h0
      split at h
      · simp at h
      · split at h
        · split at h
          · simp at h
          · rename_i len r1 h1
            have := rdU_len h1
            split at h
            · simp at h
            · rename_i text r2 h2
              have := takeE_facts h2
              split at h
              · simp at h
              · have := ih _ _ _ _ h; omega
        · dsimp only at h
          split at h
          · have := ih _ _ _ _ h; omega
          · simp at h

open DistHeader in
theorem parseHeader_len (c : Cache) (bs body : Bytes) (h : (parseHeader c bs).2 = .ok body) : body.length ≤ bs.length := by
  unfold parseHeader at h
  split at h
  · simp at h
  · rename_i n r h0
    have := rdU_len h0
    split at h
    · simp at h; rw [← h]; omega
    · split at h
      · simp at h
      · rename_i flags r1 h1
        have := takeE_facts h1
        split at h
        · simp at h
        · have := parseRefs_len _ _ _ _ _ _ _ h; omega

theorem foldl_ok (x : Ext) (L : Nat) : ∀ (calls : List (DecCfg × Nat × Bytes)) (m : Meter), Meter.OK L 0 m →
    (∀ q ∈ calls, Meter.OK L 0 (meter x q.1 q.2.1 0 q.2.2)) →
    Meter.OK L 0 (calls.foldl (fun m (q : DecCfg × Nat × Bytes) => m.add (meter x q.1 q.2.1 0 q.2.2)) m) := by
  intro calls
  induction calls with
  | nil => intro m hm _; simpa using hm
  | cons q qs ih =>
    intro m hm hq
    simp only [List.foldl_cons]
    exact ih _ (Meter.ok_add hm (hq q (by simp))) (fun q' h' => hq q' (by simp [h']))

/-- every term an entry point parses is a piece of the input -/
theorem calls_len (x : Ext) (c : DistHeader.Cache) (bs : Bytes) (ep : EntryPoint) :
    ∀ q ∈ ep.calls x c bs, q.2.2.length ≤ bs.length := by
  have hdr : ∀ (c0 : DistHeader.Cache) (v tag : UInt8) (r1 : Bytes) (q : DecCfg × Nat × Bytes),
      q ∈ (if v != 131 then [] else
        match (if tag == 68 then
            match DistHeader.parseHeader c0 r1 with
            | (c1, .error _) => (c1, none)
            | (c1, .ok body) => (c1, some body)
          else (c0, some (tag :: r1)) : DistHeader.Cache × Option Bytes) with
        | (c1, body) =>
          match body with
          | none => []
          | some body =>
            match dec x { cache := c1.atoms } ((v :: tag :: r1).length + 1 + x.extra) 0 body with
            | .ok (_, rest) => if rest.isEmpty then [({ cache := c1.atoms }, (v :: tag :: r1).length + 1 + x.extra, body)]
                else [({ cache := c1.atoms }, (v :: tag :: r1).length + 1 + x.extra, body), ({ cache := c1.atoms }, (v :: tag :: r1).length + 1 + x.extra, rest)]
            | .error _ => [({ cache := c1.atoms }, (v :: tag :: r1).length + 1 + x.extra, body)]) →
      q.2.2.length ≤ (v :: tag :: r1).length := by
    intro c0 v tag r1 q hq
    split at hq
    · simp at hq
    · have hb : ∀ c1 body, (if tag == 68 then
            match DistHeader.parseHeader c0 r1 with
            | (c1, .error _) => (c1, none)
            | (c1, .ok body) => (c1, some body)
          else (c0, some (tag :: r1)) : DistHeader.Cache × Option Bytes) = (c1, some body) → body.length ≤ r1.length + 1 := by
        intro c1 body hb
        split at hb
        · split at hb
          · simp at hb
          · rename_i c1' body' hp
            simp at hb
            have := parseHeader_len c0 r1 body' (by rw [hp])
            obtain ⟨_, rfl⟩ := hb; omega
        · simp at hb; obtain ⟨_, rfl⟩ := hb; simp
      split at hq
      rename_i c1 body hcb
      split at hq
      · simp at hq
      · rename_i body'
        have hbl := hb c1 body' hcb
        split at hq
        · rename_i t rest hd
          have := dec_rest_le _ _ _ _ _ _ _ hd
          split at hq <;> simp at hq
          · subst hq; simp only [List.length_cons]; omega
          · rcases hq with rfl | rfl <;> simp only [List.length_cons] <;> omega
        · simp at hq; subst hq; simp only [List.length_cons]; omega
  intro q hq
  cases ep with
  | decode =>
    simp only [EntryPoint.calls] at hq
    split at hq
    · split at hq <;> simp at hq; subst hq; simp
    · simp at hq
  | decodeBorrowed =>
    simp only [EntryPoint.calls] at hq
    split at hq
    · split at hq <;> simp at hq; subst hq; simp
    · simp at hq
  | withTrailing =>
    simp only [EntryPoint.calls] at hq
    split at hq
    · split at hq <;> simp at hq; subst hq; simp
    · simp at hq
  | rawTerm => simp only [EntryPoint.calls, List.mem_singleton] at hq; subst hq; simp
  | fragHeader => simp [EntryPoint.calls] at hq
  | fragCont => simp [EntryPoint.calls] at hq
  | withCache =>
    simp only [EntryPoint.calls] at hq
    split at hq
    · exact hdr _ _ _ _ q hq
    · simp at hq
  | withAtomCache =>
    simp only [EntryPoint.calls] at hq
    split at hq
    · exact hdr _ _ _ _ q hq
    · simp at hq

/-- **every entry point stays within the bounds**, whatever the input, the cache and zlib's behaviour -/
theorem entry_ok (x : Ext) (hx : InflateSane x) (c : DistHeader.Cache) (bs : Bytes) (ep : EntryPoint) :
    Meter.OK bs.length 0 (ep.meter x c bs) := by
  unfold EntryPoint.meter
  apply foldl_ok x bs.length _ _ (Meter.ok_empty _ _)
  intro q hq
  have hl := calls_len x c bs ep q hq
  exact Meter.ok_sub ((meter_ok x hx q.1 q.2.1).1 0 q.2.2) hl (Nat.le_refl _)

theorem outcome_of_ne_panic {α : Type} {r : Except DErr α} (h : r ≠ .error .panic) : Outcome.of r ≠ .panic := by
  cases r with
  | ok v => simp [Outcome.of]
  | error e => cases e <;> simp_all [Outcome.of]

end Edp
