//! Scripted EPMD and distribution peer on loopback (shared by the socket-level properties C04, C06, C07, C17, C18, C19).
//! The EPMD client of the library is pointed at `FakeEpmd` through the cfg-guarded hook
//! `edp_client::verif_hooks::set_epmd_port` (H1).  The peer plays the *accepting* side of the handshake
//! (DESIGN Appendix B.4) and then exchanges distribution frames (4-byte big-endian length prefix).
use md5::{Digest, Md5};
use std::collections::HashMap;
use std::sync::{Arc, Mutex};
use std::time::Duration;
use tokio::io::{AsyncReadExt, AsyncWriteExt};
use tokio::net::{TcpListener, TcpStream};

pub fn digest(cookie: &str, challenge: u32) -> [u8; 16] {
    let mut h = Md5::new();
    h.update(cookie.as_bytes());
    h.update(challenge.to_string().as_bytes());
    h.finalize().into()
}

/// A stand-in for EPMD: answers ALIVE2_REQ (registration) and PORT_PLEASE2_REQ (lookup).
pub struct FakeEpmd {
    pub port: u16,
    pub nodes: Arc<Mutex<HashMap<String, u16>>>,
    pub registered: Arc<Mutex<Vec<(String, u16)>>>,
    pub creation: Arc<Mutex<u32>>,
}

impl FakeEpmd {
    pub async fn start() -> FakeEpmd {
        let listener = TcpListener::bind("127.0.0.1:0").await.unwrap();
        let port = listener.local_addr().unwrap().port();
        let nodes: Arc<Mutex<HashMap<String, u16>>> = Arc::new(Mutex::new(HashMap::new()));
        let registered = Arc::new(Mutex::new(vec![]));
        let creation = Arc::new(Mutex::new(7u32));
        let (n2, r2, c2) = (nodes.clone(), registered.clone(), creation.clone());
        tokio::spawn(async move {
            loop {
                let Ok((mut s, _)) = listener.accept().await else { break };
                let (n3, r3, c3) = (n2.clone(), r2.clone(), c2.clone());
                tokio::spawn(async move {
                    let Ok(len) = s.read_u16().await else { return };
                    let mut buf = vec![0u8; len as usize];
                    if s.read_exact(&mut buf).await.is_err() || buf.is_empty() {
                        return;
                    }
                    match buf[0] {
                        120 => {
                            // ALIVE2_REQ: port u16, type, proto, hi u16, lo u16, nlen u16, name, elen u16, extra
                            if buf.len() < 13 {
                                return;
                            }
                            let port = u16::from_be_bytes([buf[1], buf[2]]);
                            let nlen = u16::from_be_bytes([buf[9], buf[10]]) as usize;
                            let name = String::from_utf8_lossy(&buf[11..(11 + nlen).min(buf.len())]).to_string();
                            r3.lock().unwrap().push((name, port));
                            let c = {
                                let mut g = c3.lock().unwrap();
                                *g += 1;
                                *g
                            };
                            let mut resp = vec![118u8, 0];
                            resp.extend_from_slice(&c.to_be_bytes());
                            let _ = s.write_all(&resp).await;
                            let _ = s.flush().await;
                            // a real EPMD keeps the registration while the socket is open
                            let mut sink = [0u8; 16];
                            let _ = s.read(&mut sink).await;
                        }
                        122 => {
                            let name = String::from_utf8_lossy(&buf[1..]).to_string();
                            let port = n3.lock().unwrap().get(&name).copied();
                            let mut resp = vec![119u8];
                            match port {
                                Some(p) => {
                                    resp.push(0);
                                    resp.extend_from_slice(&p.to_be_bytes());
                                    resp.extend_from_slice(&[77, 0, 0, 6, 0, 5]);
                                    resp.extend_from_slice(&(name.len() as u16).to_be_bytes());
                                    resp.extend_from_slice(name.as_bytes());
                                    resp.extend_from_slice(&[0, 0]);
                                }
                                None => resp.push(1),
                            }
                            let _ = s.write_all(&resp).await;
                            let _ = s.flush().await;
                        }
                        _ => {}
                    }
                });
            }
        });
        // H1: every EpmdClient::new in this process now talks to us
        edp_client::verif_hooks::set_epmd_port(port);
        FakeEpmd { port, nodes, registered, creation }
    }

    /// make `name` (the part before '@') resolvable to `port`
    pub fn add_node(&self, name: &str, port: u16) {
        self.nodes.lock().unwrap().insert(name.to_string(), port);
    }
}

/// Where the scripted peer departs from the protocol during the handshake.
#[derive(Clone, Debug, PartialEq)]
pub enum Deviation {
    None,
    /// status other than ok / ok_simultaneous ("nok", "not_allowed", "alive")
    Status(String),
    WrongAckDigest,
    /// ack digest computed from the peer's own challenge instead of the client's
    AckForWrongChallenge,
    WrongStatusTag,
    WrongChallengeTag,
    WrongAckTag,
    TruncatedChallenge,
    TruncatedAck,
    /// length prefix far larger than what follows
    OversizedLength,
    /// ack sent before the challenge
    AckBeforeChallenge,
    CloseAfterName,
    CloseAfterStatus,
    CloseAfterChallenge,
    SilenceAfterName,
    SilenceAfterChallenge,
}

#[derive(Clone)]
pub struct PeerCfg {
    pub name: String,
    pub cookie: String,
    pub flags: u64,
    pub challenge: u32,
    pub creation: u32,
    pub deviation: Deviation,
}

impl PeerCfg {
    pub fn new(name: &str, cookie: &str) -> Self {
        PeerCfg {
            name: name.to_string(),
            cookie: cookie.to_string(),
            // what a current OTP node offers, without DIST_HDR_ATOM_CACHE and FRAGMENTS (pass-through framing)
            flags: 0x0000_000d_07df_7fbd & !0x2000 & !0x800_0000,
            challenge: 0x1234_5678,
            creation: 0x6655_4433,
            deviation: Deviation::None,
        }
    }
}

/// What the peer saw during the handshake.
#[derive(Default, Debug, Clone)]
pub struct HandshakeLog {
    pub send_name: Vec<u8>,
    pub complement: Option<Vec<u8>>,
    pub reply: Vec<u8>,
    pub client_challenge: Option<u32>,
    pub reply_digest_ok: Option<bool>,
    pub completed: bool,
}

pub struct PeerConn {
    pub stream: TcpStream,
    pub hs: HandshakeLog,
}

async fn read_hs_msg(s: &mut TcpStream) -> Option<Vec<u8>> {
    let len = s.read_u16().await.ok()?;
    let mut buf = vec![0u8; len as usize];
    s.read_exact(&mut buf).await.ok()?;
    Some(buf)
}

async fn write_hs_msg(s: &mut TcpStream, body: &[u8]) {
    let mut v = (body.len() as u16).to_be_bytes().to_vec();
    v.extend_from_slice(body);
    let _ = s.write_all(&v).await;
    let _ = s.flush().await;
}

/// Accept one connection on `listener` and play the accepting side of the handshake according to `cfg`.
pub async fn accept_and_handshake(listener: &TcpListener, cfg: &PeerCfg) -> Option<PeerConn> {
    let (mut s, _) = listener.accept().await.ok()?;
    let _ = s.set_nodelay(true);
    let mut hs = HandshakeLog::default();
    hs.send_name = read_hs_msg(&mut s).await?;
    let dev = cfg.deviation.clone();
    match dev {
        Deviation::CloseAfterName => return Some(PeerConn { stream: s, hs }).map(|mut p| {
            let _ = &mut p;
            drop(p.stream);
            None
        })?,
        Deviation::SilenceAfterName => {
            tokio::time::sleep(Duration::from_millis(1200)).await;
            return None;
        }
        _ => {}
    }
    // status
    let status: Vec<u8> = match &dev {
        Deviation::Status(t) => [b"s".as_ref(), t.as_bytes()].concat(),
        Deviation::WrongStatusTag => b"xok".to_vec(),
        _ => b"sok".to_vec(),
    };
    if dev == Deviation::OversizedLength {
        let _ = s.write_all(&[0xff, 0xff, b's', b'o', b'k']).await;
        let _ = s.flush().await;
        tokio::time::sleep(Duration::from_millis(800)).await;
        return None;
    }
    write_hs_msg(&mut s, &status).await;
    if dev == Deviation::CloseAfterStatus {
        return None;
    }
    let ack_for = |client_challenge: u32| -> Vec<u8> {
        let d = match dev {
            Deviation::WrongAckDigest => [0x5au8; 16],
            Deviation::AckForWrongChallenge => digest(&cfg.cookie, cfg.challenge),
            _ => digest(&cfg.cookie, client_challenge),
        };
        let mut a = vec![if dev == Deviation::WrongAckTag { b'z' } else { b'a' }];
        a.extend_from_slice(&d);
        if dev == Deviation::TruncatedAck {
            a.truncate(9);
        }
        a
    };
    if dev == Deviation::AckBeforeChallenge {
        write_hs_msg(&mut s, &ack_for(0)).await;
    }
    // challenge: 'N' flags:u64 challenge:u32 creation:u32 nlen:u16 name
    let mut ch = vec![if dev == Deviation::WrongChallengeTag { b'Q' } else { b'N' }];
    ch.extend_from_slice(&cfg.flags.to_be_bytes());
    ch.extend_from_slice(&cfg.challenge.to_be_bytes());
    ch.extend_from_slice(&cfg.creation.to_be_bytes());
    ch.extend_from_slice(&(cfg.name.len() as u16).to_be_bytes());
    ch.extend_from_slice(cfg.name.as_bytes());
    if dev == Deviation::TruncatedChallenge {
        ch.truncate(11);
    }
    write_hs_msg(&mut s, &ch).await;
    match dev {
        Deviation::CloseAfterChallenge => return None,
        Deviation::SilenceAfterChallenge => {
            // keep reading so the client's writes succeed, never answer
            let mut sink = [0u8; 256];
            let _ = tokio::time::timeout(Duration::from_millis(1200), async {
                loop {
                    match s.read(&mut sink).await {
                        Ok(0) | Err(_) => break,
                        _ => {}
                    }
                }
            })
            .await;
            return None;
        }
        _ => {}
    }
    // the client may send a complement ('c') before its reply ('r')
    let mut m = tokio::time::timeout(Duration::from_secs(3), read_hs_msg(&mut s)).await.ok()??;
    if m.first() == Some(&b'c') {
        hs.complement = Some(m);
        m = tokio::time::timeout(Duration::from_secs(3), read_hs_msg(&mut s)).await.ok()??;
    }
    hs.reply = m.clone();
    if m.len() == 21 && m[0] == b'r' {
        let cc = u32::from_be_bytes([m[1], m[2], m[3], m[4]]);
        hs.client_challenge = Some(cc);
        hs.reply_digest_ok = Some(m[5..21] == digest(&cfg.cookie, cfg.challenge));
        write_hs_msg(&mut s, &ack_for(cc)).await;
        hs.completed = dev == Deviation::None;
    }
    Some(PeerConn { stream: s, hs })
}

impl PeerConn {
    /// one distribution frame: 4-byte length, body
    pub async fn send_frame(&mut self, body: &[u8]) {
        let mut v = (body.len() as u32).to_be_bytes().to_vec();
        v.extend_from_slice(body);
        let _ = self.stream.write_all(&v).await;
        let _ = self.stream.flush().await;
    }

    /// raw bytes cut into the given chunk sizes with a short pause between chunks (scripted segmentation)
    pub async fn send_chunked(&mut self, bytes: &[u8], cuts: &[usize]) {
        let mut i = 0;
        for &c in cuts {
            if i >= bytes.len() {
                break;
            }
            let j = (i + c.max(1)).min(bytes.len());
            let _ = self.stream.write_all(&bytes[i..j]).await;
            let _ = self.stream.flush().await;
            tokio::time::sleep(Duration::from_millis(1)).await;
            i = j;
        }
        if i < bytes.len() {
            let _ = self.stream.write_all(&bytes[i..]).await;
            let _ = self.stream.flush().await;
        }
    }

    pub async fn send_tick(&mut self) {
        self.send_frame(&[]).await
    }

    /// next distribution frame from the client, `None` on close/timeout
    pub async fn recv_frame(&mut self, wait: Duration) -> Option<Vec<u8>> {
        tokio::time::timeout(wait, async {
            let len = self.stream.read_u32().await.ok()?;
            let mut buf = vec![0u8; len as usize];
            self.stream.read_exact(&mut buf).await.ok()?;
            Some(buf)
        })
        .await
        .ok()?
    }

    /// everything the client wrote until `quiet` passes without new bytes
    pub async fn recv_bytes_until_quiet(&mut self, quiet: Duration) -> Vec<u8> {
        let mut out = vec![];
        let mut buf = [0u8; 65536];
        loop {
            match tokio::time::timeout(quiet, self.stream.read(&mut buf)).await {
                Ok(Ok(n)) if n > 0 => out.extend_from_slice(&buf[..n]),
                _ => break,
            }
        }
        out
    }
}

/// pass-through frame body: 112, version + control term, optionally version + payload term
pub fn pass_through(control: &erltf::OwnedTerm, payload: Option<&erltf::OwnedTerm>) -> Vec<u8> {
    let mut v = vec![112u8];
    v.extend_from_slice(&erltf::encode(control).unwrap());
    if let Some(p) = payload {
        v.extend_from_slice(&erltf::encode(p).unwrap());
    }
    v
}

/// a listener for a peer node `name@127.0.0.1` registered with the fake EPMD
pub async fn listen_as(epmd: &FakeEpmd, short_name: &str) -> TcpListener {
    let l = TcpListener::bind("127.0.0.1:0").await.unwrap();
    epmd.add_node(short_name, l.local_addr().unwrap().port());
    l
}

/// like `listen_as`, with a small receive buffer on the listening socket (inherited by the accepted connection): a peer
/// that stops reading then stalls its sender after a few kilobytes instead of a few megabytes (added for C07)
pub async fn listen_as_rcvbuf(epmd: &FakeEpmd, short_name: &str, bytes: u32) -> TcpListener {
    let sock = tokio::net::TcpSocket::new_v4().unwrap();
    let _ = sock.set_recv_buffer_size(bytes);
    sock.bind("127.0.0.1:0".parse().unwrap()).unwrap();
    let l = sock.listen(16).unwrap();
    epmd.add_node(short_name, l.local_addr().unwrap().port());
    l
}
