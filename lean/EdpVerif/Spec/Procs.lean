import EdpVerif.Impl.Term
/-!
Spec oracle for C18, written from what Erlang-style local processes are (not from the code): a registry of live
processes and of names, FIFO mailboxes, links and monitors as sets, exit notices.  It judges an OBSERVED history of the
real `Node`: the calls of the client tasks with their results, the messages each process's handler saw, the points the
terminating process tasks passed, in the order all of that happened (the runs are taken on a current-thread runtime, so
each call ran without interruption and the history is a sequence).

What is demanded of a history (`check full toks`):

A  registry results are those of the sequential reference: `spawn` gives the next pid; `register n p` is `ok` exactly when
   `p` is in the registry and `n` is free (else `noproc` / `taken`, changing nothing), `unregister`, `whereis`,
   `registered`, `process_count`, `send` (`ok` for a pid in the registry, `noproc` otherwise), `send_to_name`; when the task of
   a terminated process has ended its pid and all its names are gone, and such a name can be registered again;
B  per process, the regular messages its handler saw are a prefix of the messages accepted for it, in the order they were
   accepted (so: at most once, in order, nothing invented); a process that never failed saw all of them; after the
   message the handler failed on nothing more is handled;
C  a process `a` that never failed sees `Exit{from: p, reason: error}` exactly once if `a` is in `p`'s link set when `p`
   collects it (just before `proc:between_links_and_monitors`) and `a` is in the registry then; it sees
   `Exit{from: p, reason: noproc}` exactly once if it is not in that set and a `link` naming `a` and `p` (either way round) is
   made after that moment while `p` is still in the registry and `a` is in the registry (as Erlang answers a link to a
   process that no longer runs); it never sees two exit notices about `p`, and none otherwise. The same for
   `MonitorExit{monitored: p, reference: r}` with `p`'s monitor set at `proc:before_registry_remove` (reason `error`) and for
   every `monitor` of `p` made after that moment (reason `noproc`, the reference that call returned). -/
namespace Edp.Spec.Procs

inductive M
  | reg (id : Nat)
  | exit (p : Nat)
  | mon (p r : Nat)
  | exitN (p : Nat)      -- reason `noproc`
  | monN (p r : Nat)
deriving DecidableEq, Repr

inductive E
  | call (t : Nat) (op : List String) (res : String)
  | h (p : Nat) (m : M)
  | x (p k : Nat)
  | d (p : Nat)
deriving Repr

def num (s : String) : Nat := s.toNat?.getD 0

def parseM (s : String) : Option M :=
  if s.startsWith "r" then some (.reg (num (s.drop 1).toString))
  else if s.startsWith "e" then some (.exit (num (s.drop 1).toString))
  else if s.startsWith "m" then
    match (s.drop 1).toString.splitOn "." with
    | [p, r] => some (.mon (num p) (num r))
    | _ => none
  else if s.startsWith "E" then some (.exitN (num (s.drop 1).toString))
  else if s.startsWith "M" then
    match (s.drop 1).toString.splitOn "." with
    | [p, r] => some (.monN (num p) (num r))
    | _ => none
  else none

def parseE (tok : String) : Option E :=
  match tok.splitOn "=" with
  | [] => none
  | lhs :: rest =>
    let res := "=".intercalate rest
    if lhs.startsWith "c" then
      match (lhs.drop 1).toString.splitOn ":" with
      | [t, op] => some (.call (num t) (op.splitOn ".") res)
      | _ => none
    else if lhs.startsWith "h" then (parseM res).map (.h (num (lhs.drop 1).toString))
    else if lhs.startsWith "x" then
      match (lhs.drop 1).toString.splitOn "." with
      | [p, k] => some (.x (num p) (num k))
      | _ => none
    else if lhs.startsWith "d" then some (.d (num (lhs.drop 1).toString))
    else none

def indexed {α : Type} (l : List α) : List (Nat × α) := (List.range l.length).zip l

abbrev Hist := List (Nat × E)

def firstIdx (es : Hist) (f : E → Bool) : Option Nat := (es.find? (fun e => f e.2)).map (·.1)

def spawnedAt (es : Hist) (p : Nat) : Option Nat :=
  firstIdx es fun | .call _ ("sp" :: _) r => r == s!"pid={p}" | _ => false
def trapOf (es : Hist) (p : Nat) : Bool :=
  match es.find? (fun e => match e.2 with | .call _ ("sp" :: _) r => r == s!"pid={p}" | _ => false) with
  | some (_, .call _ ["sp", tr] _) => num tr != 0
  | _ => true
def droppedAt (es : Hist) (p : Nat) : Option Nat := firstIdx es fun | .d q => q == p | _ => false
def xAt (es : Hist) (p k : Nat) : Option Nat := firstIdx es fun | .x q j => q == p && j == k | _ => false

def before (i : Nat) : Option Nat → Bool
  | some j => i < j
  | none => true

/-- `p` is in the registry while entry `i` runs -/
def liveAt (es : Hist) (p i : Nat) : Bool :=
  (match spawnedAt es p with | some s => s < i | none => false) && before i (droppedAt es p)

/-- the `fail` flag the sender gave message `id` -/
def failFlag (es : Hist) (id : Nat) : Bool :=
  es.any fun e => match e.2 with
    | .call _ ["sd", _, i, f] _ => num i == id && num f != 0
    | .call _ ["sn", _, i, f] _ => num i == id && num f != 0
    | _ => false

def fails (es : Hist) (p : Nat) : M → Bool
  | .reg id => failFlag es id
  | .exit _ => !trapOf es p
  | .mon _ _ => false
  | .exitN _ => !trapOf es p
  | .monN _ _ => false

def handledSeq (es : Hist) (p : Nat) : List (Nat × M) :=
  es.filterMap fun e => match e.2 with | .h q m => if q == p then some (e.1, m) else none | _ => none

def failedAt (es : Hist) (p : Nat) : Option Nat := ((handledSeq es p).find? (fun e => fails es p e.2)).map (·.1)

def pids (es : Hist) : List Nat :=
  es.filterMap fun e => match e.2 with
    | .call _ ("sp" :: _) r => if r.startsWith "pid=" then some (num (r.drop 4).toString) else none
    | _ => none

def sortNat (l : List Nat) : List Nat := (l.toArray.qsort (· < ·)).toList

/-! ### A: the sequential registry reference -/

structure RefSt where
  names : List (Nat × Nat) := []
  spawned : Nat := 0
  dropped : Nat := 0
  refs : Nat := 0
  accepted : List (Nat × Nat) := []     -- (target pid, message id) in acceptance order
  err : Option String := none

def lookup (n : Nat) (l : List (Nat × Nat)) : Option Nat := (l.find? (·.1 == n)).map (·.2)

def expectRes (s : RefSt) (i : Nat) (got want : String) : RefSt :=
  if s.err.isSome || got == want then s else { s with err := some s!"FAIL A entry {i}: result {got}, the reference gives {want}" }

def stepA (es : Hist) (s : RefSt) (e : Nat × E) : RefSt :=
  let i := e.1
  match e.2 with
  | .d p => { s with names := s.names.filter (·.2 != p), dropped := s.dropped + 1 }
  | .call _ ["sp", _] r => { expectRes s i r s!"pid={s.spawned}" with spawned := s.spawned + 1 }
  | .call _ ["rg", n, p] r =>
    let n := num n; let p := num p
    if !liveAt es p i then expectRes s i r "noproc"
    else match lookup n s.names with
      | some _ => expectRes s i r "taken"
      | none => { expectRes s i r "ok" with names := s.names ++ [(n, p)] }
  | .call _ ["ur", n] r =>
    let n := num n
    match lookup n s.names with
    | some _ => { expectRes s i r "ok" with names := s.names.filter (·.1 != n) }
    | none => expectRes s i r "noname"
  | .call _ ["wh", n] r =>
    expectRes s i r (match lookup (num n) s.names with | some p => s!"found={p}" | none => "found=-")
  | .call _ ["rd"] r => expectRes s i r ("names=" ++ ".".intercalate ((sortNat (s.names.map (·.1))).map toString))
  | .call _ ["ct"] r => expectRes s i r s!"count={s.spawned - s.dropped}"
  | .call _ ["sd", p, id, _] r =>
    let p := num p
    if liveAt es p i then { expectRes s i r "ok" with accepted := s.accepted ++ [(p, num id)] }
    else expectRes s i r "noproc"
  | .call _ ["sn", n, id, _] r =>
    match lookup (num n) s.names with
    | none => expectRes s i r "noname"
    | some p =>
      if liveAt es p i then { expectRes s i r "ok" with accepted := s.accepted ++ [(p, num id)] }
      else expectRes s i r "noproc"
  | .call _ ["lk", _, _] r => expectRes s i r "ok"
  | .call _ ["ul", _, _] r => expectRes s i r "ok"
  | .call _ ["mo", _, _] r => { expectRes s i r s!"ref={s.refs}" with refs := s.refs + 1 }
  | .call _ ["dm", _, _, _] r => expectRes s i r "ok"
  | .call _ op r => expectRes s i r ("unknown-call " ++ ".".intercalate op)
  | _ => s

/-! ### B: delivery -/

def isPrefix : List Nat → List Nat → Bool
  | [], _ => true
  | _ :: _, [] => false
  | a :: as, b :: bs => a == b && isPrefix as bs

def checkB (es : Hist) (accepted : List (Nat × Nat)) (p : Nat) : Option String :=
  let sent := accepted.filterMap fun e => if e.1 == p then some e.2 else none
  let hs := handledSeq es p
  let got := hs.filterMap fun e => match e.2 with | .reg id => some id | _ => none
  if !isPrefix got sent then some s!"FAIL B process {p}: handled {got} is not a prefix of accepted {sent}"
  else match failedAt es p with
    | none => if got.length == sent.length then none
              else some s!"FAIL B process {p} never failed but handled {got.length} of {sent.length} accepted messages"
    | some f =>
      if hs.any (fun e => e.1 > f) then some s!"FAIL B process {p} handled a message after the one its handler failed on"
      else none

/-! ### C: exit notices -/

/-- `p`'s own link set as the calls before entry `bound` leave it -/
def linkSet (es : Hist) (p bound : Nat) : List Nat :=
  es.foldl (fun acc e =>
    if e.1 < bound && liveAt es p e.1 then
      match e.2 with
      | .call _ ["lk", a, b] _ =>
        let a := num a; let b := num b
        let acc := if a == p && !acc.contains b then acc ++ [b] else acc
        if b == p && !acc.contains a then acc ++ [a] else acc
      | .call _ ["ul", a, b] _ =>
        let a := num a; let b := num b
        let acc := if a == p then acc.filter (· != b) else acc
        if b == p then acc.filter (· != a) else acc
      | _ => acc
    else acc) []

/-- `p`'s monitor set (watcher, reference) as the calls before entry `bound` leave it -/
def monSet (es : Hist) (p bound : Nat) : List (Nat × Nat) :=
  es.foldl (fun acc e =>
    if e.1 < bound && liveAt es p e.1 then
      match e.2 with
      | .call _ ["mo", a, b] r =>
        if num b == p && r.startsWith "ref=" then
          let x := (num a, num (r.drop 4).toString)
          if acc.contains x then acc else acc ++ [x]
        else acc
      | .call _ ["dm", _, b, r] _ => if num b == p then acc.filter (·.2 != num r) else acc
      | _ => acc
    else acc) []

def countM (es : Hist) (a : Nat) (m : M) : Nat := ((handledSeq es a).filter (·.2 == m)).length

/-- the processes that get linked to `p` by a call made in `[lo, hi)` although they were not in `known`: (process, entry
index of the first such call) -/
def lateLinks (es : Hist) (p lo hi : Nat) (known : List Nat) : List (Nat × Nat) :=
  es.foldl (fun acc e =>
    if lo < e.1 && e.1 < hi then
      match e.2 with
      | .call _ ["lk", a, b] _ =>
        let a := num a; let b := num b
        let add (acc : List (Nat × Nat)) (x : Nat) := if known.contains x || acc.any (·.1 == x) then acc else acc ++ [(x, e.1)]
        let acc := if a == p then add acc b else acc
        if b == p then add acc a else acc
      | _ => acc
    else acc) []

/-- the monitors of `p` requested by a call made in `[lo, hi)`: (watcher, reference, entry index) -/
def lateMons (es : Hist) (p lo hi : Nat) : List (Nat × Nat × Nat) :=
  es.filterMap fun e =>
    if lo < e.1 && e.1 < hi then
      match e.2 with
      | .call _ ["mo", a, b] r =>
        if num b == p && r.startsWith "ref=" then some (num a, num (r.drop 4).toString, e.1) else none
      | _ => none
    else none

def checkC (es : Hist) (ps : List Nat) (p : Nat) : Option String :=
  match failedAt es p with
  | none =>
    -- a process that did not terminate: nobody may see a notice about it
    ps.findSome? fun a =>
      if (handledSeq es a).any (fun e => match e.2 with
          | .exit q => q == p | .mon q _ => q == p | .exitN q => q == p | .monN q _ => q == p | _ => false)
      then some s!"FAIL C process {a} saw a notice about {p}, which did not terminate" else none
  | some _ =>
    match xAt es p 2, xAt es p 3, droppedAt es p with
    | some x2, some x3, some dp =>
      let ls := linkSet es p x2
      let late := lateLinks es p x2 dp ls
      let ms := monSet es p x3
      let lateM := lateMons es p x3 dp
      ps.findSome? fun a =>
        let cE := countM es a (.exit p)
        let cN := countM es a (.exitN p)
        let alive := (failedAt es a).isNone
        let dueE := ls.contains a && liveAt es a x2
        let dueN := late.any fun e => e.1 == a && liveAt es a e.2
        let r1 :=
          if cE + cN > 1 then some s!"FAIL C process {a} saw {cE + cN} exit notices about {p}"
          else if cE == 1 && !dueE then some s!"FAIL C process {a} saw Exit from {p} without being in its link set"
          else if cN == 1 && !dueN then some s!"FAIL C process {a} saw a noproc Exit from {p} without a link that came late"
          else if alive && dueE && cE == 0 then some s!"FAIL C process {a} is linked to {p} and never saw its Exit"
          else if alive && dueN && cN == 0 then
            some s!"FAIL C process {a} was linked to {p} while {p} was terminating (Ok) and never saw an exit notice"
          else none
        match r1 with
        | some e => some e
        | none =>
          let seen := (handledSeq es a).filterMap fun e => match e.2 with | .mon q r => if q == p then some r else none | _ => none
          let seenN := (handledSeq es a).filterMap fun e => match e.2 with | .monN q r => if q == p then some r else none | _ => none
          let all := seen ++ seenN
          match all.find? (fun r => (all.filter (· == r)).length > 1) with
          | some r => some s!"FAIL C process {a} saw two MonitorExit notices of {p} with reference {r}"
          | none =>
          match seen.find? (fun r => !(ms.contains (a, r) && liveAt es a x3)) with
          | some r => some s!"FAIL C process {a} saw MonitorExit of {p} with reference {r} without monitoring it"
          | none =>
          match seenN.find? (fun r => !(lateM.any fun e => e.1 == a && e.2.1 == r && liveAt es a e.2.2)) with
          | some r => some s!"FAIL C process {a} saw a noproc MonitorExit of {p} with reference {r} without a monitor that came late"
          | none =>
            if !alive then none else
            match (ms.filter (fun e => e.1 == a && liveAt es a x3)).find? (fun e => !seen.contains e.2) with
            | some e => some s!"FAIL C process {a} monitors {p} with reference {e.2} and never saw its MonitorExit"
            | none =>
              match (lateM.filter (fun e => e.1 == a && liveAt es a e.2.2)).find? (fun e => !seenN.contains e.2.1) with
              | some e => some s!"FAIL C process {a} monitored {p} while {p} was terminating (reference {e.2.1}) and never saw a notice"
              | none => none
    | _, _, _ => some s!"FAIL C process {p} failed but did not pass all of its termination points"

def check (toks : List String) : String :=
  match toks.mapM parseE with
  | none => "bad-op token"
  | some l =>
    let es := indexed l
    let s := es.foldl (stepA es) {}
    match s.err with
    | some e => e
    | none =>
      let ps := pids es
      match ps.findSome? (checkB es s.accepted) with
      | some e => e
      | none =>
        match ps.findSome? (checkC es ps) with
        | some e => e
        | none => "ok"

/-! ### behaviours, from the OTP message shapes: `{'$gen_call', {Pid, Ref}, Request}` is answered with `{Ref, Reply}` to `Pid`;
gen_event: `{'$gen_call', {Pid, Ref}, HandlerId, Request}` likewise, `{'$gen_sync_notify', Event}` with `ok` to the sender,
`{'$gen_which_handlers', {Pid, Ref}}` with `{Ref, [Id]}`; everything else is not answered -/

def atomIs (t : Edp.Term) (s : String) : Bool :=
  match t with
  | .atom b => b == s.toUTF8.toList
  | _ => false

def fromOf : Edp.Term → Option (Edp.Term × Edp.Term)
  | .tuple [.pid p, .ref n c i l] => some (.pid p, .ref n c i l)
  | _ => none

/-- what a live local caller must find in its mailbox: `want` (exactly these, once); `mode`: the server's answer to the call -/
def expectReplies (live : Edp.Term) (target : Edp.Term) (msg : Edp.Term) : List Edp.Term :=
  if target == live then [msg] else []

def checkReplies (want got : List Edp.Term) : String :=
  if want == got then "ok"
  else s!"FAIL D replies {got.map Edp.Term.text}, the protocol asks for {want.map Edp.Term.text}"

/-- `mode`: `some v` the server replied `v`; `none`: it deferred the reply or failed -/
def gsCheck (body : Edp.Term) (mode : Option Edp.Term) (live : Edp.Term) (got : List Edp.Term) : String :=
  match body with
  | .tuple [tag, frm, _] =>
    match atomIs tag "$gen_call", fromOf frm, mode with
    | true, some (p, r), some v => checkReplies (expectReplies live p (.tuple [r, v])) got
    | _, _, _ => checkReplies [] got
  | _ => checkReplies [] got

def geCheck (msgFrom : Option Edp.Term) (body : Edp.Term) (callReply : Option Edp.Term) (ids : List Edp.Term)
    (live : Edp.Term) (got : List Edp.Term) : String :=
  match body with
  | .tuple [tag, frm, _, _] =>
    match atomIs tag "$gen_call", fromOf frm with
    | true, some (p, r) =>
      checkReplies (expectReplies live p (.tuple [r, callReply.getD (.atom "error".toUTF8.toList)])) got
    | _, _ => checkReplies [] got
  | .tuple [tag, x] =>
    if atomIs tag "$gen_sync_notify" then
      match msgFrom with
      | some f => checkReplies (expectReplies live f (.atom "ok".toUTF8.toList)) got
      | none => checkReplies [] got
    else if atomIs tag "$gen_which_handlers" then
      match fromOf x with
      | some (p, r) => checkReplies (expectReplies live p (.tuple [r, .list ids])) got
      | none => checkReplies [] got
    else checkReplies [] got
  | _ => checkReplies [] got

end Edp.Spec.Procs
