import EdpVerif.Impl.Receiver
import EdpVerif.Lemmas.Framing
/-! Helper lemmas for C19 (receiver loop and routing). Core Lean only. -/
namespace Edp.Receiver
open Edp Edp.Framing

/-! ### registry and mailboxes -/

theorem find_sendTo (ps : List (PidKey × List LMsg)) (k k' : PidKey) (m : LMsg) :
    (ps.map fun p => if p.1 = k then (p.1, p.2 ++ [m]) else p).find? (fun p => p.1 = k') =
      (ps.find? (fun p => p.1 = k')).map (fun p => if p.1 = k then (p.1, p.2 ++ [m]) else p) := by
  rw [List.find?_map]
  have : ((fun p : PidKey × List LMsg => decide (p.1 = k')) ∘
      fun p => if p.1 = k then (p.1, p.2 ++ [m]) else p) = fun p => decide (p.1 = k') := by
    funext p
    simp only [Function.comp]
    split <;> rfl
  rw [this]

/-- the target's mailbox gets exactly this message appended -/
theorem mailbox_sendTo_same (st : NodeSt) (k : PidKey) (m : LMsg) (mb : List LMsg) (h : mailbox st k = some mb) :
    mailbox (sendTo st k m) k = some (mb ++ [m]) := by
  unfold mailbox at h ⊢
  unfold sendTo
  simp only
  rw [find_sendTo]
  cases hf : st.procs.find? (fun p => p.1 = k) with
  | none => rw [hf] at h; simp at h
  | some p =>
    rw [hf] at h
    simp only [Option.some.injEq] at h
    have hp : p.1 = k := by
      have := List.find?_some hf
      simpa using this
    simp [hp, h]

/-- every other mailbox is untouched -/
theorem mailbox_sendTo_other (st : NodeSt) (k k' : PidKey) (m : LMsg) (h : k' ≠ k) :
    mailbox (sendTo st k m) k' = mailbox st k' := by
  unfold mailbox sendTo
  simp only
  rw [find_sendTo]
  cases hf : st.procs.find? (fun p => p.1 = k') with
  | none => rfl
  | some p =>
    have hp : p.1 = k' := by
      have := List.find?_some hf
      simpa using this
    have : ¬ p.1 = k := by rw [hp]; exact h
    simp [this]

theorem sendTo_pids (st : NodeSt) (k : PidKey) (m : LMsg) :
    (sendTo st k m).procs.map (·.1) = st.procs.map (·.1) := by
  unfold sendTo
  simp only [List.map_map]
  apply List.map_congr_left
  intro p _
  simp only [Function.comp]
  split <;> rfl

theorem sendTo_dead (st : NodeSt) (k : PidKey) (m : LMsg) (h : isLive st k = false) : sendTo st k m = st := by
  unfold sendTo
  have hall : ∀ p ∈ st.procs, ¬ p.1 = k := by
    intro p hp hk
    unfold isLive mailbox at h
    cases hf : st.procs.find? (fun p => p.1 = k) with
    | some q => rw [hf] at h; simp at h
    | none =>
      have := List.find?_eq_none.mp hf p hp
      simp at this
      exact this hk
  have : (st.procs.map fun p => if p.1 = k then (p.1, p.2 ++ [m]) else p) = st.procs := by
    conv => rhs; rw [← List.map_id st.procs]
    apply List.map_congr_left
    intro p hp
    simp [hall p hp]
  rw [this]

theorem isLive_sendTo (st : NodeSt) (k k' : PidKey) (m : LMsg) : isLive (sendTo st k m) k' = isLive st k' := by
  unfold isLive
  by_cases h : k' = k
  · subst h
    cases hm : mailbox st k' with
    | some mb => rw [mailbox_sendTo_same st k' m mb hm]; rfl
    | none =>
      have : isLive st k' = false := by unfold isLive; rw [hm]; rfl
      rw [sendTo_dead st k' m this, hm]
  · rw [mailbox_sendTo_other st k k' m h]

/-! ### the loop -/

theorem keepGoing_ofRead (e : RErr) : keepGoing (.ofRead e) = false := by
  cases e <;> rfl

theorem loopF_succ (x : Ext) (tbl : Control.Table) (f : Nat) (st : NodeSt) (evs : List Ev) :
    loopF x tbl (f + 1) st evs =
      match step st (recvMsg x tbl evs).1 with
      | .ok st' => loopF x tbl f st' (recvMsg x tbl evs).2
      | .error e => ⟨st, e, (recvMsg x tbl evs).2⟩ := by
  simp only [loopF]
  cases recvMsg x tbl evs with
  | mk res r => rfl

/-- when the loop goes on, the script got shorter -/
theorem step_ok_weight (x : Ext) (tbl : Control.Table) (st st' : NodeSt) (evs : List Ev)
    (h : step st (recvMsg x tbl evs).1 = .ok st') : weight (recvMsg x tbl evs).2 < weight evs := by
  unfold recvMsg at h ⊢
  cases hr : recvBody connCap evs with
  | mk res r a =>
    rw [hr] at h
    cases res with
    | error e =>
      simp only [step, keepGoing_ofRead] at h
      simp at h
    | ok body =>
      have := recvBody_step connCap evs body (by rw [hr])
      rw [hr] at this
      simpa using this

theorem loopF_fuel (x : Ext) (tbl : Control.Table) : ∀ (f1 f2 : Nat) (st : NodeSt) (evs : List Ev),
    weight evs < f1 → weight evs < f2 → loopF x tbl f1 st evs = loopF x tbl f2 st evs := by
  intro f1
  induction f1 with
  | zero => intro f2 st evs h; omega
  | succ f1 ih =>
    intro f2 st evs h1 h2
    cases f2 with
    | zero => omega
    | succ f2 =>
      rw [loopF_succ, loopF_succ]
      cases hs : step st (recvMsg x tbl evs).1 with
      | error e => rfl
      | ok st' =>
        have := step_ok_weight x tbl st st' evs hs
        exact ih f2 st' _ (by omega) (by omega)

/-- one turn of the loop -/
theorem loop_unfold (x : Ext) (tbl : Control.Table) (st : NodeSt) (evs : List Ev) :
    loop x tbl st evs =
      match step st (recvMsg x tbl evs).1 with
      | .ok st' => loop x tbl st' (recvMsg x tbl evs).2
      | .error e => ⟨st, e, (recvMsg x tbl evs).2⟩ := by
  unfold loop
  rw [loopF_succ]
  cases hs : step st (recvMsg x tbl evs).1 with
  | error e => rfl
  | ok st' =>
    have := step_ok_weight x tbl st st' evs hs
    exact loopF_fuel x tbl _ _ st' _ this (by omega)

/-- scripts on which `receive_message_from_read_half` behaves alike are alike to the loop -/
theorem loop_congr (x : Ext) (tbl : Control.Table) (st : NodeSt) (e1 e2 : List Ev)
    (h : recvMsg x tbl e1 = recvMsg x tbl e2) : loop x tbl st e1 = loop x tbl st e2 := by
  rw [loop_unfold, loop_unfold x tbl st e2, h]

theorem recvMsg_congr (x : Ext) (tbl : Control.Table) (e1 e2 : List Ev)
    (h : recvBody connCap e1 = recvBody connCap e2) : recvMsg x tbl e1 = recvMsg x tbl e2 := by
  unfold recvMsg; rw [h]

theorem loop_pending (x : Ext) (tbl : Control.Table) (st : NodeSt) (r : List Ev) :
    loop x tbl st (.pending :: r) = loop x tbl st r :=
  loop_congr x tbl st _ _ (recvMsg_congr x tbl _ _ (recvBody_pending connCap r))

theorem loop_skip_pendings (x : Ext) (tbl : Control.Table) (st : NodeSt) (tail : List Ev) :
    ∀ (c : List Ev), (∀ e ∈ c, e = Ev.pending) → loop x tbl st (c ++ tail) = loop x tbl st tail := by
  intro c
  induction c with
  | nil => intro _; rfl
  | cons e t ih =>
    intro h
    have he : e = .pending := h e (by simp)
    subst he
    rw [List.cons_append, loop_pending]
    exact ih (fun y hy => h y (by simp [hy]))

/-- a tick in front of a clean script: the loop does not notice -/
theorem loop_clean_tick (x : Ext) (tbl : Control.Table) (st : NodeSt) (c : List Ev) (rest : Bytes) (tail : List Ev)
    (hc : Clean c) (hp : payload c = frame .distribution [] ++ rest) :
    ∃ c', Clean c' ∧ payload c' = rest ∧ loop x tbl st (c ++ tail) = loop x tbl st (c' ++ tail) := by
  obtain ⟨c', k1, k2, k3⟩ := recvBody_clean_tick connCap c rest tail hc hp
  exact ⟨c', k1, k2, loop_congr x tbl st _ _ (recvMsg_congr x tbl _ _ k3)⟩

/-- a complete frame in front of a clean script, whatever the segmentation: classified, then routed, skipped, or the end -/
theorem loop_clean_frame (x : Ext) (tbl : Control.Table) (st : NodeSt) (c : List Ev) (body rest : Bytes)
    (tail : List Ev) (hc : Clean c) (hp : payload c = frame .distribution body ++ rest) (hb : body ≠ [])
    (hf : fits .distribution body) (hcap : body.length ≤ connCap) :
    ∃ c', Clean c' ∧ payload c' = rest ∧
      loop x tbl st (c ++ tail) =
        match step st (classify x tbl body) with
        | .ok st' => loop x tbl st' (c' ++ tail)
        | .error e => ⟨st, e, c' ++ tail⟩ := by
  obtain ⟨c', k1, k2, k3⟩ := recvBody_clean_msg connCap c body rest tail hc hp hb hf hcap
  refine ⟨c', k1, k2, ?_⟩
  rw [loop_unfold]
  have : recvMsg x tbl (c ++ tail) = (classify x tbl body, c' ++ tail) := by
    unfold recvMsg; rw [k3]
  rw [this]

/-- a frame body the loop survives: it is routed or skipped -/
def Survivable (x : Ext) (tbl : Control.Table) (body : Bytes) : Prop :=
  ∀ e, classify x tbl body = .error e → keepGoing e = true

/-- bodies a frame can carry: the length fits the prefix and is within the limit -/
def Framable (body : Bytes) : Prop := fits .distribution body ∧ body.length ≤ connCap

theorem step_survivable (x : Ext) (tbl : Control.Table) (st : NodeSt) (body : Bytes) (h : Survivable x tbl body) :
    ∃ st', step st (classify x tbl body) = .ok st' := by
  cases hc : classify x tbl body with
  | ok r => exact ⟨route st r.1 r.2, by cases r; rfl⟩
  | error e => exact ⟨st, by simp [step, h e hc]⟩

theorem routeAll_nil_body (x : Ext) (tbl : Control.Table) (st : NodeSt) (bs : List Bytes) :
    routeAll x tbl st ([] :: bs) = routeAll x tbl st bs := by
  simp [routeAll, classify, step, keepGoing]

/-- **survival**: any number of complete frames (ticks are the empty bodies) that are each survivable, delivered in any
segmentation with any number of `Pending` polls: the loop is then where a fresh loop on the routed state would be -/
theorem loop_clean_frames (x : Ext) (tbl : Control.Table) (tail : List Ev) :
    ∀ (bodies : List Bytes) (st : NodeSt) (c : List Ev),
      (∀ b ∈ bodies, Framable b ∧ (b ≠ [] → Survivable x tbl b)) → Clean c →
      payload c = (bodies.map (frame .distribution)).flatten →
      loop x tbl st (c ++ tail) = loop x tbl (routeAll x tbl st bodies) tail := by
  intro bodies
  induction bodies with
  | nil =>
    intro st c _ hc hp
    simp only [List.map_nil, List.flatten_nil] at hp
    exact loop_skip_pendings x tbl st tail c (clean_nil_payload c hc hp)
  | cons b bs ih =>
    intro st c hb hc hp
    simp only [List.map_cons, List.flatten_cons] at hp
    obtain ⟨⟨hf, hcap⟩, hs⟩ := hb b (by simp)
    by_cases hne : b = []
    · subst hne
      obtain ⟨c', k1, k2, k3⟩ := loop_clean_tick x tbl st c _ tail hc hp
      rw [k3, routeAll_nil_body]
      exact ih st c' (fun y hy => hb y (by simp [hy])) k1 k2
    · obtain ⟨c', k1, k2, k3⟩ := loop_clean_frame x tbl st c b _ tail hc hp hne hf hcap
      obtain ⟨st', hst⟩ := step_survivable x tbl st b (hs hne)
      rw [k3, hst]
      simp only [routeAll, hst]
      exact ih st' c' (fun y hy => hb y (by simp [hy])) k1 k2

/-! ### how the loop ends -/

theorem loop_nil (x : Ext) (tbl : Control.Table) (st : NodeSt) : loop x tbl st [] = ⟨st, .eof, []⟩ := by
  simp [loop, loopF, recvMsg, recvBody, recvBodyF, readExact, step, keepGoing, RxErr.ofRead]

theorem loop_eof (x : Ext) (tbl : Control.Table) (st : NodeSt) (tail : List Ev) :
    loop x tbl st (.eof :: tail) = ⟨st, .eof, tail⟩ := by
  simp [loop, loopF, recvMsg, recvBody, recvBodyF, readExact, step, keepGoing, RxErr.ofRead]

theorem loop_stall (x : Ext) (tbl : Control.Table) (st : NodeSt) (tail : List Ev) :
    loop x tbl st (.stall :: tail) = ⟨st, .timeout, tail⟩ := by
  simp [loop, loopF, recvMsg, recvBody, recvBodyF, readExact, step, keepGoing, RxErr.ofRead]

theorem loop_fail (x : Ext) (tbl : Control.Table) (st : NodeSt) (tail : List Ev) :
    loop x tbl st (.fail :: tail) = ⟨st, .io, tail⟩ := by
  simp [loop, loopF, recvMsg, recvBody, recvBodyF, readExact, step, keepGoing, RxErr.ofRead]

theorem loop_clean_overlong (x : Ext) (tbl : Control.Table) (st : NodeSt) (c : List Ev) (len : Nat) (rest : Bytes)
    (tail : List Ev) (hc : Clean c) (hp : payload c = beN 4 len ++ rest) (hl : len < 2 ^ 32) (hcap : connCap < len) :
    ∃ c', Clean c' ∧ payload c' = rest ∧ loop x tbl st (c ++ tail) = ⟨st, .tooLarge len, c' ++ tail⟩ := by
  obtain ⟨c', k1, k2, k3⟩ := recvBody_clean_overcap connCap c len rest tail hc hp (by simpa using hl) hcap
  refine ⟨c', k1, k2, ?_⟩
  rw [loop_unfold]
  have : recvMsg x tbl (c ++ tail) = (.error (.tooLarge len), c' ++ tail) := by
    unfold recvMsg; rw [k3]; rfl
  rw [this]
  rfl

/-- the stream ends inside a frame -/
theorem recvBody_clean_short (c : List Ev) (m missing : Bytes) (tail : List Ev)
    (hc : Clean c) (hp : payload c ++ missing = frame .distribution m) (hmiss : missing ≠ [])
    (hf : fits .distribution m) (hcap : m.length ≤ connCap) (ht : tail = [] ∨ ∃ t, tail = .eof :: t) :
    (recvBody connCap (c ++ tail)).res = .error .eof := by
  have h := readFramed_clean_short connCap .distribution c m missing tail hc hp hmiss hf hcap ht
  show (recvBodyF connCap (weight (c ++ tail) + 1) (c ++ tail)).res = _
  rw [recvBodyF_succ]
  cases hr : readFramed connCap .distribution (c ++ tail) with
  | mk res r a =>
    rw [hr] at h
    simp only at h
    subst h
    rfl

theorem loop_clean_short (x : Ext) (tbl : Control.Table) (st : NodeSt) (c : List Ev) (m missing : Bytes)
    (tail : List Ev) (hc : Clean c) (hp : payload c ++ missing = frame .distribution m) (hmiss : missing ≠ [])
    (hf : fits .distribution m) (hcap : m.length ≤ connCap) (ht : tail = [] ∨ ∃ t, tail = .eof :: t) :
    (loop x tbl st (c ++ tail)).why = .eof ∧ (loop x tbl st (c ++ tail)).node = st := by
  have h := recvBody_clean_short c m missing tail hc hp hmiss hf hcap ht
  rw [loop_unfold]
  unfold recvMsg
  cases hr : recvBody connCap (c ++ tail) with
  | mk res r a =>
    rw [hr] at h
    simp only at h
    subst h
    exact ⟨rfl, rfl⟩

/-- whatever the script: the loop never ends for a reason it is supposed to survive -/
theorem loopF_why (x : Ext) (tbl : Control.Table) : ∀ (f : Nat) (st : NodeSt) (evs : List Ev),
    keepGoing (loopF x tbl f st evs).why = false := by
  intro f
  induction f with
  | zero => intro st evs; rfl
  | succ f ih =>
    intro st evs
    rw [loopF_succ]
    cases hs : step st (recvMsg x tbl evs).1 with
    | ok st' => exact ih st' _
    | error e =>
      simp only
      cases hr : (recvMsg x tbl evs).1 with
      | ok r => rw [hr] at hs; cases r; simp [step] at hs
      | error e' =>
        rw [hr] at hs
        simp only [step] at hs
        split at hs
        · simp at hs
        · rename_i hk
          simp only [Except.error.injEq] at hs
          subst hs
          simpa using hk

/-! ### from the bytes of a frame to its routing -/

/-- what the loop does with a frame whose control term is `ct` and whose message is `payload` -/
def routeCtl (tbl : Control.Table) (st : NodeSt) (ct : Term) (payload : Option Term) : NodeSt :=
  match Control.parse tbl ct with
  | .ok m => route st m payload
  | .error _ => st

/-- a pass-through body whose control term decodes and parses: the result carries exactly that message and the decoded
payload (or none when nothing follows the control term); bytes after the payload term make the whole frame an
`Error::Decode` (`TrailingData`) -/
theorem classify_pass (x : Ext) (tbl : Control.Table) (r rest : Bytes) (ct : Term) (m : Control.Msg)
    (hd : decodeTrailing x r = .ok (ct, rest)) (hm : Control.parse tbl ct = .ok m) :
    (rest = [] → classify x tbl (112 :: r) = .ok (m, none)) ∧
    (∀ p, rest ≠ [] → decodeTrailing x rest = .ok (p, []) → classify x tbl (112 :: r) = .ok (m, some p)) ∧
    (∀ p rr, rest ≠ [] → rr ≠ [] → decodeTrailing x rest = .ok (p, rr) → classify x tbl (112 :: r) = .error .decode) := by
  refine ⟨?_, ?_, ?_⟩
  · intro h0
    subst h0
    simp [classify, hd, hm]
  · intro p h0 hp
    cases rest with
    | nil => exact absurd rfl h0
    | cons a t => simp [classify, hd, hm, hp]
  · intro p rr h0 h1 hp
    cases rest with
    | nil => exact absurd rfl h0
    | cons a t =>
      cases rr with
      | nil => exact absurd rfl h1
      | cons b u => simp [classify, hd, hm, hp]

/-- the errors `classify` can give -/
theorem classify_error_cases (x : Ext) (tbl : Control.Table) (body : Bytes) (e : RxErr)
    (h : classify x tbl body = .error e) :
    e = .empty ∨ (∃ b, e = .marker b) ∨ e = .decode ∨ e = .control ∨ e = .panic := by
  unfold classify at h
  split at h
  · cases h; exact Or.inl rfl
  · split at h
    · cases h; exact Or.inr (Or.inl ⟨_, rfl⟩)
    · split at h
      · cases h; simp
      · cases h; simp
      · split at h
        · cases h; simp
        · cases h; simp
        · split at h
          · cases h
          · split at h
            · cases h; simp
            · cases h; simp
            · cases h
            · cases h; simp

theorem survivable_iff (x : Ext) (tbl : Control.Table) (body : Bytes) :
    Survivable x tbl body ↔ classify x tbl body ≠ .error .empty ∧ classify x tbl body ≠ .error .panic := by
  constructor
  · intro h
    constructor
    · intro he; have := h _ he; simp [keepGoing] at this
    · intro he; have := h _ he; simp [keepGoing] at this
  · intro ⟨h1, h2⟩ e he
    rcases classify_error_cases x tbl body e he with rfl | ⟨b, rfl⟩ | rfl | rfl | rfl
    · exact absurd he h1
    · rfl
    · rfl
    · rfl
    · exact absurd he h2

/-- a body with no effect on any state: the loop goes on as if it had not arrived -/
def Inert (x : Ext) (tbl : Control.Table) (body : Bytes) : Prop :=
  ∀ st, step st (classify x tbl body) = .ok st

theorem inert_survivable (x : Ext) (tbl : Control.Table) (body : Bytes) (h : Inert x tbl body) :
    Survivable x tbl body := by
  intro e he
  have := h default
  rw [he] at this
  simp only [step] at this
  split at this
  · assumption
  · simp at this

theorem routeAll_append (x : Ext) (tbl : Control.Table) : ∀ (a b : List Bytes) (st : NodeSt),
    routeAll x tbl st (a ++ b) = routeAll x tbl (routeAll x tbl st a) b := by
  intro a
  induction a with
  | nil => intro b st; rfl
  | cons y t ih =>
    intro b st
    simp only [List.cons_append, routeAll]
    split <;> exact ih b _

theorem routeAll_inert (x : Ext) (tbl : Control.Table) (st : NodeSt) (b : Bytes) (bs : List Bytes)
    (h : Inert x tbl b) : routeAll x tbl st (b :: bs) = routeAll x tbl st bs := by
  simp only [routeAll, h st]

/-! ### histories with time -/

/-- a history the receiver has to survive: complete frames that fit and are survivable, ticks, and silences that do not
add up to the limit while one read is waiting (`w` = milliseconds already waited) -/
def Calm (x : Ext) (tbl : Control.Table) (limit : Nat) : Nat → List Item → Prop
  | _, [] => True
  | _, .frame b :: r => Framable b ∧ (b ≠ [] → Survivable x tbl b) ∧ Calm x tbl limit 0 r
  | _, .tick :: r => Calm x tbl limit 0 r
  | w, .quiet d :: r => w + d < limit ∧ Calm x tbl limit (w + d) r
  | _, _ => False

def bodiesOf : List Item → List Bytes
  | [] => []
  | .frame b :: r => b :: bodiesOf r
  | _ :: r => bodiesOf r

theorem frame_ne_nil (b : Bytes) : frame .distribution b ≠ [] := by
  intro h
  have := congrArg List.length h
  simp [frame, beN_length, Mode.prefixSize] at this

theorem loop_one_frame (x : Ext) (tbl : Control.Table) (st : NodeSt) (b : Bytes) (tail : List Ev)
    (hf : Framable b) (hs : b ≠ [] → Survivable x tbl b) :
    loop x tbl st (.chunk (frame .distribution b) :: tail) = loop x tbl (routeAll x tbl st [b]) tail := by
  have := loop_clean_frames x tbl tail [b] st [.chunk (frame .distribution b)]
    (by intro y hy; simp at hy; subst hy; exact ⟨hf, hs⟩) (by simp [Clean, frame_ne_nil])
    (by simp [payload])
  simpa using this

theorem loop_calm (x : Ext) (tbl : Control.Table) (limit : Nat) (tail : List Ev) :
    ∀ (h : List Item) (w : Nat) (st : NodeSt), Calm x tbl limit w h →
      loop x tbl st (wire limit w h ++ tail) = loop x tbl (routeAll x tbl st (bodiesOf h)) tail := by
  intro h
  induction h with
  | nil => intro w st _; rfl
  | cons it r ih =>
    intro w st hc
    cases it with
    | frame b =>
      obtain ⟨hf, hs, hr⟩ := hc
      simp only [wire, bodiesOf, List.cons_append]
      rw [loop_one_frame x tbl st b _ hf hs, ih 0 _ hr]
      rw [← routeAll_append]
      rfl
    | tick =>
      simp only [wire, bodiesOf, List.cons_append]
      have hfr : Framable ([] : Bytes) := ⟨by unfold fits; simp [Mode.prefixSize], by simp⟩
      rw [loop_one_frame x tbl st [] _ hfr (fun h => absurd rfl h), routeAll_nil_body]
      exact ih 0 _ hc
    | quiet d =>
      obtain ⟨hlt, hr⟩ := hc
      simp only [wire, hlt, if_true, bodiesOf, List.cons_append]
      rw [loop_pending]
      exact ih (w + d) st hr
    | overlong len => exact absurd hc (by simp [Calm])
    | cut len part => exact absurd hc (by simp [Calm])
    | raw bs => exact absurd hc (by simp [Calm])
    | close => exact absurd hc (by simp [Calm])

/-! ### which control kinds are routed at all (a finite fact about the extracted table) -/

/-- the operation numbers `route_message` has an arm for -/
def routedTags : List Nat := [2, 3, 6, 8, 12, 13, 16, 18, 21]

/-- in this table, only the operations in `routedTags` construct a variant that `route_message` has an arm for -/
def tableRoutesOnly (tbl : Control.Table) : Bool :=
  tbl.tryFrom.all fun p => tbl.fromArms.all fun a =>
    !(a.ty == p.2) || armOf a.variant == .ignored || routedTags.contains p.1

theorem route_ignored (st : NodeSt) (v : String) (fs : List (String × Control.FVal)) (p : Option Term)
    (h : armOf v = .ignored) : route st (.known v fs) p = st := by
  simp [route, h]

theorem routeCtl_unrouted (tbl : Control.Table) (ht : tableRoutesOnly tbl = true) (st : NodeSt) (tag : Int)
    (args : List Term) (payload : Option Term) (h : tag.toNat ∉ routedTags) :
    routeCtl tbl st (.tuple (.int tag :: args)) payload = st := by
  unfold routeCtl
  by_cases hr : 0 ≤ tag ∧ tag ≤ 255
  · simp only [Control.parse, hr, and_self, if_true]
    cases hsel : Control.selectArm tbl (Control.fromU8 tbl tag.toNat) (args.length + 1) with
    | none => rfl
    | some arm =>
      simp only
      cases hev : Control.evalFields (Term.int tag :: args) arm.fields with
      | error e => rfl
      | ok fs =>
        simp only
        apply route_ignored
        -- the arm was selected for an operation of the table
        unfold Control.selectArm at hsel
        cases hty : Control.fromU8 tbl tag.toNat with
        | none => rw [hty] at hsel; simp at hsel
        | some ty =>
          rw [hty] at hsel
          simp only at hsel
          have harm := List.mem_of_find?_eq_some hsel
          have hpred := List.find?_some hsel
          simp only [decide_eq_true_eq] at hpred
          unfold Control.fromU8 at hty
          cases hf : tbl.tryFrom.find? (fun p => p.1 = tag.toNat) with
          | none => rw [hf] at hty; simp at hty
          | some q =>
            rw [hf] at hty
            simp only [Option.some.injEq] at hty
            have hq := List.mem_of_find?_eq_some hf
            have hq1 := List.find?_some hf
            simp only [decide_eq_true_eq] at hq1
            unfold tableRoutesOnly at ht
            have h1 := List.all_eq_true.mp ht q hq
            have h2 := List.all_eq_true.mp h1 arm harm
            simp only [Bool.or_eq_true, Bool.not_eq_true', beq_eq_false_iff_ne, ne_eq, beq_iff_eq,
              List.contains_eq_mem, decide_eq_true_eq] at h2
            rcases h2 with (h2 | h2) | h2
            · exact absurd (hpred.1.trans hty.symm) h2
            · exact h2
            · rw [hq1] at h2; exact absurd h2 h
  · simp only [Control.parse, hr, if_false]

/-! ### the peer falls silent inside a frame -/

theorem readExact_short_stall : ∀ (c : List Ev) (n : Nat) (t : List Ev), Clean c → (payload c).length < n →
    (readExact n (c ++ .stall :: t)).1 = .error .timeout := by
  intro c
  induction c with
  | nil =>
    intro n t _ hn
    cases n with
    | zero => simp at hn
    | succ n => simp [readExact]
  | cons e r ih =>
    intro n t hc hn
    cases n with
    | zero => simp at hn
    | succ n =>
      cases e with
      | eof => simp [Clean] at hc
      | fail => simp [Clean] at hc
      | stall => simp [Clean] at hc
      | pending =>
        simp only [List.cons_append, readExact_pending]
        exact ih (n+1) t hc (by simpa [payload] using hn)
      | chunk bs =>
        obtain ⟨hne, hct⟩ := hc
        simp only [payload, List.length_append] at hn
        have hlen0 : bs.length ≠ 0 := by
          intro h; exact hne (List.length_eq_zero_iff.mp h)
        have hle : bs.length ≤ n + 1 := by omega
        simp only [List.cons_append, readExact, hlen0, if_false, hle, if_true]
        have := ih (n + 1 - bs.length) t hct (by omega)
        cases hr : readExact (n + 1 - bs.length) (r ++ .stall :: t) with
        | mk res r' =>
          rw [hr] at this
          simp at this
          subst this
          rfl

/-- a clean script delivers a strict prefix of a frame and then the wait for the rest reaches the limit -/
theorem readFramed_clean_short_stall (cap : Nat) (c : List Ev) (m missing : Bytes) (t : List Ev)
    (hc : Clean c) (hp : payload c ++ missing = frame .distribution m) (hmiss : missing ≠ [])
    (hf : fits .distribution m) (hcap : m.length ≤ cap) :
    (readFramed cap .distribution (c ++ .stall :: t)).res = .error .timeout := by
  unfold frame at hp
  rcases List.append_eq_append_iff.mp hp with ⟨a', h1, h2⟩ | ⟨c', h1, h2⟩
  · by_cases ha : a' = []
    · subst ha
      simp only [List.append_nil] at h1
      simp only [List.nil_append] at h2
      obtain ⟨c1, k1, k2, _, k4⟩ := readExact_clean c (beN Mode.distribution.prefixSize m.length) [] (.stall :: t) hc (by simp [h1])
      rw [beN_length] at k4
      have hlen : lenOf (beN Mode.distribution.prefixSize m.length) = m.length := lenOf_beN _ _ hf
      have hm0 : m.length ≠ 0 := by
        intro h; apply hmiss; rw [h2]; exact List.length_eq_zero_iff.mp h
      have hcap' : ¬ m.length > cap := by omega
      have hs := readExact_short_stall c1 m.length t k1 (by rw [k2]; simp; omega)
      simp only [readFramed, k4, hlen, hm0, if_false, hcap']
      exact hs
    · have hlt : (payload c).length < Mode.distribution.prefixSize := by
        have := congrArg List.length h1
        rw [beN_length, List.length_append] at this
        have : 0 < a'.length := List.length_pos_iff.mpr ha
        omega
      have hs := readExact_short_stall c Mode.distribution.prefixSize t hc hlt
      unfold readFramed
      cases hr : readExact Mode.distribution.prefixSize (c ++ .stall :: t) with
      | mk res r =>
        rw [hr] at hs
        simp only at hs
        subst hs
        rfl
  · obtain ⟨c1, k1, k2, _, k4⟩ := readExact_clean c (beN Mode.distribution.prefixSize m.length) c' (.stall :: t) hc h1
    rw [beN_length] at k4
    have hlen : lenOf (beN Mode.distribution.prefixSize m.length) = m.length := lenOf_beN _ _ hf
    have hml : m.length = c'.length + missing.length := by rw [h2]; simp
    have hpos : 0 < missing.length := List.length_pos_iff.mpr hmiss
    have hm0 : m.length ≠ 0 := by omega
    have hcap' : ¬ m.length > cap := by omega
    have hs := readExact_short_stall c1 m.length t k1 (by rw [k2]; omega)
    simp only [readFramed, k4, hlen, hm0, if_false, hcap']
    exact hs

theorem loop_clean_short_stall (x : Ext) (tbl : Control.Table) (st : NodeSt) (c : List Ev) (m missing : Bytes)
    (t : List Ev) (hc : Clean c) (hp : payload c ++ missing = frame .distribution m) (hmiss : missing ≠ [])
    (hf : fits .distribution m) (hcap : m.length ≤ connCap) :
    (loop x tbl st (c ++ .stall :: t)).why = .timeout ∧ (loop x tbl st (c ++ .stall :: t)).node = st := by
  have h := readFramed_clean_short_stall connCap c m missing t hc hp hmiss hf hcap
  have hb : (recvBody connCap (c ++ .stall :: t)).res = .error .timeout := by
    show (recvBodyF connCap (weight (c ++ .stall :: t) + 1) (c ++ .stall :: t)).res = _
    rw [recvBodyF_succ]
    cases hr : readFramed connCap .distribution (c ++ .stall :: t) with
    | mk res r a =>
      rw [hr] at h
      simp only at h
      subst h
      rfl
  rw [loop_unfold]
  unfold recvMsg
  cases hr : recvBody connCap (c ++ .stall :: t) with
  | mk res r a =>
    rw [hr] at hb
    simp only at hb
    subst hb
    exact ⟨rfl, rfl⟩

end Edp.Receiver
