import EdpVerif.Impl.Rpc
import EdpVerif.Lemmas.PidAlloc
set_option linter.unusedSimpArgs false
/-! Helper lemmas for C17: facts about the table operations, the inductive invariants of the small-step semantics of
`Impl/Rpc.lean` and their preservation by every step. -/
namespace Edp.Impl.Rpc
open Edp.Impl.PidAlloc (Pid Sh Res alloc seqState seqAlloc MAXP U32)

/-! ### functions updated at one point, the table -/

@[simp] theorem upd_same {α : Type} (f : Nat → α) (i : Nat) (v : α) : upd f i v i = v := by simp [upd]
theorem upd_other {α : Type} (f : Nat → α) (i j : Nat) (v : α) (h : j ≠ i) : upd f i v j = f j := by simp [upd, h]
theorem upd_apply {α : Type} (f : Nat → α) (i j : Nat) (v : α) : upd f i v j = if j = i then v else f j := rfl

theorem mem_eraseKey {p : List (Pid × Nat)} {k k' : Pid} {i : Nat} :
    (k', i) ∈ eraseKey p k ↔ (k', i) ∈ p ∧ k' ≠ k := by
  simp [eraseKey]

theorem lookupKey_some {p : List (Pid × Nat)} {k : Pid} {i : Nat} (h : lookupKey p k = some i) : (k, i) ∈ p := by
  unfold lookupKey at h
  cases hf : p.find? (fun e => e.1 = k) with
  | none => rw [hf] at h; cases h
  | some e =>
    rw [hf] at h
    simp only [Option.map_some, Option.some.injEq] at h
    have hm := List.mem_of_find?_eq_some hf
    have hk := List.find?_some hf
    simp only [decide_eq_true_eq] at hk
    rcases e with ⟨k', i'⟩
    simp only at h hk
    subst h; subst hk
    exact hm

theorem lookupKey_none {p : List (Pid × Nat)} {k : Pid} (h : lookupKey p k = none) (i : Nat) : (k, i) ∉ p := by
  unfold lookupKey at h
  intro hm
  cases hf : p.find? (fun e => e.1 = k) with
  | some e => rw [hf] at h; cases h
  | none =>
    have := List.find?_eq_none.mp hf (k, i) hm
    simp at this

/-! ### `removeKey` touches the table and one `txDropped` flag only -/

@[simp] theorem removeKey_pending (s : St) (k : Pid) : (s.removeKey k).pending = eraseKey s.pending k := rfl
@[simp] theorem removeKey_alloc (s : St) (k : Pid) : (s.removeKey k).alloc = s.alloc := rfl
@[simp] theorem removeKey_nalloc (s : St) (k : Pid) : (s.removeKey k).nalloc = s.nalloc := rfl
@[simp] theorem removeKey_recv (s : St) (k : Pid) : (s.removeKey k).recv = s.recv := rfl
@[simp] theorem removeKey_lock (s : St) (k : Pid) : (s.removeKey k).lock = s.lock := rfl
@[simp] theorem removeKey_procs (s : St) (k : Pid) : (s.removeKey k).procs = s.procs := rfl
@[simp] theorem removeKey_inbox (s : St) (k : Pid) : (s.removeKey k).inbox = s.inbox := rfl
@[simp] theorem removeKey_procLog (s : St) (k : Pid) : (s.removeKey k).procLog = s.procLog := rfl
@[simp] theorem removeKey_localNode (s : St) (k : Pid) : (s.removeKey k).localNode = s.localNode := rfl

theorem removeKey_caller (s : St) (k : Pid) (j : Nat) :
    (s.removeKey k).callers j = s.callers j ∨
      ((s.removeKey k).callers j = { s.callers j with txDropped := true } ∧ lookupKey s.pending k = some j) := by
  unfold St.removeKey
  cases h : lookupKey s.pending k with
  | none => left; rfl
  | some j' =>
    by_cases hj : j = j'
    · subst hj; right; simp
    · left; simp [upd_other _ _ _ _ hj]

@[simp] theorem removeKey_pc (s : St) (k : Pid) (j : Nat) : ((s.removeKey k).callers j).pc = (s.callers j).pc := by
  rcases removeKey_caller s k j with h | ⟨h, _⟩ <;> rw [h]
@[simp] theorem removeKey_key (s : St) (k : Pid) (j : Nat) : ((s.removeKey k).callers j).key = (s.callers j).key := by
  rcases removeKey_caller s k j with h | ⟨h, _⟩ <;> rw [h]
@[simp] theorem removeKey_ix (s : St) (k : Pid) (j : Nat) : ((s.removeKey k).callers j).ix = (s.callers j).ix := by
  rcases removeKey_caller s k j with h | ⟨h, _⟩ <;> rw [h]
@[simp] theorem removeKey_conn (s : St) (k : Pid) (j : Nat) : ((s.removeKey k).callers j).conn = (s.callers j).conn := by
  rcases removeKey_caller s k j with h | ⟨h, _⟩ <;> rw [h]
@[simp] theorem removeKey_val (s : St) (k : Pid) (j : Nat) : ((s.removeKey k).callers j).val = (s.callers j).val := by
  rcases removeKey_caller s k j with h | ⟨h, _⟩ <;> rw [h]
@[simp] theorem removeKey_rxAlive (s : St) (k : Pid) (j : Nat) :
    ((s.removeKey k).callers j).rxAlive = (s.callers j).rxAlive := by
  rcases removeKey_caller s k j with h | ⟨h, _⟩ <;> rw [h]
@[simp] theorem removeKey_out (s : St) (k : Pid) (j : Nat) : ((s.removeKey k).callers j).out = (s.callers j).out := by
  rcases removeKey_caller s k j with h | ⟨h, _⟩ <;> rw [h]

/-- a sender is dropped by `removeKey` only if it was in the table under that key -/
theorem removeKey_txDropped (s : St) (k : Pid) (j : Nat) (h : ((s.removeKey k).callers j).txDropped = true) :
    (s.callers j).txDropped = true ∨ (k, j) ∈ s.pending := by
  rcases removeKey_caller s k j with h' | ⟨_, h'⟩
  · left; rw [h'] at h; exact h
  · right; exact lookupKey_some h'

theorem getElem?_append_some {α : Type} (l : List α) (x y : α) (m : Nat) (h : l[m]? = some y) : (l ++ [x])[m]? = some y := by
  have hm : m < l.length := by
    rcases Nat.lt_or_ge m l.length with h' | h'
    · exact h'
    · rw [List.getElem?_eq_none_iff.mpr h'] at h; cases h
  rw [List.getElem?_append_left hm]; exact h


theorem ite_pc (c : Prop) [Decidable c] (a b : Caller) : (if c then a else b).pc = if c then a.pc else b.pc := by split <;> rfl
theorem ite_key (c : Prop) [Decidable c] (a b : Caller) : (if c then a else b).key = if c then a.key else b.key := by split <;> rfl
theorem ite_ix (c : Prop) [Decidable c] (a b : Caller) : (if c then a else b).ix = if c then a.ix else b.ix := by split <;> rfl
theorem ite_conn (c : Prop) [Decidable c] (a b : Caller) : (if c then a else b).conn = if c then a.conn else b.conn := by split <;> rfl
theorem ite_val (c : Prop) [Decidable c] (a b : Caller) : (if c then a else b).val = if c then a.val else b.val := by split <;> rfl
theorem ite_txDropped (c : Prop) [Decidable c] (a b : Caller) :
    (if c then a else b).txDropped = if c then a.txDropped else b.txDropped := by split <;> rfl
theorem ite_rxAlive (c : Prop) [Decidable c] (a b : Caller) :
    (if c then a else b).rxAlive = if c then a.rxAlive else b.rxAlive := by split <;> rfl
theorem ite_out (c : Prop) [Decidable c] (a b : Caller) : (if c then a else b).out = if c then a.out else b.out := by split <;> rfl

/-! ### invariant 1: every entry of the table belongs to a call that is still running and carries that call's key -/

def EntryInv (s : St) : Prop :=
  ∀ k i, (k, i) ∈ s.pending → (s.callers i).key = k ∧ (s.callers i).pc.armed = true

theorem entry_init (a : Sh) (n : Nat) : EntryInv (St.init a n) := by
  intro k i h; simp [St.init] at h

theorem entry_step {s s' : St} {e : Step} (h : EntryInv s) (hs : step s e = some s') : EntryInv s' := by
  intro k j hm
  cases e <;> simp only [step] at hs <;> (repeat' split at hs) <;> (try cases hs) <;>
    simp only [upd_apply, St.setCaller, List.mem_cons, removeKey_pending, mem_eraseKey, Prod.mk.injEq, ite_pc, ite_key,
      removeKey_pc, removeKey_key] at hm ⊢
  all_goals (have := h k j; grind [Pc.armed, Pc.suspended, Pc.holdsLock])

/-! ### invariant 2: a finished call has exactly one outcome and keeps it -/

def DoneInv (s : St) : Prop := ∀ i, (s.callers i).pc = .done ↔ (s.callers i).out ≠ none

theorem done_init (a : Sh) (n : Nat) : DoneInv (St.init a n) := by
  intro i; simp [St.init]

theorem done_step {s s' : St} {e : Step} (h : DoneInv s) (hs : step s e = some s') : DoneInv s' := by
  intro j
  cases e <;> simp only [step] at hs <;> (repeat' split at hs) <;> (try cases hs) <;>
    simp only [upd_apply, St.setCaller, ite_pc, ite_out, removeKey_pc, removeKey_out]
  all_goals (have := h j; grind [Pc.suspended])

/-- the outcome of a call never changes once it is there -/
theorem out_step {s s' : St} {e : Step} (h : DoneInv s) (hs : step s e = some s') (j : Nat) (o : Outcome)
    (ho : (s.callers j).out = some o) : (s'.callers j).out = some o := by
  have hd : (s.callers j).pc = .done := (h j).mpr (by rw [ho]; simp)
  cases e <;> simp only [step] at hs <;> (repeat' split at hs) <;> (try cases hs) <;>
    simp only [upd_apply, St.setCaller, ite_pc, ite_out, removeKey_pc, removeKey_out]
  all_goals grind [Pc.suspended]

/-- a finished call takes no further step: its record stays as it is, except that nothing is left to change -/
theorem done_pc_step {s s' : St} {e : Step} (hs : step s e = some s') (j : Nat)
    (hd : (s.callers j).pc = .done) : (s'.callers j).pc = .done := by
  cases e <;> simp only [step] at hs <;> (repeat' split at hs) <;> (try cases hs) <;>
    simp only [upd_apply, St.setCaller, ite_pc, removeKey_pc]
  all_goals grind [Pc.suspended]

/-! ### invariant 3: whatever is in flight towards a call was addressed to that call's key -/

/-- message number `m` of the inbound log was addressed to the numbers `k` and carried `b` -/
def Addr (inbox : List Msg) (m : Nat) (k : Pid) (b : Nat) : Prop :=
  ∃ msg, inbox[m]? = some msg ∧ msg.pid = k ∧ msg.body = b

theorem Addr.mono {inbox : List Msg} {m : Nat} {k : Pid} {b : Nat} (x : Msg) (h : Addr inbox m k b) :
    Addr (inbox ++ [x]) m k b := by
  obtain ⟨msg, h1, h2, h3⟩ := h
  exact ⟨msg, getElem?_append_some _ _ _ _ h1, h2, h3⟩

structure AddrInv (s : St) : Prop where
  chan : ∀ i m b, (s.callers i).val = some (m, b) → Addr s.inbox m (s.callers i).key b
  hold : ∀ r i m b, s.recv r = .holding i m b → Addr s.inbox m (s.callers i).key b ∧ (s.callers i).pc ≠ .start
  route : ∀ r msg m, s.recv r = .routing msg m → s.inbox[m]? = some msg
  exit : ∀ i m b, (s.callers i).pc = .exiting (.reply m b) → Addr s.inbox m (s.callers i).key b
  out : ∀ i m b, (s.callers i).out = some (.reply m b) → Addr s.inbox m (s.callers i).key b
  fresh : ∀ i, (s.callers i).pc = .start → (s.callers i).val = none ∧ (s.callers i).out = none

theorem hold_of_lookup {s : St} (he : EntryInv s) {j m : Nat} {msg : Msg}
    (hl : lookupKey s.pending msg.pid = some j) (hin : s.inbox[m]? = some msg) :
    Addr s.inbox m (s.callers j).key msg.body ∧ (s.callers j).pc ≠ .start := by
  obtain ⟨hk, ha⟩ := he _ _ (lookupKey_some hl)
  refine ⟨⟨msg, hin, hk.symm, rfl⟩, ?_⟩
  intro hp; rw [hp] at ha; simp [Pc.armed] at ha

theorem addr_init (a : Sh) (n : Nat) : AddrInv (St.init a n) := by
  constructor <;> simp [St.init]

theorem addr_step_chan {s s' : St} {e : Step} (he : EntryInv s) (h : AddrInv s) (hs : step s e = some s') :
    ∀ i m b, (s'.callers i).val = some (m, b) → Addr s'.inbox m (s'.callers i).key b := by
  obtain ⟨h1, h2, h3, h4, h5, h6⟩ := h
  have hl := @hold_of_lookup s he
  intro j m b
  cases e <;> simp only [step] at hs <;> (repeat' split at hs) <;> (try cases hs) <;>
    simp only [upd_apply, St.setCaller, ite_pc, ite_out, ite_val, ite_key, removeKey_pc, removeKey_out, removeKey_val,
      removeKey_key, removeKey_inbox, removeKey_recv]
  all_goals (have := h1 j m b; have := h6 j; grind [Pc.suspended, Addr.mono])

theorem addr_step_hold {s s' : St} {e : Step} (he : EntryInv s) (h : AddrInv s) (hs : step s e = some s') :
    ∀ r i m b, s'.recv r = .holding i m b → Addr s'.inbox m (s'.callers i).key b ∧ (s'.callers i).pc ≠ .start := by
  obtain ⟨h1, h2, h3, h4, h5, h6⟩ := h
  have hl := @hold_of_lookup s he
  intro r j m b
  cases e <;> simp only [step] at hs <;> (repeat' split at hs) <;> (try cases hs) <;>
    simp only [upd_apply, St.setCaller, ite_pc, ite_out, ite_val, ite_key, removeKey_pc, removeKey_out, removeKey_val,
      removeKey_key, removeKey_inbox, removeKey_recv]
  all_goals (have := h2 r j m b; grind [Pc.suspended, Addr.mono])

theorem addr_step_route {s s' : St} {e : Step} (he : EntryInv s) (h : AddrInv s) (hs : step s e = some s') :
    ∀ r msg m, s'.recv r = .routing msg m → s'.inbox[m]? = some msg := by
  obtain ⟨h1, h2, h3, h4, h5, h6⟩ := h
  have hl := @hold_of_lookup s he
  intro r msg m
  cases e <;> simp only [step] at hs <;> (repeat' split at hs) <;> (try cases hs) <;>
    simp only [upd_apply, St.setCaller, ite_pc, ite_out, ite_val, ite_key, removeKey_pc, removeKey_out, removeKey_val,
      removeKey_key, removeKey_inbox, removeKey_recv]
  all_goals (have := h3 r msg m; grind [getElem?_append_some])

theorem addr_step_exit {s s' : St} {e : Step} (he : EntryInv s) (h : AddrInv s) (hs : step s e = some s') :
    ∀ i m b, (s'.callers i).pc = .exiting (.reply m b) → Addr s'.inbox m (s'.callers i).key b := by
  obtain ⟨h1, h2, h3, h4, h5, h6⟩ := h
  have hl := @hold_of_lookup s he
  intro j m b
  cases e <;> simp only [step] at hs <;> (repeat' split at hs) <;> (try cases hs) <;>
    simp only [upd_apply, St.setCaller, ite_pc, ite_out, ite_val, ite_key, removeKey_pc, removeKey_out, removeKey_val,
      removeKey_key, removeKey_inbox, removeKey_recv]
  all_goals (have := h4 j m b; have := h1 j m b; grind [Pc.suspended, Addr.mono])

theorem addr_step_out {s s' : St} {e : Step} (he : EntryInv s) (h : AddrInv s) (hs : step s e = some s') :
    ∀ i m b, (s'.callers i).out = some (.reply m b) → Addr s'.inbox m (s'.callers i).key b := by
  obtain ⟨h1, h2, h3, h4, h5, h6⟩ := h
  have hl := @hold_of_lookup s he
  intro j m b
  cases e <;> simp only [step] at hs <;> (repeat' split at hs) <;> (try cases hs) <;>
    simp only [upd_apply, St.setCaller, ite_pc, ite_out, ite_val, ite_key, removeKey_pc, removeKey_out, removeKey_val,
      removeKey_key, removeKey_inbox, removeKey_recv]
  all_goals (have := h5 j m b; have := h4 j m b; have := h6 j; grind [Pc.suspended, Addr.mono])

theorem addr_step_fresh {s s' : St} {e : Step} (he : EntryInv s) (h : AddrInv s) (hs : step s e = some s') :
    ∀ i, (s'.callers i).pc = .start → (s'.callers i).val = none ∧ (s'.callers i).out = none := by
  obtain ⟨h1, h2, h3, h4, h5, h6⟩ := h
  have hl := @hold_of_lookup s he
  intro j
  cases e <;> simp only [step] at hs <;> (repeat' split at hs) <;> (try cases hs) <;>
    simp only [upd_apply, St.setCaller, ite_pc, ite_out, ite_val, ite_key, removeKey_pc, removeKey_out, removeKey_val,
      removeKey_key, removeKey_inbox, removeKey_recv]
  all_goals (have := h6 j; have := h2; grind [Pc.suspended])

theorem addr_step {s s' : St} {e : Step} (he : EntryInv s) (h : AddrInv s) (hs : step s e = some s') : AddrInv s' :=
  ⟨addr_step_chan he h hs, addr_step_hold he h hs, addr_step_route he h hs, addr_step_exit he h hs,
   addr_step_out he h hs, addr_step_fresh he h hs⟩

/-! ### invariant 4: reply pids are the results of distinct allocations of the node's allocator

`Node::start` changes the creation the allocator stamps on new pids (`set_creation`) and nothing else, so the allocator
of the node is, up to that field, the `n`-th state of the row of sequential allocations from its first state, and the
`(id, serial)` of every pid it has issued is the `(id, serial)` of the corresponding element of that row. -/

/-- the allocator state without the creation -/
def core (a : Sh) : Sh := { a with creation := 0 }

@[simp] theorem core_setCreation (a : Sh) (c : Nat) : core (a.setCreation c) = core a := rfl

/-- `r` is a successful allocation with the `(id, serial)` of `k` -/
def SameKey (r : Res) (k : Pid) : Prop := ∃ p, r = .ok p ∧ p.id = k.id ∧ p.serial = k.serial

/-- `allocate` does not look at the creation except to stamp it on the result -/
theorem alloc_congr (a b : Sh) (h : core a = core b) :
    core (alloc a).2 = core (alloc b).2 ∧ ∀ p, (alloc a).1 = .ok p → SameKey (alloc b).1 p := by
  rcases a with ⟨ai, as, ac, ap⟩
  rcases b with ⟨bi, bs, bc, bp⟩
  simp [core] at h
  obtain ⟨rfl, rfl, rfl⟩ := h
  unfold alloc SameKey
  simp only [core]
  constructor
  · (repeat' split) <;> simp_all
  · intro p
    (repeat' split) <;> simp_all
    all_goals (intro h; subst h; simp)

structure AllocInv (a0 : Sh) (s : St) : Prop where
  st : core s.alloc = core (seqState a0 s.nalloc)
  ix : ∀ i, (s.callers i).pc ≠ .start → (s.callers i).ix < s.nalloc ∧
        (SameKey (seqAlloc a0 (s.callers i).ix) (s.callers i).key ∨ (s.callers i).out = some .allocFail)
  inj : ∀ i j, (s.callers i).pc ≠ .start → (s.callers j).pc ≠ .start → (s.callers i).ix = (s.callers j).ix → i = j
  procs : ∀ p, p ∈ s.procs → ∃ n, n < s.nalloc ∧ SameKey (seqAlloc a0 n) p ∧
        ∀ i, (s.callers i).pc ≠ .start → (s.callers i).ix ≠ n

theorem alloc_init (a : Sh) (n : Nat) : AllocInv a (St.init a n) := by
  constructor <;> simp [St.init, seqState]

theorem seqState_succ (a0 : Sh) (n : Nat) : seqState a0 (n + 1) = (alloc (seqState a0 n)).2 := rfl
theorem seqAlloc_def (a0 : Sh) (n : Nat) : seqAlloc a0 n = (alloc (seqState a0 n)).1 := rfl

theorem alloc_step_st {a0 : Sh} {s s' : St} {e : Step} (h : AllocInv a0 s) (hs : step s e = some s') :
    core s'.alloc = core (seqState a0 s'.nalloc) := by
  obtain ⟨h1, h2, h3, h4⟩ := h
  have hc := (alloc_congr s.alloc (seqState a0 s.nalloc) h1).1
  cases e <;> simp only [step] at hs <;> (repeat' split at hs) <;> (try cases hs) <;>
    simp only [St.setCaller, removeKey_alloc, removeKey_nalloc, seqState_succ, core_setCreation]
  all_goals grind


theorem alloc_step_ix {a0 : Sh} {s s' : St} {e : Step} (hd : DoneInv s) (h : AllocInv a0 s) (hs : step s e = some s') :
    ∀ i, (s'.callers i).pc ≠ .start → (s'.callers i).ix < s'.nalloc ∧
        (SameKey (seqAlloc a0 (s'.callers i).ix) (s'.callers i).key ∨ (s'.callers i).out = some .allocFail) := by
  obtain ⟨h1, h2, h3, h4⟩ := h
  have hc := (alloc_congr s.alloc (seqState a0 s.nalloc) h1).2
  intro j
  cases e <;> simp only [step] at hs <;> (repeat' split at hs) <;> (try cases hs) <;>
    simp only [upd_apply, St.setCaller, ite_pc, ite_out, ite_ix, ite_key, removeKey_pc, removeKey_out, removeKey_ix,
      removeKey_key, removeKey_nalloc, removeKey_procs, removeKey_alloc]
  all_goals (have := h2 j; have := hd j; grind [Pc.suspended, seqAlloc_def])

theorem alloc_step_inj {a0 : Sh} {s s' : St} {e : Step} (h : AllocInv a0 s) (hs : step s e = some s') :
    ∀ i j, (s'.callers i).pc ≠ .start → (s'.callers j).pc ≠ .start → (s'.callers i).ix = (s'.callers j).ix → i = j := by
  obtain ⟨h1, h2, h3, h4⟩ := h
  intro i j
  cases e <;> simp only [step] at hs <;> (repeat' split at hs) <;> (try cases hs) <;>
    simp only [upd_apply, St.setCaller, ite_pc, ite_out, ite_ix, ite_key, removeKey_pc, removeKey_out, removeKey_ix,
      removeKey_key, removeKey_nalloc, removeKey_procs, removeKey_alloc]
  all_goals (have := h3 i j; have := h2 i; have := h2 j; grind [Pc.suspended])

theorem alloc_step_procs {a0 : Sh} {s s' : St} {e : Step} (h : AllocInv a0 s) (hs : step s e = some s') :
    ∀ p, p ∈ s'.procs → ∃ n, n < s'.nalloc ∧ SameKey (seqAlloc a0 n) p ∧
        ∀ i, (s'.callers i).pc ≠ .start → (s'.callers i).ix ≠ n := by
  obtain ⟨h1, h2, h3, h4⟩ := h
  have hc := (alloc_congr s.alloc (seqState a0 s.nalloc) h1).2
  intro p hp
  have key : ∀ q, q ∈ s.procs → ∃ n, n < s.nalloc + 1 ∧ SameKey (seqAlloc a0 n) q ∧
      ∀ i, (s.callers i).pc ≠ .start → (s.callers i).ix ≠ n := by
    intro q hq; obtain ⟨n, hn1, hn2, hn3⟩ := h4 q hq; exact ⟨n, by omega, hn2, hn3⟩
  cases e with
  | spawnProc =>
    simp only [step] at hs
    split at hs <;> cases hs
    · rename_i q a' heq
      rcases List.mem_cons.mp hp with rfl | hp
      · refine ⟨s.nalloc, Nat.lt_succ_self _, ?_, ?_⟩
        · rw [seqAlloc_def]; exact hc p (by rw [heq])
        · intro i hi; have := (h2 i hi).1; exact Nat.ne_of_lt this
      · exact key p hp
    · exact key p hp
  | procExit q =>
    simp only [step] at hs; cases hs
    exact h4 p (List.mem_filter.mp hp).1
  | _ =>
    simp only [step] at hs <;> (repeat' split at hs) <;> (try cases hs) <;> (try contradiction) <;>
      simp only [upd_apply, St.setCaller, ite_pc, ite_out, ite_ix, ite_key, removeKey_pc, removeKey_out, removeKey_ix,
        removeKey_key, removeKey_nalloc, removeKey_procs, removeKey_alloc] at hp ⊢
    all_goals (first | (obtain ⟨n, hn1, hn2, hn3⟩ := h4 p hp; exact ⟨n, by omega, hn2, by grind [Pc.suspended]⟩) | grind)

theorem alloc_step {a0 : Sh} {s s' : St} {e : Step} (hd : DoneInv s) (h : AllocInv a0 s) (hs : step s e = some s') :
    AllocInv a0 s' :=
  ⟨alloc_step_st h hs, alloc_step_ix hd h hs, alloc_step_inj h hs, alloc_step_procs h hs⟩

/-! ### invariant 5: the connection mutex -/

structure LockInv (s : St) : Prop where
  holder : ∀ i, (s.callers i).pc.holdsLock = true → s.lock (s.callers i).conn = some i
  held : ∀ c i, s.lock c = some i → (s.callers i).pc.holdsLock = true ∧ (s.callers i).conn = c

theorem lock_init (a : Sh) (n : Nat) : LockInv (St.init a n) := by
  constructor <;> simp [St.init, Pc.holdsLock]

theorem lock_step_holder {s s' : St} {e : Step} (h : LockInv s) (hs : step s e = some s') :
    ∀ i, (s'.callers i).pc.holdsLock = true → s'.lock (s'.callers i).conn = some i := by
  obtain ⟨h1, h2⟩ := h
  intro j
  cases e <;> simp only [step] at hs <;> (repeat' split at hs) <;> (try cases hs) <;> (try contradiction) <;>
    simp only [upd_apply, St.setCaller, ite_pc, ite_conn, removeKey_pc, removeKey_conn, removeKey_lock]
  all_goals (have := h1 j; grind [Pc.suspended, Pc.holdsLock])

theorem lock_step_held {s s' : St} {e : Step} (h : LockInv s) (hs : step s e = some s') :
    ∀ c i, s'.lock c = some i → (s'.callers i).pc.holdsLock = true ∧ (s'.callers i).conn = c := by
  obtain ⟨h1, h2⟩ := h
  intro c j
  cases e <;> simp only [step] at hs <;> (repeat' split at hs) <;> (try cases hs) <;> (try contradiction) <;>
    simp only [upd_apply, St.setCaller, ite_pc, ite_conn, removeKey_pc, removeKey_conn, removeKey_lock]
  all_goals (have := h2 c j; grind [Pc.suspended, Pc.holdsLock])

theorem lock_step {s s' : St} {e : Step} (h : LockInv s) (hs : step s e = some s') : LockInv s' :=
  ⟨lock_step_holder h hs, lock_step_held h hs⟩

/-! ### reply pids of different calls differ while the allocator has not gone round -/

theorem nalloc_step {s s' : St} {e : Step} (hs : step s e = some s') : s.nalloc ≤ s'.nalloc := by
  cases e <;> simp only [step] at hs <;> (repeat' split at hs) <;> (try cases hs) <;> (try contradiction) <;>
    simp only [St.setCaller, removeKey_nalloc]
  all_goals omega

theorem keys_distinct {a0 : Sh} {s : St} (h : AllocInv a0 s) (hb : s.nalloc ≤ MAXP * U32) {i j : Nat}
    (hi : (s.callers i).pc ≠ .start) (hj : (s.callers j).pc ≠ .start)
    (hoi : (s.callers i).out ≠ some .allocFail) (hoj : (s.callers j).out ≠ some .allocFail)
    (hk : ((s.callers i).key.id, (s.callers i).key.serial) = ((s.callers j).key.id, (s.callers j).key.serial)) : i = j := by
  obtain ⟨li, hai⟩ := h.ix i hi
  obtain ⟨lj, haj⟩ := h.ix j hj
  obtain ⟨p, hp, hp1, hp2⟩ : SameKey (seqAlloc a0 (s.callers i).ix) (s.callers i).key := by
    rcases hai with h' | h'
    · exact h'
    · exact absurd h' hoi
  obtain ⟨q, hq, hq1, hq2⟩ : SameKey (seqAlloc a0 (s.callers j).ix) (s.callers j).key := by
    rcases haj with h' | h'
    · exact h'
    · exact absurd h' hoj
  have hk' : (p.id, p.serial) = (q.id, q.serial) := by rw [hp1, hp2, hq1, hq2]; exact hk
  rcases Nat.lt_trichotomy (s.callers i).ix (s.callers j).ix with hlt | heq | hgt
  · exact absurd hk' (PidAlloc.seqAlloc_key_ne_any a0 _ _ hlt (by omega) _ _ hp hq)
  · exact h.inj i j hi hj heq
  · exact absurd hk'.symm (PidAlloc.seqAlloc_key_ne_any a0 _ _ hgt (by omega) _ _ hq hp)

/-- while the allocator has not gone round, the only call an entry under call `i`'s key can belong to is `i` -/
theorem entry_owner {a0 : Sh} {s : St} (he : EntryInv s) (hd : DoneInv s) (ha : AllocInv a0 s)
    (hb : s.nalloc ≤ MAXP * U32) {i j : Nat} (hi : (s.callers i).pc ≠ .start) (hid : (s.callers i).pc ≠ .done)
    (hm : ((s.callers i).key, j) ∈ s.pending) : j = i := by
  have hoi : (s.callers i).out ≠ some .allocFail := by
    intro h
    exact hid ((hd i).mpr (by rw [h]; simp))
  obtain ⟨hk, harm⟩ := he _ _ hm
  have hj : (s.callers j).pc ≠ .start := by intro h; rw [h] at harm; simp [Pc.armed] at harm
  have hjd : (s.callers j).pc ≠ .done := by intro h; rw [h] at harm; simp [Pc.armed] at harm
  have hoj : (s.callers j).out ≠ some .allocFail := by
    intro h
    exact hjd ((hd j).mpr (by rw [h]; simp))
  exact keys_distinct ha hb hj hi hoj hoi (by rw [hk])

/-! ### invariant 6 (while the allocator has not gone round): a sender is dropped only by its own call on its way out -/

def Pc.over : Pc → Bool
  | .exiting _ | .done => true
  | _ => false

structure TxInv (s : St) : Prop where
  tx : ∀ i, (s.callers i).txDropped = true → (s.callers i).pc.over = true
  nc : ∀ i, (s.callers i).pc ≠ .exiting .cancelled ∧ (s.callers i).out ≠ some .cancelled

theorem tx_init (a : Sh) (n : Nat) : TxInv (St.init a n) := by
  constructor <;> simp [St.init]

theorem removeKey_callers_lock (s : St) (l : Nat → Option Nat) (k : Pid) :
    ({ s with lock := l }.removeKey k).callers = (s.removeKey k).callers := rfl

theorem Pc.suspended_ne {pc : Pc} (h : pc.suspended = true) : pc ≠ .start ∧ pc ≠ .done := by
  cases pc <;> simp [Pc.suspended] at h ⊢

theorem tx_step_tx {a0 : Sh} {s s' : St} {e : Step} (hb : s.nalloc ≤ MAXP * U32) (he : EntryInv s) (hd : DoneInv s)
    (ha : AllocInv a0 s) (h : TxInv s) (hs : step s e = some s') :
    ∀ i, (s'.callers i).txDropped = true → (s'.callers i).pc.over = true := by
  obtain ⟨h1, h2⟩ := h
  have ho := fun i j => @entry_owner a0 s he hd ha hb i j
  have hr := removeKey_txDropped s
  have he' : ∀ k i, (k, i) ∈ s.pending → (s.callers i).key = k ∧ (s.callers i).pc.armed = true := he
  have hsus : ∀ i, (s.callers i).pc.suspended = true → (s.callers i).pc ≠ .start ∧ (s.callers i).pc ≠ .done :=
    fun i => Pc.suspended_ne
  intro j
  cases e <;> simp only [step] at hs <;> (repeat' split at hs) <;> (try cases hs) <;> (try contradiction) <;>
    simp only [upd_apply, St.setCaller, ite_pc, ite_txDropped, removeKey_pc, removeKey_callers_lock]
  all_goals (have := h1 j; grind [Pc.suspended, Pc.over, Pc.armed, Pc.holdsLock])


theorem tx_step_nc {s s' : St} {e : Step} (h : TxInv s) (hs : step s e = some s') :
    ∀ i, (s'.callers i).pc ≠ .exiting .cancelled ∧ (s'.callers i).out ≠ some .cancelled := by
  obtain ⟨h1, h2⟩ := h
  intro j
  cases e <;> simp only [step] at hs <;> (repeat' split at hs) <;> (try cases hs) <;> (try contradiction) <;>
    simp only [upd_apply, St.setCaller, ite_pc, ite_out, removeKey_pc, removeKey_out]
  all_goals (have := h1 j; have := h2 j; grind [Pc.suspended, Pc.over])

theorem tx_step {a0 : Sh} {s s' : St} {e : Step} (hb : s.nalloc ≤ MAXP * U32) (he : EntryInv s) (hd : DoneInv s)
    (ha : AllocInv a0 s) (h : TxInv s) (hs : step s e = some s') : TxInv s' :=
  ⟨tx_step_tx hb he hd ha h hs, tx_step_nc h hs⟩

/-! ### all invariants together, along runs -/

structure Inv (a0 : Sh) (s : St) : Prop where
  entry : EntryInv s
  done : DoneInv s
  addr : AddrInv s
  alloc : AllocInv a0 s
  lock : LockInv s

theorem inv_init (a : Sh) (n : Nat) : Inv a (St.init a n) :=
  ⟨entry_init a n, done_init a n, addr_init a n, alloc_init a n, lock_init a n⟩

theorem inv_step {a0 : Sh} {s s' : St} {e : Step} (h : Inv a0 s) (hs : step s e = some s') : Inv a0 s' :=
  ⟨entry_step h.entry hs, done_step h.done hs, addr_step h.entry h.addr hs, alloc_step h.done h.alloc hs,
   lock_step h.lock hs⟩

theorem run_cons (s : St) (e : Step) (σ : List Step) : run s (e :: σ) = run ((step s e).getD s) σ := rfl

theorem run_append (s : St) (σ τ : List Step) : run s (σ ++ τ) = run (run s σ) τ := by
  simp [run, List.foldl_append]

/-- induction principle: a property that holds initially and is kept by every enabled step holds after every run -/
theorem run_induct {P : St → Prop} (σ : List Step) : ∀ (s : St), P s → (∀ s s' e, P s → step s e = some s' → P s') →
    P (run s σ) := by
  induction σ with
  | nil => intro s h _; exact h
  | cons e σ ih =>
    intro s h hstep
    rw [run_cons]
    cases hs : step s e with
    | none => exact ih s h hstep
    | some s' => exact ih s' (hstep s s' e h hs) hstep

theorem inv_run {a0 : Sh} (σ : List Step) {s : St} (h : Inv a0 s) : Inv a0 (run s σ) :=
  run_induct (P := Inv a0) σ s h (fun _ _ _ h hs => inv_step h hs)

theorem nalloc_run (σ : List Step) (s : St) : s.nalloc ≤ (run s σ).nalloc := by
  induction σ generalizing s with
  | nil => exact Nat.le_refl _
  | cons e σ ih =>
    rw [run_cons]
    cases hs : step s e with
    | none => exact ih s
    | some s' => exact Nat.le_trans (nalloc_step hs) (ih s')

/-- the sender discipline holds along every run that ends before the allocator has gone round -/
theorem tx_run {a0 : Sh} (σ : List Step) : ∀ {s : St}, Inv a0 s → TxInv s → (run s σ).nalloc ≤ MAXP * U32 →
    TxInv (run s σ) := by
  induction σ with
  | nil => intro s _ h _; exact h
  | cons e σ ih =>
    intro s hi h hb
    rw [run_cons] at hb ⊢
    cases hs : step s e with
    | none => rw [hs] at hb; exact ih hi h hb
    | some s' =>
      rw [hs] at hb
      have hb' : s.nalloc ≤ MAXP * U32 :=
        Nat.le_trans (Nat.le_trans (nalloc_step hs) (nalloc_run σ s')) hb
      exact ih (inv_step hi hs) (tx_step hb' hi.entry hi.done hi.alloc h hs) hb

theorem out_run {a0 : Sh} (σ : List Step) : ∀ {s : St}, Inv a0 s → ∀ (j : Nat) (o : Outcome),
    (s.callers j).out = some o → ((run s σ).callers j).out = some o := by
  induction σ with
  | nil => intro s _ j o h; exact h
  | cons e σ ih =>
    intro s hi j o h
    rw [run_cons]
    cases hs : step s e with
    | none => exact ih hi j o h
    | some s' => exact ih (inv_step hi hs) j o (out_step hi.done hs j o h)

theorem key_step {s s' : St} {e : Step} (hs : step s e = some s') (j : Nat) (hj : (s.callers j).pc ≠ .start) :
    (s'.callers j).key = (s.callers j).key := by
  cases e <;> simp only [step] at hs <;> (repeat' split at hs) <;> (try cases hs) <;> (try contradiction) <;>
    simp only [upd_apply, St.setCaller, ite_key, removeKey_key]
  all_goals grind

theorem started_step {s s' : St} {e : Step} (hs : step s e = some s') (j : Nat) (hj : (s.callers j).pc ≠ .start) :
    (s'.callers j).pc ≠ .start := by
  cases e <;> simp only [step] at hs <;> (repeat' split at hs) <;> (try cases hs) <;> (try contradiction) <;>
    simp only [upd_apply, St.setCaller, ite_pc, removeKey_pc]
  all_goals grind

theorem key_run (σ : List Step) : ∀ (s : St) (j : Nat), (s.callers j).pc ≠ .start →
    ((run s σ).callers j).key = (s.callers j).key ∧ ((run s σ).callers j).pc ≠ .start := by
  induction σ with
  | nil => intro s j h; exact ⟨rfl, h⟩
  | cons e σ ih =>
    intro s j h
    rw [run_cons]
    cases hs : step s e with
    | none => exact ih s j h
    | some s' =>
      obtain ⟨h1, h2⟩ := ih s' j (started_step hs j h)
      exact ⟨h1.trans (key_step hs j h), h2⟩

theorem inbox_step {s s' : St} {e : Step} (hs : step s e = some s') : ∃ l, s'.inbox = s.inbox ++ l := by
  cases e <;> simp only [step] at hs <;> (repeat' split at hs) <;> (try cases hs) <;> (try contradiction) <;>
    simp only [St.setCaller, removeKey_inbox]
  all_goals first | exact ⟨[], (List.append_nil _).symm⟩ | exact ⟨_, rfl⟩

theorem inbox_run (σ : List Step) : ∀ (s : St), ∃ l, (run s σ).inbox = s.inbox ++ l := by
  induction σ with
  | nil => intro s; exact ⟨[], by simp [run]⟩
  | cons e σ ih =>
    intro s
    rw [run_cons]
    cases hs : step s e with
    | none => exact ih s
    | some s' =>
      obtain ⟨l1, h1⟩ := inbox_step hs
      obtain ⟨l2, h2⟩ := ih s'
      exact ⟨l1 ++ l2, by simp [h2, h1, List.append_assoc]⟩

/-! ### invariant 7: a call that has no result yet still has the receiving half of its channel -/

def Pc.beforeResult : Pc → Bool
  | .start | .allocated | .inserted | .found | .locked | .sent | .waiting => true
  | _ => false

def RxInv (s : St) : Prop := ∀ i, (s.callers i).pc.beforeResult = true → (s.callers i).rxAlive = true

theorem rx_init (a : Sh) (n : Nat) : RxInv (St.init a n) := by intro i _; simp [St.init]

theorem rx_step {s s' : St} {e : Step} (h : RxInv s) (hs : step s e = some s') : RxInv s' := by
  intro j
  cases e <;> simp only [step] at hs <;> (repeat' split at hs) <;> (try cases hs) <;> (try contradiction) <;>
    simp only [upd_apply, St.setCaller, ite_pc, ite_rxAlive, removeKey_pc, removeKey_rxAlive]
  all_goals (have := h j; grind [Pc.suspended, Pc.beforeResult])

theorem rx_run (σ : List Step) {s : St} (h : RxInv s) : RxInv (run s σ) :=
  run_induct (P := RxInv) σ s h (fun _ _ _ h hs => rx_step h hs)

theorem lookupKey_of_mem {p : List (Pid × Nat)} {k : Pid} {i : Nat} (hm : (k, i) ∈ p)
    (hu : ∀ j, (k, j) ∈ p → j = i) : lookupKey p k = some i := by
  cases h : lookupKey p k with
  | none => exact absurd hm (lookupKey_none h i)
  | some j => rw [hu j (lookupKey_some h)]

/-- The reply arrives: a call that is waiting with its entry in the table, a message addressed to its key given to an
idle receiver; the receiver's three steps and the call's two give the call exactly that message. -/
theorem reply_delivered {a0 : Sh} {s : St} (hv : Inv a0 s) (hrx : RxInv s) (hb : s.nalloc ≤ MAXP * U32)
    (i r : Nat) (msg : Msg) (hw : (s.callers i).pc = .waiting) (hm : ((s.callers i).key, i) ∈ s.pending)
    (hr : s.recv r = .idle) (hto : msg.pid = (s.callers i).key)
    (hnp : ¬(msg.node = s.localNode ∧ msg.pid ∈ s.procs)) :
    ((run s [.rStart r msg, .rRemove r, .rSend r, .recvReply i, .finish i]).callers i).out =
      some (.reply s.inbox.length msg.body) := by
  have hl : lookupKey s.pending msg.pid = some i := by
    rw [hto]
    refine lookupKey_of_mem hm (fun j hj => ?_)
    exact entry_owner hv.entry hv.done hv.alloc hb (by rw [hw]; simp) (by rw [hw]; simp) hj
  have hal : (s.callers i).rxAlive = true := hrx i (by rw [hw]; rfl)
  simp [run, step, hr, hnp, hl, hw, hal, upd, St.setCaller]


/-! ### the text of a key determines the key -/

theorem dot_not_digit (n : Nat) : '.' ∉ Nat.toDigits 10 n := by
  intro h
  have := Nat.isDigit_of_mem_toDigits (by decide) (by decide) h
  simp [Char.isDigit] at this

theorem split_at_dot : ∀ (l1 l2 r1 r2 : List Char), '.' ∉ l1 → '.' ∉ l2 → l1 ++ '.' :: r1 = l2 ++ '.' :: r2 →
    l1 = l2 ∧ r1 = r2 := by
  intro l1
  induction l1 with
  | nil =>
    intro l2 r1 r2 _ h2 h
    cases l2 with
    | nil => simp at h; exact ⟨rfl, h⟩
    | cons c l2 =>
      simp at h
      exact absurd (h.1 ▸ List.mem_cons_self) h2
  | cons c l1 ih =>
    intro l2 r1 r2 h1 h2 h
    cases l2 with
    | nil =>
      simp at h
      exact absurd (h.1 ▸ List.mem_cons_self) h1
    | cons d l2 =>
      simp at h
      obtain ⟨hcd, hrest⟩ := h
      have := ih l2 r1 r2 (fun hm => h1 (List.mem_cons_of_mem _ hm)) (fun hm => h2 (List.mem_cons_of_mem _ hm)) hrest
      exact ⟨by rw [hcd, this.1], this.2⟩

theorem toDigits_inj {a b : Nat} (h : Nat.toDigits 10 a = Nat.toDigits 10 b) : a = b := by
  have ha := @Nat.ofDigitChars_ten_toDigits a
  have hb := @Nat.ofDigitChars_ten_toDigits b
  rw [h] at ha; rw [← ha, hb]

theorem keyChars_inj {p q : Pid} (h : keyChars p = keyChars q) : p = q := by
  unfold keyChars at h
  obtain ⟨h1, h2⟩ := split_at_dot _ _ _ _ (dot_not_digit _) (dot_not_digit _) h
  obtain ⟨h3, h4⟩ := split_at_dot _ _ _ _ (dot_not_digit _) (dot_not_digit _) h2
  cases p; cases q
  simp only at h1 h3 h4
  rw [toDigits_inj h1, toDigits_inj h3, toDigits_inj h4]

theorem keyText_inj {p q : Pid} (h : keyText p = keyText q) : p = q := by
  apply keyChars_inj
  have := congrArg String.toList h
  simpa [keyText] using this


/-! ### frame: a step of one call leaves the program counters of the others alone -/

/-- steps labelled with other calls leave a call's program counter alone -/
def Step.caller? : Step → Option Nat
  | .begin i | .insert i | .lookup i _ | .lock i | .send i _ | .unlock i | .recvReply i | .recvClosed i | .timeout i
  | .timeoutRemove i | .finish i | .drop i => some i
  | _ => none

theorem pc_frame {s s' : St} {e : Step} (hs : step s e = some s') (i : Nat) (h : Step.caller? e ≠ some i) :
    (s'.callers i).pc = (s.callers i).pc := by
  cases e <;> simp only [step] at hs <;> (repeat' split at hs) <;> (try cases hs) <;> (try contradiction) <;>
    simp only [upd_apply, St.setCaller, ite_pc, removeKey_pc, Step.caller?] at h ⊢
  all_goals grind

theorem pc_frame_run (σ : List Step) : ∀ (s : St) (i : Nat), (∀ e ∈ σ, Step.caller? e ≠ some i) →
    ((run s σ).callers i).pc = (s.callers i).pc := by
  induction σ with
  | nil => intro s i _; rfl
  | cons e σ ih =>
    intro s i h
    rw [run_cons]
    cases hs : step s e with
    | none => exact ih s i (fun e' he' => h e' (List.mem_cons_of_mem _ he'))
    | some s' =>
      rw [Option.getD_some, ih s' i (fun e' he' => h e' (List.mem_cons_of_mem _ he'))]
      exact pc_frame hs i (h e List.mem_cons_self)


end Edp.Impl.Rpc
