/-!
Oracle for C17, written from the property statement (not from the code, and independent of `Impl/Rpc.lean`):
given what the scripted peer did with each call's request, which results may the call return, and what must be true
when all calls are over.

The harness tags every reply: the replies the peer addresses to call `i` carry `10*i + d` (`d = 0` the reply, `1` an
immediate duplicate, `2` a copy sent only after the call was seen to be over, `5` the body sent to a pid nobody has).
Messages to the local test process carry tags from `900001`.
-/
namespace Edp.Spec.Rpc

/-- what the peer does with the request of one call -/
inductive Kind
  | reply        -- `R`  answers once
  | dup          -- `D`  answers twice in a row
  | dupLate      -- `E`  answers, and once more after the call is over
  | never        -- `N`  never answers
  | late         -- `L`  answers only after the call is over
  | unknown      -- `U_` answers to a pid that no call has
  | race         -- `X`  answers about when the call's timer fires
  | noConn       -- `C`  the call names a node there is no connection to
  | sendErr      -- `S`  the connection object was closed locally before the call
  | afterClose   -- `A`  the peer closed the socket before the call / `K` while the call was about to write
  | dropped      -- `P_`, `W` the owner drops the call future
  | foreign      -- `F`  answers to the call's numbers under a foreign node name (tag 6); delivery is not judged
deriving DecidableEq, Repr

/-- what a call returned -/
inductive Out
  | reply (tag : Nat)
  | garbage      -- `Ok` with something that is not one of the harness's replies
  | timeout | cancelled | noConn | sendErr | dropped | other
deriving DecidableEq, Repr

def Kind.ofCode (s : String) : Option Kind :=
  if s == "R" then some .reply else if s == "D" then some .dup else if s == "E" then some .dupLate
  else if s == "N" then some .never else if s == "L" then some .late else if s.startsWith "U" then some .unknown
  else if s == "X" then some .race else if s == "C" then some .noConn else if s == "S" then some .sendErr
  else if s == "F" then some .foreign else if s == "A" || s == "K" then some .afterClose else if s.startsWith "P" || s == "W" then some .dropped
  else none

def Out.ofText (s : String) : Out :=
  if s == "timeout" then .timeout else if s == "cancelled" then .cancelled else if s == "noconn" then .noConn
  else if s == "senderr" then .sendErr else if s == "dropped" then .dropped
  else if s.startsWith "reply:" then
    match (s.drop 6).toString.toNat? with
    | some n => .reply n
    | none => .garbage
  else .other

/-- "each call returns the reply addressed to it and only that one, or a timeout, cancellation or connection error":
the results call `i` may return, given what the peer did -/
def admissible (i : Nat) : Kind → Out → Bool
  | .reply, .reply t => t == 10 * i
  | .dup, .reply t => t == 10 * i || t == 10 * i + 1
  | .dupLate, .reply t => t == 10 * i            -- the late copy exists only after the call is over
  | .never, .timeout => true
  | .late, .timeout => true                      -- the only answer is sent after the call is over
  | .unknown, .timeout => true                   -- the answer is addressed to somebody else's numbers
  | .race, .timeout => true
  | .race, .reply t => t == 10 * i
  | .noConn, .noConn => true
  | .sendErr, .sendErr => true
  | .afterClose, .noConn => true
  | .afterClose, .sendErr => true
  | .afterClose, .timeout => true                -- the write went into the socket buffer before the reset was seen
  | .dropped, .dropped => true
  | .foreign, .timeout => true
  | .foreign, .reply t => t == 10 * i + 6
  | _, _ => false

def replyTags : List Out → List Nat
  | [] => []
  | .reply t :: r => t :: replyTags r
  | _ :: r => replyTags r

/-- the whole judgement of one scenario; `fin` = size of the outstanding-call table after all calls are over;
`procSent`/`procGot` = tags sent to / received by the local process -/
def judge (kinds : List Kind) (outs : List Out) (fin : Nat) (procSent procGot : List Nat) : Option String :=
  if kinds.length ≠ outs.length then some "FAIL arity"
  else
    let bad := (List.range kinds.length).filter fun i =>
      match kinds[i]?, outs[i]? with
      | some k, some o => !admissible i k o
      | _, _ => true
    if let i :: _ := bad then some s!"FAIL call {i} returned a result it must not return"
    else if ¬ (replyTags outs).Nodup then some "FAIL one reply returned to two calls"
    else if fin ≠ 0 then some s!"FAIL {fin} entries left in the outstanding-call table after every call was over"
    else if procGot ≠ procSent then some "FAIL the local process did not get exactly its messages"
    else none

end Edp.Spec.Rpc
