import EdpVerif.Lemmas.DistHeader
import EdpVerif.Lemmas.RoundTrip
import EdpVerif.Lemmas.SpecValid
/-
C14, the part after the header: the terms of a header-mode message (every atom a reference into the header), read
by the independent reader and by the library's own decoder.  Built on the cache-generic codec lemmas of C01
(`spec_enc`, `dec_enc`).
-/
namespace Edp.DistHeader
open Edp Edp.Spec.DistHeader

/-! ### the atoms `collect_atoms` finds are atoms of the term (so: valid UTF-8 when the term is well formed) -/

mutual
theorem atoms_valid (t : Term) (hw : wfT t = true) : ∀ a ∈ atomsOf t, validUtf8 a = true := by
  match t with
  | .atom a => intro b hb; simp only [atomsOf, List.mem_singleton] at hb; subst hb; simpa [wfT] using hw
  | .int _ => intro b hb; simp [atomsOf] at hb
  | .float _ => intro b hb; simp [atomsOf] at hb
  | .bin _ => intro b hb; simp [atomsOf] at hb
  | .str _ => intro b hb; simp [atomsOf] at hb
  | .bits _ _ => intro b hb; simp [atomsOf] at hb
  | .big _ _ => intro b hb; simp [atomsOf] at hb
  | .nil => intro b hb; simp [atomsOf] at hb
  | .pid p =>
    intro b hb; simp only [atomsOf, List.mem_singleton] at hb; subst hb
    simp only [wfT, wfPid, Bool.and_eq_true] at hw; exact hw.1.1.1.1
  | .port n _ _ _ =>
    intro b hb; simp only [atomsOf, List.mem_singleton] at hb; subst hb
    simp only [wfT, Bool.and_eq_true] at hw; exact hw.1.1.1
  | .ref n _ _ _ =>
    intro b hb; simp only [atomsOf, List.mem_singleton] at hb; subst hb
    simp only [wfT, Bool.and_eq_true] at hw; exact hw.1.1.1
  | .xfun m f _ =>
    intro b hb; simp only [atomsOf, List.mem_cons, List.not_mem_nil, or_false] at hb
    simp only [wfT, Bool.and_eq_true] at hw
    rcases hb with rfl | rfl
    · exact hw.1.1
    · exact hw.1.2
  | .tuple l => simp only [wfT, Bool.and_eq_true] at hw; simpa [atomsOf] using atomsL_valid l hw.2
  | .list l => simp only [wfT, Bool.and_eq_true] at hw; simpa [atomsOf] using atomsL_valid l hw.2
  | .ilist l tl =>
    simp only [wfT, Bool.and_eq_true] at hw
    intro b hb; simp only [atomsOf, List.mem_append] at hb
    rcases hb with hb | hb
    · exact atomsL_valid l hw.1.2 b hb
    · exact atoms_valid tl hw.2 b hb
  | .map kvs => simp only [wfT, Bool.and_eq_true] at hw; simpa [atomsOf] using atomsKV_valid kvs hw.2
  | .ifun a u i nf m oi ou p fr =>
    simp only [wfT, wfPid, Bool.and_eq_true] at hw
    intro b hb; simp only [atomsOf, List.mem_cons] at hb
    rcases hb with rfl | rfl | hb
    · exact hw.1.1.1.1.2
    · exact hw.1.2.1.1.1.1
    · exact atomsL_valid fr hw.2 b hb
termination_by sizeOf t
decreasing_by all_goals (simp_wf; try omega)
theorem atomsL_valid (l : List Term) (hw : wfL l = true) : ∀ a ∈ atomsOfL l, validUtf8 a = true := by
  match l with
  | [] => intro b hb; simp [atomsOfL] at hb
  | t :: ts =>
    simp only [wfL, Bool.and_eq_true] at hw
    intro b hb; simp only [atomsOfL, List.mem_append] at hb
    rcases hb with hb | hb
    · exact atoms_valid t hw.1 b hb
    · exact atomsL_valid ts hw.2 b hb
termination_by sizeOf l
decreasing_by all_goals (simp_wf; try omega)
theorem atomsKV_valid (l : List (Term × Term)) (hw : wfKV l = true) : ∀ a ∈ atomsOfKV l, validUtf8 a = true := by
  match l with
  | [] => intro b hb; simp [atomsOfKV] at hb
  | (k, v) :: r =>
    simp only [wfKV, Bool.and_eq_true] at hw
    intro b hb; simp only [atomsOfKV, List.mem_append] at hb
    rcases hb with (hb | hb) | hb
    · exact atoms_valid k hw.1.1 b hb
    · exact atoms_valid v hw.1.2 b hb
    · exact atomsKV_valid r hw.2 b hb
termination_by sizeOf l
decreasing_by all_goals (simp_wf; try omega)
end

/-- an order accepted by `isOrderFor` lists atoms of the terms only -/
theorem order_mem (order : List Bytes) (terms : List Term) (h : isOrderFor order terms = true) :
    ∀ a ∈ order, a ∈ atomsOfL terms := by
  intro a ha
  simp only [isOrderFor, Bool.and_eq_true, List.all_eq_true] at h
  simpa using h.1.1 a ha

/-- … and every atom of the terms -/
theorem order_complete (order : List Bytes) (terms : List Term) (h : isOrderFor order terms = true) :
    ∀ a ∈ atomsOfL terms, a ∈ order := by
  intro a ha
  simp only [isOrderFor, Bool.and_eq_true, List.all_eq_true] at h
  simpa using h.1.2 a ha

theorem order_valid (order : List Bytes) (terms : List Term) (h : isOrderFor order terms = true)
    (hw : wfL terms = true) : ∀ a ∈ order, validUtf8 a = true :=
  fun a ha => atomsL_valid terms hw a (order_mem order terms h a ha)

theorem mapM_cps (order : List Bytes) (hv : ∀ a ∈ order, validUtf8 a = true) :
    order.mapM utf8Decode = some (order.map cps) := by
  induction order with
  | nil => rfl
  | cons a r ih =>
    have := ih (fun b hb => hv b (by simp [hb]))
    simp [List.mapM_cons, utf8_cps a (hv a (by simp)), this]

/-! ### an atom of the header is written as a reference to its position -/

theorem indexOf?_of_mem (a : Bytes) (c : List Bytes) (h : a ∈ c) : ∃ i, indexOf? a c = some i := by
  induction c with
  | nil => cases h
  | cons x xs ih =>
    simp only [indexOf?]
    by_cases hx : (x == a) = true
    · exact ⟨0, by simp [hx]⟩
    · have : a ∈ xs := by
        rcases List.mem_cons.mp h with rfl | h'
        · simp at hx
        · exact h'
      obtain ⟨i, hi⟩ := ih this
      exact ⟨i + 1, by simp [hx, hi]⟩

theorem encAtom_ref (order : List Bytes) (a : Bytes) (h : a ∈ order) :
    ∃ i, i < order.length ∧ order[i]? = some a ∧ encAtom order a = .ok [82, UInt8.ofNat i] := by
  obtain ⟨i, hi⟩ := indexOf?_of_mem a order h
  exact ⟨i, indexOf?_lt a order i hi, indexOf?_get a order i hi, by simp [encAtom, hi]⟩

/-! ### the terms, read by the independent reader -/

theorem encL_length_ge (cache : List Bytes) : ∀ (l : List Term) (b : Bytes), encL cache l = .ok b → l.length ≤ b.length := by
  intro l
  induction l with
  | nil => intro b _; simp
  | cons t ts ih =>
    intro b h
    simp only [encL] at h
    cases h1 : enc cache t with
    | error e => simp [h1] at h
    | ok a =>
      cases h2 : encL cache ts with
      | error e => simp [h1, h2] at h
      | ok c =>
        simp only [h1, h2, Except.ok.injEq] at h
        subst h
        obtain ⟨tag, rest, rfl, _⟩ := enc_head cache t a h1
        have := ih c h2
        simp only [List.length_append, List.length_cons]
        omega

theorem readTerms_encL (env : Spec.Env) (cache : List Bytes) (hrefs : env.refs = cache.map cps)
    (hlen : cache.length ≤ 256) :
    ∀ (terms : List Term) (body : Bytes) (fuel : Nat), terms ≠ [] → wfL terms = true → finiteFloatsL terms = true →
      encL cache terms = .ok body → body.length < 4294967296 → terms.length ≤ fuel →
      readTerms env fuel body = some (Term.denL terms) := by
  intro terms
  induction terms with
  | nil => intro _ _ h; exact absurd rfl h
  | cons t ts ih =>
    intro body fuel _ hw hfin he hsz hf
    simp only [wfL, Bool.and_eq_true] at hw
    simp only [finiteFloatsL, Bool.and_eq_true] at hfin
    simp only [encL] at he
    cases h1 : enc cache t with
    | error e => simp [h1] at he
    | ok a =>
      cases h2 : encL cache ts with
      | error e => simp [h1, h2] at he
      | ok b =>
        simp only [h1, h2, Except.ok.injEq] at he
        subst he
        obtain ⟨f, rfl⟩ : ∃ f, fuel = f + 1 := ⟨fuel - 1, by simp at hf; omega⟩
        have hl := tsz_le_length cache t a hw.1 h1
        have hp := spec_enc env cache hrefs hlen t a b ((a ++ b).length + 1) hw.1 hfin.1 h1
          (by simp at hsz; omega) (by simp; omega)
        simp only [readTerms, hp]
        cases ts with
        | nil =>
          simp only [encL, Except.ok.injEq] at h2
          subst h2
          simp [Term.denL]
        | cons t2 ts2 =>
          have hb : b ≠ [] := by
            intro hb
            have := encL_length_ge cache (t2 :: ts2) b h2
            simp [hb] at this
          have ih' := ih b f (by simp) hw.2 hfin.2 h2 (by simp at hsz; omega) (by simp at hf ⊢; omega)
          cases b with
          | nil => exact absurd rfl hb
          | cons b0 br => simp only [ih', Option.map_some, Term.denL]

/-! ### the terms, read by the library's own decoder -/

/-- `decode_with_atom_cache` after a header that was read: the control term and the optional payload come back, the
cache is the one the header left -/
theorem own_decode (x : Ext) (c c1 : Cache) (order : List Bytes) (hlen : order.length ≤ 256) (r1 body : Bytes)
    (hp : parseHeader c r1 = (c1, .ok body)) (hc : cfgFor order { cache := c1.atoms })
    (hbl : body.length ≤ r1.length) (t : Term) (q : Option Term)
    (hw : wfT t = true) (hwq : ∀ u ∈ q, wfT u = true)
    (hd : dep t ≤ MAX_NESTING_DEPTH) (hdq : ∀ u ∈ q, dep u ≤ MAX_NESTING_DEPTH)
    (he : encL order (t :: q.toList) = .ok body) :
    decodeWithAtomCache x c (131 :: 68 :: r1) = (c1, .ok (wire t, q.map wire)) := by
  have h131 : ((131 : UInt8) != 131) = false := by decide
  have h68 : ((68 : UInt8) == 68) = true := by decide
  simp only [encL] at he
  cases h1 : enc order t with
  | error e => simp [h1] at he
  | ok a =>
    have hl := tsz_le_length order t a hw h1
    cases q with
    | none =>
      simp only [h1, Option.toList_none, encL, List.append_nil, Except.ok.injEq] at he
      subst he
      have hdec := dec_enc x { cache := c1.atoms } order hc hlen t a [] ((131 :: 68 :: r1).length + 1 + x.extra) 0
        hw (by omega) h1 (by simp; omega)
      simp only [List.append_nil] at hdec
      simp only [decodeWithAtomCache, h131, Bool.false_eq_true, ↓reduceIte, h68, hp, hdec, List.isEmpty_nil,
        Option.map_none]
    | some u =>
      have hwu := hwq u rfl
      have hdu := hdq u rfl
      simp only [h1, Option.toList_some, encL] at he
      cases h2 : enc order u with
      | error e => simp [h2] at he
      | ok b =>
        simp only [h2, List.append_nil, Except.ok.injEq] at he
        subst he
        have hl2 := tsz_le_length order u b hwu h2
        obtain ⟨tag, rest, rfl, _⟩ := enc_head order u b h2
        have hdec := dec_enc x { cache := c1.atoms } order hc hlen t a (tag :: rest)
          ((131 :: 68 :: r1).length + 1 + x.extra) 0 hw (by omega) h1
          (by simp only [List.length_append, List.length_cons] at hbl ⊢; omega)
        have hdec2 := dec_enc x { cache := c1.atoms } order hc hlen u (tag :: rest) []
          ((131 :: 68 :: r1).length + 1 + x.extra) 0 hwu (by omega) h2
          (by simp only [List.length_append, List.length_cons] at hbl hl2 ⊢; omega)
        simp only [List.append_nil] at hdec2
        simp only [decodeWithAtomCache, h131, Bool.false_eq_true, ↓reduceIte, h68, hp, hdec, List.isEmpty_cons,
          hdec2, Option.map_some]

/-- the library reads its own header: the decoder's position table fits the encoder's atom order, whatever older
positions the table still holds -/
theorem cfgFor_of_lookup (order : List Bytes) (c1 : Cache)
    (h : ∀ j (hj : j < order.length), c1.atoms.lookup j = some order[j]) : cfgFor order { cache := c1.atoms } := by
  refine Or.inr ⟨rfl, ?_⟩
  intro a i hi
  have hlt := indexOf?_lt a order i hi
  have hg := indexOf?_get a order i hi
  rw [h i hlt]
  rw [List.getElem?_eq_getElem hlt] at hg
  exact hg

end Edp.DistHeader
