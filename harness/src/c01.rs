//! C01: encode/decode round trip.
use crate::canon::{hex, hexarg, term_text};
use crate::tgen::{gen_term, Cfg};
use crate::Ctx;
use erltf::OwnedTerm;

pub fn variant(t: &OwnedTerm) -> &'static str {
    match t {
        OwnedTerm::Atom(_) => "atom",
        OwnedTerm::Integer(_) => "int",
        OwnedTerm::Float(_) => "float",
        OwnedTerm::Pid(_) => "pid",
        OwnedTerm::Port(_) => "port",
        OwnedTerm::Reference(_) => "ref",
        OwnedTerm::Binary(_) => "bin",
        OwnedTerm::BitBinary { .. } => "bits",
        OwnedTerm::String(_) => "str",
        OwnedTerm::List(_) => "list",
        OwnedTerm::ImproperList { .. } => "ilist",
        OwnedTerm::Map(_) => "map",
        OwnedTerm::Tuple(_) => "tuple",
        OwnedTerm::BigInt(_) => "big",
        OwnedTerm::ExternalFun(_) => "xfun",
        OwnedTerm::InternalFun(_) => "ifun",
        OwnedTerm::Nil => "nil",
    }
}

pub fn enc_result(t: &OwnedTerm) -> (String, Option<Vec<u8>>) {
    match std::panic::catch_unwind(|| erltf::encode(t)) {
        Ok(Ok(b)) => (format!("ok {}", hex(&b)), Some(b)),
        Ok(Err(_)) => ("err".to_string(), None),
        Err(_) => ("panic".to_string(), None),
    }
}

pub fn dec_result(b: &[u8]) -> (String, Option<OwnedTerm>) {
    match std::panic::catch_unwind(|| erltf::decode(b)) {
        Ok(Ok(t)) => (format!("ok {}", term_text(&t)), Some(t)),
        Ok(Err(erltf::errors::DecodeError::TrailingData(n))) => (format!("trailing {}", n), None),
        Ok(Err(_)) => ("err".to_string(), None),
        Err(_) => ("panic".to_string(), None),
    }
}

pub fn one(ctx: &mut Ctx, tag: &str, t: &OwnedTerm) {
    ctx.count(&format!("variant_{}", variant(t)));
    let tt = term_text(t);
    let (er, bytes) = enc_result(t);
    ctx.tie(tag, &format!("enc {}", tt), &er);
    let Some(bytes) = bytes else {
        ctx.count("encode_errors");
        return;
    };
    ctx.add("encoded_bytes", bytes.len() as u64);
    // oracle 1: the bytes are a valid external encoding of the value the term denotes (Lean Spec.parse)
    ctx.prop(tag, &format!("c01valid {} {}", tt, hex(&bytes)), "ok");
    let (dr, dec) = dec_result(&bytes);
    ctx.tie(tag, &format!("dec {} -", hexarg(&bytes)), &dr);
    match dec {
        None => ctx.fail("c01-own-decoder-rejects", &format!("term={} bytes={} decode={}", tt, hex(&bytes), dr)),
        Some(d) => {
            // oracle 2: the decoded term denotes the same value
            ctx.prop(tag, &format!("c01same {} {}", tt, term_text(&d)), "ok");
            // oracle 3: re-encoding reproduces the bytes
            let (er2, b2) = enc_result(&d);
            if b2.as_deref() != Some(&bytes[..]) {
                ctx.fail("c01-reencode-differs", &format!("term={} bytes={} reencode={}", tt, hex(&bytes), er2));
            }
        }
    }
}

/// every boundary the encoder distinguishes, on every run (the random generator reaches them only now and then)
fn boundary(ctx: &mut Ctx) {
    use erltf::types::{Atom, BigInt, ExternalPid, ExternalReference, Sign};
    let mut ts: Vec<OwnedTerm> = vec![];
    for &i in crate::tgen::INT_BOUNDS {
        ts.push(OwnedTerm::Integer(i));
    }
    // big integers: 1..=9 digits, the SMALL/LARGE_BIG switch at 255/256 digits, both signs
    for len in [1usize, 2, 4, 7, 8, 9, 254, 255, 256, 257, 300, 1000] {
        for neg in [false, true] {
            let mut d: Vec<u8> = (0..len).map(|k| (k as u8).wrapping_mul(37).wrapping_add(1)).collect();
            *d.last_mut().unwrap() |= 1;
            ts.push(OwnedTerm::BigInt(BigInt::new(if neg { Sign::Negative } else { Sign::Positive }, d)));
        }
    }
    // atoms: the SMALL/long switch at 255/256 bytes, the limit at 65535/65536, multi-byte text around both
    for (len, unit) in [(0usize, "a"), (1, "a"), (254, "a"), (255, "a"), (256, "a"), (65535, "a"), (65536, "a"), (70000, "a"),
                        (127, "é"), (128, "é"), (85, "€"), (86, "€"), (32767, "é"), (32768, "é"), (64, "😀")] {
        ts.push(OwnedTerm::Atom(Atom::new(unit.repeat(len))));
    }
    // tuples, lists, strings, binaries around their width switches
    for n in [0usize, 1, 254, 255, 256, 257] {
        ts.push(OwnedTerm::Tuple((0..n).map(|k| OwnedTerm::Integer(k as i64 % 7)).collect()));
        ts.push(OwnedTerm::List((0..n).map(|k| OwnedTerm::Integer(k as i64 % 300)).collect()));
    }
    for n in [0usize, 1, 65534, 65535, 65536, 65537] {
        ts.push(OwnedTerm::String("x".repeat(n)));
        ts.push(OwnedTerm::Binary(vec![7u8; n]));
        ts.push(OwnedTerm::List(vec![OwnedTerm::Integer(65); n]));
    }
    for bits in 1u8..=8 {
        ts.push(OwnedTerm::BitBinary { bytes: vec![0xff, 0x80], bits });
    }
    // references: 0..5 words and the 16-bit count limit
    for n in [0usize, 1, 2, 3, 4, 5, 6, 65535, 65536] {
        ts.push(OwnedTerm::Reference(ExternalReference::new(Atom::new("n@h"), 3, (0..n as u32).collect())));
    }
    ts.push(OwnedTerm::Pid(ExternalPid::new(Atom::new(""), 0, 0, 0)));
    ts.push(OwnedTerm::Pid(ExternalPid::new(Atom::new("é".repeat(200)), u32::MAX, u32::MAX, u32::MAX)));
    ts.push(OwnedTerm::ImproperList { elements: vec![OwnedTerm::Integer(1)], tail: Box::new(OwnedTerm::Binary(vec![])) });
    ts.push(OwnedTerm::Nil);
    ts.push(OwnedTerm::List(vec![]));
    // maps whose keys are numbers of different representations that lie next to each other without being equal: an
    // integer just beyond what a float holds exactly and the float it would round to, at every width the wire uses for
    // the integer (i64 in the caller's term, a 7-, 8-, 9-digit big integer after decoding). Erlang keeps both keys; a
    // comparison that rounds merges them on the way back (seeded change S85). Equal values of different type (1 and 1.0) are
    // the recorded finding of C03/C12 and are not used here.
    for (i, f) in [((1i64 << 53) + 1, (1u64 << 53) as f64), ((1i64 << 54) + 2, (1u64 << 54) as f64), ((1i64 << 55) + 4, (1u64 << 55) as f64),
                   ((1i64 << 56) - 1, (1u64 << 56) as f64), ((1i64 << 62) + 1, (1u64 << 62) as f64), (i64::MAX, 9223372036854775808.0),
                   (-(1i64 << 53) - 1, -((1u64 << 53) as f64)), (i64::MIN + 1, -9223372036854775808.0)] {
        let mut m = std::collections::BTreeMap::new();
        m.insert(OwnedTerm::Integer(i), OwnedTerm::Atom(Atom::new("int")));
        m.insert(OwnedTerm::Float(f), OwnedTerm::Atom(Atom::new("float")));
        if m.len() == 2 {
            ts.push(OwnedTerm::Map(m));
        }
    }
    for (digits, f) in [(vec![1u8, 0, 0, 0, 0, 0, 0, 0, 1], 18446744073709551616.0f64), (vec![1, 0, 0, 0, 0, 0, 0, 128], 9223372036854775808.0)] {
        let mut m = std::collections::BTreeMap::new();
        m.insert(OwnedTerm::BigInt(BigInt::new(Sign::Positive, digits)), OwnedTerm::Atom(Atom::new("int")));
        m.insert(OwnedTerm::Float(f), OwnedTerm::Atom(Atom::new("float")));
        if m.len() == 2 {
            ts.push(OwnedTerm::Map(m));
        }
    }
    for t in &ts {
        ctx.count("boundary_terms");
        one(ctx, "boundary", t);
        // the streaming entry point writes the same bytes (or fails alike)
        let mut w: Vec<u8> = vec![];
        let rw = std::panic::catch_unwind(std::panic::AssertUnwindSafe(|| erltf::encode_to_writer(t, &mut w)));
        let same = match (rw, erltf::encode(t)) {
            (Ok(Ok(())), Ok(b)) => w == b,
            (Ok(Err(_)), Err(_)) => true,
            _ => false,
        };
        if !same {
            ctx.fail("c01-encode-to-writer-differs", &term_text(t)[..term_text(t).len().min(200)]);
        }
    }
    for t in ts.iter().filter(|t| !matches!(t, OwnedTerm::Atom(a) if a.len() > 300)).take(60) {
        writer(ctx, "boundary", t);
    }
}

/// a writer that refuses everything
struct Refusing;
impl std::io::Write for Refusing {
    fn write(&mut self, _: &[u8]) -> std::io::Result<usize> {
        Err(std::io::Error::new(std::io::ErrorKind::Other, "refused"))
    }
    fn flush(&mut self) -> std::io::Result<()> {
        Ok(())
    }
}

/// `encode_to_writer` against its model: a writer that already holds a prefix and accepts, and one that refuses
pub fn writer(ctx: &mut Ctx, tag: &str, t: &OwnedTerm) {
    let tt = term_text(t);
    let k = ctx.rng.below(4) as usize;
    let prefix = ctx.rng.bytes(k);
    let mut w = prefix.clone();
    let r = match std::panic::catch_unwind(std::panic::AssertUnwindSafe(|| erltf::encode_to_writer(t, &mut w))) {
        Ok(Ok(())) => format!("ok {}", hex(&w)),
        Ok(Err(erltf::errors::EncodeError::IoError(_))) => "io".to_string(),
        Ok(Err(_)) => "err".to_string(),
        Err(_) => "panic".to_string(),
    };
    ctx.count("writer_accepting");
    ctx.tie(tag, &format!("c01w {} {} 1", tt, hexarg(&prefix)), &r);
    let r2 = match std::panic::catch_unwind(|| erltf::encode_to_writer(t, &mut Refusing)) {
        Ok(Ok(())) => "ok".to_string(),
        Ok(Err(erltf::errors::EncodeError::IoError(_))) => "io".to_string(),
        Ok(Err(_)) => "err".to_string(),
        Err(_) => "panic".to_string(),
    };
    ctx.count("writer_refusing");
    ctx.tie(tag, &format!("c01w {} - 0", tt), &r2);
}

pub fn run(ctx: &mut Ctx) {
    boundary(ctx);
    let n = ctx.n(1500, 30000);
    let cfg = Cfg::default();
    for _ in 0..n {
        let t = gen_term(&mut ctx.rng, &cfg, 0);
        one(ctx, "gen", &t);
        if ctx.rng.chance(1, if ctx.thorough { 60 } else { 8 }) {
            writer(ctx, "gen", &t);
        }
    }
}
