import EdpVerif.Drv.Etf
import EdpVerif.Impl.Send
import EdpVerif.Impl.SendConn
import EdpVerif.Spec.Wire
/-! Driver requests of property C07 (send side).

Operation text (no spaces): fields separated by `;`
  `S;<from pid>;<to pid>;<msg term>`   `R;<from pid>;<name hex|->;<msg term>`   `L;<from>;<to>`
  `U;<from>;<to>;<id|?>`               `M;<from>;<to>;<ref>`                    `D;<from>;<to>;<ref>`
(pids, refs and terms in the canonical term text).  Operations of one task are joined by `/`, tasks by `~`.

* `c07send state neg stream order op`  — tie: the writes of one `Connection` operation, `ok <bytes> w=<number of writes>` or
                                          `err:<class>`; `state` as `ConnectionState::as_str`, `neg` the negotiated flags or `-`,
                                          `order` the header's atom order (`-` none, `*` first-occurrence order, else `x<hex>,..`)
* `c07read mode wire op`               — oracle: the independent reader reads `wire` as exactly the frame the protocol assigns to `op`
* `c07none wire`                       — oracle: nothing was written
* `c07fail neg fates ops`              — tie: a sequence of operations on ONE connection (`runOps`), `fates` = `w` (all writes
                                          complete) or `c<j>.<k>` (stopped after `j` complete writes and `k` bytes of the next) per operation:
                                          the outcome of every operation (`ok`, `cut`, `err:<class>`) and the exact bytes
* `c07cutwire mode results wire ops`   — oracle: `wire` is the whole frames of the operations whose result is `ok`, in order, then
                                          at most the beginning of ONE unfinished frame, and no operation after a `cut` succeeds
* `c07node table fate op`              — tie: a node-level operation (`nodeOp`); `table` = `-` (no connection) or the flags
* `c07trace neg prog trace wire`       — tie under concurrency: the recorded hook trace (`<task>.<l|m|c|e>` joined by `,`) is a run of
                                          the lock/write model and produces exactly `wire`
* `c07wire prog wire`                  — oracle under concurrency: `wire` is whole frames, each task's operations in issue order,
                                          unlink ids chosen by the node valid and distinct
-/
namespace Edp.Drv
namespace C07
open Edp Edp.Send Edp.Spec.Wire
open Edp.Impl.Handshake (ConnState)

def getPid (s : String) : Except String PidF :=
  match Term.ofText s with
  | some (.pid p) => .ok p
  | _ => .error ("bad-pid " ++ s.take 40)

def getRef (s : String) : Except String RefF :=
  match Term.ofText s with
  | some (.ref n c ids l) => .ok { node := n, creation := c, ids := ids, loc := l }
  | _ => .error ("bad-ref " ++ s.take 40)

def getNat (s : String) : Except String Nat :=
  match s.toNat? with
  | some n => .ok n
  | none => .error ("bad-nat " ++ s.take 40)

def getHexArg (s : String) : Except String Bytes := if s == "-" then .ok [] else getHex s

/-- `none` for the id of an unlink whose id the node chose (`?`) -/
def getOp (s : String) : Except String (Op × Bool) :=
  match s.splitOn ";" with
  | ["S", f, t, m] => do pure (.send (← getPid f) (← getPid t) (← getTerm m), false)
  | ["R", f, n, m] => do pure (.regSend (← getPid f) (← getHexArg n) (← getTerm m), false)
  | ["L", f, t] => do pure (.link (← getPid f) (← getPid t), false)
  | ["U", f, t, i] =>
    if i == "?" then do pure (.unlink (← getPid f) (← getPid t) 0, true)
    else do pure (.unlink (← getPid f) (← getPid t) (← getNat i), false)
  | ["M", f, t, r] => do pure (.monitor (← getPid f) (← getPid t) (← getRef r), false)
  | ["D", f, t, r] => do pure (.demonitor (← getPid f) (← getPid t) (← getRef r), false)
  | _ => .error ("bad-op-text " ++ s.take 40)

def getState (s : String) : Except String ConnState :=
  match s with
  | "disconnected" => .ok .disconnected
  | "connecting" => .ok .connecting
  | "sending_name" => .ok .sendingName
  | "awaiting_status" => .ok .awaitingStatus
  | "awaiting_challenge" => .ok .awaitingChallenge
  | "sending_challenge_reply" => .ok .sendingChallengeReply
  | "awaiting_challenge_ack" => .ok .awaitingChallengeAck
  | "connected" => .ok .connected
  | "failed" => .ok .failed
  | _ => .error ("bad-state " ++ s)

def opTerms (op : Op) : List Term :=
  match Control.toTerm Gen.controlTable op.control with
  | some ct => ct :: op.payload.toList
  | none => []

def getOrder (s : String) (op : Op) : Except String (List Bytes) :=
  if s == "-" then .ok []
  else if s == "*" then .ok (collectAtomsL (opTerms op)).eraseDups
  else (s.splitOn ",").mapM fun a =>
    match a.toList with
    | 'x' :: h => getHex (String.ofList h)
    | _ => .error "bad-order"

def errText : Err → String
  | .invalidState => "err:state"
  | .encode => "err:encode"
  | .tooLarge => "err:toolarge"
  | .noStream => "err:nostream"
  | .badControl => "model:bad-control"
  | .badOrder => "model:bad-order"

def getMode (s : String) : Except String Mode :=
  if s == "pt" then .ok .passThrough else if s == "hdr" then .ok .distHeader else .error "bad-mode"

/-- control element `k` of the first frame of `bs` as a natural number (the id of an UNLINK_ID) -/
def firstId (bs : Bytes) : Option Nat :=
  match rdN 4 bs with
  | some (len, r) =>
    match takeN len r with
    | some (body, _) =>
      match readBody .passThrough [] body with
      | some (.msg (.tuple (_ :: .int i :: _)) _, _) => if 0 ≤ i then some i.toNat else none
      | _ => none
    | none => none
  | none => none

def withId : Op → Nat → Op
  | .unlink f t _, i => .unlink f t i
  | op, _ => op

def getProg (s : String) : Except String (List (List (Op × Bool))) :=
  if s == "-" then .ok [] else
  (s.splitOn "~").mapM fun t => if t == "-" then .ok [] else (t.splitOn "/").mapM getOp

/-- replay of a hook trace through the lock/write model; operations are instantiated lazily so that an unlink id chosen by
the node can be read off the wire at the position where its frame starts -/
structure Rp where
  wire : Bytes := []
  lock : Option Nat := none
  /-- per task: index of the next operation, remaining writes when holding, writes done in the current operation -/
  next : List Nat
  rem : List (Option (List Bytes))
  done : List Nat
  frames : Nat := 0

def point (c : Char) : Option Nat :=
  if c == 'l' then some 1 else if c == 'm' then some 2 else if c == 'c' then some 3 else none

def replay (conn : Conn) (prog : List (List (Op × Bool))) (real : Bytes) (evs : List (Nat × Char)) : Except String Rp := do
  let mut st : Rp := { next := prog.map fun _ => 0, rem := prog.map fun _ => none, done := prog.map fun _ => 0 }
  for (t, c) in evs do
    if t ≥ prog.length then throw "FAIL unknown-task"
    -- acquire if the task is not in an operation
    if (st.rem.getD t none).isNone then
      match st.lock with
      | some h => throw s!"FAIL task {t} writes while task {h} holds the connection"
      | none =>
        match (prog.getD t [])[st.next.getD t 0]? with
        | none => throw s!"FAIL task {t} has no operation left"
        | some (op, unknownId) =>
          let op ← if unknownId then
              match firstId (real.drop st.wire.length) with
              | some i => pure (withId op i)
              | none => throw "FAIL no-unlink-frame-at-this-position"
            else pure op
          match sendOp conn [] op with
          | .ok ws => st := { st with lock := some t, rem := st.rem.set t (some ws), done := st.done.set t 0 }
          | .error e => throw ("FAIL model-op-fails " ++ errText e)
    if st.lock != some t then throw s!"FAIL task {t} is not the holder"
    let ws := (st.rem.getD t none).getD []
    match point c with
    | some k =>
      -- the hook point after write number k: exactly one more write, and it must be write k
      if st.done.getD t 0 + 1 != k then throw s!"FAIL task {t} point {c} after {st.done.getD t 0} writes"
      match ws with
      | w :: r => st := { st with wire := st.wire ++ w, rem := st.rem.set t (some r), done := st.done.set t k }
      | [] => throw s!"FAIL task {t} point {c} but the model has no write left"
    | none =>
      -- end of the operation: the remaining writes (exactly one: the last write has no hook point after it), then unlock
      if ws.length != 1 then throw s!"FAIL task {t} ends with {ws.length} writes left"
      st := { st with wire := st.wire ++ ws.flatten, lock := none, rem := st.rem.set t none,
                      next := st.next.set t (st.next.getD t 0 + 1), frames := st.frames + 1 }
  pure st

def getTrace (s : String) : Except String (List (Nat × Char)) :=
  if s == "-" then .ok [] else
  (s.splitOn ",").mapM fun e =>
    match e.splitOn "." with
    | [t, p] =>
      match t.toNat?, p.toList with
      | some n, [c] => .ok (n, c)
      | _, _ => .error "bad-trace"
    | _ => .error "bad-trace"

/-- greedy attribution of the items read off the wire to the tasks' expected lists (the items of different tasks are
distinct by construction of the harness) -/
def attributeItems (exp : List (List (SOp × Bool))) (items : List Item) : Except String (List Nat) := do
  let mut exp := exp
  let mut ids : List Nat := []
  for it in items do
    let mut found := false
    for t in List.range exp.length do
      if !found then
        match exp.getD t [] with
        | (sop, unknownId) :: rest =>
          let sop' := match unknownId, sop, it with
            | true, .unlinkId _ f to, .msg (.tuple [_, .int i, _, _]) _ => if 0 ≤ i then SOp.unlinkId i.toNat f to else sop
            | _, _, _ => sop
          if Item.same it (itemFor sop') then
            if !sop'.valid && unknownId then throw ("FAIL node-chosen-unlink-id-out-of-range " ++ it.text)
            if unknownId then
              match sop' with
              | .unlinkId i _ _ => ids := i :: ids
              | _ => pure ()
            exp := exp.set t rest
            found := true
        | [] => pure ()
    if !found then throw ("FAIL frame-out-of-order-or-unexpected " ++ it.text)
  if exp.any (fun l => !l.isEmpty) then throw "FAIL operations-missing-from-the-wire"
  pure ids

def getFate (s : String) : Except String Fate :=
  if s == "w" then .ok .whole else
  match s.toList with
  | 'c' :: r =>
    match (String.ofList r).splitOn "." with
    | [j, k] =>
      match j.toNat?, k.toNat? with
      | some j, some k => .ok (.cut j k)
      | _, _ => .error "bad-fate"
    | _ => .error "bad-fate"
  | _ => .error "bad-fate"

def outcomeText : Outcome → String
  | .ok => "ok"
  | .cut => "cut"
  | .err e => errText e

/-- the node-level form of an operation text: what the node draws from its counters is what the text carries -/
def toNodeOp : Op → NodeOp × Drawn
  | .send f t m => (.send t m, { pid := f, counter := 0, ref := { node := [], creation := 0, ids := [] } })
  | .regSend f _ m => (.send f m, { pid := f, counter := 0, ref := { node := [], creation := 0, ids := [] } })
  | .link f t => (.link f t, { pid := f, counter := 0, ref := { node := [], creation := 0, ids := [] } })
  | .unlink f t i => (.unlink f t, { pid := f, counter := i - 1, ref := { node := [], creation := 0, ids := [] } })
  | .monitor f t r => (.monitor f t, { pid := f, counter := 0, ref := r })
  | .demonitor f t r => (.demonitor f t r, { pid := f, counter := 0, ref := { node := [], creation := 0, ids := [] } })

end C07

open C07 Edp.Send Edp.Spec.Wire in
def handleC07 : List String → Option String
  | ["c07fail", neg, fates, ops] => some <| run do
    let neg ← if neg == "-" then pure none else (some <$> getNat neg)
    let ops ← (ops.splitOn "/").mapM getOp
    let fates ← (fates.splitOn ",").mapM getFate
    if ops.length != fates.length then throw "bad-request"
    let conn : Conn := { state := .connected, neg := neg, stream := true }
    let calls : List Call := (ops.zip fates).map fun ((op, _), f) =>
      { order := (collectAtomsL (opTerms op)).eraseDups, op := op, fate := f }
    let r := runOps conn calls
    pure (",".intercalate (r.2.map outcomeText) ++ " wire=" ++ (if r.1.isEmpty then "-" else hexOf r.1))
  | ["c07cutwire", mode, results, wire, ops] => some <| run do
    let mode ← getMode mode
    let wire ← getHexArg wire
    -- `-`: the text of an operation that did not return Ok is not needed (and may be megabytes long)
    let results := results.splitOn ","
    let optexts := ops.splitOn "/"
    if optexts.length != results.length then throw "bad-request"
    let ops ← (optexts.zip results).mapM fun (t, r) =>
      if t == "-" then (if r == "ok" then throw "bad-request" else pure (Op.link default default, false)) else getOp t
    let (frames, left) := splitStream wire.length wire
    -- what is left over is the beginning of ONE frame: its announced length is not there yet
    let leftOk := match rdN 4 left with
      | none => left.length < 4
      | some (len, r) => r.length < len
    let cutIdx := results.findIdx? (· == "cut")
    let expected := (ops.zip results).filterMap fun ((op, _), r) => if r == "ok" then some (itemFor op.den) else none
    match readBodies mode [] frames with
    | none => pure "FAIL complete-frames-not-well-formed"
    | some items =>
      if !leftOk then pure "FAIL bytes-follow-an-unfinished-frame"
      else if cutIdx.isNone && !left.isEmpty then pure "FAIL unfinished-frame-although-no-operation-was-cut"
      else if (match cutIdx with | some i => (results.drop (i + 1)).any (· == "ok") | none => false) then
        pure "FAIL an-operation-succeeds-after-a-partial-frame"
      else if items.length != expected.length then
        pure s!"FAIL {items.length} whole frames, {expected.length} operations returned ok"
      else if (items.zip expected).all (fun (a, b) => Item.same a b) then pure "ok"
      else pure "FAIL a-frame-is-not-the-item-of-its-operation"
  | ["c07node", table, fate, op] => some <| run do
    let table ← if table == "-" then pure none else do
      let n ← getNat table
      pure (some ({ state := .connected, neg := some n, stream := true } : Conn))
    let fate ← getFate fate
    let (op, _) ← getOp op
    let (nop, d) := toNodeOp op
    let r := nodeOp table [] d nop fate
    let o := match r.2.2 with
      | .notConnected => "err:notconnected"
      | .conn o => outcomeText o
    pure (o ++ " wire=" ++ (if r.2.1.isEmpty then "-" else hexOf r.2.1))
  | ["c07send", state, neg, stream, order, op] => some <| run do
    let state ← getState state
    let neg ← if neg == "-" then pure none else (some <$> getNat neg)
    let (op, _) ← getOp op
    let order ← getOrder order op
    let conn : Conn := { state := state, neg := neg, stream := stream == "1" }
    match sendOp conn order op with
    | .ok ws => pure ("ok " ++ hexOf ws.flatten ++ " w=" ++ toString ws.length)
    | .error e => pure (errText e)
  | ["c07read", mode, wire, op] => some <| run do
    let mode ← getMode mode
    let wire ← getHexArg wire
    let (op, _) ← getOp op
    match readFrames mode wire with
    | none => pure "FAIL not-a-sequence-of-well-formed-frames"
    | some [it] =>
      if Item.same it (itemFor op.den) then pure "ok"
      else pure ("FAIL read " ++ it.text ++ " expected " ++ (itemFor op.den).text)
    | some l => pure ("FAIL " ++ toString l.length ++ " frames")
  | ["c07none", wire] => some <| run do
    let wire ← getHexArg wire
    pure (if wire.isEmpty then "ok" else "FAIL bytes-written " ++ hexOf wire)
  | ["c07trace", neg, prog, trace, wire] => some <| run do
    let neg ← if neg == "-" then pure none else (some <$> getNat neg)
    let prog ← getProg prog
    let trace ← getTrace trace
    let wire ← getHexArg wire
    let conn : Conn := { state := .connected, neg := neg, stream := true }
    match replay conn prog wire trace with
    | .error e => pure e
    | .ok st =>
      if st.lock.isSome then pure "FAIL trace-ends-inside-an-operation"
      else if st.wire != wire then pure ("FAIL model-wire " ++ hexOf st.wire)
      else pure ("ok frames=" ++ toString st.frames)
  | ["c07wire", prog, wire] => some <| run do
    let prog ← getProg prog
    let wire ← getHexArg wire
    match readFrames .passThrough wire with
    | none => pure "FAIL not-a-sequence-of-well-formed-frames"
    | some items =>
      match attributeItems (prog.map fun l => l.map fun (op, u) => (op.den, u)) items with
      | .error e => pure e
      | .ok ids =>
        if ids.eraseDups.length != ids.length then pure "FAIL node-chosen-unlink-ids-repeat"
        else pure ("ok frames=" ++ toString items.length)
  | _ => none

end Edp.Drv
