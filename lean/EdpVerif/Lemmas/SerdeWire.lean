import EdpVerif.Lemmas.SerdeMem
/-! C15: the round trip through the wire form `wireT (ser v)`, by induction over the type universe. -/
namespace Edp.Serde
open Edp Edp.Spec.Serde

theorem takeWhile_all {α} (p : α → Bool) : ∀ (l : List α), ∀ x ∈ l.takeWhile p, p x = true
  | [], x, h => by simp at h
  | a :: r, x, h => by
    simp only [List.takeWhile_cons] at h
    split at h
    · rcases List.mem_cons.mp h with rfl | h'
      · assumption
      · exact takeWhile_all p r x h'
    · simp at h

theorem magVal_append_zeros : ∀ (a z : Bytes), (∀ x ∈ z, x = 0) → magVal (a ++ z) = magVal a
  | [], z, h => by
    induction z with
    | nil => rfl
    | cons x r ih =>
      have hx : x = 0 := h x (by simp)
      simp only [List.nil_append, magVal] at ih ⊢
      rw [ih (fun y hy => h y (by simp [hy])), hx]; rfl
  | b :: a, z, h => by simp [magVal, magVal_append_zeros a z h]

theorem magVal_zeros (m : Bytes) (hm : ∀ x ∈ m, x = 0) : magVal m = 0 := by
  have := magVal_append_zeros [] m hm
  simpa [magVal] using this

theorem magVal_take_sigLen (l : Bytes) : magVal (l.take (sigLen l)) = magVal l := by
  have hl : l = (l.reverse.dropWhile (· == 0)).reverse ++ (l.reverse.takeWhile (· == 0)).reverse := by
    have hsplit := List.takeWhile_append_dropWhile (p := (· == (0 : UInt8))) (l := l.reverse)
    have := congrArg List.reverse hsplit
    rw [List.reverse_append, List.reverse_reverse] at this
    exact this.symm
  have hz : ∀ x ∈ (l.reverse.takeWhile (· == 0)).reverse, x = 0 := by
    intro x hx
    have := takeWhile_all (· == (0 : UInt8)) l.reverse x (List.mem_reverse.mp hx)
    simpa using this
  by_cases hnil : l.reverse.dropWhile (· == 0) = []
  · rw [hnil] at hl
    simp only [List.reverse_nil, List.nil_append] at hl
    have hall : ∀ x ∈ l, x = 0 := by rw [hl]; exact hz
    rw [magVal_zeros l hall, magVal_zeros _ (fun x hx => hall x (List.mem_of_mem_take hx))]
  · have hs : sigLen l = (l.reverse.dropWhile (· == 0)).reverse.length := by
      unfold sigLen
      split
      · rename_i h; exact absurd h hnil
      · simp
    rw [hs]
    generalize (l.reverse.dropWhile (· == 0)).reverse = a at *
    generalize (l.reverse.takeWhile (· == 0)).reverse = z at *
    subst hl
    rw [List.take_left, magVal_append_zeros a z hz]

theorem intDigits_ok (i : Int) (h0 : 0 ≤ i) (h1 : i ≤ i64Max) :
    (intDigits i).length ≤ 8 ∧ ((magVal (intDigits i) : Nat) : Int) = i := by
  unfold intDigits
  simp only []
  constructor
  · have := leN_length 8 i.natAbs
    simp only [List.length_take]; omega
  · rw [magVal_take_sigLen, magVal_leN 8 _ (by simp only [i64Max] at h1; omega)]
    omega

theorem deInt_wire (k : IntTy) (i : Int) (h : k.inRange i = true) (hs : (decide (k = .u64) || inI32 i) = true) :
    deInt k (wireT (serInt k i)) = .ok (.int k i) := by
  unfold serInt
  split
  · rename_i hc
    have := deInt_serInt k i h
    unfold serInt at this
    rw [if_pos hc] at this
    simpa [wireT] using this
  · rename_i hc
    by_cases h32 : inI32 i = true
    · simp [wireT, h32, deInt, h]
    · have hk : k = .u64 := by simpa [h32] using hs
      subst hk
      simp only [IntTy.inRange, IntTy.lo, IntTy.hi, Bool.and_eq_true] at h
      have h1 := of_decide_eq_true h.1
      have hle : i ≤ i64Max := by
        apply Int.not_lt.mp
        intro hgt
        exact hc ⟨rfl, hgt⟩
      have hd := intDigits_ok i h1 hle
      have hneg : decide (i < 0) = false := by simpa using h1
      simp [wireT, h32, deInt, hneg, hd.1, hd.2]

theorem isUndef_wireT (t : Term) : isUndef (wireT t) = isUndef t := by
  cases t with
  | int i => simp only [wireT]; split <;> rfl
  | list l => simp only [wireT]; split <;> rfl
  | _ => simp [wireT, isUndef]

theorem wireL_eq_map : ∀ (l : List Term), wireL l = l.map wireT
  | [] => rfl
  | t :: r => by simp [wireL, wireL_eq_map r]

theorem wireKV_eq_map : ∀ (l : List (Term × Term)), wireKV l = l.map fun kv => (wireT kv.1, wireT kv.2)
  | [] => rfl
  | (k, v) :: r => by simp [wireKV, wireKV_eq_map r]


theorem keyed_perm (K : KeyForm) (L : List (Bytes × Term)) (m : List (Term × Term)) (perm : m.Perm (kvs K L))
    (hd : namesDistinct (L.map (·.1)) = true) (hg : ∀ x ∈ L, K.good x.1 = true) :
    (∀ x ∈ L, m.filter (keyIs x.1) = [(K.c x.1, x.2)]) ∧ m.all (fun kv => isOkStr kv.1) = true := by
  have hp := namesDistinct_pairwise _ hd
  refine ⟨?_, ?_⟩
  · intro x hx
    have := (perm.filter (keyIs x.1))
    rw [filter_key K L hp hg x hx] at this
    exact List.perm_singleton.mp this
  · rw [List.all_eq_true]
    intro e he
    have := perm.mem_iff.mp he
    obtain ⟨z, hz, rfl⟩ := List.mem_map.mp this
    exact K.str z.1 (hg z hz)

theorem kvs_pairwise_sym (K : KeyForm) (L : List (Bytes × Term)) (hd : (L.map (·.1)).Pairwise (· ≠ ·)) :
    (kvs K L).Pairwise (fun a b => Term.cmp b.1 a.1 ≠ .eq ∧ Term.cmp a.1 b.1 ≠ .eq) := by
  unfold kvs
  rw [List.pairwise_map]
  rw [List.pairwise_map] at hd
  exact hd.imp (fun {a b} hab => ⟨fun e => hab (K.inj b.1 a.1 e).symm, fun e => hab (K.inj a.1 b.1 e)⟩)

def wireVals (L : List (Bytes × Term)) : List (Bytes × Term) := L.map fun f => (f.1, wireT f.2)

theorem wireVals_names (L : List (Bytes × Term)) : (wireVals L).map (·.1) = L.map (·.1) := by
  simp [wireVals, Function.comp_def]

/-- a struct-like map after `to_bytes`/`decode`: the same keys, every value through the wire -/
theorem wire_keyed (K : KeyForm) (hK : ∀ a, wireT (K.c a) = K.c a) (L : List (Bytes × Term))
    (hd : namesDistinct (L.map (·.1)) = true) :
    (insertAll (wireKV (insertAll (kvs K L)))).Perm (kvs K (wireVals L)) := by
  have hp := namesDistinct_pairwise _ hd
  have p1 : (insertAll (kvs K L)).Perm (kvs K L) := insertAll_perm _ (kvs_pairwise K L hp)
  have e : (kvs K L).map (fun kv => (wireT kv.1, wireT kv.2)) = kvs K (wireVals L) := by
    simp [kvs, wireVals, hK, Function.comp_def]
  have p2 : (wireKV (insertAll (kvs K L))).Perm (kvs K (wireVals L)) := by
    rw [wireKV_eq_map, ← e]
    exact p1.map _
  have hp' : ((wireVals L).map (·.1)).Pairwise (· ≠ ·) := by rw [wireVals_names]; exact hp
  have pw := (p2.symm.pairwise (kvs_pairwise_sym K (wireVals L) hp') (fun {x y} h => ⟨h.2, h.1⟩))
  exact (insertAll_perm _ (pw.imp (fun {a b} h => h.1))).trans p2

theorem wireT_bin (a : Bytes) : wireT (binKey.c a) = binKey.c a := by simp [binKey, wireT]
theorem wireT_atom (a : Bytes) : wireT (atomKey.c a) = atomKey.c a := by simp [atomKey, wireT]

theorem de_enum_wire (en vn : Bytes) (vs : List (Bytes × Ty)) (p : Val) :
    de (.enum en vs) (wireT (serVariant vn p)) = deVariant en vn vs (wireL (restOf p)) := by
  cases p <;> simp [serVariant, wireT, wireL, de, deStr, restOf]

theorem wireSafeL_all : ∀ (vs : List Val), wireSafeL vs = vs.all wireSafe
  | [] => rfl
  | v :: r => by simp [wireSafeL, wireSafeL_all r]

theorem wireSafeKV_all : ∀ (l : List (Val × Val)), wireSafeKV l = l.all (fun kv => wireSafe kv.1 && wireSafe kv.2)
  | [] => rfl
  | (k, v) :: r => by simp [wireSafeKV, wireSafeKV_all r]

theorem fieldGood (fs : List (Bytes × Val)) (fts : List (Bytes × Ty)) (hn : fs.map (·.1) = fts.map (·.1))
    (hv : ∀ y ∈ fts, validUtf8 y.1 = true) : ∀ x ∈ wireVals (fieldTerms fs), binKey.good x.1 = true := by
  intro x hx
  have : x.1 ∈ fts.map (·.1) := by
    rw [← hn, ← fieldTerms_names, ← wireVals_names]; exact List.mem_map_of_mem hx
  obtain ⟨y, hy, e⟩ := List.mem_map.mp this
  rw [← e]; exact hv y hy

theorem mem_wireVals (fs : List (Bytes × Val)) (f : Bytes × Val) (hf : f ∈ fs) :
    (f.1, wireT (ser f.2)) ∈ wireVals (fieldTerms fs) := by
  unfold wireVals fieldTerms
  rw [List.map_map]
  exact List.mem_map.mpr ⟨f, hf, rfl⟩

mutual
theorem deW : ∀ (ty : Ty) (v : Val), hasTy v ty = true → Ty.wf ty = true → plainWith id v = true →
    plainWith wireT v = true → wireSafe v = true → de ty (wireT (ser v)) = .ok v
  | .int k, v, h, _, _, _, hs => by
    cases v <;> simp [hasTy] at h
    obtain ⟨rfl, h2⟩ := h
    simp only [wireSafe] at hs
    simp only [ser, de]
    exact deInt_wire _ _ h2 hs
  | .f32, v, h, _, hp, _, _ => by
    cases v <;> simp [hasTy] at h
    simp only [plainWith, Bool.not_eq_true'] at hp
    simp [ser, wireT, de, f32_roundtrip _ h hp]
  | .f64, v, h, _, _, _, _ => by cases v <;> simp [hasTy] at h; simp [ser, wireT, de]
  | .bool, v, h, _, _, _, _ => by
    cases v with
    | bool b => cases b <;> simp [ser, wireT, de, sTrue, sFalse]
    | _ => simp [hasTy] at h
  | .char, v, h, _, _, _, hs => by cases v <;> simp [hasTy] at h; simp [wireSafe] at hs
  | .string, v, h, _, _, _, _ => by cases v <;> simp [hasTy] at h; simp [ser, wireT, de, deStr, h]
  | .bytes, v, h, _, _, _, _ => by cases v <;> simp [hasTy] at h; simp [ser, wireT, de]
  | .unit, v, h, _, _, _, _ => by cases v <;> simp [hasTy] at h; simp [ser, wireT, de]
  | .unitStruct n, v, h, _, _, _, _ => by cases v <;> simp [hasTy] at h; subst h; simp [ser, wireT, de]
  | .option t, v, h, hw, hp, hq, hs => by
    simp only [Ty.wf, Bool.and_eq_true, Bool.not_eq_true'] at hw
    cases v <;> simp [hasTy] at h
    · simp [ser, wireT, de, isUndef]
    · rename_i x
      simp only [plainWith] at hp hq
      simp only [wireSafe] at hs
      simp only [ser, de, isUndef_wireT, not_undef t x h hw.1, deW t x h hw.2 hp hq hs]
      simp
  | .newtype n t, v, h, hw, hp, hq, hs => by
    simp only [Ty.wf] at hw
    cases v <;> simp [hasTy] at h
    rename_i n' x
    obtain ⟨rfl, h2⟩ := h
    simp only [plainWith] at hp hq
    simp only [wireSafe] at hs
    simp only [ser, de, deW t x h2 hw hp hq hs]
  | .tuple ts, v, h, hw, hp, hq, hs => by
    simp only [Ty.wf] at hw
    cases v <;> simp [hasTy] at h
    simp only [plainWith] at hp hq
    simp only [wireSafe] at hs
    simp only [ser, wireT, de, deLW ts _ h hw hp hq hs]
  | .tupleStruct n ts, v, h, hw, hp, hq, hs => by
    simp only [Ty.wf] at hw
    cases v <;> simp [hasTy] at h
    obtain ⟨rfl, h2⟩ := h
    simp only [plainWith] at hp hq
    simp only [wireSafe] at hs
    simp only [ser, wireT, de, deLW ts _ h2 hw hp hq hs]
  | .seq t, v, h, hw, hp, hq, hs => by
    simp only [Ty.wf] at hw
    cases v <;> simp [hasTy] at h
    rename_i vs
    simp only [plainWith, plainL_all, List.all_eq_true] at hp hq
    simp only [wireSafe, wireSafeL_all, List.all_eq_true] at hs
    cases vs with
    | nil => simp [ser, serL, wireT, de]
    | cons a r =>
      simp only [ser, serL, wireT, List.isEmpty_cons, Bool.false_eq_true, if_false, de]
      have e : wireL (ser a :: serL r) = (a :: r).map (fun v => wireT (ser v)) := by
        rw [wireL_eq_map, serL_eq_map]; simp [Function.comp_def]
      rw [e, mapME_ok (de t) (fun v => wireT (ser v)) (a :: r)
        (fun b hb => deW t b (h b hb) hw (hp b hb) (hq b hb) (hs b hb))]
  | .map kt vt, v, h, hw, hp, hq, hs => by
    simp only [Ty.wf, Bool.and_eq_true] at hw
    cases v <;> simp [hasTy] at h
    rename_i l
    simp only [plainWith, Bool.and_eq_true, plainKV_all, List.all_eq_true] at hp hq
    simp only [wireSafe, wireSafeKV_all, List.all_eq_true, Bool.and_eq_true] at hs
    have hasc : insertAll (serKV l) = serKV l := insertAll_asc _ (by rw [← keysOf_eq]; exact hp.2)
    have hasc2 : insertAll (wireKV (serKV l)) = wireKV (serKV l) := by
      apply insertAll_asc
      have := hq.2
      rw [ascending_map, keysOf_eq] at this
      simpa [wireKV_eq_map, Function.comp_def] using this
    simp only [ser, wireT, de]
    rw [hasc, hasc2, wireKV_eq_map, serKV_eq_map, List.map_map]
    rw [mapME_ok _ ((fun kv : Term × Term => (wireT kv.1, wireT kv.2)) ∘ fun kv : Val × Val => (ser kv.1, ser kv.2)) l]
    intro kv hkv
    have h1 := h kv.1 kv.2 hkv
    have h2 := hp.1 kv hkv
    have h3 := hq.1 kv hkv
    have h4 := hs kv hkv
    simp only [Function.comp, deW kt kv.1 h1.1 hw.1 h2.1 h3.1 h4.1, deW vt kv.2 h1.2 hw.2 h2.2 h3.2 h4.2]
  | .struct n fts, v, h, hw, hp, hq, hs => by
    simp only [Ty.wf, Bool.and_eq_true, List.all_eq_true] at hw
    cases v <;> simp [hasTy] at h
    rename_i n' fs
    obtain ⟨rfl, h2⟩ := h
    simp only [plainWith] at hp hq
    simp only [wireSafe] at hs
    have hn := hasTyF_names fs fts h2
    have hd : namesDistinct ((fieldTerms fs).map (·.1)) = true := by rw [fieldTerms_names, hn]; exact hw.1.1
    have km := keyed_perm binKey (wireVals (fieldTerms fs)) _ (wire_keyed binKey wireT_bin (fieldTerms fs) hd)
      (by rw [wireVals_names]; exact hd) (fieldGood fs fts hn hw.1.2)
    rw [← serFields_kvs] at km
    simp only [ser, wireT, de, km.2, Bool.not_true, Bool.false_eq_true, if_false]
    rw [deFieldsW fts fs _ h2 hw.2 hp hq hs]
    intro f hf
    exact km.1 (f.1, wireT (ser f.2)) (mem_wireVals fs f hf)
  | .exStruct md fts, v, h, hw, hp, hq, hs => by
    simp only [Ty.wf, Bool.and_eq_true, Bool.not_eq_true', List.contains_eq_mem, decide_eq_false_iff_not] at hw
    cases v <;> simp [hasTy] at h
    rename_i md' fs
    obtain ⟨rfl, h2⟩ := h
    simp only [plainWith] at hp hq
    simp only [wireSafe] at hs
    have hn := hasTyF_names fs fts h2
    have hd : namesDistinct (((sStructKey, Term.atom (sElixirDot ++ md')) :: fieldTerms fs).map (·.1)) = true := by
      simp only [List.map_cons, namesDistinct, fieldTerms_names, hn, Bool.and_eq_true, Bool.not_eq_true',
        List.contains_eq_mem, decide_eq_false_iff_not]
      exact ⟨hw.1.2, hw.1.1⟩
    have km := keyed_perm atomKey (wireVals ((sStructKey, Term.atom (sElixirDot ++ md')) :: fieldTerms fs)) _
      (wire_keyed atomKey wireT_atom _ hd) (by rw [wireVals_names]; exact hd) (fun _ _ => rfl)
    have e : kvs atomKey ((sStructKey, Term.atom (sElixirDot ++ md')) :: fieldTerms fs) =
        (Term.atom sStructKey, Term.atom (sElixirDot ++ md')) :: serAtomFields fs := by
      rw [serAtomFields_kvs]; rfl
    rw [e] at km
    have hs0 := km.1 (sStructKey, Term.atom (sElixirDot ++ md')) (by simp [wireVals, wireT])
    simp only [ser, wireT, de, km.2, hs0, Bool.not_true, Bool.false_eq_true, if_false]
    simp only [List.all_cons, List.all_nil, deStr, beq_self_eq_true, Bool.and_true, Bool.not_true,
      Bool.false_eq_true, if_false, atomKey]
    rw [deExFieldsW fts fs _ h2 hw.2 hp hq hs (fun n hn e => hw.1.2 (e ▸ hn))]
    intro f hf
    exact km.1 (f.1, wireT (ser f.2)) (by
      have := mem_wireVals fs f hf
      simp only [wireVals, List.map_cons, List.mem_cons] at this ⊢
      exact Or.inr this)
  | .enum en vs, v, h, hw, hp, hq, hs => by
    simp only [Ty.wf, Bool.and_eq_true] at hw
    cases v <;> simp [hasTy] at h
    rename_i en' vn p
    obtain ⟨rfl, h2⟩ := h
    simp only [plainWith] at hp hq
    simp only [wireSafe] at hs
    simp only [ser]
    rw [de_enum_wire, deVariantW vs en' vn p h2 hw.2 hp hq hs]
theorem deLW : ∀ (ts : List Ty) (vs : List Val), hasTyL vs ts = true → wfL ts = true → plainL id vs = true →
    plainL wireT vs = true → wireSafeL vs = true → deL ts (wireL (serL vs)) = .ok vs
  | [], [], _, _, _, _, _ => by simp [serL, wireL, deL]
  | [], _ :: _, h, _, _, _, _ => by simp [hasTyL] at h
  | _ :: _, [], h, _, _, _, _ => by simp [hasTyL] at h
  | t :: ts, v :: vs, h, hw, hp, hq, hs => by
    simp only [hasTyL, Bool.and_eq_true] at h
    simp only [wfL, Bool.and_eq_true] at hw
    simp only [plainL, Bool.and_eq_true] at hp hq
    simp only [wireSafeL, Bool.and_eq_true] at hs
    simp only [serL, wireL, deL, deW t v h.1 hw.1 hp.1 hq.1 hs.1, deLW ts vs h.2 hw.2 hp.2 hq.2 hs.2]
theorem deFieldsW : ∀ (fts : List (Bytes × Ty)) (fs : List (Bytes × Val)) (m : List (Term × Term)),
    hasTyF fs fts = true → wfF fts = true → plainF id fs = true → plainF wireT fs = true → wireSafeF fs = true →
    (∀ f ∈ fs, m.filter (keyIs f.1) = [(Term.bin f.1, wireT (ser f.2))]) → deFields fts m = .ok fs
  | [], [], _, _, _, _, _, _, _ => by simp [deFields]
  | [], _ :: _, _, h, _, _, _, _, _ => by simp [hasTyF] at h
  | _ :: _, [], _, h, _, _, _, _, _ => by simp [hasTyF] at h
  | (n, t) :: fts, (n', v) :: fs, m, h, hw, hp, hq, hs, hm => by
    simp only [hasTyF, Bool.and_eq_true, beq_iff_eq] at h
    obtain ⟨⟨rfl, h1⟩, h2⟩ := h
    simp only [wfF, Bool.and_eq_true] at hw
    simp only [plainF, Bool.and_eq_true] at hp hq
    simp only [wireSafeF, Bool.and_eq_true] at hs
    have e := hm (n', v) (by simp)
    simp only at e
    simp only [deFields, e, deW t v h1 hw.1 hp.1 hq.1 hs.1,
      deFieldsW fts fs m h2 hw.2 hp.2 hq.2 hs.2 (fun f hf => hm f (by simp [hf]))]
theorem deExFieldsW : ∀ (fts : List (Bytes × Ty)) (fs : List (Bytes × Val)) (m : List (Term × Term)),
    hasTyF fs fts = true → wfF fts = true → plainF id fs = true → plainF wireT fs = true → wireSafeF fs = true →
    (∀ n ∈ fts.map (·.1), n ≠ sStructKey) →
    (∀ f ∈ fs, m.filter (keyIs f.1) = [(Term.atom f.1, wireT (ser f.2))]) → deExFields fts m = .ok fs
  | [], [], _, _, _, _, _, _, _, _ => by simp [deExFields]
  | [], _ :: _, _, h, _, _, _, _, _, _ => by simp [hasTyF] at h
  | _ :: _, [], _, h, _, _, _, _, _, _ => by simp [hasTyF] at h
  | (n, t) :: fts, (n', v) :: fs, m, h, hw, hp, hq, hs, hk, hm => by
    simp only [hasTyF, Bool.and_eq_true, beq_iff_eq] at h
    obtain ⟨⟨rfl, h1⟩, h2⟩ := h
    simp only [wfF, Bool.and_eq_true] at hw
    simp only [plainF, Bool.and_eq_true] at hp hq
    simp only [wireSafeF, Bool.and_eq_true] at hs
    have e := hm (n', v) (by simp)
    simp only at e
    have hne : n' ≠ sStructKey := hk n' (by simp)
    simp only [deExFields, hne, if_false, e, mapME, deW t v h1 hw.1 hp.1 hq.1 hs.1, List.getLast?_singleton,
      deExFieldsW fts fs m h2 hw.2 hp.2 hq.2 hs.2 (fun x hx => hk x (by simp at hx ⊢; exact Or.inr hx))
        (fun f hf => hm f (by simp [hf]))]
theorem deVariantW : ∀ (vs : List (Bytes × Ty)) (en vn : Bytes) (p : Val),
    hasTyV vn p vs = true → wfV vs = true → plainWith id p = true → plainWith wireT p = true → wireSafe p = true →
    deVariant en vn vs (wireL (restOf p)) = .ok (.variant en vn p)
  | [], _, _, _, h, _, _, _, _ => by simp [hasTyV] at h
  | (n, sh) :: vs, en, vn, p, h, hw, hp, hq, hs => by
    simp only [wfV, Bool.and_eq_true] at hw
    by_cases hn : n = vn
    · subst hn
      simp only [hasTyV, if_true] at h
      simp only [deVariant, if_true]
      cases sh with
      | unit => cases p <;> simp [hasTyP] at h; simp [deShape, restOf, wireL]
      | newtype nm t =>
        cases p <;> simp [hasTyP] at h
        rename_i n' x
        obtain ⟨rfl, h2⟩ := h
        simp only [plainWith] at hp hq
        simp only [wireSafe] at hs
        simp only [wfShape] at hw
        simp only [deShape, restOf, wireL, deW t x h2 hw.1 hp hq hs]
      | tuple ts =>
        cases p <;> simp [hasTyP] at h
        rename_i xs
        simp only [plainWith] at hp hq
        simp only [wireSafe] at hs
        simp only [wfShape] at hw
        simp only [deShape, restOf, deLW ts xs h hw.1 hp hq hs]
      | struct nm fts =>
        cases p <;> simp [hasTyP] at h
        rename_i n' fs
        obtain ⟨rfl, h2⟩ := h
        simp only [plainWith] at hp hq
        simp only [wireSafe] at hs
        simp only [wfShape, Bool.and_eq_true, List.all_eq_true] at hw
        have hn := hasTyF_names fs fts h2
        have hd : namesDistinct ((fieldTerms fs).map (·.1)) = true := by
          rw [fieldTerms_names, hn]; exact hw.1.1.1
        have km := keyed_perm binKey (wireVals (fieldTerms fs)) _ (wire_keyed binKey wireT_bin (fieldTerms fs) hd)
          (by rw [wireVals_names]; exact hd) (fieldGood fs fts hn hw.1.1.2)
        rw [← serFields_kvs] at km
        simp only [deShape, restOf, wireL, wireT, km.2, Bool.not_true, Bool.false_eq_true, if_false]
        rw [deFieldsW fts fs _ h2 hw.1.2 hp hq hs]
        intro f hf
        exact km.1 (f.1, wireT (ser f.2)) (mem_wireVals fs f hf)
      | _ => cases p <;> simp [hasTyP] at h
    · simp only [hasTyV, hn, if_false] at h
      simp only [deVariant, hn, if_false]
      exact deVariantW vs en vn p h hw.2 hp hq hs
end

end Edp.Serde
