//! C04, socket level: `Connection::connect` against the scripted EPMD + peer (H1), the happy path and one deviation per
//! protocol step. Compared with the model's prediction of result class and final state; the peer-side byte log is
//! checked against the Spec layouts by the Lean driver.
use crate::canon::hex;
use crate::peer::*;
use crate::Ctx;
use edp_client::{Connection, ConnectionConfig};
use std::time::Duration;

pub fn run(ctx: &mut Ctx) {
    let rt = tokio::runtime::Builder::new_current_thread().enable_all().build().unwrap();
    rt.block_on(async {
        let epmd = FakeEpmd::start().await;
        let devs = vec![
            Deviation::None,
            Deviation::Status("nok".into()),
            Deviation::Status("not_allowed".into()),
            Deviation::Status("alive".into()),
            Deviation::Status("ok_simultaneous".into()),
            Deviation::WrongAckDigest,
            Deviation::AckForWrongChallenge,
            Deviation::WrongStatusTag,
            Deviation::WrongChallengeTag,
            Deviation::WrongAckTag,
            Deviation::TruncatedChallenge,
            Deviation::TruncatedAck,
            Deviation::OversizedLength,
            Deviation::AckBeforeChallenge,
            Deviation::CloseAfterName,
            Deviation::CloseAfterStatus,
            Deviation::CloseAfterChallenge,
            Deviation::SilenceAfterName,
            Deviation::SilenceAfterChallenge,
        ];
        let cookies = ["secret", "", "kéks-üñí", "a-very-long-cookie-0123456789012345678901234567890123456789"];
        let mut case = 0;
        for dev in &devs {
            for (ci, cookie) in cookies.iter().enumerate() {
                if *dev != Deviation::None && ci > 0 && !ctx.thorough {
                    continue;
                }
                case += 1;
                let short = format!("peer{}", case);
                let listener = listen_as(&epmd, &short).await;
                let mut pcfg = PeerCfg::new(&format!("{}@127.0.0.1", short), cookie);
                pcfg.deviation = dev.clone();
                pcfg.challenge = ctx.rng.next() as u32;
                if ctx.rng.chance(1, 2) {
                    pcfg.flags = ctx.rng.next() | 0x0000_000d_0000_0000 | 0x7df_5fbd;
                }
                let pc = pcfg.clone();
                let peer = tokio::spawn(async move { accept_and_handshake(&listener, &pc).await.map(|p| p.hs) });
                let cfg = ConnectionConfig::new(format!("cli{}@127.0.0.1", case), format!("{}@127.0.0.1", short), cookie.to_string())
                    .with_timeout(Duration::from_millis(400));
                let mut conn = Connection::new(cfg);
                let t0 = std::time::Instant::now();
                let res = conn.connect().await;
                let elapsed = t0.elapsed();
                let hs = tokio::time::timeout(Duration::from_secs(5), peer).await.ok().and_then(|r| r.ok()).flatten();
                let connected = conn.state().as_str().to_lowercase() == "connected" && res.is_ok();
                let expect_ok = matches!(dev, Deviation::None) || matches!(dev, Deviation::Status(s) if s == "ok_simultaneous");
                ctx.count(&format!("dev_{:?}", dev).replace(' ', "").chars().take(40).collect::<String>());
                let text = format!("dev={:?} cookie={} result_ok={} state={} elapsed_ms={}", dev, hex(cookie.as_bytes()), res.is_ok(), conn.state().as_str(), elapsed.as_millis());
                if connected != expect_ok {
                    ctx.fail(if expect_ok { "c04net-good-peer-rejected" } else { "c04net-connected-without-proof" }, &text);
                }
                if !expect_ok && elapsed > Duration::from_millis(400 * 8) {
                    ctx.fail("c04net-not-within-timeout", &text);
                }
                if let Some(hs) = hs {
                    // layouts of what this side emitted, and the digest it sent, judged by the Lean Spec
                    if !hs.send_name.is_empty() {
                        ctx.prop("gen", &format!("c04netname {} {}", hex(&hs.send_name), hex(format!("cli{}@127.0.0.1", case).as_bytes())), "ok");
                    }
                    if hs.reply.len() == 21 {
                        ctx.prop("gen", &format!("c04netreply {} {} {}", hex(&hs.reply), if cookie.is_empty() { "-".to_string() } else { hex(cookie.as_bytes()) }, pcfg.challenge), "ok");
                    }
                    if expect_ok {
                        if let Some(f) = conn.negotiated_flags() {
                            let ours = edp_client::flags::DistributionFlags::default_hidden();
                            let _ = ours;
                            ctx.count("negotiated_flags_seen");
                            if f.as_u64() & !pcfg.flags != 0 {
                                ctx.fail("c04net-flags-not-intersection", &format!("{} negotiated={:#x} peer={:#x}", text, f.as_u64(), pcfg.flags));
                            }
                        }
                    }
                }
            }
        }
        epmd_cases(ctx).await;
        connect_cases(ctx).await;
        // later domains of this process (none today) expect the shared stand-in again
        edp_client::verif_hooks::set_epmd_port(epmd.port);
    });
}

// ---------------------------------------------------------------------------------------------------------------------
// EPMD client (`epmd_client.rs`): PORT_PLEASE2_REQ / PORT2_RESP and ALIVE2_REQ / ALIVE2_RESP / ALIVE2_X_RESP against a
// scripted EPMD that sends exactly the bytes of the case and then closes or stays silent. Tied to `Impl/Epmd.lean`.
// ---------------------------------------------------------------------------------------------------------------------
use crate::canon::hexarg;
use edp_client::epmd_client::{EpmdClient, NodeInfo, NodeType};
use edp_client::Error;
use tokio::io::{AsyncReadExt, AsyncWriteExt};
use tokio::net::TcpListener;

const EPMD_TIMEOUT_MS: u64 = 150;

/// accepts one connection, reads `want` request bytes (gives up after 400 ms), sends `reply`, then closes, or keeps the
/// socket open without another byte until the client has gone; returns the request bytes it saw
async fn scripted_epmd(reply: Vec<u8>, close: bool, want: usize) -> (u16, tokio::task::JoinHandle<Vec<u8>>) {
    let l = TcpListener::bind("127.0.0.1:0").await.unwrap();
    let port = l.local_addr().unwrap().port();
    let h = tokio::spawn(async move {
        let Ok((mut s, _)) = l.accept().await else { return vec![] };
        let _ = s.set_nodelay(true);
        let mut req = vec![0u8; want];
        let mut got = 0;
        let _ = tokio::time::timeout(Duration::from_millis(400), async {
            while got < want {
                match s.read(&mut req[got..]).await {
                    Ok(0) | Err(_) => break,
                    Ok(n) => got += n,
                }
            }
        })
        .await;
        req.truncate(got);
        let _ = s.write_all(&reply).await;
        let _ = s.flush().await;
        if !close {
            // silence: nothing more, socket open until the client gives up (it closes its end) or 3 s
            let mut sink = [0u8; 64];
            let _ = tokio::time::timeout(Duration::from_millis(3000), async {
                loop {
                    match s.read(&mut sink).await {
                        Ok(0) | Err(_) => break,
                        _ => {}
                    }
                }
            })
            .await;
        }
        req
    });
    (port, h)
}

fn epmd_eclass(e: &Error) -> String {
    match e {
        Error::Io(e) if e.kind() == std::io::ErrorKind::UnexpectedEof => "eof".into(),
        Error::Io(e) => format!("io-{:?}", e.kind()),
        Error::Timeout(_) => "timeout".into(),
        Error::EpmdLookup { .. } => "notfound".into(),
        Error::EpmdRegistration { reason } => format!("regerr-{}", reason.rsplit(' ').next().unwrap_or("")),
        Error::EpmdProtocol(m) => {
            let num = m.rsplit(": ").next().unwrap_or("").split(' ').next().unwrap_or("").to_string();
            if m.starts_with("Unknown node type") {
                format!("badtype-{}", num)
            } else if m.starts_with("Unknown protocol") {
                format!("badproto-{}", num)
            } else if m.starts_with("Node name too long") {
                format!("namelong-{}", num)
            } else if m.starts_with("Invalid UTF-8") {
                "badutf8".into()
            } else if m.starts_with("Extra data too long") {
                format!("extralong-{}", num)
            } else if m.starts_with("Unexpected response type") {
                format!("badresp-{}", num)
            } else if m.starts_with("Failed to connect") {
                "noepmd".into()
            } else {
                format!("proto-{}", m.replace(' ', "_"))
            }
        }
        _ => "other".into(),
    }
}

fn info_text(i: &NodeInfo) -> String {
    format!(
        "ok {} {} {} {} {} {} {}",
        i.port, i.node_type as u8, i.protocol as u8, i.highest_version, i.lowest_version, hexarg(i.node_name.as_bytes()), hexarg(&i.extra)
    )
}

fn port2_resp(port: u16, ty: u8, proto: u8, hi: u16, lo: u16, nlen: u16, name: &[u8], elen: u16, extra: &[u8]) -> Vec<u8> {
    let mut r = vec![119u8, 0];
    r.extend_from_slice(&port.to_be_bytes());
    r.push(ty);
    r.push(proto);
    r.extend_from_slice(&hi.to_be_bytes());
    r.extend_from_slice(&lo.to_be_bytes());
    r.extend_from_slice(&nlen.to_be_bytes());
    r.extend_from_slice(name);
    r.extend_from_slice(&elen.to_be_bytes());
    r.extend_from_slice(extra);
    r
}

/// one real `lookup_node` against the scripted EPMD
async fn lookup_case(ctx: &mut Ctx, tag: &str, name: &str, reply: Vec<u8>, close: bool) {
    let want = 3 + name.len();
    // an EPMD that answers and closes never makes the client wait: a timeout then is the loaded machine's (the scripted
    // server's task ran late), not the script's, and the case is run again (three attempts) before its result is taken
    let mut attempt = 0;
    let (res, elapsed, req) = loop {
    attempt += 1;
    let (port, srv) = scripted_epmd(reply.clone(), close, want).await;
    let client = EpmdClient::with_port("127.0.0.1", port).with_timeout(Duration::from_millis(EPMD_TIMEOUT_MS));
    let n2 = name.to_string();
    let t0 = std::time::Instant::now();
    let call = tokio::spawn(async move { client.lookup_node(&n2).await });
    let res = match tokio::time::timeout(Duration::from_millis(2500), call).await {
        Err(_) => "hang".to_string(),
        Ok(Err(j)) => if j.is_panic() { "panic".to_string() } else { "cancelled".to_string() },
        Ok(Ok(Ok(i))) => info_text(&i),
        Ok(Ok(Err(e))) => format!("err {}", epmd_eclass(&e)),
    };
    let elapsed = t0.elapsed();
    let req = tokio::time::timeout(Duration::from_millis(3500), srv).await.ok().and_then(|r| r.ok()).unwrap_or_default();
    if close && res.contains("timeout") && attempt < 3 {
        ctx.count("epmd_case_retried_after_unscripted_timeout");
        continue;
    }
    break (res, elapsed, req);
    };
    ctx.count(&format!("epmd_lookup_{}", res.split(' ').take(2).collect::<Vec<_>>().join("_").chars().take(28).collect::<String>()));
    let reqtxt = if res == "panic" { "-".to_string() } else if req.len() > 600 { format!("len{}fnv{}", req.len(), fnv(&req)) } else { hexarg(&req) };
    ctx.tie(tag, &format!("c04epmd_lookup {} {} {}", name_arg(name), hexarg(&reply), if close { "close" } else { "open" }), &format!("req={} {}", reqtxt, res));
    // the property on the implementation: an incomplete or silent EPMD ends in an error within the configured timeout
    if res == "hang" || elapsed > Duration::from_millis(EPMD_TIMEOUT_MS * 16) {
        ctx.fail("c04-epmd-not-within-timeout", &format!("lookup_node name={} reply={} {} took {} ms (configured {} ms): {}", name_arg(name), hexarg(&reply), if close { "close" } else { "open" }, elapsed.as_millis(), EPMD_TIMEOUT_MS, res));
    }
    if res == "panic" && name.len() <= 255 {
        ctx.fail("c04-epmd-panic", &format!("lookup_node name={} reply={}", name_arg(name), hexarg(&reply)));
    }
    // judged by the Spec: `ok` only for a reply that is a well-formed PORT2_RESP, and then exactly its fields
    if name.len() <= 255 {
        ctx.count("epmd_lookup_judged");
    }
    if name.len() <= 255 || res != "panic" {
    ctx.prop("epmd", &format!("c04p_epmd_lookup {} {} {}", hexarg(&reply), if close { "close" } else { "open" }, res.replace(' ', ",")), "ok");
    }
}

fn fnv(b: &[u8]) -> u32 {
    let mut h: u32 = 2166136261;
    for x in b {
        h ^= *x as u32;
        h = h.wrapping_mul(16777619);
    }
    h
}

/// long names are passed as `rep<len>` (the byte 'n' repeated)
fn name_arg(name: &str) -> String {
    if name.len() > 300 { format!("rep{}", name.len()) } else { hexarg(name.as_bytes()) }
}

async fn register_case(ctx: &mut Ctx, port_arg: u16, name: &str, ty: NodeType, hi: u16, lo: u16, extra: &[u8], reply: Vec<u8>, close: bool) {
    let want = 2 + 13 + name.len() + extra.len();
    let (port, srv) = scripted_epmd(reply.clone(), close, want).await;
    let client = EpmdClient::with_port("127.0.0.1", port).with_timeout(Duration::from_millis(EPMD_TIMEOUT_MS));
    let (n2, e2) = (name.to_string(), extra.to_vec());
    let t0 = std::time::Instant::now();
    let call = tokio::spawn(async move { client.register_node(port_arg, &n2, ty, hi, lo, &e2).await });
    let res = match tokio::time::timeout(Duration::from_millis(2500), call).await {
        Err(_) => "hang".to_string(),
        Ok(Err(j)) => if j.is_panic() { "panic".to_string() } else { "cancelled".to_string() },
        Ok(Ok(Ok(c))) => format!("ok {}", c),
        Ok(Ok(Err(e))) => format!("err {}", epmd_eclass(&e)),
    };
    let elapsed = t0.elapsed();
    let req = tokio::time::timeout(Duration::from_millis(3500), srv).await.ok().and_then(|r| r.ok()).unwrap_or_default();
    ctx.count(&format!("epmd_register_{}", res.split(' ').next().unwrap_or("")));
    let reqtxt = if req.len() > 600 { format!("len{}fnv{}", req.len(), fnv(&req)) } else { hexarg(&req) };
    let extra_arg = if extra.len() > 300 { format!("rep{}", extra.len()) } else { hexarg(extra) };
    ctx.tie(
        "epmd-register",
        &format!("c04epmd_register {} {} {} {} {} {} {} {}", port_arg, name_arg(name), ty as u8, hi, lo, extra_arg, hexarg(&reply), if close { "close" } else { "open" }),
        &format!("req={} {}", reqtxt, res),
    );
    if res == "hang" || elapsed > Duration::from_millis(EPMD_TIMEOUT_MS * 16) {
        ctx.fail("c04-epmd-not-within-timeout", &format!("register_node name={} reply={} {} took {} ms: {}", name_arg(name), hexarg(&reply), if close { "close" } else { "open" }, elapsed.as_millis(), res));
    }
}

async fn epmd_cases(ctx: &mut Ctx) {
    // a well-formed reply and every prefix of it, followed by a close
    let full = port2_resp(4370, 77, 0, 6, 5, 3, b"abc", 2, &[9, 8]);
    lookup_case(ctx, "epmd-lookup", "abc", full.clone(), true).await;
    for n in 0..full.len() {
        lookup_case(ctx, "epmd-truncated", "abc", full[..n].to_vec(), true).await;
    }
    // silence (socket stays open) after a part of the reply: every field boundary
    for n in [0usize, 1, 2, 4, 6, 10, 12, 14, 16] {
        lookup_case(ctx, "epmd-silent", "abc", full[..n].to_vec(), false).await;
    }
    lookup_case(ctx, "epmd-lookup", "abc", full.clone(), false).await;
    // trailing bytes after a complete reply are not read
    lookup_case(ctx, "epmd-lookup", "abc", [full.clone(), vec![1, 2, 3]].concat(), true).await;
    // result byte, response tag, node type, protocol: every interesting value
    for r in [1u8, 2, 255] {
        lookup_case(ctx, "epmd-lookup", "abc", vec![119, r], true).await;
        lookup_case(ctx, "epmd-lookup", "abc", vec![119, r], false).await;
    }
    for t in [0u8, 118, 120, 121, 122, 255] {
        lookup_case(ctx, "epmd-lookup", "abc", [vec![t], full[1..].to_vec()].concat(), true).await;
    }
    for ty in [72u8, 104, 77, 0, 78, 73, 255] {
        lookup_case(ctx, "epmd-lookup", "abc", port2_resp(1, ty, 0, 6, 5, 1, b"x", 0, &[]), true).await;
    }
    for pr in [1u8, 255] {
        lookup_case(ctx, "epmd-lookup", "abc", port2_resp(1, 77, pr, 6, 5, 1, b"x", 0, &[]), true).await;
    }
    // name length field: 0, 255 (largest accepted), 256, 65535 (refused before any buffer); declared longer than sent
    let n255 = vec![b'n'; 255];
    lookup_case(ctx, "epmd-lookup", "abc", port2_resp(65535, 72, 0, 65535, 0, 0, b"", 0, &[]), true).await;
    lookup_case(ctx, "epmd-lookup", "abc", port2_resp(0, 77, 0, 6, 5, 255, &n255, 0, &[]), true).await;
    lookup_case(ctx, "epmd-lookup", "abc", port2_resp(0, 77, 0, 6, 5, 256, &vec![b'n'; 256], 0, &[]), true).await;
    lookup_case(ctx, "epmd-lookup", "abc", port2_resp(0, 77, 0, 6, 5, 65535, b"abc", 0, &[]), false).await;
    lookup_case(ctx, "epmd-lookup", "abc", port2_resp(0, 77, 0, 6, 5, 200, b"abc", 0, &[]), true).await;
    lookup_case(ctx, "epmd-lookup", "abc", port2_resp(0, 77, 0, 6, 5, 200, b"abc", 0, &[]), false).await;
    // names that are not UTF-8, and multi-byte ones
    lookup_case(ctx, "epmd-lookup", "abc", port2_resp(7, 77, 0, 6, 5, 2, &[0xc3, 0x28], 0, &[]), true).await;
    lookup_case(ctx, "epmd-lookup", "abc", port2_resp(7, 77, 0, 6, 5, 1, &[0xff], 0, &[]), true).await;
    lookup_case(ctx, "epmd-lookup", "abc", port2_resp(7, 77, 0, 6, 5, 6, "é€x".as_bytes(), 0, &[]), true).await;
    // extra length field: 4096 (largest accepted), 4097, 65535; declared longer than sent
    lookup_case(ctx, "epmd-lookup", "abc", port2_resp(7, 77, 0, 6, 5, 1, b"x", 4096, &vec![7u8; 4096]), true).await;
    lookup_case(ctx, "epmd-lookup", "abc", port2_resp(7, 77, 0, 6, 5, 1, b"x", 4097, &vec![7u8; 4097]), true).await;
    lookup_case(ctx, "epmd-lookup", "abc", port2_resp(7, 77, 0, 6, 5, 1, b"x", 65535, &[1, 2]), false).await;
    lookup_case(ctx, "epmd-lookup", "abc", port2_resp(7, 77, 0, 6, 5, 1, b"x", 4096, &[1, 2]), true).await;
    lookup_case(ctx, "epmd-lookup", "abc", port2_resp(7, 77, 0, 6, 5, 1, b"x", 4096, &[1, 2]), false).await;
    // requested names: the request this side writes (1..255 bytes on the connect path; the public call takes any length)
    let small = port2_resp(9, 77, 0, 6, 5, 1, b"y", 0, &[]);
    for name in ["", "a", "näme-ü", &"n".repeat(255), &"n".repeat(256), &"n".repeat(65534), &"n".repeat(65535), &"n".repeat(65536), &"n".repeat(65540)] {
        lookup_case(ctx, "epmd-request", name, small.clone(), true).await;
    }
    // random replies: random fields, random cut, random junk
    for _ in 0..ctx.n(60, 600) {
        let nlen = *ctx.rng.pick(&[0u16, 1, 2, 5, 254, 255, 256, 300]);
        let elen = *ctx.rng.pick(&[0u16, 1, 3, 4095, 4096, 4097]);
        let name: Vec<u8> = (0..nlen).map(|_| if ctx.rng.chance(1, 40) { 0xfe } else { b'a' + ctx.rng.below(26) as u8 }).collect();
        let extra = ctx.rng.bytes(elen as usize);
        let ty = *ctx.rng.pick(&[77u8, 72, 104, 77, 77, 3]);
        let pr = if ctx.rng.chance(1, 12) { ctx.rng.next() as u8 } else { 0 };
        let mut r = port2_resp(ctx.rng.next() as u16, ty, pr, ctx.rng.next() as u16, ctx.rng.next() as u16, nlen, &name, elen, &extra);
        if ctx.rng.chance(1, 10) {
            r[1] = ctx.rng.next() as u8;
        }
        if ctx.rng.chance(1, 10) {
            r[0] = ctx.rng.next() as u8;
        }
        let mut close = true;
        if ctx.rng.chance(1, 3) {
            let cut = ctx.rng.below(r.len() as u64 + 1) as usize;
            r.truncate(cut);
            close = !ctx.rng.chance(1, 8);
        }
        lookup_case(ctx, "epmd-random", "abc", r, close).await;
    }
    // ALIVE2_REQ and its two replies
    let ok16 = vec![121u8, 0, 0x12, 0x34];
    let ok32 = vec![118u8, 0, 0x12, 0x34, 0x56, 0x78];
    for (reply, close) in [
        (ok16.clone(), true), (ok32.clone(), true), (ok16.clone(), false), (ok32.clone(), false),
        (vec![121, 1, 0, 0], true), (vec![118, 255, 0, 0, 0, 0], true), (vec![119, 0, 0, 0], true), (vec![0], true),
        (vec![], true), (vec![], false), (vec![121], true), (vec![121], false), (vec![121, 0], true), (vec![121, 0, 1], true), (vec![121, 0, 1], false),
        (vec![118, 0, 1, 2, 3], true), (vec![118, 0, 1, 2, 3], false), (vec![118, 0, 0xff, 0xff, 0xff, 0xff, 9], true),
    ] {
        register_case(ctx, 40000, "abc", NodeType::Hidden, 6, 5, &[], reply, close).await;
    }
    for (p, name, ty, hi, lo, extra) in [
        (0u16, "", NodeType::Normal, 0u16, 0u16, vec![]),
        (65535, "näme", NodeType::R3Hidden, 65535, 65535, vec![1, 2, 3]),
        (1, &*"n".repeat(255), NodeType::Normal, 6, 5, vec![0u8; 10]),
        (1, &*"n".repeat(65522), NodeType::Normal, 6, 5, vec![]),
        (1, &*"n".repeat(65523), NodeType::Normal, 6, 5, vec![]),
        (1, &*"n".repeat(65536), NodeType::Normal, 6, 5, vec![]),
        (1, "x", NodeType::Normal, 6, 5, vec![5u8; 65536]),
    ] {
        register_case(ctx, p, name, ty, hi, lo, &extra, ok32.clone(), true).await;
    }
    // nobody listens on the EPMD port
    {
        let l = TcpListener::bind("127.0.0.1:0").await.unwrap();
        let port = l.local_addr().unwrap().port();
        drop(l);
        let client = EpmdClient::with_port("127.0.0.1", port).with_timeout(Duration::from_millis(EPMD_TIMEOUT_MS));
        let r = client.lookup_node("abc").await;
        let txt = match r {
            Ok(i) => info_text(&i),
            Err(e) => format!("err {}", epmd_eclass(&e)),
        };
        ctx.tie("epmd-absent", "c04epmd_absent", &txt);
    }
}

// ---------------------------------------------------------------------------------------------------------------------
// `Connection::connect` as a sequence of transport steps: EPMD lookup, TCP connect, send_name, status, complement,
// challenge, reply, ack — each awaited under the configured timeout. A raw scripted peer plays one event per awaited
// read (a frame, a close, silence); result, final state, negotiated flags and every byte this side wrote are tied to
// `Impl/Connect.lean`.
// ---------------------------------------------------------------------------------------------------------------------
#[derive(Clone, Debug)]
enum Ev {
    /// a frame: 2-byte length and this body
    Frame(Vec<u8>),
    Close,
    Silent,
}

#[derive(Clone, Debug)]
enum AckEv {
    /// 'a' + MD5(cookie ++ decimal(the challenge in the client's reply))
    Good,
    /// the same with another cookie
    OtherCookie(String),
    /// digest of the peer's own challenge
    ForPeerChallenge,
    Ev(Ev),
}

fn ev_text(e: &Ev) -> String {
    match e {
        Ev::Frame(b) => format!("f{}", hexarg(b)),
        Ev::Close => "close".into(),
        Ev::Silent => "silent".into(),
    }
}

fn conn_eclass(e: &Error) -> String {
    match e {
        Error::Io(_) => "io".into(),
        Error::Timeout(_) => "timeout".into(),
        Error::InvalidNodeName(_) => "e-nodename".into(),
        Error::InvalidStateTransition { .. } | Error::InvalidStateMessage(_) | Error::InvalidState { .. } => "e-state".into(),
        Error::NodeNameTooLong { .. } => "e-name".into(),
        Error::InvalidHandshakeMessage(_) => "e-malformed".into(),
        Error::ConnectionRefused { .. } => "e-refused".into(),
        Error::AuthenticationFailed => "e-auth".into(),
        Error::EpmdLookup { .. } | Error::EpmdProtocol(_) | Error::EpmdRegistration { .. } => format!("epmd-{}", epmd_eclass(e)),
        _ => "e-other".into(),
    }
}

struct ConnCase {
    local: String,
    remote: String,
    cookie: String,
    /// `None`: a well-formed PORT2_RESP naming the raw peer's port
    epmd_reply: Option<(Vec<u8>, bool)>,
    /// false: the port EPMD names has no listener
    tcp_listens: bool,
    status: Ev,
    chal: Ev,
    ack: AckEv,
    peer_challenge: u32,
}

const CONN_TIMEOUT_MS: u64 = 150;

async fn read_frame_raw(s: &mut tokio::net::TcpStream, log: &mut Vec<u8>) -> Option<Vec<u8>> {
    let mut l = [0u8; 2];
    s.read_exact(&mut l).await.ok()?;
    log.extend_from_slice(&l);
    let mut b = vec![0u8; u16::from_be_bytes(l) as usize];
    s.read_exact(&mut b).await.ok()?;
    log.extend_from_slice(&b);
    Some(b)
}

async fn write_frame_raw(s: &mut tokio::net::TcpStream, body: &[u8]) {
    let mut v = (body.len() as u16).to_be_bytes().to_vec();
    v.extend_from_slice(body);
    let _ = s.write_all(&v).await;
    let _ = s.flush().await;
}

async fn hold_open(s: &mut tokio::net::TcpStream, log: &mut Vec<u8>) {
    let mut sink = [0u8; 512];
    let _ = tokio::time::timeout(Duration::from_millis(3000), async {
        loop {
            match s.read(&mut sink).await {
                Ok(0) | Err(_) => break,
                Ok(n) => log.extend_from_slice(&sink[..n]),
            }
        }
    })
    .await;
}

/// the raw peer: returns (every byte received, the ack frame it sent if any)
async fn raw_peer(l: TcpListener, status: Ev, chal: Ev, ack: AckEv, cookie: String, peer_challenge: u32, done: tokio::sync::oneshot::Receiver<()>) -> (Vec<u8>, Option<Vec<u8>>) {
    let mut log = vec![];
    let mut s = tokio::select! {
        r = l.accept() => match r { Ok((s, _)) => s, Err(_) => return (log, None) },
        _ = done => return (log, None),
    };
    let _ = s.set_nodelay(true);
    if read_frame_raw(&mut s, &mut log).await.is_none() {
        return (log, None);
    }
    let accepting = matches!(&status, Ev::Frame(b) if b == b"sok" || b == b"sok_simultaneous");
    for (idx, ev) in [status, chal].into_iter().enumerate() {
        // after an accepting status the client sends its complement before it awaits the challenge: take it in first, so
        // that a close at this point is an orderly end of stream and the log is complete whatever the scheduling
        if idx == 1 && accepting && !matches!(ev, Ev::Frame(_)) {
            let _ = tokio::time::timeout(Duration::from_millis(1500), read_frame_raw(&mut s, &mut log)).await;
        }
        match ev {
            Ev::Frame(b) => write_frame_raw(&mut s, &b).await,
            Ev::Close => {
                // read what is in flight first so that the close is an orderly end of stream, not a reset
                let mut sink = [0u8; 512];
                while let Ok(Ok(n)) = tokio::time::timeout(Duration::from_millis(30), s.read(&mut sink)).await {
                    if n == 0 {
                        break;
                    }
                    log.extend_from_slice(&sink[..n]);
                }
                return (log, None);
            }
            Ev::Silent => {
                hold_open(&mut s, &mut log).await;
                return (log, None);
            }
        }
    }
    // complement, then the reply (whatever the client sends until it stops)
    let mut reply = None;
    for _ in 0..2 {
        match tokio::time::timeout(Duration::from_millis(600), read_frame_raw(&mut s, &mut log)).await {
            Ok(Some(m)) => {
                if m.first() == Some(&b'r') {
                    reply = Some(m);
                    break;
                }
            }
            _ => break,
        }
    }
    let Some(reply) = reply else { return (log, None) };
    let cc = if reply.len() >= 5 { u32::from_be_bytes([reply[1], reply[2], reply[3], reply[4]]) } else { 0 };
    let frame = match ack {
        AckEv::Good => Ev::Frame([vec![b'a'], digest(&cookie, cc).to_vec()].concat()),
        AckEv::OtherCookie(c) => Ev::Frame([vec![b'a'], digest(&c, cc).to_vec()].concat()),
        AckEv::ForPeerChallenge => Ev::Frame([vec![b'a'], digest(&cookie, peer_challenge).to_vec()].concat()),
        AckEv::Ev(e) => e,
    };
    match frame {
        Ev::Frame(b) => {
            write_frame_raw(&mut s, &b).await;
            hold_open(&mut s, &mut log).await;
            (log, Some(b))
        }
        Ev::Close => (log, None),
        Ev::Silent => {
            hold_open(&mut s, &mut log).await;
            (log, None)
        }
    }
}

async fn connect_case(ctx: &mut Ctx, tag: &str, c: ConnCase) {
    // The connection's per-step timeout is real time (CONN_TIMEOUT_MS). On a loaded machine the scripted peer's task may be
    // scheduled later than that, and the client then reports a timeout the script never asked for. A timeout is part of the
    // script only when one of its events is a silence (or EPMD keeps its socket open); any other timeout is the machine's, and
    // the case is run again (three attempts) before its result is taken: a change that times out where it must not does so
    // on every attempt.
    let scripted_silence = matches!(c.status, Ev::Silent) || matches!(c.chal, Ev::Silent) || matches!(c.ack, AckEv::Ev(Ev::Silent))
        || matches!(&c.epmd_reply, Some((_, false)));
    let mut attempt = 0;
    let (reply, close, flags, creation, res, elapsed, state, neg, written, ack_sent) = loop {
    attempt += 1;
    let l = TcpListener::bind("127.0.0.1:0").await.unwrap();
    let peer_port = l.local_addr().unwrap().port();
    let node = c.remote.split('@').next().unwrap_or("").to_string();
    let (reply, close) = match &c.epmd_reply {
        Some((r, cl)) => (r.clone(), *cl),
        None => (port2_resp(peer_port, 77, 0, 6, 5, node.len() as u16, node.as_bytes(), 0, &[]), true),
    };
    let (eport, esrv) = scripted_epmd(reply.clone(), close, 3 + node.len()).await;
    edp_client::verif_hooks::set_epmd_port(eport);
    let (done_tx, done_rx) = tokio::sync::oneshot::channel::<()>();
    let peer = if c.tcp_listens {
        Some(tokio::spawn(raw_peer(l, c.status.clone(), c.chal.clone(), c.ack.clone(), c.cookie.clone(), c.peer_challenge, done_rx)))
    } else {
        drop(l);
        None
    };
    let cfg = ConnectionConfig::new(c.local.clone(), c.remote.clone(), c.cookie.clone()).with_timeout(Duration::from_millis(CONN_TIMEOUT_MS));
    let flags = cfg.flags.as_u64();
    let creation = cfg.creation.value();
    let mut conn = Connection::new(cfg);
    let t0 = std::time::Instant::now();
    let res = tokio::time::timeout(Duration::from_millis(4000), conn.connect()).await;
    let elapsed = t0.elapsed();
    let state = conn.state().as_str().to_lowercase();
    let neg = conn.negotiated_flags().map(|f| f.as_u64().to_string()).unwrap_or("-".into());
    drop(conn);
    let _ = done_tx.send(());
    esrv.abort();
    let (written, ack_sent) = match peer {
        Some(p) => tokio::time::timeout(Duration::from_millis(4000), p).await.ok().and_then(|r| r.ok()).unwrap_or_default(),
        None => (vec![], None),
    };
    let timed_out = matches!(&res, Ok(Err(e)) if conn_eclass(e) == "timeout");
    if timed_out && !scripted_silence && attempt < 3 {
        ctx.count("connect_case_retried_after_unscripted_timeout");
        continue;
    }
    break (reply, close, flags, creation, res, elapsed, state, neg, written, ack_sent);
    };
    let restxt = match &res {
        Err(_) => "hang".to_string(),
        Ok(Ok(())) => "ok".to_string(),
        Ok(Err(e)) => format!("err-{}", conn_eclass(e)),
    };
    // the client's own challenge, as its reply shows it (the last 21-byte 'r' frame in what it wrote)
    let mut our = 0u32;
    let mut i = 0;
    while i + 2 <= written.len() {
        let n = u16::from_be_bytes([written[i], written[i + 1]]) as usize;
        if i + 2 + n <= written.len() && n == 21 && written[i + 2] == b'r' {
            our = u32::from_be_bytes([written[i + 3], written[i + 4], written[i + 5], written[i + 6]]);
        }
        i += 2 + n;
    }
    let ack_ev = match (&c.ack, &ack_sent) {
        (_, Some(b)) => Ev::Frame(b.clone()),
        (AckEv::Ev(e), None) => e.clone(),
        _ => Ev::Silent,
    };
    ctx.count(&format!("connect_{}", restxt));
    ctx.count(&format!("connect_state_{}", state));
    // the TCP connect goes to the host part of the remote name: only 127.0.0.1 has the listener
    let host_ok = c.remote.split_once('@').map(|(_, h)| h == "127.0.0.1").unwrap_or(false);
    let req = format!(
        "c04connect {} {} {} {} {} {} {} {} {} {} {} {}",
        hexarg(c.local.as_bytes()), hexarg(c.remote.as_bytes()), hexarg(c.cookie.as_bytes()), flags,
        hexarg(&reply), if close { "close" } else { "open" }, if c.tcp_listens && host_ok { "listen" } else { "refuse" },
        ev_text(&c.status), ev_text(&c.chal), ev_text(&ack_ev), our, creation
    );
    ctx.tie(tag, &req, &format!("{} {} neg={} w={}", restxt, state, neg, hexarg(&written)));
    let text = format!("{} -> {} {} in {} ms", req, restxt, state, elapsed.as_millis());
    if restxt == "hang" || elapsed > Duration::from_millis(CONN_TIMEOUT_MS * 16) {
        ctx.fail("c04net-not-within-timeout", &text);
    }
    // the property, judged by the Spec on what the peer saw and sent
    // a peer that would have acknowledged correctly but was never asked is `good` for the oracle
    let ack_for_oracle = if matches!(c.ack, AckEv::Good) && ack_sent.is_none() { "good".to_string() } else { ev_text(&ack_ev) };
    // `env`: EPMD answered with a well-formed PORT2_RESP naming a port that listens on the host of the remote name
    let env_ok = c.epmd_reply.is_none() && c.tcp_listens && host_ok;
    ctx.prop("connect", &format!("c04p_connect {} {} {} {} {} {} {} {} {} {} {} {}", hexarg(c.local.as_bytes()), hexarg(c.cookie.as_bytes()), flags,
        ev_text(&c.status), ev_text(&c.chal), ack_for_oracle, our, restxt, state, format!("{},{}", neg, hexarg(&written)),
        hexarg(c.remote.as_bytes()), if env_ok { "envok" } else { "envbad" }), "ok");
}

async fn connect_cases(ctx: &mut Ctx) {
    let chal_of = |flags: u64, ch: u32, name: &str| -> Vec<u8> {
        let mut v = vec![b'N'];
        v.extend_from_slice(&flags.to_be_bytes());
        v.extend_from_slice(&ch.to_be_bytes());
        v.extend_from_slice(&0x6655_4433u32.to_be_bytes());
        v.extend_from_slice(&(name.len() as u16).to_be_bytes());
        v.extend_from_slice(name.as_bytes());
        v
    };
    let base = |k: usize, rng: &mut crate::rng::Rng| -> ConnCase {
        let pc = rng.next() as u32;
        let flags = if rng.chance(1, 2) { rng.next() } else { 0x0000_000d_07df_7fbd };
        ConnCase {
            local: format!("cli{}@127.0.0.1", k),
            remote: format!("raw{}@127.0.0.1", k),
            cookie: ["secret", "", "kéks-üñí", "x"][k % 4].to_string(),
            epmd_reply: None,
            tcp_listens: true,
            status: Ev::Frame(b"sok".to_vec()),
            chal: Ev::Frame(chal_of(flags, pc, &format!("raw{}@127.0.0.1", k))),
            ack: AckEv::Good,
            peer_challenge: pc,
        }
    };
    let mut k = 0usize;
    macro_rules! case {
        ($tag:expr, |$c:ident| $body:block) => {{
            k += 1;
            #[allow(unused_mut)]
            let mut $c = base(k, &mut ctx.rng);
            $body
            connect_case(ctx, $tag, $c).await;
        }};
    }
    // the complete handshake, every cookie kind, random peer flags (negotiated = intersection, all 64 bits)
    for _ in 0..ctx.n(8, 40) {
        case!("connect-good", |c| {});
    }
    case!("connect-good", |c| { c.status = Ev::Frame(b"sok_simultaneous".to_vec()); });
    // boundary names: 255 bytes on either side are fine, 256 are refused (local: after the TCP connect; remote: before EPMD)
    case!("connect-name", |c| { c.local = format!("{}@h", "l".repeat(253)); });
    case!("connect-name", |c| { c.local = format!("{}@h", "l".repeat(254)); });
    case!("connect-name", |c| { c.local = "ü".repeat(127) + "@"; });
    case!("connect-name", |c| { c.local = "ü".repeat(128); });
    case!("connect-name", |c| { c.local = String::new(); });
    case!("connect-name", |c| { c.remote = format!("{}@127.0.0.1", "r".repeat(255)); c.chal = Ev::Frame(chal_of(1, c.peer_challenge, "x@y")); });
    case!("connect-name", |c| { c.remote = format!("{}@127.0.0.1", "r".repeat(256)); });
    case!("connect-name", |c| { c.remote = "noat".into(); });
    case!("connect-name", |c| { c.remote = "@127.0.0.1".into(); });
    case!("connect-name", |c| { c.remote = "x@".into(); });
    case!("connect-name", |c| { c.remote = "a@127.0.0.1@b".into(); });
    // EPMD on the path
    let full = port2_resp(1, 77, 0, 6, 5, 1, b"x", 0, &[]);
    case!("connect-epmd", |c| { c.epmd_reply = Some((vec![119, 1], true)); });
    case!("connect-epmd", |c| { c.epmd_reply = Some((vec![], true)); });
    case!("connect-epmd", |c| { c.epmd_reply = Some((vec![], false)); });
    case!("connect-epmd", |c| { c.epmd_reply = Some((full[..7].to_vec(), false)); });
    case!("connect-epmd", |c| { c.epmd_reply = Some((full[..7].to_vec(), true)); });
    case!("connect-epmd", |c| { c.epmd_reply = Some((port2_resp(1, 77, 0, 6, 5, 300, b"x", 0, &[]), true)); });
    case!("connect-epmd", |c| { c.epmd_reply = Some((port2_resp(1, 77, 0, 6, 5, 1, b"x", 5000, &[]), false)); });
    case!("connect-epmd", |c| { c.epmd_reply = Some((vec![121, 0, 0, 1], true)); });
    case!("connect-tcp", |c| { c.tcp_listens = false; });
    // one event per awaited read
    for (i, ev) in [Ev::Close, Ev::Silent, Ev::Frame(vec![]), Ev::Frame(b"snok".to_vec()), Ev::Frame(b"snot_allowed".to_vec()), Ev::Frame(b"salive".to_vec()),
        Ev::Frame(b"xok".to_vec()), Ev::Frame(b"s".to_vec()), Ev::Frame(b"sokay".to_vec()), Ev::Frame(b"snamed:x".to_vec())].into_iter().enumerate() {
        let _ = i;
        case!("connect-status", |c| { c.status = ev.clone(); });
    }
    for sel in 0..9 {
        case!("connect-challenge", |c| {
            let good = chal_of(0xffff_ffff_ffff_ffff, c.peer_challenge, "p@q");
            c.chal = match sel {
                0 => Ev::Close,
                1 => Ev::Silent,
                2 => Ev::Frame(vec![]),
                3 => Ev::Frame(good[..11].to_vec()),
                4 => Ev::Frame(good[..19].to_vec()),
                5 => Ev::Frame([vec![b'n'], good[1..].to_vec()].concat()),
                6 => { let mut g = good.clone(); g[18] = 200; Ev::Frame(g) }
                7 => Ev::Frame([good.clone(), vec![1, 2, 3]].concat()),
                _ => Ev::Frame([vec![b'a'], vec![0u8; 16]].concat()),
            };
        });
    }
    for sel in 0..10 {
        case!("connect-ack", |c| {
            c.ack = match sel {
                0 => AckEv::Ev(Ev::Close),
                1 => AckEv::Ev(Ev::Silent),
                2 => AckEv::Ev(Ev::Frame(vec![])),
                3 => AckEv::Ev(Ev::Frame([vec![b'a'], vec![0x5a; 16]].concat())),
                4 => AckEv::ForPeerChallenge,
                5 => AckEv::OtherCookie(format!("{}x", c.cookie)),
                6 => AckEv::Ev(Ev::Frame(vec![b'a', 1, 2, 3])),
                7 => AckEv::Ev(Ev::Frame(b"sok".to_vec())),
                8 => AckEv::OtherCookie(String::new()),
                _ => AckEv::Good,
            };
        });
    }
    // random mixtures
    for _ in 0..ctx.n(10, 120) {
        case!("connect-random", |c| {
            let r = ctx.rng.below(12);
            match r {
                0 => c.status = Ev::Frame(ctx.rng.bytes(3)),
                1 => c.chal = Ev::Frame(ctx.rng.bytes(24)),
                2 => c.ack = AckEv::Ev(Ev::Frame([vec![b'a'], ctx.rng.bytes(16)].concat())),
                3 => c.cookie = String::from_utf8_lossy(&ctx.rng.bytes(9)).to_string(),
                4 => c.ack = AckEv::ForPeerChallenge,
                5 => c.status = Ev::Frame(b"snok".to_vec()),
                _ => {}
            }
        });
    }
}
