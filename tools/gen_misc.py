"""Miscellaneous small tables regenerated from /repo (auto-imported by tools/gen_tables.py).

Output: lean/EdpVerif/Generated/Misc.lean (namespace Edp.Gen).

C16 part: the process-number limit of the pid allocator and the *sequence of operations on shared state*
performed by `PidAllocator::allocate` and `Node::make_reference`, as written in the source. The Lean model's
small-step semantics is a transcription of exactly these sequences; `Props/C16.lean` ties the two
(`C16_model_steps_are_the_source_steps`), so dropping the lock or reordering an access breaks a proof obligation.
"""
import re


def _fn_body(src, header_re):
    """Text of the brace-balanced body following the first match of header_re (None if not found)."""
    m = re.search(header_re, src)
    if not m:
        return None
    i = src.find("{", m.end() - 1)
    if i < 0:
        return None
    depth = 0
    for j in range(i, len(src)):
        c = src[j]
        if c == "{":
            depth += 1
        elif c == "}":
            depth -= 1
            if depth == 0:
                return src[i + 1:j]
    return None


def _shared_ops(body):
    """`self.<field>.<method>(` occurrences in textual order, comments removed."""
    body = re.sub(r"//[^\n]*", "", body)
    body = re.sub(r"\s+", "", body)
    return [f"{f}.{m}" for f, m in re.findall(r"self\.([a-z_]+)\.([a-z_]+)\(", body)]


def gen_c16(read, num):
    broken = []
    lines = []
    src = read("crates/edp_client/src/pid_allocator.rs")
    maxp = 0
    alloc_ops = []
    if src is None:
        broken.append("pid_allocator.rs missing")
    else:
        m = re.search(r"const\s+MAX_PROCESSES_PER_NODE\s*:\s*u32\s*=\s*([0-9_]+)\s*;", src)
        if not m:
            broken.append("const MAX_PROCESSES_PER_NODE: u32 = <n>; not found in pid_allocator.rs")
        else:
            maxp = num(m.group(1))
        body = _fn_body(src, r"pub\s+fn\s+allocate\s*\(\s*&self\s*\)[^{]*\{")
        if body is None:
            broken.append("fn allocate(&self) body not found in pid_allocator.rs")
        else:
            alloc_ops = [o for o in _shared_ops(body) if not o.startswith("node_name.")]
            if not alloc_ops:
                broken.append("no shared-state operations found in allocate()")
            if not re.search(r"let\s+_guard\s*=\s*self\s*\.\s*wrap_lock\s*\.\s*lock\s*\(\s*\)", body):
                broken.append("allocate() no longer binds `let _guard = self.wrap_lock.lock()` (guard held to the end of the call)")
            if not re.search(r"if\s+id\s*>=\s*MAX_PROCESSES_PER_NODE\s*\{", body):
                broken.append("allocate(): wrap test `if id >= MAX_PROCESSES_PER_NODE` not found")
        if not re.search(r"next_id\s*:\s*AtomicU32\s*::\s*new\s*\(\s*1\s*\)", src):
            broken.append("PidAllocator::new no longer starts next_id at 1")
        if not re.search(r"next_serial\s*:\s*AtomicU64\s*::\s*new\s*\(\s*0\s*\)", src):
            broken.append("PidAllocator::new no longer starts next_serial at 0")
    node = read("crates/edp_node/src/node.rs")
    ref_ops = []
    if node is None:
        broken.append("node.rs missing")
    else:
        body = _fn_body(node, r"pub\s+fn\s+make_reference\s*\(\s*&self\s*\)[^{]*\{")
        if body is None:
            broken.append("fn make_reference(&self) body not found in node.rs")
        else:
            ref_ops = [o for o in _shared_ops(body) if not o.startswith("name.")]
            if not ref_ops:
                broken.append("no shared-state operations found in make_reference()")
        if not re.search(r"reference_counter\s*:\s*Arc\s*::\s*new\s*\(\s*AtomicU32\s*::\s*new\s*\(\s*0\s*\)\s*\)", node):
            broken.append("Node no longer starts reference_counter at AtomicU32 0")

    def strs(xs):
        return "[" + ", ".join('"' + x + '"' for x in xs) + "]"

    def accesses(text, field):
        """every `<field>.<method>(` in the file (comments removed) with the function it occurs in, in textual order"""
        text = re.sub(r"//[^\n]*", "", text)
        fns = [(m.start(), m.group(1)) for m in re.finditer(r"\bfn\s+([a-z_0-9]+)\s*[<(]", text)]
        out = []
        for m in re.finditer(r"\b" + field + r"\s*\.\s*([a-z_]+)\s*\(", text):
            fn = "?"
            for pos, name in fns:
                if pos < m.start():
                    fn = name
            out.append(fn + ":" + m.group(1))
        return out

    ref_acc = accesses(node, "reference_counter") if node is not None else []
    alloc_acc = []
    if src is not None:
        for f in ("next_id", "next_serial"):
            alloc_acc += [f + "@" + a for a in accesses(src, f)]
    lines.append("/-- every access to `reference_counter` in crates/edp_node/src/node.rs as `function:method`, in textual order -/")
    lines.append(f"def REFERENCE_COUNTER_ACCESSES : List String := {strs(ref_acc)}")
    lines.append("")
    lines.append("/-- every access to `next_id` / `next_serial` in crates/edp_client/src/pid_allocator.rs as `field@function:method` -/")
    lines.append(f"def ALLOCATOR_COUNTER_ACCESSES : List String := {strs(alloc_acc)}")
    lines.append("")

    lines.append("/-- `MAX_PROCESSES_PER_NODE` of crates/edp_client/src/pid_allocator.rs -/")
    lines.append(f"def MAX_PROCESSES_PER_NODE : Nat := {maxp}")
    lines.append("")
    lines.append("/-- operations on `self.*` shared state in `PidAllocator::allocate`, in textual order (wrap branch first) -/")
    lines.append(f"def ALLOCATE_SHARED_OPS : List String := {strs(alloc_ops)}")
    lines.append("")
    lines.append("/-- operations on `self.*` shared state in `Node::make_reference`, in textual order -/")
    lines.append(f"def MAKE_REFERENCE_SHARED_OPS : List String := {strs(ref_ops)}")
    lines.append("")
    return lines, broken


def _flag_expr_names(expr):
    """names in `Self::A.bits() | Self::B.bits() | ...` (order kept)"""
    return re.findall(r"Self\s*::\s*([A-Z][A-Z0-9_]*)\s*\.\s*bits\s*\(\s*\)", expr)


def gen_c04(read, num):
    """C04 part: every capability-flag constant of flags.rs (name -> value), the flag-set constants
    (MANDATORY_OTP26 / DEFAULT / DEFAULT_HIDDEN as lists of member names, evaluated here as well), and the
    handshake tag / version constants of handshake.rs. `Impl/Handshake.lean` uses these values instead of literals;
    `Props/C04.lean` compares them with the protocol's table in `Spec/Handshake.lean`."""
    broken = []
    lines = []
    flags = []      # (name, value)
    sets = []       # (name, [member names])
    src = read("crates/edp_client/src/flags.rs")
    if src is None:
        broken.append("flags.rs missing")
    else:
        m = re.search(r"bitflags!\s*\{", src)
        body = _fn_body(src, r"bitflags!\s*\{") if m else None
        if body is None:
            broken.append("bitflags! { ... } block not found in flags.rs")
        else:
            if not re.search(r"pub\s+struct\s+DistributionFlags\s*:\s*u64\s*\{", body):
                broken.append("`pub struct DistributionFlags: u64` not found inside bitflags!")
            nocomment = re.sub(r"//[^\n]*", "", body)
            decls = re.findall(r"\bconst\s+([A-Z][A-Z0-9_]*)\s*=\s*([^;]+);", nocomment)
            for name, val in decls:
                v = val.strip()
                if not re.fullmatch(r"0[xX][0-9a-fA-F_]+|[0-9][0-9_]*", v):
                    broken.append(f"flag {name}: value `{v}` is not a plain integer literal")
                    continue
                flags.append((name, int(v.replace("_", ""), 0)))
            if len(decls) != len(re.findall(r"\bconst\b", nocomment)):
                broken.append("a `const` inside bitflags! did not match `const NAME = <literal>;`")
            if not flags:
                broken.append("no flag constants found in bitflags!")
        known = dict(flags)
        sets_src = {name: expr for name, expr in
                    re.findall(r"pub\s+const\s+([A-Z][A-Z0-9_]*)\s*:\s*Self\s*=\s*Self\s*::\s*from_bits_truncate\s*\(([^;]*)\)\s*;", src)}
        for want in ("MANDATORY_OTP26", "DEFAULT", "DEFAULT_HIDDEN"):
            if want not in sets_src:
                broken.append(f"pub const {want}: Self = Self::from_bits_truncate(...) not found in flags.rs")
        for name, expr in sets_src.items():
            members = _flag_expr_names(expr)
            parts = [t.strip() for t in re.sub(r"\s+", "", expr).rstrip(",").split("|")]
            if len(parts) != len(members) or not members:
                broken.append(f"flag set {name}: a term is not of the form Self::NAME.bits()")
            for mname in members:
                if mname not in known and mname not in sets_src:
                    broken.append(f"flag set {name}: unknown member {mname}")
            sets.append((name, members))
        for fn, cst in (("default_otp26", "DEFAULT"), ("default_hidden", "DEFAULT_HIDDEN")):
            if not re.search(r"pub\s+const\s+fn\s+" + fn + r"\s*\(\s*\)\s*->\s*Self\s*\{\s*Self\s*::\s*" + cst + r"\s*\}", src):
                broken.append(f"fn {fn}() no longer returns Self::{cst}")
        if not re.search(r"impl\s+Default\s+for\s+DistributionFlags\s*\{\s*fn\s+default\s*\(\s*\)\s*->\s*Self\s*\{\s*Self\s*::\s*default_otp26\s*\(\s*\)", src):
            broken.append("impl Default for DistributionFlags no longer returns default_otp26()")
    tags = []
    hs = read("crates/edp_client/src/handshake.rs")
    if hs is None:
        broken.append("handshake.rs missing")
    else:
        found = dict(re.findall(r"const\s+(HANDSHAKE_TAG_[A-Z_]+)\s*:\s*u8\s*=\s*b'(.)'\s*;", hs))
        for want in ("HANDSHAKE_TAG_N", "HANDSHAKE_TAG_N_OLD", "HANDSHAKE_TAG_S", "HANDSHAKE_TAG_A"):
            if want not in found:
                broken.append(f"const {want}: u8 = b'<c>'; not found in handshake.rs")
        tags = [(k, ord(v)) for k, v in sorted(found.items())]
        for want in ("PROTOCOL_VERSION", "PROTOCOL_VERSION_5"):
            m = re.search(r"pub\s+const\s+" + want + r"\s*:\s*u16\s*=\s*([0-9_]+)\s*;", hs)
            if not m:
                broken.append(f"pub const {want}: u16 = <n>; not found in handshake.rs")
            else:
                tags.append((want, num(m.group(1))))
        # tags written as byte literals in the encoders (the reply tag has no named constant)
        m = re.search(r"impl\s+ChallengeReply\s*\{", hs)
        rbody = _fn_body(hs, r"impl\s+ChallengeReply\s*\{") if m else None
        mr = re.search(r"pub\s+fn\s+encode\s*\(\s*&self\s*\)[^{]*\{[^}]*?buf\.put_u8\(\s*b'(.)'\s*\)", rbody or "", re.S)
        if not mr:
            broken.append("ChallengeReply::encode: `buf.put_u8(b'<c>')` not found")
        else:
            tags.append(("HANDSHAKE_TAG_R_LITERAL", ord(mr.group(1))))
    sm = read("crates/edp_client/src/state_machine.rs")
    if sm is None:
        broken.append("state_machine.rs missing")
    else:
        cbody = _fn_body(sm, r"pub\s+fn\s+prepare_complement\s*\(\s*&mut\s+self\s*\)[^{]*\{")
        mc = re.search(r"buf\.put_u8\(\s*b'(.)'\s*\)", cbody or "")
        if not mc:
            broken.append("prepare_complement: `buf.put_u8(b'<c>')` not found")
        else:
            tags.append(("HANDSHAKE_TAG_C_LITERAL", ord(mc.group(1))))

    known = dict(flags)
    setvals = {}

    def setval(name, seen=()):
        if name in known:
            return known[name]
        if name in setvals:
            return setvals[name]
        if name in seen:
            return 0
        v = 0
        for sn, members in sets:
            if sn == name:
                for mname in members:
                    v |= setval(mname, seen + (name,))
        setvals[name] = v
        return v

    lines.append("/-- every capability-flag constant of crates/edp_client/src/flags.rs (`bitflags!` block), in source order -/")
    lines.append("def DIST_FLAGS : List (String × Nat) := [" + ", ".join(f'("{n}", {v})' for n, v in flags) + "]")
    lines.append("")
    for n, v in flags:
        lines.append(f"def FLAG_{n} : Nat := {v}")
    lines.append("")
    lines.append("/-- the flag-set constants of flags.rs as the member names their definitions list -/")
    lines.append("def DIST_FLAG_SETS : List (String × List String) := [" +
                 ", ".join(f'("{n}", [' + ", ".join(f'"{m}"' for m in ms) + "])" for n, ms in sets) + "]")
    lines.append("")
    for n, _ in sets:
        lines.append(f"/-- `DistributionFlags::{n}` evaluated (bitwise or of its members) -/")
        lines.append(f"def FLAGSET_{n} : Nat := {setval(n)}")
    for want in ("MANDATORY_OTP26", "DEFAULT", "DEFAULT_HIDDEN"):
        if want not in [n for n, _ in sets]:
            lines.append(f"def FLAGSET_{want} : Nat := 0")
    lines.append("")
    lines.append("/-- handshake tag / version constants of handshake.rs (and the two tags written as byte literals) -/")
    lines.append("def HANDSHAKE_CONSTS : List (String × Nat) := [" + ", ".join(f'("{n}", {v})' for n, v in tags) + "]")
    have = dict(tags)
    for want in ("HANDSHAKE_TAG_N", "HANDSHAKE_TAG_N_OLD", "HANDSHAKE_TAG_S", "HANDSHAKE_TAG_A",
                 "HANDSHAKE_TAG_R_LITERAL", "HANDSHAKE_TAG_C_LITERAL", "PROTOCOL_VERSION", "PROTOCOL_VERSION_5"):
        lines.append(f"def {want} : Nat := {have.get(want, 0)}")
    lines.append("")
    return lines, broken


def gen_c09(read, num):
    """C09 part: the constants of fragmentation.rs and the calls `Connection::receive_message` makes on its assembler."""
    broken = []
    lines = []
    src = read("crates/edp_client/src/fragmentation.rs")
    vals = {"MAX_FRAGMENTS_VEC": 0, "MAX_FRAGMENT_COUNT": 0, "DEFAULT_FRAGMENT_TIMEOUT_MS": 0, "DIST_FRAG_HEADER": 0,
            "DIST_FRAG_CONT": 0}
    if src is None:
        broken.append("fragmentation.rs missing")
    else:
        for name, ty in (("MAX_FRAGMENTS_VEC", "u64"), ("MAX_FRAGMENT_COUNT", "u64"), ("DIST_FRAG_HEADER", "u8"),
                         ("DIST_FRAG_CONT", "u8")):
            m = re.search(r"(?:pub\s+)?const\s+" + name + r"\s*:\s*" + ty + r"\s*=\s*([0-9_]+)\s*;", src)
            if not m:
                broken.append(f"const {name}: {ty} = <n>; not found in fragmentation.rs")
            else:
                vals[name] = num(m.group(1))
        m = re.search(r"pub\s+const\s+DEFAULT_FRAGMENT_TIMEOUT\s*:\s*Duration\s*=\s*Duration\s*::\s*from_(secs|millis)\s*\(\s*([0-9_]+)\s*\)\s*;", src)
        if not m:
            broken.append("pub const DEFAULT_FRAGMENT_TIMEOUT: Duration = Duration::from_secs|from_millis(<n>); not found in fragmentation.rs")
        else:
            vals["DEFAULT_FRAGMENT_TIMEOUT_MS"] = num(m.group(2)) * (1000 if m.group(1) == "secs" else 1)
        # the places where the limits are applied, as the model has them
        if not re.search(r"if\s+count\s*>\s*MAX_FRAGMENT_COUNT\s*\{", src):
            broken.append("FragmentCount::new: test `if count > MAX_FRAGMENT_COUNT` not found")
        if not re.search(r"if\s+count\s*==\s*0\s*\{", src):
            broken.append("FragmentCount::new: test `if count == 0` not found")
        if not re.search(r"fn\s+exceeds_vec_limit\s*\(\s*self\s*\)\s*->\s*bool\s*\{\s*self\.0\s*>\s*MAX_FRAGMENTS_VEC\s*\}", src):
            broken.append("FragmentCount::exceeds_vec_limit is no longer `self.0 > MAX_FRAGMENTS_VEC`")
        if not re.search(r"self\s*\.\s*last_update\s*\.\s*elapsed\s*\(\s*\)\s*>\s*timeout", src):
            broken.append("FragmentedMessage::is_expired is no longer `self.last_update.elapsed() > timeout`")
        if not re.search(r"pub\s+fn\s+new\s*\(\s*\)\s*->\s*Self\s*\{\s*Self\s*\{\s*pending\s*:\s*HashMap::new\(\)\s*,\s*fragment_timeout\s*:\s*DEFAULT_FRAGMENT_TIMEOUT\s*,?\s*\}", src):
            broken.append("FragmentAssembler::new no longer uses DEFAULT_FRAGMENT_TIMEOUT")
    conn = read("crates/edp_client/src/connection.rs")
    recv_ops = []
    before_tick = False
    owners = 0
    if conn is None:
        broken.append("connection.rs missing")
    else:
        owners = len(re.findall(r"FragmentAssembler\s*::\s*(?:new|with_timeout|default)\s*\(", conn))
        for name in ("DIST_FRAG_HEADER", "DIST_FRAG_CONT"):
            m = re.search(r"const\s+" + name + r"\s*:\s*u8\s*=\s*([0-9_]+)\s*;", conn)
            if not m:
                broken.append(f"const {name}: u8 = <n>; not found in connection.rs")
            else:
                vals["CONN_" + name] = num(m.group(1))
        body = _fn_body(conn, r"pub\s+async\s+fn\s+receive_message\s*\(\s*&mut\s+self\s*\)[^{]*\{")
        if body is None:
            broken.append("fn receive_message(&mut self) body not found in connection.rs")
        else:
            text = re.sub(r"//[^\n]*", "", body)
            text = re.sub(r"\s+", "", text)
            recv_ops = re.findall(r"self\.fragment_assembler\.([a-z_]+)\(", text)
            loop_at = text.find("loop{")
            read_at = text.find("letdata=self.read_message().await?;")
            clean_at = text.find("self.fragment_assembler.cleanup_expired();")
            tick_at = text.find("ifdata.is_empty(){")
            # inside the loop, directly after the frame has been read, before the tick's `continue` (so: once per frame)
            before_tick = 0 <= loop_at < read_at and read_at + len("letdata=self.read_message().await?;") == clean_at and clean_at < tick_at
            if read_at < 0 or tick_at < 0 or loop_at < 0:
                broken.append("receive_message: `loop { let data = self.read_message().await?; … if data.is_empty() {` not found")
        others = re.findall(r"fragment_assembler\s*\.\s*([a-z_]+)\s*\(", re.sub(r"//[^\n]*", "", conn))
        if sorted(set(others)) != sorted(set(recv_ops)):
            broken.append("connection.rs uses its fragment assembler outside receive_message")

    def strs(xs):
        return "[" + ", ".join('"' + x + '"' for x in xs) + "]"

    lines.append("/-- `MAX_FRAGMENTS_VEC` of crates/edp_client/src/fragmentation.rs -/")
    lines.append(f"@[simp] def MAX_FRAGMENTS_VEC : Nat := {vals['MAX_FRAGMENTS_VEC']}")
    lines.append("/-- `MAX_FRAGMENT_COUNT` of fragmentation.rs -/")
    lines.append(f"@[simp] def MAX_FRAGMENT_COUNT : Nat := {vals['MAX_FRAGMENT_COUNT']}")
    lines.append("/-- `DEFAULT_FRAGMENT_TIMEOUT` of fragmentation.rs, in milliseconds -/")
    lines.append(f"def DEFAULT_FRAGMENT_TIMEOUT_MS : Nat := {vals['DEFAULT_FRAGMENT_TIMEOUT_MS']}")
    lines.append("/-- `DIST_FRAG_HEADER` of fragmentation.rs (the tag of the first fragment's frame) -/")
    lines.append(f"def FRAG_DIST_FRAG_HEADER : Nat := {vals['DIST_FRAG_HEADER']}")
    lines.append("/-- `DIST_FRAG_CONT` of fragmentation.rs (the tag of a continuation frame) -/")
    lines.append(f"def FRAG_DIST_FRAG_CONT : Nat := {vals['DIST_FRAG_CONT']}")
    lines.append("/-- `DIST_FRAG_HEADER` / `DIST_FRAG_CONT` of connection.rs (what `receive_message` dispatches on) -/")
    lines.append(f"def CONN_DIST_FRAG_HEADER : Nat := {vals.get('CONN_DIST_FRAG_HEADER', 0)}")
    lines.append(f"def CONN_DIST_FRAG_CONT : Nat := {vals.get('CONN_DIST_FRAG_CONT', 0)}")
    lines.append("")
    lines.append("/-- calls on `self.fragment_assembler` in `Connection::receive_message`, in textual order -/")
    lines.append(f"def RECEIVE_ASSEMBLER_OPS : List String := {strs(recv_ops)}")
    lines.append("/-- `cleanup_expired()` is the statement that follows `let data = self.read_message().await?;` inside the loop,")
    lines.append("before the tick's `continue`: it runs once per received frame -/")
    lines.append(f"def RECEIVE_CLEANUP_PER_FRAME : Bool := {'true' if before_tick else 'false'}")
    lines.append("/-- number of places in connection.rs that construct a `FragmentAssembler` -/")
    lines.append(f"def CONNECTION_ASSEMBLERS : Nat := {owners}")
    lines.append("")
    return lines, broken


def run(read, emit, num):
    body = "namespace Edp.Gen\n\n"
    broken = []
    for part in (gen_c16, gen_c09, gen_c04):
        ls, br = part(read, num)
        body += "\n".join(ls) + "\n"
        broken += br
    body += "end Edp.Gen\n"
    emit("Misc", body, broken)
