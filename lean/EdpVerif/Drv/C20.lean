import EdpVerif.Drv.Etf
import EdpVerif.Impl.Elixir
import EdpVerif.Spec.Elixir
/-! Driver requests of property C20 (Elixir wrappers, ranges, proplist/map helpers). -/
namespace Edp.Drv
open Edp Edp.Ex

namespace C20

def getInt (s : String) : Except String Int :=
  match s.toInt? with
  | some i => .ok i
  | none => .error ("bad-int " ++ s)

def getNat (s : String) : Except String Nat :=
  match s.toNat? with
  | some i => .ok i
  | none => .error ("bad-nat " ++ s)

/-- `-` = None, `=<hex>` = Some(bytes) -/
def getOptHex (s : String) : Except String (Option Bytes) :=
  if s == "-" then .ok none else
  match s.toList with
  | '=' :: r => match unhexL r with
    | some b => .ok (some b)
    | none => .error "bad-opt-hex"
  | _ => .error "bad-opt-hex"

def getOptInt (s : String) : Except String (Option Int) :=
  if s == "-" then .ok none else
  match s.toList with
  | '=' :: r => (getInt (String.ofList r)).map some
  | _ => .error "bad-opt-int"

def getOptTerm (s : String) : Except String (Option Term) :=
  if s == "-" then .ok none else
  match s.toList with
  | '=' :: r => (getTerm (String.ofList r)).map some
  | _ => .error "bad-opt-term"

def hintText (h : Nat × Option Nat) : String :=
  toString h.1 ++ "/" ++ (match h.2 with | some n => toString n | none => "none")

def intsText (l : List Int) : String := if l.isEmpty then "-" else ",".intercalate (l.map toString)

def optHexText : Option Bytes → String
  | none => "-"
  | some b => "=" ++ hexOf b

def optIntText : Option Int → String
  | none => "-"
  | some i => "=" ++ toString i

def optTermText : Option Term → String
  | none => "-"
  | some t => "=" ++ t.text

def naiveText (x : Naive) : String :=
  s!"{x.year},{x.month},{x.day},{x.hour},{x.minute},{x.second},{x.usValue},{x.usPrecision}"

/-- module of the one-field exceptions, by short name -/
def excModule : String → Except String Bytes
  | "argument" => .ok mArgumentError
  | "runtime" => .ok mRuntimeError
  | "arithmetic" => .ok mArithmeticError
  | "match" => .ok mMatchError
  | "badmap" => .ok mBadMapError
  | "badfun" => .ok mBadFunctionError
  | "caseclause" => .ok mCaseClauseError
  | "withclause" => .ok mWithClauseError
  | s => .error ("bad-exc " ++ s)

def getNaive (a : List String) : Except String Naive :=
  match a with
  | [y, mo, d, h, mi, s, uv, up] => do
    pure ⟨← getInt y, ← getInt mo, ← getInt d, ← getInt h, ← getInt mi, ← getInt s, ← getInt uv, ← getInt up⟩
  | _ => .error "bad-naive"

/-- the `(key, value)` pairs of a list of `{atom, value}` tuples (builder input) -/
def getPairs (t : Term) : Except String (List (Bytes × Term)) :=
  match t with
  | .nil => .ok []
  | .list l => l.mapM fun
    | .tuple [.atom k, v] => .ok (k, v)
    | _ => .error "bad-pairs"
  | _ => .error "bad-pairs"

def toTermReq : List String → Except String Term
  | ["range", f, l, s] => do pure (Range.toTerm ⟨← getInt f, ← getInt l, ← getInt s⟩)
  | ["date", y, m, d] => do pure (Date.toTerm ⟨← getInt y, ← getInt m, ← getInt d⟩)
  | ["time", h, mi, s, uv, up] => do
    pure (Time.toTerm ⟨← getInt h, ← getInt mi, ← getInt s, ← getInt uv, ← getInt up⟩)
  | "naive" :: r => do pure (Naive.toTerm (← getNaive r))
  | ["datetime", y, mo, d, h, mi, s, uv, up, tz, za, uo, so] => do
    pure (DateTime.toTerm ⟨← getNaive [y, mo, d, h, mi, s, uv, up], ← getHex tz, ← getHex za, ← getInt uo, ← getInt so⟩)
  | ["mapset", vals] => do
    match ← getTerm vals with
    | .list l => pure (MapSet.ofValues l).toTerm
    | .nil => pure (MapSet.ofValues []).toTerm
    | _ => .error "bad-mapset"
  | ["msg", k, m] => do pure (msgExcToTerm (← excModule k) (← getHex m))
  | ["texc", k, t] => do pure (termExcToTerm (← excModule k) (← getTerm t))
  | ["cond"] => pure condExcToTerm
  | ["keyerr", k, t, m] => do pure (KeyError.toTerm ⟨← getTerm k, ← getTerm t, ← getOptHex m⟩)
  | ["undef", m, f, a, r] => do pure (UndefFn.toTerm ⟨← getHex m, ← getHex f, ← getInt a, ← getOptHex r⟩)
  | ["fncl", m, f, a, g] => do pure (FnClause.toTerm ⟨← getOptHex m, ← getOptHex f, ← getOptInt a, ← getOptTerm g⟩)
  | _ => .error "bad-c20to"

def optText {α : Type} (f : α → String) : Option α → String
  | none => "none"
  | some a => f a

def fromTermReq (kind : List String) (t : Term) : Except String String :=
  match kind with
  | ["range"] => pure <| optText (fun r => s!"R({r.first},{r.last},{r.step})") (Range.fromTerm t)
  | ["date"] => pure <| optText (fun d => s!"D({d.year},{d.month},{d.day})") (Date.fromTerm t)
  | ["time"] => pure <| optText (fun x => s!"T({x.hour},{x.minute},{x.second},{x.usValue},{x.usPrecision})") (Time.fromTerm t)
  | ["naive"] => pure <| optText (fun x => "N(" ++ naiveText x ++ ")") (Naive.fromTerm t)
  | ["datetime"] => pure <| optText (fun x =>
      "Z(" ++ naiveText x.naive ++ s!",{hexOf x.timeZone},{hexOf x.zoneAbbr},{x.utcOffset},{x.stdOffset})") (DateTime.fromTerm t)
  | ["mapset"] => pure <| optText (fun s => "M[" ++ Term.textL s.elements ++ "]") (MapSet.fromTerm t)
  | ["msg", k] => do
    let m ← excModule k
    pure <| optText (fun b => "E" ++ hexOf b) (msgExcFromTerm m t)
  | ["texc", k] => do
    let m ← excModule k
    pure <| optText (fun x => "X" ++ x.text) (termExcFromTerm m t)
  | ["cond"] => pure <| optText (fun _ => "C") (condExcFromTerm t)
  | ["keyerr"] => pure <| optText (fun e => "K(" ++ e.key.text ++ ";" ++ e.term.text ++ ";" ++ optHexText e.message ++ ")") (KeyError.fromTerm t)
  | ["undef"] => pure <| optText (fun e => s!"UF({hexOf e.module},{hexOf e.function},{e.arity},{optHexText e.reason})") (UndefFn.fromTerm t)
  | ["fncl"] => pure <| optText (fun e =>
      "FC(" ++ optHexText e.module ++ "," ++ optHexText e.function ++ "," ++ optIntText e.arity ++ "," ++ optTermText e.args ++ ")") (FnClause.fromTerm t)
  | _ => .error "bad-c20from"

def resText : Option Term → String
  | some t => "ok " ++ t.text
  | none => "err"

def dateText (d : Date) : String := s!"D({d.year},{d.month},{d.day})"
def timeText (x : Time) : String := s!"T({x.hour},{x.minute},{x.second},{x.usValue},{x.usPrecision})"
def dtText (x : DateTime) : String :=
  "Z(" ++ naiveText x.naive ++ s!",{hexOf x.timeZone},{hexOf x.zoneAbbr},{x.utcOffset},{x.stdOffset})"
def setText (s : MapSet) : String := "M[" ++ Term.textL s.elements ++ "]"

def getList : Term → Except String (List Term)
  | .nil => .ok []
  | .list l => .ok l
  | _ => .error "bad-list"

/-- a value handed to a generic builder method: `{i,Int}`, `{b,true|false}`, `{s,<<..>>}`, `{t,Term}` -/
def getBVal : Term → Except String BVal
  | .tuple [.atom [105], .int i] => .ok (.int i)
  | .tuple [.atom [98], .atom a] => .ok (.bool (a == kTrue))
  | .tuple [.atom [115], .bin b] => .ok (.str b)
  | .tuple [.atom [116], t] => .ok (.term t)
  | _ => .error "bad-bval"

/-- one builder call: `{put,K,V}`, `{atom,K,A}`, `{flag,K}`, `{term,K,T}`, `{if,C,K,V}`, `{some,K,V}`, `{some,K}`, `{ext,[{K,V}..]}` -/
def getBOp : Term → Except String BOp
  | .tuple [.atom [112, 117, 116], .atom k, v] => do pure (.put k (← getBVal v))
  | .tuple [.atom [97, 116, 111, 109], .atom k, .atom a] => .ok (.putAtom k a)
  | .tuple [.atom [102, 108, 97, 103], .atom k] => .ok (.putFlag k)
  | .tuple [.atom [116, 101, 114, 109], .atom k, t] => .ok (.putTerm k t)
  | .tuple [.atom [105, 102], .atom c, .atom k, v] => do pure (.putIf (c == kTrue) k (← getBVal v))
  | .tuple [.atom [115, 111, 109, 101], .atom k, v] => do pure (.putSome k (some (← getBVal v)))
  | .tuple [.atom [115, 111, 109, 101], .atom k] => .ok (.putSome k none)
  | .tuple [.atom [101, 120, 116], l] => do
    let l ← getList l
    let kvs ← l.mapM fun
      | .tuple [.atom k, v] => do pure (k, ← getBVal v)
      | _ => .error "bad-ext"
    pure (.extend kvs)
  | _ => .error "bad-bop"

def getBOps (t : Term) : Except String (List BOp) := do (← getList t).mapM getBOp

def b01 (b : Bool) : String := if b then "1" else "0"

/-- a sequence of set operations `{i,T}` insert, `{r,T}` remove, `{c,T}` contains, `clear`: the flags returned, then
the set, its `len` and `is_empty` -/
def setSeq : List Term → MapSet → String → Except String String
  | [], s, acc => .ok (acc ++ " " ++ setText s ++ s!" {s.len} " ++ b01 s.isEmpty)
  | .tuple [.atom [105], t] :: r, s, acc => let (s', f) := s.insert t; setSeq r s' (acc ++ b01 f)
  | .tuple [.atom [114], t] :: r, s, acc => let (s', f) := s.remove t; setSeq r s' (acc ++ b01 f)
  | .tuple [.atom [99], t] :: r, s, acc => setSeq r s (acc ++ b01 (s.contains t))
  | .atom _ :: r, s, acc => setSeq r s.clear (acc ++ "x")
  | _, _, _ => .error "bad-setop"

end C20

open C20 in
def handleC20 : List String → Option String
  -- model of ElixirRange: is_empty, len, contains(v), size_hint, the first k `next()` results, size_hint afterwards
  | ["c20range", f, l, s, v, k] => some <| run do
    let r : Range := ⟨← getInt f, ← getInt l, ← getInt s⟩
    let v ← getInt v
    let k ← getNat k
    let (xs, it, ended) := r.walk k r.iter []
    pure (s!"e={if r.isEmpty then 1 else 0} len={r.len} c={if r.contains v then 1 else 0} sh={hintText (r.sizeHint r.iter)} " ++
      s!"it={intsText xs};{if ended then "end" else "more"} sh2={hintText (r.sizeHint it)}")
  -- Spec oracles on the implementation's answers
  -- `len` is the Spec's count, saturated at usize::MAX (2^64 - 1) because the return type cannot hold more
  | ["c20rlen", f, l, s, got] => some <| run do
    let c := Spec.Range.count (← getInt f) (← getInt l) (← getInt s)
    let want := toString (min c 18446744073709551615)
    pure (if got == want then "ok" else s!"FAIL spec={c} impl={got}")
  -- `size_hint` is (count, Some(count)), or (usize::MAX, None) when the count does not fit usize
  | ["c20rhint", f, l, s, got] => some <| run do
    let c := Spec.Range.count (← getInt f) (← getInt l) (← getInt s)
    let want := if c ≤ 18446744073709551615 then s!"{c}/{c}" else "18446744073709551615/none"
    pure (if got == want then "ok" else s!"FAIL spec={c} impl={got}")
  | ["c20rcont", f, l, s, v, got] => some <| run do
    let b := Spec.Range.mem (← getInt f) (← getInt l) (← getInt s) (← getInt v)
    let want := if b then "1" else "0"
    pure (if got == want then "ok" else s!"FAIL spec={want} impl={got}")
  | ["c20riter", f, l, s, k, got] => some <| run do
    let f ← getInt f
    let l ← getInt l
    let s ← getInt s
    let k ← getNat k
    let c := Spec.Range.count f l s
    let xs := (List.range (min c k)).map (Spec.Range.nth f s)
    let want := intsText xs ++ ";" ++ (if c < k then "end" else "more")
    pure (if got == want then "ok" else s!"FAIL spec={want} impl={got}")
  -- the constructors that normalise the module spelling
  | ["c20new", "undef", m, f, a, r] => some <| run do
    let e := UndefFn.new (← getHex m) (← getHex f) (← getInt a) (← getOptHex r)
    pure s!"UF({hexOf e.module},{hexOf e.function},{e.arity},{optHexText e.reason})"
  | ["c20new", "fncl", m, f, a, g] => some <| run do
    let e := FnClause.new (← getHex m) (← getHex f) (← getInt a) (← getTerm g)
    pure ("FC(" ++ optHexText e.module ++ "," ++ optHexText e.function ++ "," ++ optIntText e.arity ++ "," ++ optTermText e.args ++ ")")
  -- checked and unchecked constructors, derived conversions (date_time.rs)
  | ["c20leap", y] => some <| run do pure (b01 (isLeapYear (← getInt y)))
  | ["c20try", "date", y, m, d] => some <| run do
    pure (optText dateText (Date.tryNew (← getInt y) (← getInt m) (← getInt d)))
  | ["c20try", "time", h, mi, s, us, p] => some <| run do
    pure (optText timeText (Time.tryNew (← getInt h) (← getInt mi) (← getInt s) (← getInt us) (← getInt p)))
  | ["c20try", "hms", h, mi, s] => some <| run do
    pure (optText timeText (Time.tryHms (← getInt h) (← getInt mi) (← getInt s)))
  | ["c20try", "naive", y, mo, d, h, mi, s, us, p] => some <| run do
    pure (optText (fun x => "N(" ++ naiveText x ++ ")")
      (Naive.tryNew (← getInt y) (← getInt mo) (← getInt d) (← getInt h) (← getInt mi) (← getInt s) (← getInt us) (← getInt p)))
  | ["c20try", "utc", y, mo, d, h, mi, s, us, p] => some <| run do
    pure (optText dtText
      (DateTime.tryUtc (← getInt y) (← getInt mo) (← getInt d) (← getInt h) (← getInt mi) (← getInt s) (← getInt us) (← getInt p)))
  | ["c20new", "time", h, mi, s, us, p] => some <| run do
    pure (timeText (Time.new (← getInt h) (← getInt mi) (← getInt s) (← getInt us) (← getInt p)))
  | ["c20new", "hms", h, mi, s] => some <| run do pure (timeText (Time.hms (← getInt h) (← getInt mi) (← getInt s)))
  | ["c20new", "naive", y, mo, d, h, mi, s, us, p] => some <| run do
    pure ("N(" ++ naiveText (Naive.new (← getInt y) (← getInt mo) (← getInt d) (← getInt h) (← getInt mi) (← getInt s) (← getInt us) (← getInt p)) ++ ")")
  | ["c20new", "utc", y, mo, d, h, mi, s, us, p] => some <| run do
    pure (dtText (DateTime.utc (← getInt y) (← getInt mo) (← getInt d) (← getInt h) (← getInt mi) (← getInt s) (← getInt us) (← getInt p)))
  | ["c20new", "withtz", y, mo, d, h, mi, s, us, p, tz, za, uo, so] => some <| run do
    pure (dtText (DateTime.withTimezone (← getInt y) (← getInt mo) (← getInt d) (← getInt h) (← getInt mi) (← getInt s)
      (← getInt us) (← getInt p) (← getHex tz) (← getHex za) (← getInt uo) (← getInt so)))
  -- to_date / to_time / to_naive / from_date_time of a value given by its fields
  | ["c20conv", "naive", y, mo, d, h, mi, s, us, p] => some <| run do
    let x ← getNaive [y, mo, d, h, mi, s, us, p]
    pure (dateText x.toDate ++ " " ++ timeText x.toTime ++ " N(" ++ naiveText (Naive.fromDateTime x.toDate ⟨x.hour, x.minute, x.second, x.usValue, x.usPrecision⟩) ++ ")")
  | ["c20conv", "datetime", y, mo, d, h, mi, s, us, p, tz, za, uo, so] => some <| run do
    let x : DateTime := ⟨← getNaive [y, mo, d, h, mi, s, us, p], ← getHex tz, ← getHex za, ← getInt uo, ← getInt so⟩
    pure (dateText x.toDate ++ " " ++ timeText x.toTime ++ " N(" ++ naiveText x.toNaive ++ ")")
  -- the calendar oracle on the implementation's answer (`1` = Some with the fields given, `0` = None)
  | ["c20pcal", "date", y, m, d, got] => some <| run do
    let want := b01 (decide (Spec.Cal.validDate (← getInt y) (← getInt m) (← getInt d)))
    pure (if got == want then "ok" else s!"FAIL spec={want} impl={got}")
  | ["c20pcal", "time", h, mi, s, us, p, got] => some <| run do
    let want := b01 (decide (Spec.Cal.validTime (← getInt h) (← getInt mi) (← getInt s) (← getInt us) (← getInt p)))
    pure (if got == want then "ok" else s!"FAIL spec={want} impl={got}")
  | ["c20pcal", "naive", y, mo, d, h, mi, s, us, p, got] => some <| run do
    let want := b01 (decide (Spec.Cal.validDate (← getInt y) (← getInt mo) (← getInt d)) &&
      decide (Spec.Cal.validTime (← getInt h) (← getInt mi) (← getInt s) (← getInt us) (← getInt p)))
    pure (if got == want then "ok" else s!"FAIL spec={want} impl={got}")
  -- map_set.rs operations
  | ["c20setseq", ops] => some <| run do setSeq (← getList (← getTerm ops)) MapSet.empty ""
  | ["c20set2", a, b] => some <| run do
    let a := MapSet.ofValues (← getList (← getTerm a))
    let b := MapSet.ofValues (← getList (← getTerm b))
    pure (setText (a.union b) ++ " " ++ setText (a.intersection b) ++ " " ++ setText (a.difference b) ++ " " ++
      setText (a.symmetricDifference b) ++ " " ++ b01 (a.isSubset b) ++ b01 (a.isSuperset b) ++ b01 (a.isDisjoint b))
  -- builders.rs: a chain of calls, then len, is_empty, build
  | ["c20kwops", ops] => some <| run do
    let (n, e, t) := kwRun (← getBOps (← getTerm ops))
    pure (s!"{n} " ++ b01 e ++ " " ++ t.text)
  | ["c20akmops", ops] => some <| run do
    let (n, e, t) := akmRun (← getBOps (← getTerm ops))
    pure (s!"{n} " ++ b01 e ++ " " ++ t.text)
  | "c20to" :: r => some <| run do
    let t ← toTermReq r
    pure t.text
  | "c20from" :: r =>
    match r.reverse with
    | t :: kindRev => some <| run do
      let t ← getTerm t
      fromTermReq kindRev.reverse t
    | [] => some "bad-op c20from"
  -- what the wire does to a term; the Lean codec model must agree with `wireNorm`
  | ["c20wire", t] => some <| run do
    let t ← getTerm t
    let w := wireNorm t
    match encode t with
    | .error _ => pure "err"
    | .ok b =>
      match decode Ext.none b with
      | .ok d => if d == w then pure ("ok " ++ w.text) else pure ("MODEL-CODEC-DISAGREES wireNorm=" ++ w.text ++ " codec=" ++ d.text)
      | .error _ => pure "MODEL-CODEC-REJECTS"
  | ["c20isp", t] => some <| run do pure (if isProplist (← getTerm t) then "1" else "0")
  | ["c20norm", t] => some <| run do pure (resText (normalizeProplist (← getTerm t)))
  | ["c20p2m", t] => some <| run do pure (resText (proplistToMap (← getTerm t)))
  | ["c20m2p", t] => some <| run do pure (resText (mapToProplist (← getTerm t)))
  | ["c20rec", t] => some <| run do pure ("ok " ++ (toMapRec t.length (← getTerm t)).text)
  | ["c20pget", t, k] => some <| run do
    pure (optText (fun x => "ok " ++ x.text) (proplistGetAtomKey (← getTerm t) (← getHex k)))
  | ["c20kw", t] => some <| run do pure (kwBuild (← getPairs (← getTerm t))).text
  | ["c20akm", t] => some <| run do pure (akmBuild (← getPairs (← getTerm t))).text
  | ["c20akms", t, m] => some <| run do pure (akmBuildStruct (← getPairs (← getTerm t)) (← getHex m)).text
  | _ => none

end Edp.Drv
