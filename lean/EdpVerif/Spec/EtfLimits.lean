import EdpVerif.Spec.Etf
import EdpVerif.Generated.Tags
/-
The part of the External Term Format's language the library documents it reads (C03 completeness).

`within env fuel depth bs` walks the same structure as the reader `Spec.parse` (it uses the reader itself to find
where each sub-term ends) and checks nothing but the library's published limits, regenerated from decoder.rs on
every run (`Generated/Tags.lean`):

* nesting: every term starts at a depth `≤ MAX_NESTING_DEPTH` (the top-level term is at depth 0; elements, list
  tails, map keys and values, node atoms of identifiers, fun parts and the term inside LOCAL_EXT are one deeper);
* counts: LARGE_TUPLE `≤ MAX_TUPLE_SIZE`, LIST `≤ MAX_LIST_SIZE`, MAP `≤ MAX_MAP_SIZE`, BINARY / BIT_BINARY
  `≤ MAX_BINARY_SIZE` bytes;
* fields for which the format prescribes the form carry that form: the node of a pid / port / reference and the
  module / function of a fun start with one of the five atom tags (ATOM_EXT, SMALL_ATOM_EXT, ATOM_UTF8_EXT,
  SMALL_ATOM_UTF8_EXT, ATOM_CACHE_REF); Arity of EXPORT_EXT and OldIndex / OldUniq of NEW_FUN_EXT start with
  SMALL_INTEGER_EXT or INTEGER_EXT; the Pid of NEW_FUN_EXT starts with PID_EXT or NEW_PID_EXT.  (The reader
  `Spec.parse` is more liberal: it would take a big-integer form, a LOCAL_EXT wrapper or a zero-length LIST_EXT whose
  tail is the atom there.)

It says nothing about values, text, widths or alternative tags.
-/
namespace Edp.Spec
open Edp

/-- the byte string starts with SMALL_INTEGER_EXT or INTEGER_EXT -/
def intTag : Bytes → Bool
  | t :: _ => t.toNat == 97 || t.toNat == 98
  | [] => true

/-- the byte string starts with one of the five atom tags -/
def atomTag : Bytes → Bool
  | t :: _ => t.toNat == 100 || t.toNat == 115 || t.toNat == 118 || t.toNat == 119 || t.toNat == 82
  | [] => true

/-- the byte string starts with PID_EXT or NEW_PID_EXT -/
def pidTag : Bytes → Bool
  | t :: _ => t.toNat == 103 || t.toNat == 88
  | [] => true

mutual
def within (env : Env) : Nat → Nat → Bytes → Bool
  | 0, _, _ => true
  | _, _, [] => true
  | fuel+1, d, tag :: bs =>
    decide (d ≤ Gen.MAX_NESTING_DEPTH) &&
    match tag.toNat with
    | 104 => match rdN 1 bs with
      | some (n, r) => withinN env fuel (d + 1) n r
      | none => true
    | 105 => match rdN 4 bs with
      | some (n, r) => decide (n ≤ Gen.MAX_TUPLE_SIZE) && withinN env fuel (d + 1) n r
      | none => true
    | 108 => match rdN 4 bs with
      | some (n, r) => decide (n ≤ Gen.MAX_LIST_SIZE) && withinN env fuel (d + 1) n r &&
          match parseN env fuel n r with
          | some (_, r') => within env fuel (d + 1) r'
          | none => true
      | none => true
    | 109 => match rdN 4 bs with
      | some (n, _) => decide (n ≤ Gen.MAX_BINARY_SIZE)
      | none => true
    | 77 => match rdN 4 bs with
      | some (n, _) => decide (n ≤ Gen.MAX_BINARY_SIZE)
      | none => true
    | 116 => match rdN 4 bs with
      | some (n, r) => decide (n ≤ Gen.MAX_MAP_SIZE) && withinKV env fuel (d + 1) n r
      | none => true
    | 88 => atomTag bs && within env fuel (d + 1) bs
    | 103 => atomTag bs && within env fuel (d + 1) bs
    | 120 => atomTag bs && within env fuel (d + 1) bs
    | 89 => atomTag bs && within env fuel (d + 1) bs
    | 102 => atomTag bs && within env fuel (d + 1) bs
    | 101 => atomTag bs && within env fuel (d + 1) bs
    | 90 => match rdN 2 bs with
      | some (_, r0) => atomTag r0 && within env fuel (d + 1) r0
      | none => true
    | 114 => match rdN 2 bs with
      | some (_, r0) => atomTag r0 && within env fuel (d + 1) r0
      | none => true
    | 113 => atomTag bs && within env fuel (d + 1) bs &&
      match parse env fuel bs with
      | some (_, r) => atomTag r && within env fuel (d + 1) r &&
        match parse env fuel r with
        | some (_, r1) => intTag r1
        | none => true
      | none => true
    | 112 => match rdN 4 bs with
      | some (_, r0) => match rdN 1 r0 with
        | some (_, r1) => match takeN 16 r1 with
          | some (_, r2) => match rdN 4 r2 with
            | some (_, r3) => match rdN 4 r3 with
              | some (nf, r4) => atomTag r4 && within env fuel (d + 1) r4 &&
                match parse env fuel r4 with
                | some (_, r5) => intTag r5 &&
                  match parse env fuel r5 with
                  | some (_, r6) => intTag r6 &&
                    match parse env fuel r6 with
                    | some (_, r7) => pidTag r7 && within env fuel (d + 1) r7 &&
                      match parse env fuel r7 with
                      | some (_, r8) => withinN env fuel (d + 1) nf r8
                      | none => true
                    | none => true
                  | none => true
                | none => true
              | none => true
            | none => true
          | none => true
        | none => true
      | none => true
    | 121 => match rdN 8 bs with
      | some (_, r) => within env fuel (d + 1) r
      | none => true
    | _ => true
def withinN (env : Env) : Nat → Nat → Nat → Bytes → Bool
  | _, _, 0, _ => true
  | 0, _, _+1, _ => true
  | fuel+1, d, n+1, bs =>
    within env fuel d bs &&
    match parse env fuel bs with
    | some (_, r) => withinN env fuel d n r
    | none => true
def withinKV (env : Env) : Nat → Nat → Nat → Bytes → Bool
  | _, _, 0, _ => true
  | 0, _, _+1, _ => true
  | fuel+1, d, n+1, bs =>
    within env fuel d bs &&
    match parse env fuel bs with
    | some (_, r) => within env fuel d r &&
      match parse env fuel r with
      | some (_, r') => withinKV env fuel d n r'
      | none => true
    | none => true
end

/-- a complete message within the limits: the term behind the version byte at depth 0; a top-level COMPRESSED
section declares at most `MAX_BINARY_SIZE` bytes and its content is one deeper -/
def withinTop (env : Env) (bs : Bytes) : Bool :=
  match bs with
  | 131 :: 80 :: r =>
    match rdN 4 r with
    | some (usize, z) => decide (usize ≤ Gen.MAX_BINARY_SIZE) &&
      match env.inflate z with
      | some (out, _) => within env (out.length + 1) 1 out
      | none => true
    | none => true
  | 131 :: r => within env (r.length + 1) 0 r
  | _ => true

end Edp.Spec
