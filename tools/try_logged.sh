#!/bin/sh
# usage: try.sh <name> <crate> <cfg|nocfg> <Cxx> [more]
name=$1; crate=$2; cfg=$3; shift 3
if [ "$cfg" = cfg ]; then export SEED_CFG=--cfg; fi
first=$1; shift
sh /verif/tools/try_seed.sh $name $first $crate "$@" > /tmp/mut/$name-try.log 2>&1
grep -E "CONFIRMED|quick seed|VIOLATION|does not apply" /tmp/mut/$name-try.log | cut -c1-300
