import EdpVerif.Lemmas.DecSorted
import EdpVerif.Lemmas.SortMap
/-! The `BTreeMap` invariant the decoder establishes (Lemmas/DecSorted.lean) implies the `mapsSorted` guard of C12's
agreement theorem (consecutive keys ascending). -/
namespace Edp
open Term

theorem adjSorted_of_pairwiseLt (m : List (Term × Term)) (h : pairwiseLt m = true) : adjSorted m = true :=
  adjSorted_of_keysSorted m ((pairwiseLt_iff m).mp h)

mutual
/-- C12's guard follows -/
theorem mapsSorted_of_mapsStrict : ∀ (t : Term), mapsStrict t = true → mapsSorted t = true
  | .atom _, _ | .int _, _ | .float _, _ | .pid _, _ | .port _ _ _ _, _ | .ref _ _ _ _, _ | .bin _, _
  | .bits _ _, _ | .str _, _ | .xfun _ _ _, _ | .nil, _ | .big _ _, _ => by simp [mapsSorted]
  | .tuple l, h => by simp only [mapsStrict] at h; simp only [mapsSorted]; exact mapsSortedL_of_mapsStrictL l h
  | .list l, h => by simp only [mapsStrict] at h; simp only [mapsSorted]; exact mapsSortedL_of_mapsStrictL l h
  | .ifun _ _ _ _ _ _ _ _ fr, h => by
    simp only [mapsStrict] at h; simp only [mapsSorted]; exact mapsSortedL_of_mapsStrictL fr h
  | .ilist l t, h => by
    simp only [mapsStrict, Bool.and_eq_true] at h
    simp only [mapsSorted, Bool.and_eq_true]
    exact ⟨mapsSortedL_of_mapsStrictL l h.1, mapsSorted_of_mapsStrict t h.2⟩
  | .map kvs, h => by
    simp only [mapsStrict, Bool.and_eq_true] at h
    simp only [mapsSorted, Bool.and_eq_true]
    exact ⟨adjSorted_of_pairwiseLt kvs h.1, mapsSortedKV_of_mapsStrictKV kvs h.2⟩
theorem mapsSortedL_of_mapsStrictL : ∀ (l : List Term), mapsStrictL l = true → mapsSortedL l = true
  | [], _ => rfl
  | t :: ts, h => by
    simp only [mapsStrictL, Bool.and_eq_true] at h
    simp only [mapsSortedL, Bool.and_eq_true]
    exact ⟨mapsSorted_of_mapsStrict t h.1, mapsSortedL_of_mapsStrictL ts h.2⟩
theorem mapsSortedKV_of_mapsStrictKV : ∀ (l : List (Term × Term)), mapsStrictKV l = true → mapsSortedKV l = true
  | [], _ => rfl
  | (k, v) :: r, h => by
    simp only [mapsStrictKV, Bool.and_eq_true] at h
    simp only [mapsSortedKV, Bool.and_eq_true]
    exact ⟨⟨mapsSorted_of_mapsStrict k h.1.1, mapsSorted_of_mapsStrict v h.1.2⟩, mapsSortedKV_of_mapsStrictKV r h.2⟩
end

end Edp
