import EdpVerif.Lemmas.Frag
/-
C09 — fragment reassembly returns the original message once, in any arrival order.
Property theorems only; the model is EdpVerif/Impl/Frag.lean, the protocol's splitting EdpVerif/Spec/Frag.lean,
helper lemmas and the vocabulary (`fragOp`, `Delivers`, `cnt`, `proj`, `Unexpiring`, `WF`) EdpVerif/Lemmas/Frag.lean.
-/
namespace Edp.Props.C09
open Edp Edp.Frag Edp.Spec.Frag

/-- DEFECT (negation of the full-strength property): a two-fragment message delivered in the protocol's own order is
returned with its pieces swapped — `reassemble` concatenates by ascending fragment id, the protocol by descending. -/
theorem C09_not_any_order :
    ∃ (msg : Bytes) (lens : List Nat) (t : Nat),
      (Assembler.new t).outs ((split 1 none msg lens).map (fragOp 0)) = [none, some [2, 1]] ∧
      expected none msg = [1, 2] :=
  ⟨[1, 2], [1], 0, by decide⟩

/-- EXACTLY ONCE, ANY ORDER, ANY DUPLICATION, ANY INTERLEAVING (bug-for-bug in the order of the pieces).
`ps` are the pieces of a message of sequence `q` (any message, any number of pieces up to the vector limit, any cut);
the events `pre ++ l :: post` are arbitrary except that those of sequence `q` deliver fragments of the protocol's split
(in any order, any number of times), `l` is the arrival of the last missing fragment, and no complete second round follows.
Then the assembler returns nothing at `q`'s events before `l`, the pieces in ASCENDING id at `l`, nothing afterwards,
and holds an entry for `q` afterwards only if a late duplicate arrived. -/
theorem C09_ascending_any_order (a : Assembler) (hw : WF a.pending) (q : Nat) (h0 : lookup q a.pending = none)
    (cache : Option Bytes) (ps : List Bytes) (hne : ps ≠ []) (hlim : ps.length ≤ MAX_FRAGMENTS_VEC)
    (pre post : List Op) (l : Op)
    (hconf : ∀ o ∈ pre ++ l :: post, o.seq = some q → Delivers q cache ps o)
    (hexp : Unexpiring a.timeout (pre ++ l :: post))
    (hl : l.seq = some q)
    (hmiss : ∀ o ∈ pre, o.seq = some q → Op.fid o ≠ Op.fid l)
    (hall : ∀ k, 1 ≤ k → k ≤ ps.length → k ≠ Op.fid l → ∃ o ∈ pre, o.seq = some q ∧ Op.fid o = k)
    (hpost : ∃ k, 1 ≤ k ∧ k ≤ ps.length ∧ ∀ o ∈ post, o.seq = some q → Op.fid o ≠ k) :
    a.outsFor q (pre ++ l :: post) =
      List.replicate (cnt q pre) none ++ some (cache.getD [] ++ ps.reverse.flatten) :: List.replicate (cnt q post) none ∧
    (lookup q (a.after (pre ++ l :: post)).pending = none ↔ cnt q post = 0) := by
  have hn : 1 ≤ ps.reverse.length := by
    cases ps with
    | nil => exact absurd rfl hne
    | cons p r => simp
  have hv : ps.reverse.length ≤ MAX_FRAGMENTS_VEC := by simpa using hlim
  obtain ⟨e1, e2⟩ := after_outs_proj q (pre ++ l :: post) a hw
  rw [h0] at e1 e2
  have hproj : proj q (pre ++ l :: post) = proj q pre ++ l :: proj q post := by
    rw [proj_append, proj_cons_self hl]
  have hlF : IsFrag ps.reverse q cache l := isFrag_of_delivers (hconf l (by simp) hl)
  have hpreC := conf_of_proj (X := pre) (t := a.timeout) (fun o ho => hconf o (by simp [ho]))
    (fun now h => hexp now (by simp [h]))
  have hpostC := conf_of_proj (X := post) (t := a.timeout) (fun o ho => hconf o (by simp [ho]))
    (fun now h => hexp now (by simp [h]))
  have hrange := isFrag_fid_range hn hlF
  have hmissQ : ¬ Full ps.reverse (fidsOf (proj q pre)).reverse := by
    intro hf
    have := hf (Op.fid l - 1) (by omega)
    have e : Op.fid l - 1 + 1 = Op.fid l := by omega
    rw [e, List.mem_reverse, mem_fidsOf_proj] at this
    obtain ⟨o, ho, hs, hk⟩ := this
    exact hmiss o ho hs hk
  have hfullQ : Full ps.reverse (Op.fid l :: (fidsOf (proj q pre)).reverse) := by
    intro i hi
    by_cases hk : i + 1 = Op.fid l
    · simp [hk]
    · refine List.mem_cons_of_mem _ ?_
      rw [List.mem_reverse, mem_fidsOf_proj]
      exact hall (i + 1) (by omega) (by simp at hi; omega) hk
  have hagainQ : ¬ Full ps.reverse (fidsOf (proj q post)).reverse := by
    obtain ⟨k, k1, k2, hk⟩ := hpost
    intro hf
    have := hf (k - 1) (by simp; omega)
    have e : k - 1 + 1 = k := by omega
    rw [e, List.mem_reverse, mem_fidsOf_proj] at this
    obtain ⟨o, ho, hs, hk'⟩ := this
    exact hk o ho hs hk'
  obtain ⟨r1, r2⟩ := run_complete (t := a.timeout) hn hv (proj q pre) (proj q post) l hpreC hlF hpostC hmissQ hfullQ hagainQ
  constructor
  · rw [e2, hproj, r1]
    simp only [List.map_const', length_fidsOf_proj, ascending]
  · rw [e1, hproj, good_none_iff r2, List.reverse_eq_nil_iff, ← length_fidsOf_proj, List.length_eq_zero_iff]

/-- non-vacuity: header first, then the continuation -/
example :
    (Assembler.new 100).outsFor 1 ([Op.start 0 1 2 none [1]] ++ Op.add 1 1 1 [2] :: []) =
      List.replicate (cnt 1 [Op.start 0 1 2 none [1]]) none ++ some ((none : Option Bytes).getD [] ++ [[1], [2]].reverse.flatten) ::
        List.replicate (cnt 1 []) none :=
  And.left <| C09_ascending_any_order (Assembler.new 100) (by simp [WF, Assembler.new]) 1 rfl none [[1], [2]] (by simp) (by decide)
    [Op.start 0 1 2 none [1]] [] (Op.add 1 1 1 [2])
    (by
      intro o ho _
      simp only [List.cons_append, List.nil_append, List.mem_cons, List.not_mem_nil, or_false] at ho
      rcases ho with rfl | rfl
      · exact ⟨0, ⟨1, 2, true, none, [1]⟩, by decide, rfl⟩
      · exact ⟨1, ⟨1, 1, false, none, [2]⟩, by decide, rfl⟩)
    (by intro now h; simp at h)
    rfl
    (by intro o ho _; simp at ho; subst ho; simp [Op.fid])
    (by
      intro k h1 h2 h3
      simp only [Op.fid, List.length_cons, List.length_nil] at h2 h3
      exact ⟨_, List.mem_cons_self, rfl, by simp only [Op.fid]; omega⟩)
    ⟨1, by decide, by decide, by simp⟩

/-- ANY ARRIVAL PERMUTATION (the same, with the arrival order given as a `List.Perm`): if the fragments that the events of
sequence `q` carry are, in some order, exactly the protocol's split of the pieces `ps` — each once —, then whatever else is
interleaved the assembler returns nothing at the first `n - 1` of them and the pieces in ASCENDING id at the last. -/
theorem C09_ascending_perm (a : Assembler) (hw : WF a.pending) (q : Nat) (h0 : lookup q a.pending = none)
    (cache : Option Bytes) (ps : List Bytes) (hne : ps ≠ []) (hlim : ps.length ≤ MAX_FRAGMENTS_VEC)
    (ops : List Op) (hexp : Unexpiring a.timeout ops)
    (hperm : ((ops.filter (fun o => o.seq == some q)).filterMap Op.toFrag).Perm (number q cache ps)) :
    a.outsFor q ops = List.replicate (ps.length - 1) none ++ [some (cache.getD [] ++ ps.reverse.flatten)] := by
  have hnlen : (number q cache ps).length = ps.length := by simp [number]
  have hpos : 1 ≤ ps.length := by
    cases ps with
    | nil => exact absurd rfl hne
    | cons p r => simp
  -- there is an event of `q`; split at the last one
  have hex : ∃ x ∈ ops, (fun o : Op => o.seq == some q) x = true := by
    obtain ⟨f, hf, _⟩ := number_has_fid q cache ps 1 (Nat.le_refl _) hpos
    have := (hperm.mem_iff).mpr hf
    obtain ⟨o, ho, _⟩ := List.mem_filterMap.mp this
    obtain ⟨ho1, ho2⟩ := List.mem_filter.mp ho
    exact ⟨o, ho1, ho2⟩
  obtain ⟨pre, l, post, rfl, hlp, hpostp⟩ := exists_last _ ops hex
  have hl : l.seq = some q := by simpa using hlp
  have hpostq : ∀ o ∈ post, o.seq ≠ some q := by
    intro o ho; simpa using hpostp o ho
  have hfpost : post.filter (fun o => o.seq == some q) = [] := by
    apply List.filter_eq_nil_iff.mpr
    intro o ho; simpa using hpostp o ho
  have hQ : (pre ++ l :: post).filter (fun o => o.seq == some q) = pre.filter (fun o => o.seq == some q) ++ [l] := by
    simp [hl, hfpost]
  rw [hQ] at hperm
  have hallq : ∀ o ∈ pre.filter (fun o => o.seq == some q) ++ [l], o.seq = some q := by
    intro o ho
    rcases List.mem_append.mp ho with h | h
    · simpa using (List.mem_filter.mp h).2
    · simp at h; subst h; exact hl
  have hfids := fids_filterMap q _ hallq
  have hnd : ((pre.filter (fun o => o.seq == some q) ++ [l]).map Op.fid).Nodup := by
    rw [← hfids]
    exact ((hperm.map (·.fid)).nodup_iff).mpr (number_fids_nodup q cache ps)
  have hlen : (pre.filter (fun o => o.seq == some q)).length + 1 = ps.length := by
    have := hperm.length_eq
    rw [hnlen] at this
    rw [← this]
    have : ((pre.filter (fun o => o.seq == some q) ++ [l]).filterMap Op.toFrag).length =
        ((pre.filter (fun o => o.seq == some q) ++ [l]).map Op.fid).length := by rw [← hfids]; simp
    rw [this]; simp
  have hmem : ∀ o ∈ pre.filter (fun o => o.seq == some q) ++ [l], Delivers q cache ps o := by
    intro o ho
    obtain ⟨f, hf⟩ := toFrag_isSome (hallq o ho)
    obtain ⟨now, hnow⟩ := (fragOp_of_toFrag hf).1
    exact ⟨now, f, (hperm.mem_iff).mp (List.mem_filterMap.mpr ⟨o, ho, hf⟩), hnow⟩
  have main := (C09_ascending_any_order a hw q h0 cache ps hne hlim pre post l
    (by
      intro o ho hs
      rcases List.mem_append.mp ho with h | h
      · exact hmem o (List.mem_append_left _ (List.mem_filter.mpr ⟨h, by simp [hs]⟩))
      · rcases List.mem_cons.mp h with rfl | h
        · exact hmem o (by simp)
        · exact absurd hs (hpostq o h))
    hexp hl
    (by
      intro o ho hs he
      rw [List.map_append, List.nodup_append] at hnd
      exact hnd.2.2 (Op.fid o) (List.mem_map.mpr ⟨o, List.mem_filter.mpr ⟨ho, by simp [hs]⟩, rfl⟩) (Op.fid l) (by simp) he)
    (by
      intro k k1 k2 hk
      obtain ⟨f, hf, hfk⟩ := number_has_fid q cache ps k k1 k2
      obtain ⟨o, ho, hof⟩ := List.mem_filterMap.mp ((hperm.mem_iff).mpr hf)
      have hfo := (fragOp_of_toFrag hof).2
      rcases List.mem_append.mp ho with h | h
      · obtain ⟨h1, h2⟩ := List.mem_filter.mp h
        exact ⟨o, h1, by simpa using h2, by rw [← hfo, hfk]⟩
      · simp at h; subst h
        exact absurd (by rw [← hfo, hfk]) hk)
    ⟨1, Nat.le_refl _, hpos, fun o ho hs => absurd hs (hpostq o ho)⟩).1
  rw [main]
  have c1 : cnt q pre = ps.length - 1 := by
    simp only [cnt, List.countP_eq_length_filter]; omega
  have c2 : cnt q post = 0 := by
    simp only [cnt, List.countP_eq_length_filter, hfpost, List.length_nil]
  rw [c1, c2]; rfl

/-- non-vacuity: the continuation before the header, a foreign sequence in between -/
example : (([Op.add 0 1 1 [2], Op.add 1 9 4 [7], Op.start 2 1 2 none [1]].filter (fun o => o.seq == some 1)).filterMap
    Op.toFrag).Perm (number 1 none [[1], [2]]) := by decide

/-- THE PROPERTY, PARTIAL: with the guard that the pieces read the same in ascending and in descending id order (one piece,
or at most one non-empty piece, or a palindromic cut) the assembler returns THE ORIGINAL MESSAGE (after the atom-cache
section) exactly once, at the arrival of the last missing fragment, for any arrival order, duplication and interleaving.
`Delivers q cache (cut msg lens) o` says that `o` delivers a fragment of `split q cache msg lens`. -/
theorem C09_any_order_partial (a : Assembler) (hw : WF a.pending) (q : Nat) (h0 : lookup q a.pending = none)
    (cache : Option Bytes) (msg : Bytes) (lens : List Nat) (hlim : lens.length + 1 ≤ MAX_FRAGMENTS_VEC)
    (guard : (cut msg lens).reverse.flatten = msg)
    (pre post : List Op) (l : Op)
    (hconf : ∀ o ∈ pre ++ l :: post, o.seq = some q → Delivers q cache (cut msg lens) o)
    (hexp : Unexpiring a.timeout (pre ++ l :: post))
    (hl : l.seq = some q)
    (hmiss : ∀ o ∈ pre, o.seq = some q → Op.fid o ≠ Op.fid l)
    (hall : ∀ k, 1 ≤ k → k ≤ lens.length + 1 → k ≠ Op.fid l → ∃ o ∈ pre, o.seq = some q ∧ Op.fid o = k)
    (hpost : ∃ k, 1 ≤ k ∧ k ≤ lens.length + 1 ∧ ∀ o ∈ post, o.seq = some q → Op.fid o ≠ k) :
    a.outsFor q (pre ++ l :: post) =
      List.replicate (cnt q pre) none ++ some (expected cache msg) :: List.replicate (cnt q post) none := by
  have hlen := cut_length msg lens
  have hne : cut msg lens ≠ [] := by
    intro e; rw [e] at hlen; simp at hlen
  have := (C09_ascending_any_order a hw q h0 cache (cut msg lens) hne (by omega) pre post l hconf hexp hl hmiss
    (by rw [hlen]; exact hall) (by rw [hlen]; exact hpost)).1
  rw [this, guard, expected]

/-- non-vacuity of the guard: a one-fragment message, and a two-fragment message whose first piece is empty -/
example : (cut [1, 2, 3] []).reverse.flatten = [1, 2, 3] ∧ (cut [1, 2, 3] [0]).reverse.flatten = [1, 2, 3] := by decide

/-- NOTHING FOR AN INCOMPLETE SEQUENCE: while some fragment id of `q` has not arrived, nothing is returned at `q`'s events
(whatever their order and multiplicity, whatever is interleaved), and `q` is held iff something of it has arrived. -/
theorem C09_incomplete_returns_nothing (a : Assembler) (hw : WF a.pending) (q : Nat) (h0 : lookup q a.pending = none)
    (cache : Option Bytes) (ps : List Bytes) (hne : ps ≠ []) (hlim : ps.length ≤ MAX_FRAGMENTS_VEC) (ops : List Op)
    (hconf : ∀ o ∈ ops, o.seq = some q → Delivers q cache ps o)
    (hexp : Unexpiring a.timeout ops)
    (hmissing : ∃ k, 1 ≤ k ∧ k ≤ ps.length ∧ ∀ o ∈ ops, o.seq = some q → Op.fid o ≠ k) :
    a.outsFor q ops = List.replicate (cnt q ops) none ∧
    (lookup q (a.after ops).pending = none ↔ cnt q ops = 0) := by
  have hn : 1 ≤ ps.reverse.length := by
    cases ps with
    | nil => exact absurd rfl hne
    | cons p r => simp
  have hv : ps.reverse.length ≤ MAX_FRAGMENTS_VEC := by simpa using hlim
  obtain ⟨e1, e2⟩ := after_outs_proj q ops a hw
  rw [h0] at e1 e2
  have hC := conf_of_proj (X := ops) (t := a.timeout) hconf hexp
  have hnf : ¬ Full ps.reverse ((fidsOf (proj q ops)).reverse ++ []) := by
    obtain ⟨k, k1, k2, hk⟩ := hmissing
    intro hf
    have := hf (k - 1) (by simp; omega)
    have e : k - 1 + 1 = k := by omega
    rw [e, List.append_nil, List.mem_reverse, mem_fidsOf_proj] at this
    obtain ⟨o, ho, hs, hk'⟩ := this
    exact hk o ho hs hk'
  obtain ⟨r1, r2⟩ := run_incomplete (q := q) (t := a.timeout) hn hv (proj q ops) [] none rfl hC hnf
  constructor
  · rw [e2, r2]
    simp only [List.map_const', length_fidsOf_proj]
  · rw [e1, good_none_iff r1, List.append_nil, List.reverse_eq_nil_iff, ← length_fidsOf_proj, List.length_eq_zero_iff]

/-- non-vacuity: the header of a two-fragment message alone -/
example : (Assembler.new 100).outsFor 1 [Op.start 0 1 2 none [1]] = List.replicate (cnt 1 [Op.start 0 1 2 none [1]]) none :=
  And.left <| C09_incomplete_returns_nothing (Assembler.new 100) (by simp [WF, Assembler.new]) 1 rfl none [[1], [2]] (by simp) (by decide)
    [Op.start 0 1 2 none [1]]
    (by
      intro o ho _
      simp only [List.mem_cons, List.not_mem_nil, or_false] at ho
      subst ho
      exact ⟨0, ⟨1, 2, true, none, [1]⟩, by decide, rfl⟩)
    (by intro now h; simp at h)
    ⟨1, by decide, by decide, by intro o ho _; simp at ho; subst ho; simp [Op.fid]⟩

/-- ISOLATION: what the assembler returns at the events of sequence `q`, and what it holds for `q`, depends only on `q`'s
own entry, `q`'s own events and the cleanups (`proj q`) — not on the events of other sequences interleaved with them. -/
theorem C09_isolation (a a' : Assembler) (hw : WF a.pending) (hw' : WF a'.pending) (ht : a.timeout = a'.timeout) (q : Nat)
    (h0 : lookup q a.pending = lookup q a'.pending) (ops ops' : List Op) (h : proj q ops = proj q ops') :
    a.outsFor q ops = a'.outsFor q ops' ∧
    lookup q (a.after ops).pending = lookup q (a'.after ops').pending := by
  obtain ⟨e1, e2⟩ := after_outs_proj q ops a hw
  obtain ⟨f1, f2⟩ := after_outs_proj q ops' a' hw'
  rw [e1, e2, f1, f2, h, h0, ht]
  exact ⟨rfl, rfl⟩

/-- non-vacuity: the same two events of sequence 1 with and without an event of sequence 2 between them -/
example : proj 1 [Op.start 0 1 2 none [1], Op.add 1 2 7 [9], Op.add 2 1 1 [2]] = proj 1 [Op.start 0 1 2 none [1], Op.add 2 1 1 [2]] := by
  decide

/-- HOLDS ONLY INCOMPLETE SEQUENCES: after any events whatsoever (any ids, any counts, any order, cleanups) on a fresh
assembler, there is at most one entry per sequence id (so `pending_count` counts distinct sequences), no entry is complete,
and every entry belongs to a sequence that has sent something. -/
theorem C09_holds_only_incomplete (t : Nat) (ops : List Op) :
    WF ((Assembler.new t).after ops).pending ∧
    ((Assembler.new t).after ops).pendingCount = (((Assembler.new t).after ops).pending.map Prod.fst).length ∧
    ∀ q m, lookup q ((Assembler.new t).after ops).pending = some m →
      m.isComplete = false ∧ ∃ o ∈ ops, o.seq = some q := by
  have hw0 : WF (Assembler.new t).pending := by simp [WF, Assembler.new]
  have hi0 : AllIncomplete (Assembler.new t).pending := by intro q m h; simp [Assembler.new, lookup] at h
  obtain ⟨hw, hi⟩ := after_invariants ops (Assembler.new t) hw0 hi0
  refine ⟨hw, by simp [Assembler.pendingCount], ?_⟩
  intro q m hm
  refine ⟨hi q m hm, ?_⟩
  apply Classical.byContradiction
  intro hno
  have e := (after_outs_proj q ops (Assembler.new t) hw0).1
  have hnone : lookup q (Assembler.new t).pending = none := rfl
  rw [hnone, afterQ_cleanups_none] at e
  · rw [e] at hm; simp at hm
  · intro o ho
    obtain ⟨hX, hs | hs⟩ := mem_proj.mp ho
    · exact absurd ⟨o, hX, hs⟩ hno
    · exact hs

/-- DEFECT (counts in (100 000, 1 000 000] never complete): when the headers of sequence `q` carry a count above
`MAX_FRAGMENTS_VEC` — accepted by `FragmentCount::new` up to 1 000 000 — no slot is ever allocated, so NOTHING is ever
returned for `q`, whatever arrives, in whatever order, however often. -/
theorem C09_not_completes_above_vec_limit (a : Assembler) (hw : WF a.pending) (q : Nat) (h0 : lookup q a.pending = none)
    (n : Nat) (hn : MAX_FRAGMENTS_VEC < n) (ops : List Op)
    (hh : ∀ now fid c d, Op.start now q fid c d ∈ ops → fid = n) :
    a.outsFor q ops = List.replicate (cnt q ops) none := by
  obtain ⟨_, e2⟩ := after_outs_proj q ops a hw
  rw [h0] at e2
  rw [e2, run_stuck (t := a.timeout) hn (proj q ops) none (by intro m h; simp at h)]
  · simp only [List.map_const', length_fidsOf_proj]
  · intro o ho now q' fid c d he
    subst he
    obtain ⟨hX, hs | hs⟩ := mem_proj.mp ho
    · simp only [Op.seq, Option.some.injEq] at hs
      subst hs
      exact hh now fid c d hX
    · simp [Op.seq] at hs

/-- non-vacuity: a count of 100 001 is accepted (the sequence is held) and then never completes -/
example : MAX_FRAGMENTS_VEC < 100001 ∧ 100001 ≤ MAX_FRAGMENT_COUNT ∧
    ((Assembler.new 0).after [Op.start 0 5 100001 none [1]]).pendingCount = 1 := by decide

/-- EXPIRY: `cleanup_expired` at clock value `now` keeps exactly the entries touched within the timeout, reports how many it
dropped, and every `add_fragment` refreshes the entry it leaves behind. -/
theorem C09_cleanup_drops_exactly_expired (a : Assembler) (hw : WF a.pending) (now q : Nat) :
    lookup q (a.cleanupExpired now).1.pending =
      (lookup q a.pending).filter (fun m => decide (now - m.last ≤ a.timeout)) ∧
    (a.cleanupExpired now).2 = a.pendingCount - (a.cleanupExpired now).1.pendingCount ∧
    ∀ t' seq fid d m, lookup seq (a.addFragment t' seq fid d).1.pending = some m → m.last = t' := by
  refine ⟨?_, rfl, ?_⟩
  · have := lookup_filter (l := a.pending) (fun m => !m.isExpired now a.timeout) q hw
    simp only [Assembler.cleanupExpired]
    rw [this]
    congr 1
    funext m
    simp only [FragMsg.isExpired]
    by_cases h : a.timeout < now - m.last
    · have : ¬ now - m.last ≤ a.timeout := by omega
      simp [h, this]
    · have : now - m.last ≤ a.timeout := by omega
      simp [h, this]
  · intro t' seq fid d m hm
    have hs := (step_self a (Op.add t' seq fid d) seq rfl).1
    simp only [Assembler.step] at hs
    rw [hs] at hm
    simp only [stepQ, addQ] at hm
    cases hl : lookup seq a.pending with
    | none =>
      rw [hl] at hm
      simp only [Option.some.injEq] at hm
      rw [← hm, addFragment_last]
    | some m' =>
      rw [hl] at hm
      simp only at hm
      split at hm
      · simp at hm
      · simp only [Option.some.injEq] at hm
        rw [← hm, addFragment_last]

/-- non-vacuity: with timeout 5, an entry touched at 0 is dropped by a cleanup at 6 and kept by one at 5 -/
example : ((Assembler.new 5).after [Op.add 0 1 1 [7], Op.cleanup 6]).pendingCount = 0 ∧
    ((Assembler.new 5).after [Op.add 0 1 1 [7], Op.cleanup 5]).pendingCount = 1 := by decide

/-- DEFECT (outside the protocol: two headers with different counts for one sequence): `set_total_fragments` truncates the
slot vector without recomputing `received_count`, so a message is returned although fragment 1 never arrived. -/
theorem C09_not_nothing_for_incomplete_after_conflicting_headers :
    ∃ t, (Assembler.new t).outs [Op.start 0 1 3 none [0x33], Op.start 1 1 2 none [0x22]] = [none, some [0x22]] :=
  ⟨0, by decide⟩

end Edp.Props.C09
