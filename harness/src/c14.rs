//! C14: distribution headers and the atom cache.
//!
//! Tie (T): `encode_with_dist_header(_multi)` vs `DistHeader.encodeDist` (the hash-set order of the atoms is read off
//! the real output and handed to the model, which must reproduce the bytes exactly); `decode_with_atom_cache` over
//! message sequences sharing one `AtomCache` vs `DistHeader.decodeSeq`.
//! Oracle (P): the independent reader `Spec.DistHeader.readMessage/readSeq` on the library's bytes and on the
//! histories of the sender model below.  Harness-side checks (X): the library reads its own output back identically;
//! the library resolves every reference of a conforming sender's history to the atom the sender meant.
use crate::canon::{hex, hexarg, term_text};
use crate::oracle::oracle_for;
use crate::rng::Rng;
use crate::tgen::{gen_term, Cfg};
use crate::Ctx;
use erltf::decoder::AtomCache;
use erltf::types::{Atom, ExternalFun, ExternalPid, ExternalPort, ExternalReference, InternalFun};
use erltf::OwnedTerm;
use std::collections::{BTreeMap, HashMap};

fn atoms_arg(order: &[String]) -> String {
    if order.is_empty() {
        return "-".into();
    }
    order.iter().map(|a| if a.is_empty() { "e".to_string() } else { hex(a.as_bytes()) }).collect::<Vec<_>>().join(",")
}

/// the atoms of a term in traversal order (the harness's own traversal, mirrors what a header must list)
fn collect(t: &OwnedTerm, out: &mut Vec<String>) {
    let add = |a: &Atom, out: &mut Vec<String>| {
        let s = a.as_str().to_string();
        if !out.contains(&s) {
            out.push(s);
        }
    };
    match t {
        OwnedTerm::Atom(a) => add(a, out),
        OwnedTerm::Tuple(l) | OwnedTerm::List(l) => l.iter().for_each(|e| collect(e, out)),
        OwnedTerm::ImproperList { elements, tail } => {
            elements.iter().for_each(|e| collect(e, out));
            collect(tail, out)
        }
        OwnedTerm::Map(m) => m.iter().for_each(|(k, v)| {
            collect(k, out);
            collect(v, out)
        }),
        OwnedTerm::Pid(p) => add(&p.node, out),
        OwnedTerm::Port(p) => add(&p.node, out),
        OwnedTerm::Reference(r) => add(&r.node, out),
        OwnedTerm::ExternalFun(f) => {
            add(&f.module, out);
            add(&f.function, out)
        }
        OwnedTerm::InternalFun(f) => {
            add(&f.module, out);
            add(&f.pid.node, out);
            f.free_vars.iter().for_each(|e| collect(e, out))
        }
        _ => {}
    }
}

/// read the atom order off a header written in the library's layout (every reference new: index, length, text)
fn observed_order(bytes: &[u8], long: bool) -> Option<Vec<String>> {
    if bytes.len() < 3 || bytes[0] != 131 || bytes[1] != 68 {
        return None;
    }
    let n = bytes[2] as usize;
    if n == 0 {
        return Some(vec![]);
    }
    let mut p = 3 + n / 2 + 1;
    let mut out = vec![];
    for _ in 0..n {
        p += 1; // internal index
        let len = if long {
            let l = u16::from_be_bytes([*bytes.get(p)?, *bytes.get(p + 1)?]) as usize;
            p += 2;
            l
        } else {
            let l = *bytes.get(p)? as usize;
            p += 1;
            l
        };
        let text = bytes.get(p..p + len)?;
        p += len;
        out.push(String::from_utf8(text.to_vec()).ok()?);
    }
    Some(out)
}

fn dec_pair(cache: &mut AtomCache, b: &[u8]) -> (String, Option<(OwnedTerm, Option<OwnedTerm>)>) {
    let r = std::panic::catch_unwind(std::panic::AssertUnwindSafe(|| erltf::decode_with_atom_cache(b, cache)));
    match r {
        Ok(Ok((c, p))) => {
            let s = format!("ok {} {}", term_text(&c), p.as_ref().map(term_text).unwrap_or("-".into()));
            (s, Some((c, p)))
        }
        Ok(Err(erltf::errors::DecodeError::TrailingData(n))) => (format!("trailing {}", n), None),
        Ok(Err(_)) => ("err".into(), None),
        Err(_) => ("panic".into(), None),
    }
}

/// wire normal form of a term (strings come back as binaries, wide integers as big integers, …)
fn norm(t: &OwnedTerm) -> Option<OwnedTerm> {
    erltf::decode(&erltf::encode(t).ok()?).ok()
}

/// one encoder case: tie, spec oracle, own round trip
fn enc_case(ctx: &mut Ctx, tag: &str, terms: &[OwnedTerm]) {
    let refs: Vec<&OwnedTerm> = terms.iter().collect();
    let res = std::panic::catch_unwind(|| {
        if refs.len() == 1 { erltf::encode_with_dist_header(refs[0]) } else { erltf::encode_with_dist_header_multi(&refs) }
    });
    let mut atoms = vec![];
    terms.iter().for_each(|t| collect(t, &mut atoms));
    let long = atoms.iter().any(|a| a.len() > 255);
    let texts: Vec<String> = terms.iter().map(term_text).collect();
    ctx.count(&format!("enc_atoms_{}", match atoms.len() { 0 => "0", 1 => "1", 2..=8 => "2to8", 9..=254 => "9to254", 255 => "255", _ => "over255" }));
    ctx.count(if atoms.len() % 2 == 0 { "enc_even" } else { "enc_odd" });
    if long {
        ctx.count("enc_long_atoms");
    }
    match res {
        Err(_) => {
            ctx.tie(tag, &format!("c14enc ? {}", texts.join(" ")), "panic");
            ctx.fail("c14-encode-panic", &texts.join(" "));
        }
        Ok(Err(_)) => {
            ctx.count("enc_err");
            ctx.tie(tag, &format!("c14enc ? {}", texts.join(" ")), "err");
            // an error is admissible only beyond the header's limits (or the term codec's own size limits)
            let big = atoms.len() > 255 || atoms.iter().any(|a| a.len() > 65535);
            if !big && terms.iter().all(|t| erltf::encode(t).is_ok()) {
                ctx.fail("c14-encode-refused", &format!("{} atoms, longest {}", atoms.len(), atoms.iter().map(|a| a.len()).max().unwrap_or(0)));
            }
        }
        Ok(Ok(bytes)) => {
            ctx.count("enc_ok");
            if atoms.len() > 255 || atoms.iter().any(|a| a.len() > 65535) {
                ctx.fail("c14-limit-not-enforced", &format!("{} atoms, longest {}", atoms.len(), atoms.iter().map(|a| a.len()).max().unwrap_or(0)));
            }
            let order = observed_order(&bytes, long);
            let oarg = match &order { Some(o) => atoms_arg(o), None => "?".into() };
            ctx.tie(tag, &format!("c14enc {} {}", oarg, texts.join(" ")), &format!("ok {}", hex(&bytes)));
            let Some(orc) = oracle_for(&bytes) else { ctx.count("skipped_oracle_too_large"); return };
            // the independent reader reads the same terms (values), every atom intact
            ctx.prop("c14-spec-reads-other", &format!("c14spec {} {} {}", orc, hex(&bytes), texts.join(" ")), "ok");
            // the library's own decoder reads it back identically
            let mut cache = AtomCache::new();
            let (s, got) = dec_pair(&mut cache, &bytes);
            ctx.tie(tag, &format!("c14seq {} {}", orc, hex(&bytes)), &s);
            let want: Vec<Option<OwnedTerm>> = terms.iter().map(norm).collect();
            let ok = match (&got, want.as_slice()) {
                (Some((c, None)), [Some(w)]) => c == w && term_text(c) == term_text(w),
                (Some((c, Some(p))), [Some(w), Some(wp)]) => c == w && p == wp && term_text(c) == term_text(w) && term_text(p) == term_text(wp),
                _ => false,
            };
            if !ok {
                ctx.fail("c14-own-roundtrip", &format!("{} -> {}", texts.join(" "), s));
            }
        }
    }
}

fn atom_of_len(i: usize, len: usize) -> String {
    let base = format!("a{}_", i);
    if len == 0 {
        return String::new();
    }
    let mut s: String = base.chars().take(len).collect();
    while s.len() < len {
        // multi-byte filler now and then
        if s.len() + 2 <= len && (s.len() + i) % 7 == 0 { s.push('é') } else { s.push('x') }
    }
    s
}

/// a control tuple + payload containing exactly the given atoms (spread over tuple, list, map, pid, fun positions)
fn terms_with_atoms(r: &mut Rng, atoms: &[String]) -> Vec<OwnedTerm> {
    let mut items: Vec<OwnedTerm> = vec![];
    for (i, a) in atoms.iter().enumerate() {
        let at = Atom::new(a.as_str());
        items.push(match (i + r.below(3) as usize) % 6 {
            0 => OwnedTerm::Pid(ExternalPid::new(at, 1 + i as u32, 0, 3)),
            1 => OwnedTerm::Reference(ExternalReference::new(at, 7, vec![1, 2, 3])),
            2 => OwnedTerm::Port(ExternalPort::new(at, 9, 2)),
            3 => OwnedTerm::ExternalFun(ExternalFun::new(at.clone(), at, 2)),
            _ => OwnedTerm::Atom(at),
        });
    }
    // every atom twice now and then, so references repeat
    if !items.is_empty() && r.chance(1, 2) {
        let k = r.below(items.len() as u64) as usize;
        items.push(items[k].clone());
    }
    let split = if items.is_empty() { 0 } else { r.below(items.len() as u64 + 1) as usize };
    let payload: Vec<OwnedTerm> = items.split_off(split);
    let control = OwnedTerm::Tuple(std::iter::once(OwnedTerm::Integer(6)).chain(items).collect());
    let payload = match r.below(3) {
        0 => OwnedTerm::List(payload),
        1 => OwnedTerm::Tuple(payload),
        _ => {
            let mut m = BTreeMap::new();
            for (i, p) in payload.into_iter().enumerate() {
                m.insert(OwnedTerm::Integer(i as i64), p);
            }
            OwnedTerm::Map(m)
        }
    };
    vec![control, payload]
}

// ---------------------------------------------------------------------------------------------------------------
// a conforming sender with an atom cache (written from the protocol, not from the library)

fn put_atom(v: &mut Vec<u8>, a: &str, pos: &HashMap<String, u8>) {
    if let Some(i) = pos.get(a) {
        v.push(82);
        v.push(*i);
    } else if a.len() <= 255 {
        v.push(119);
        v.push(a.len() as u8);
        v.extend_from_slice(a.as_bytes());
    } else {
        v.push(118);
        v.extend_from_slice(&(a.len() as u16).to_be_bytes());
        v.extend_from_slice(a.as_bytes());
    }
}

fn put_pid(v: &mut Vec<u8>, p: &ExternalPid, pos: &HashMap<String, u8>) {
    v.push(88);
    put_atom(v, p.node.as_str(), pos);
    v.extend_from_slice(&p.id.to_be_bytes());
    v.extend_from_slice(&p.serial.to_be_bytes());
    v.extend_from_slice(&p.creation.to_be_bytes());
}

fn put_term(v: &mut Vec<u8>, t: &OwnedTerm, pos: &HashMap<String, u8>) {
    match t {
        OwnedTerm::Atom(a) => put_atom(v, a.as_str(), pos),
        OwnedTerm::Tuple(l) => {
            if l.len() <= 255 {
                v.push(104);
                v.push(l.len() as u8);
            } else {
                v.push(105);
                v.extend_from_slice(&(l.len() as u32).to_be_bytes());
            }
            l.iter().for_each(|e| put_term(v, e, pos));
        }
        OwnedTerm::List(l) if l.is_empty() => v.push(106),
        OwnedTerm::List(l) => {
            v.push(108);
            v.extend_from_slice(&(l.len() as u32).to_be_bytes());
            l.iter().for_each(|e| put_term(v, e, pos));
            v.push(106);
        }
        OwnedTerm::ImproperList { elements, tail } => {
            v.push(108);
            v.extend_from_slice(&(elements.len() as u32).to_be_bytes());
            elements.iter().for_each(|e| put_term(v, e, pos));
            put_term(v, tail, pos);
        }
        OwnedTerm::Map(m) => {
            v.push(116);
            v.extend_from_slice(&(m.len() as u32).to_be_bytes());
            for (k, x) in m.iter() {
                put_term(v, k, pos);
                put_term(v, x, pos);
            }
        }
        OwnedTerm::Pid(p) => put_pid(v, p, pos),
        OwnedTerm::Port(p) => {
            v.push(120);
            put_atom(v, p.node.as_str(), pos);
            v.extend_from_slice(&p.id.to_be_bytes());
            v.extend_from_slice(&p.creation.to_be_bytes());
        }
        OwnedTerm::Reference(r) => {
            v.push(90);
            v.extend_from_slice(&(r.ids.len() as u16).to_be_bytes());
            put_atom(v, r.node.as_str(), pos);
            v.extend_from_slice(&r.creation.to_be_bytes());
            r.ids.iter().for_each(|i| v.extend_from_slice(&i.to_be_bytes()));
        }
        OwnedTerm::ExternalFun(f) => {
            v.push(113);
            put_atom(v, f.module.as_str(), pos);
            put_atom(v, f.function.as_str(), pos);
            v.push(97);
            v.push(f.arity);
        }
        OwnedTerm::InternalFun(f) => {
            let mut b = vec![f.arity];
            b.extend_from_slice(&f.uniq);
            b.extend_from_slice(&f.index.to_be_bytes());
            b.extend_from_slice(&f.num_free.to_be_bytes());
            put_atom(&mut b, f.module.as_str(), pos);
            put_term(&mut b, &OwnedTerm::Integer(f.old_index as i64), pos);
            put_term(&mut b, &OwnedTerm::Integer(f.old_uniq as i64), pos);
            put_pid(&mut b, &f.pid, pos);
            f.free_vars.iter().for_each(|e| put_term(&mut b, e, pos));
            v.push(112);
            v.extend_from_slice(&((b.len() + 4) as u32).to_be_bytes());
            v.extend_from_slice(&b);
        }
        // leaves without atoms: any valid encoding will do; take the plain one
        other => v.extend_from_slice(&erltf::encode(other).expect("leaf encodes")[1..]),
    }
}

pub(crate) struct Sender {
    pub(crate) slots: HashMap<(u8, u8), String>,
    pub(crate) salt: u64,
    /// how many internal indices / segments the hash may select (small numbers force collisions and overwrites)
    pub(crate) idx_space: u64,
    pub(crate) seg_space: u64,
    /// atoms with an assigned slot (the sweeps place one atom in every slot, boundary indices included)
    pub(crate) fixed: HashMap<String, (u8, u8)>,
}

impl Sender {
    pub(crate) fn new(salt: u64, idx_space: u64, seg_space: u64) -> Self {
        Sender { slots: HashMap::new(), salt, idx_space, seg_space, fixed: HashMap::new() }
    }

    fn slot_of(&self, a: &str) -> (u8, u8) {
        if let Some(s) = self.fixed.get(a) {
            return *s;
        }
        let mut h = 0xcbf29ce484222325u64 ^ self.salt;
        for b in a.as_bytes() {
            h = (h ^ *b as u64).wrapping_mul(0x100000001b3);
        }
        (((h >> 8) % self.seg_space) as u8, (h % self.idx_space) as u8)
    }

    /// one header-mode message for these terms; returns the bytes and whether any reference was `old`
    pub(crate) fn send(&mut self, r: &mut Rng, terms: &[OwnedTerm], stats: &mut Vec<&'static str>) -> Vec<u8> {
        let mut atoms = vec![];
        terms.iter().for_each(|t| collect(t, &mut atoms));
        r.shuffle(&mut atoms);
        // references: at most one atom per slot in one message, at most 255, lengths that fit
        let mut entries: Vec<(String, (u8, u8), bool)> = vec![];
        for a in atoms {
            let s = self.slot_of(&a);
            if entries.len() == 255 || a.len() > 65535 || entries.iter().any(|e| e.1 == s) || r.chance(1, 12) {
                stats.push("hist_inline_atom");
                continue; // sent inline
            }
            let held = self.slots.get(&s) == Some(&a);
            let new = !held || r.chance(1, 10);
            if !held && self.slots.contains_key(&s) {
                stats.push("hist_overwrite");
            }
            stats.push(if new { "hist_new_ref" } else { "hist_old_ref" });
            if new {
                self.slots.insert(s, a.clone());
            }
            entries.push((a, s, new));
        }
        let need_long = entries.iter().any(|e| e.2 && e.0.len() > 255);
        let long = need_long || r.chance(1, 8);
        if long {
            stats.push("hist_long_flag");
        }
        let n = entries.len();
        let mut v = vec![131u8, 68, n as u8];
        if n > 0 {
            let mut nibs: Vec<u8> = entries.iter().map(|e| (if e.2 { 8 } else { 0 }) | e.1 .0).collect();
            nibs.push(if long { 1 } else { 0 });
            if nibs.len() % 2 == 1 {
                nibs.push(0);
            }
            for c in nibs.chunks(2) {
                v.push(c[0] | (c[1] << 4));
            }
            for (a, s, new) in &entries {
                v.push(s.1);
                if *new {
                    if long { v.extend_from_slice(&(a.len() as u16).to_be_bytes()) } else { v.push(a.len() as u8) }
                    v.extend_from_slice(a.as_bytes());
                }
            }
            if entries.iter().enumerate().any(|(i, e)| e.1 .1 as usize != i) {
                stats.push("hist_position_ne_index");
            }
            if entries.iter().any(|e| e.1 .0 != 0) {
                stats.push("hist_segment_nonzero");
            }
        }
        let pos: HashMap<String, u8> = entries.iter().enumerate().map(|(i, e)| (e.0.clone(), i as u8)).collect();
        terms.iter().for_each(|t| put_term(&mut v, t, &pos));
        v
    }
}

fn remap(t: &OwnedTerm, pool: &[String]) -> OwnedTerm {
    let m = |a: &Atom| -> Atom {
        let mut h = 7u64;
        for b in a.as_str().as_bytes() {
            h = h.wrapping_mul(31).wrapping_add(*b as u64);
        }
        Atom::new(pool[(h % pool.len() as u64) as usize].as_str())
    };
    match t {
        OwnedTerm::Atom(a) => OwnedTerm::Atom(m(a)),
        OwnedTerm::Tuple(l) => OwnedTerm::Tuple(l.iter().map(|e| remap(e, pool)).collect()),
        OwnedTerm::List(l) => OwnedTerm::List(l.iter().map(|e| remap(e, pool)).collect()),
        OwnedTerm::ImproperList { elements, tail } => OwnedTerm::ImproperList {
            elements: elements.iter().map(|e| remap(e, pool)).collect(),
            tail: Box::new(remap(tail, pool)),
        },
        OwnedTerm::Map(mm) => OwnedTerm::Map(mm.iter().map(|(k, v)| (remap(k, pool), remap(v, pool))).collect()),
        OwnedTerm::Pid(p) => OwnedTerm::Pid(ExternalPid::new(m(&p.node), p.id, p.serial, p.creation)),
        OwnedTerm::Port(p) => OwnedTerm::Port(ExternalPort::new(m(&p.node), p.id, p.creation)),
        OwnedTerm::Reference(r) => OwnedTerm::Reference(ExternalReference::new(m(&r.node), r.creation, r.ids.clone())),
        OwnedTerm::ExternalFun(f) => OwnedTerm::ExternalFun(ExternalFun::new(m(&f.module), m(&f.function), f.arity)),
        OwnedTerm::InternalFun(f) => OwnedTerm::InternalFun(Box::new(InternalFun::new(
            f.arity,
            f.uniq,
            f.index,
            f.num_free,
            m(&f.module),
            f.old_index,
            f.old_uniq,
            ExternalPid::new(m(&f.pid.node), f.pid.id, f.pid.serial, f.pid.creation),
            f.free_vars.iter().map(|e| remap(e, pool)).collect(),
        ))),
        other => other.clone(),
    }
}

/// one history: `len` messages from a sender with its own cache; tie, spec oracle, resolution check
fn history(ctx: &mut Ctx, tag: &str, len: usize, idx_space: u64, seg_space: u64, fault: u8) {
    let faults = fault == 1;
    let mut pool: Vec<String> = vec!["ok", "error", "rex", "", "é", "x@h", "Elixir.Foo", "undefined", "b", "node@host"]
        .into_iter().map(String::from).collect();
    if ctx.rng.chance(1, 3) {
        pool.push(atom_of_len(1, *ctx.rng.pick(&[255usize, 256, 300, 1000])));
    }
    let cfg = Cfg { max_depth: 3, wf: true, maps: true, local_ids: false, huge: false, funs: true };
    let mut sender = Sender::new(ctx.rng.next(), idx_space, seg_space);
    let mut cache = AtomCache::new();
    let mut msgs = vec![];
    let mut results = vec![];
    let mut intended = vec![];
    let mut stats = vec![];
    let mut orcs = vec![];
    for k in 0..len {
        let mut terms = vec![];
        let control = OwnedTerm::Tuple(vec![
            OwnedTerm::Integer(6),
            OwnedTerm::Pid(ExternalPid::new(Atom::new(ctx.rng.pick(&pool).as_str()), 5, 0, 1)),
            OwnedTerm::Atom(Atom::new("")),
            OwnedTerm::Atom(Atom::new(ctx.rng.pick(&pool).as_str())),
        ]);
        terms.push(control);
        if ctx.rng.chance(5, 6) {
            terms.push(remap(&gen_term(&mut ctx.rng, &cfg, 0), &pool));
        }
        // fault 2: a conforming message whose header is fine but whose payload the library refuses (nested deeper than
        // its limit): the sender's cache moves on, so the receiver's must too, or later references go wrong
        let body_refused = fault == 2 && k + 1 == len / 2 + 1;
        if body_refused {
            ctx.count("hist_fault_body_refused");
            let mut deep = OwnedTerm::Tuple(vec![OwnedTerm::Atom(Atom::new(ctx.rng.pick(&pool).as_str())), OwnedTerm::Atom(Atom::new(ctx.rng.pick(&pool).as_str()))]);
            for _ in 0..300 {
                deep = OwnedTerm::List(vec![deep]);
            }
            terms.truncate(1);
            terms.push(deep);
        }
        let want: Vec<OwnedTerm> = if body_refused { vec![] } else {
            let Some(w): Option<Vec<OwnedTerm>> = terms.iter().map(norm).collect() else { continue };
            w
        };
        let before = sender.slots.clone();
        let mut bytes = sender.send(&mut ctx.rng, &terms, &mut stats);
        let mut expect_ok = !body_refused;
        if faults && k + 1 == len / 2 + 1 && bytes[2] > 0 {
            // a non-conforming message in the middle: a reference (without text) to a slot nobody filled
            ctx.count("hist_fault_unfilled_slot");
            let n = bytes[2] as usize;
            let mut v = vec![131u8, 68, 1, 0x07, 0xee];
            v.extend_from_slice(&bytes[3 + n / 2 + 1..]);
            bytes = v;
            expect_ok = false;
            // the message the sender composed was never sent: its cache updates did not happen
            sender.slots = before;
        }
        let Some(orc) = oracle_for(&bytes) else { ctx.count("skipped_oracle_too_large"); return };
        if orc != "-" {
            orcs.push(orc);
        }
        let (s, _) = dec_pair(&mut cache, &bytes);
        if expect_ok {
            let exp = format!("ok {} {}", term_text(&want[0]), want.get(1).map(term_text).unwrap_or("-".into()));
            if s != exp {
                ctx.fail("c14-history-misresolved", &format!("message {} of {}: sender meant {} ; library read {} ; history {}", k + 1, len, exp, s,
                    msgs.iter().chain(std::iter::once(&hex(&bytes))).cloned().collect::<Vec<_>>().join(",")));
            }
            intended.push(want.iter().map(term_text).collect::<Vec<_>>().join("&"));
        } else if s.starts_with("ok") && !body_refused {
            ctx.fail("c14-unfilled-slot-accepted", &format!("{} -> {}", hex(&bytes), s));
        }
        msgs.push(hex(&bytes));
        results.push((s, expect_ok));
    }
    if msgs.is_empty() {
        return;
    }
    for s in stats {
        ctx.count(s);
    }
    ctx.count("histories");
    ctx.add("history_messages", msgs.len() as u64);
    let orc = if orcs.is_empty() { "-".to_string() } else { orcs.join(";") };
    ctx.tie(tag, &format!("c14seq {} {}", orc, msgs.join(",")), &results.iter().map(|r| r.0.clone()).collect::<Vec<_>>().join(";"));
    if results.iter().all(|r| r.1) {
        // the independent reader agrees that this history means these terms (checks the sender model against the spec)
        ctx.prop("c14-sender-vs-spec", &format!("c14hist {} {} {}", orc, msgs.join(","), intended.join(";")), "ok");
    }
}


/// the atom a sweep places in slot (segment, index) in its `round`-th pass over the slots
pub(crate) fn sweep_atom(round: usize, slot: (u8, u8)) -> String {
    format!("{}{}_{}", ["s", "t", "u"][round % 3], slot.0, slot.1)
}

/// the messages of one cache sweep as term lists: pass 0 places a distinct atom in every given slot (`chunk` slots per
/// message), pass 1 refers to every slot again in another order (existing entries), pass 2 overwrites every slot with
/// another atom, pass 3 refers to those. Two slots the receiver confuses, whichever they are, resolve to the wrong atom
/// in pass 1 or 3.
pub(crate) fn sweep_messages(r: &mut Rng, sender: &mut Sender, slots: &[(u8, u8)], chunk: usize) -> Vec<Vec<OwnedTerm>> {
    let mut out = vec![];
    for pass in 0..4 {
        let round = pass / 2;
        let mut order: Vec<(u8, u8)> = slots.to_vec();
        if pass % 2 == 1 {
            r.shuffle(&mut order);
        } else if pass == 2 {
            order.reverse();
        }
        for s in &order {
            sender.fixed.insert(sweep_atom(round, *s), *s);
        }
        for c in order.chunks(chunk) {
            let atoms: Vec<OwnedTerm> = c.iter().map(|s| OwnedTerm::Atom(Atom::new(sweep_atom(round, *s).as_str()))).collect();
            let control = OwnedTerm::Tuple(vec![
                OwnedTerm::Integer(6),
                OwnedTerm::Pid(ExternalPid::new(Atom::new("x@h"), 5, 0, 1)),
                OwnedTerm::Atom(Atom::new("")),
                atoms[0].clone(),
            ]);
            out.push(vec![control, OwnedTerm::Tuple(atoms)]);
        }
    }
    out
}

/// E. one cache sweep through `decode_with_atom_cache`: tie, spec oracle, resolution check
fn sweep(ctx: &mut Ctx, tag: &str, slots: &[(u8, u8)], chunk: usize) {
    let mut sender = Sender::new(ctx.rng.next(), 256, 8);
    let mut cache = AtomCache::new();
    let (mut msgs, mut results, mut intended, mut stats) = (vec![], vec![], vec![], vec![]);
    for (k, terms) in sweep_messages(&mut ctx.rng, &mut sender, slots, chunk).into_iter().enumerate() {
        let Some(want): Option<Vec<OwnedTerm>> = terms.iter().map(norm).collect() else { continue };
        let bytes = sender.send(&mut ctx.rng, &terms, &mut stats);
        let (s, _) = dec_pair(&mut cache, &bytes);
        let exp = format!("ok {} {}", term_text(&want[0]), term_text(&want[1]));
        if s != exp {
            ctx.fail("c14-history-misresolved", &format!("sweep message {}: sender meant {} ; library read {} ; history {}", k + 1,
                &exp[..exp.len().min(300)], &s[..s.len().min(300)],
                msgs.iter().chain(std::iter::once(&hex(&bytes))).cloned().collect::<Vec<_>>().join(",")));
            ctx.count("sweep_misresolved");
            return;
        }
        intended.push(want.iter().map(term_text).collect::<Vec<_>>().join("&"));
        msgs.push(hex(&bytes));
        results.push(s);
    }
    for s in stats {
        ctx.count(s);
    }
    ctx.count("sweeps");
    ctx.add("sweep_slots", slots.len() as u64);
    ctx.add("history_messages", msgs.len() as u64);
    ctx.tie(tag, &format!("c14seq - {}", msgs.join(",")), &results.join(";"));
    ctx.prop("c14-sender-vs-spec", &format!("c14hist - {} {}", msgs.join(","), intended.join(";")), "ok");
}

/// minimised past failures (fixed defects): replayed first on every run
fn corpus(ctx: &mut Ctx) {
    let unhex = crate::canon::unhex;
    // d1aee3c: slot (segment 3, index 7) created at position 0, referred to later without text, then overwritten
    let hist = ["8344010b0703666f6f5200", "83440103075200", "8344010b070362617a5200", "83440103075200",
        // position != index, two segments with the same index byte
        "8344023800070362617207680252005201"];
    let want = ["ok A666f6f -", "ok A666f6f -", "ok A62617a -", "ok A62617a -", "ok U[A626172,A62617a] -"];
    let mut cache = AtomCache::new();
    let mut got = vec![];
    for (m, w) in hist.iter().zip(want.iter()) {
        let (s, _) = dec_pair(&mut cache, &unhex(m));
        if &s != w {
            ctx.fail("c14-history-misresolved", &format!("corpus: {} read as {} instead of {} (history {})", m, s, w, hist.join(",")));
        }
        got.push(s);
    }
    ctx.tie("corpus", &format!("c14seq - {}", hist.join(",")), &got.join(";"));
    ctx.prop("c14-sender-vs-spec", &format!("c14hist - {} A666f6f;A666f6f;A62617a;A62617a;U[A626172,A62617a]", hist.join(",")), "ok");
    // fc7340a: one 300-byte atom, odd reference count: LongAtoms is the high nibble of the only flag byte (0x18)
    let long = OwnedTerm::Atom(Atom::new(atom_of_len(0, 300).as_str()));
    if let Ok(b) = erltf::encode_with_dist_header(&long) {
        if b.get(3) != Some(&0x18) {
            ctx.fail("c14-long-atoms-flag", &format!("flag byte {:02x?} for one 300-byte atom", b.get(3)));
        }
    }
    // 64b8e16: no atoms: still a header
    if let Ok(b) = erltf::encode_with_dist_header(&OwnedTerm::Integer(5)) {
        if b != vec![131, 68, 0, 97, 5] {
            ctx.fail("c14-zero-atoms-header", &hex(&b));
        }
    }
    ctx.count("corpus_cases");
}

pub fn run(ctx: &mut Ctx) {
    corpus(ctx);
    // A. encoder: atom counts (both parities, the limit), lengths (short/long/over the limit)
    let counts: Vec<usize> = if ctx.thorough { (0..=40).chain([63, 64, 127, 128, 129, 200, 253, 254, 255, 256, 257, 300]).collect() }
        else { vec![0, 1, 2, 3, 4, 5, 6, 7, 8, 9, 15, 16, 127, 128, 254, 255, 256, 300] };
    for &n in &counts {
        for variant in 0..ctx.n(3, 8) {
            let lens: Vec<usize> = (0..n).map(|i| match (variant, i) {
                (0, _) => 1 + i % 5,
                (1, 0) => 256,                    // one long atom forces the LongAtoms flag
                (2, i) if i + 1 == n => 255,      // longest short atom, flag must stay clear
                (3, 0) => 0,
                (4, _) => *ctx.rng.pick(&[0usize, 1, 2, 255, 256, 300]),
                _ => 1 + (ctx.rng.below(12) as usize),
            }).collect();
            // names must be distinct: the index is part of the name, the empty atom can occur once
            let mut seen_empty = false;
            let atoms: Vec<String> = lens.iter().enumerate().map(|(i, &l)| {
                if l == 0 && !seen_empty { seen_empty = true; String::new() } else { atom_of_len(i, l.max(format!("a{}_", i).len())) }
            }).collect();
            let terms = terms_with_atoms(&mut ctx.rng, &atoms);
            enc_case(ctx, "enc", &terms);
            if variant == 0 {
                enc_case(ctx, "enc1", &terms[..1]);
            }
        }
    }
    // atoms at and over the 16-bit length limit
    for (n, len) in [(1usize, 65535usize), (2, 65535), (1, 65536), (3, 70000)] {
        let mut atoms: Vec<String> = (0..n).map(|i| atom_of_len(i, 3)).collect();
        atoms[0] = atom_of_len(0, len);
        let terms = vec![OwnedTerm::Tuple(atoms.iter().map(|a| OwnedTerm::Atom(Atom::new(a.as_str()))).collect())];
        enc_case(ctx, "enc-limit", &terms);
    }
    // B. random terms from the shared generator (every variant, nesting, maps, funs, identifiers)
    let cfg = Cfg { max_depth: 4, wf: true, maps: true, local_ids: true, huge: false, funs: true };
    for _ in 0..ctx.n(400, 20000) {
        let c = gen_term(&mut ctx.rng, &cfg, 0);
        let p = gen_term(&mut ctx.rng, &cfg, 0);
        if ctx.rng.chance(1, 4) { enc_case(ctx, "enc-gen", &[c]) } else { enc_case(ctx, "enc-gen", &[c, p]) }
    }
    // C. histories of a conforming sender with an atom cache
    for i in 0..ctx.n(300, 12000) {
        let len = 1 + ctx.rng.below(8) as usize;
        let (idx_space, seg_space) = *ctx.rng.pick(&[(256u64, 8u64), (4, 8), (2, 2), (1, 1), (256, 1), (3, 8)]);
        let len = if i % 10 == 8 { len.max(3) } else { len };
        history(ctx, "hist", len, idx_space, seg_space, match i % 10 { 9 => 1, 8 => 2, _ => 0 });
    }
    // E. cache sweeps: every one of the 2048 slots holds its own atom, is referred to, overwritten and referred to again;
    //    and the boundary indices of every segment in small messages
    let all: Vec<(u8, u8)> = (0..=255u8).flat_map(|i| (0..8u8).map(move |s| (s, i))).collect();
    sweep(ctx, "sweep", &all, 250);
    let edge: Vec<(u8, u8)> = (0..8u8).flat_map(|s| [0u8, 1, 254, 255].into_iter().map(move |i| (s, i))).collect();
    sweep(ctx, "sweep-edge", &edge, 5);
    for _ in 0..ctx.n(0, 6) {
        let mut sl = all.clone();
        ctx.rng.shuffle(&mut sl);
        let k = 64 + ctx.rng.below(1900) as usize;
        let chunk = 1 + ctx.rng.below(255) as usize;
        sweep(ctx, "sweep", &sl[..k], chunk);
    }
    // D. malformed and truncated headers, each followed by a well-formed message on the same cache
    let good = erltf::encode_with_dist_header_multi(&[&OwnedTerm::Tuple(vec![OwnedTerm::Integer(2), OwnedTerm::Atom(Atom::new("ok"))]), &OwnedTerm::Atom(Atom::new("rex"))]).unwrap();
    for _ in 0..ctx.n(300, 6000) {
        let atoms: Vec<String> = (0..ctx.rng.below(5) as usize).map(|i| atom_of_len(i, 1 + ctx.rng.below(4) as usize)).collect();
        let terms = terms_with_atoms(&mut ctx.rng, &atoms);
        let refs: Vec<&OwnedTerm> = terms.iter().collect();
        let Ok(mut b) = erltf::encode_with_dist_header_multi(&refs) else { continue };
        match ctx.rng.below(4) {
            0 => { let k = ctx.rng.below(b.len() as u64) as usize; b.truncate(k); ctx.count("junk_truncated") }
            1 => { let k = ctx.rng.below(b.len() as u64) as usize; let bit = ctx.rng.below(8); b[k] ^= 1 << bit; ctx.count("junk_bitflip") }
            2 => { if b.len() > 3 { let k = 2 + ctx.rng.below(3.min(b.len() as u64 - 2)) as usize; let x = ctx.rng.below(256) as u8; b[k] = x; } ctx.count("junk_header_byte") }
            _ => { let k = 1 + ctx.rng.below(3) as usize; b.extend(ctx.rng.bytes(k)); ctx.count("junk_trailing") }
        }
        let (Some(o1), Some(o2)) = (oracle_for(&b), oracle_for(&good)) else { continue };
        let orc = [o1, o2].into_iter().filter(|o| o != "-").collect::<Vec<_>>().join(";");
        let orc = if orc.is_empty() { "-".to_string() } else { orc };
        let mut cache = AtomCache::new();
        let (s1, _) = dec_pair(&mut cache, &b);
        let (s2, _) = dec_pair(&mut cache, &good);
        if s1 == "panic" || s2 == "panic" {
            ctx.fail("c14-decode-panic", &format!("{} then {}", hex(&b), hex(&good)));
        }
        ctx.tie("junk", &format!("c14seq {} {},{}", orc, hexarg(&b), hex(&good)), &format!("{};{}", s1, s2));
    }
}
