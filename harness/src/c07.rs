//! C07: every send-side operation emits exactly one well-formed frame with the right content.
//!
//! Part A — real `Connection` operations against the scripted peer, pass-through and distribution-header mode.
//!   Every operation is followed by a sentinel frame (`send_raw` of 16 seeded bytes) so that the peer can tell without any
//!   timing where the operation's bytes end.  Tie: the exact wire bytes and the number of partial writes (H3 hook points
//!   hit + 1) against the Lean model; oracle: the independent frame reader on the wire bytes.
//! Part B — operations on connections that are not connected (never connected, handshake failed at each step, closed):
//!   must fail with the state error and write nothing.
//! Part C — concurrency through a real `Node`: k tasks on a current-thread runtime, the H3 yield hook yielding a seeded
//!   0..3 times between the partial writes; the hook trace is replayed through the lock/write model and the wire bytes
//!   must be whole frames with every task's operations in issue order.
//! Part F — every node-level operation failed without a connection, retried after `connect` and repeated, for spawned
//!   local processes and fabricated pids; the frames of each single operation counted and read by the independent reader.
use crate::canon::{hex, hexarg, pid_text, term_text};
use crate::peer::*;
use crate::tgen::{gen_atom_name, gen_pid, gen_ref, gen_term, gen_u32, Cfg};
use crate::Ctx;
use edp_client::flags::DistributionFlags;
use edp_client::{Connection, ConnectionConfig};
use erltf::types::{Atom, ExternalPid, ExternalReference};
use erltf::OwnedTerm;
use std::sync::atomic::{AtomicUsize, Ordering};
use std::sync::{Arc, Mutex};
use std::time::Duration;
use tokio::io::AsyncReadExt;

const UNLINK_IDS: &[u64] = &[1, 2, 255, 256, 1 << 31, (1 << 31) + 1, (1 << 32) - 1, 1 << 32, (1 << 63) - 1, 1 << 63, (1 << 63) + 1, u64::MAX - 1, u64::MAX];

#[derive(Clone)]
enum Op {
    Send(ExternalPid, ExternalPid, OwnedTerm),
    RegSend(ExternalPid, String, OwnedTerm),
    Link(ExternalPid, ExternalPid),
    Unlink(ExternalPid, ExternalPid, u64),
    Monitor(ExternalPid, ExternalPid, ExternalReference),
    Demonitor(ExternalPid, ExternalPid, ExternalReference),
}

fn ref_text(r: &ExternalReference) -> String {
    term_text(&OwnedTerm::Reference(r.clone()))
}

impl Op {
    fn text(&self) -> String {
        match self {
            Op::Send(f, t, m) => format!("S;{};{};{}", pid_text(f), pid_text(t), term_text(m)),
            Op::RegSend(f, n, m) => format!("R;{};{};{}", pid_text(f), hexarg(n.as_bytes()), term_text(m)),
            Op::Link(f, t) => format!("L;{};{}", pid_text(f), pid_text(t)),
            Op::Unlink(f, t, i) => format!("U;{};{};{}", pid_text(f), pid_text(t), i),
            Op::Monitor(f, t, r) => format!("M;{};{};{}", pid_text(f), pid_text(t), ref_text(r)),
            Op::Demonitor(f, t, r) => format!("D;{};{};{}", pid_text(f), pid_text(t), ref_text(r)),
        }
    }
    fn kind(&self) -> &'static str {
        match self {
            Op::Send(..) => "send",
            Op::RegSend(..) => "reg_send",
            Op::Link(..) => "link",
            Op::Unlink(..) => "unlink",
            Op::Monitor(..) => "monitor",
            Op::Demonitor(..) => "demonitor",
        }
    }
    async fn run(&self, c: &mut Connection) -> edp_client::Result<()> {
        match self.clone() {
            Op::Send(f, t, m) => c.send_message(f, t, m).await,
            Op::RegSend(f, n, m) => c.send_to_name(f, Atom::new(n), m).await,
            Op::Link(f, t) => c.link(&f, &t).await,
            Op::Unlink(f, t, i) => c.unlink(&f, &t, i).await,
            Op::Monitor(f, t, r) => c.monitor(&f, &t, &r).await,
            Op::Demonitor(f, t, r) => c.demonitor(&f, &t, &r).await,
        }
    }
}

fn gen_name(ctx: &mut Ctx) -> String {
    match ctx.rng.below(12) {
        0 => "a".repeat(255),
        1 => "b".repeat(256),
        2 => "é".repeat(127) + "z",  // 255 bytes, 128 characters
        3 => "日".repeat(85) + "z",   // 256 bytes
        4 => "rex".to_string(),
        5 => String::new(),
        6 if ctx.rng.chance(1, if ctx.thorough { 40 } else { 8 }) => "n".repeat(65535),
        7 if ctx.rng.chance(1, if ctx.thorough { 30 } else { 6 }) => "m".repeat(65536), // cannot be encoded: the operation must fail and write nothing
        _ => gen_atom_name(&mut ctx.rng, true),
    }
}

/// payload terms: C01's generator, plus atom-count boundaries of the distribution header (255 / 256 distinct atoms)
fn gen_payload(ctx: &mut Ctx, cfg: &Cfg) -> OwnedTerm {
    match ctx.rng.below(40) {
        0 | 1 => {
            let k = *ctx.rng.pick(&[250usize, 252, 253, 254, 255, 256]);
            ctx.count(&format!("payload_distinct_atoms_{}", k));
            OwnedTerm::List((0..k).map(|i| OwnedTerm::Atom(Atom::new(format!("atom_{}", i)))).collect())
        }
        2 => OwnedTerm::Atom(Atom::new("x".repeat(*ctx.rng.pick(&[255usize, 256, 300])))),
        3 => OwnedTerm::Integer(*ctx.rng.pick(&[0i64, 255, 256, -1, i64::MAX, i64::MIN])),
        _ => gen_term(&mut ctx.rng, cfg, 0),
    }
}

fn gen_op(ctx: &mut Ctx, cfg: &Cfg) -> Op {
    // the very large leaves (70000-byte binaries, 65535-byte atoms, 255-digit integers) in a quarter of the operations
    let small = Cfg { huge: false, ..cfg.clone() };
    let cfg = if ctx.rng.chance(1, 4) { cfg } else { &small };
    let from = gen_pid(&mut ctx.rng, true);
    let to = gen_pid(&mut ctx.rng, true);
    if from.local_ext_bytes.is_some() || to.local_ext_bytes.is_some() {
        ctx.count("args_with_node_local_pid");
    }
    match ctx.rng.below(8) {
        0 | 1 => Op::Send(from, to, gen_payload(ctx, cfg)),
        2 | 3 => {
            let n = gen_name(ctx);
            ctx.count(&format!("name_len_{}", match n.len() { 0 => "0", 1..=254 => "1_254", 255 => "255", 256 => "256", 257..=65535 => "257_65535", _ => "over_65535" }));
            if !n.is_ascii() {
                ctx.count("name_non_ascii");
            }
            Op::RegSend(from, n, gen_payload(ctx, cfg))
        }
        4 => Op::Link(from, to),
        5 => {
            let id = if ctx.rng.chance(2, 3) { *ctx.rng.pick(UNLINK_IDS) } else { (ctx.rng.next() >> ctx.rng.below(64)).max(1) };
            ctx.count(&format!("unlink_id_{}", if id < (1 << 31) { "lt_2_31" } else if id < (1 << 63) { "lt_2_63" } else { "ge_2_63" }));
            Op::Unlink(from, to, id)
        }
        k => {
            let r = gen_ref(&mut ctx.rng, true, false);
            if r.local_ext_bytes.is_some() {
                ctx.count("args_with_node_local_ref");
            }
            if k == 6 { Op::Monitor(from, to, r) } else { Op::Demonitor(from, to, r) }
        }
    }
}

/// the same identifier in another form: plain <-> node-local, or node-local with other preserved bytes (`==`, `Hash` and `Ord`
/// ignore the form, the encoder does not)
fn reform_pid(ctx: &mut Ctx, p: &ExternalPid) -> ExternalPid {
    let plain = ExternalPid::new(p.node.clone(), p.id, p.serial, p.creation);
    if p.local_ext_bytes.is_some() && ctx.rng.chance(1, 2) {
        return plain;
    }
    let enc = erltf::encode(&OwnedTerm::Pid(plain.clone())).unwrap();
    let mut b = ctx.rng.bytes(8);
    b.extend_from_slice(&enc[1..]);
    ExternalPid::with_local_ext_bytes(plain.node, plain.id, plain.serial, plain.creation, b)
}

fn reform_ref(ctx: &mut Ctx, r: &ExternalReference) -> ExternalReference {
    let plain = ExternalReference::new(r.node.clone(), r.creation, r.ids.clone());
    if r.local_ext_bytes.is_some() && ctx.rng.chance(1, 2) {
        return plain;
    }
    let enc = erltf::encode(&OwnedTerm::Reference(plain.clone())).unwrap();
    let mut b = ctx.rng.bytes(8);
    b.extend_from_slice(&enc[1..]);
    ExternalReference::with_local_ext_bytes(plain.node, plain.creation, plain.ids, b)
}

/// An operation of the same kind as `prev` whose arguments are equal to `prev`'s as far as `==` can tell (identifiers in
/// another form), or identical, or differing in one argument only: whatever the connection remembers from one operation
/// must not leak into the next.
fn variant_of(ctx: &mut Ctx, prev: &Op, cfg: &Cfg) -> Op {
    ctx.count("op_variant_of_previous");
    let mut pid = |ctx: &mut Ctx, p: &ExternalPid| -> ExternalPid {
        match ctx.rng.below(4) {
            0 => p.clone(),
            1 => gen_pid(&mut ctx.rng, true),
            _ => {
                ctx.count("op_variant_reformed_identifier");
                reform_pid(ctx, p)
            }
        }
    };
    match prev {
        Op::Send(f, t, m) => {
            let (f2, t2) = (pid(ctx, f), pid(ctx, t));
            Op::Send(f2, t2, if ctx.rng.chance(1, 2) { m.clone() } else { gen_payload(ctx, &Cfg { huge: false, ..cfg.clone() }) })
        }
        Op::RegSend(f, n, m) => {
            let f2 = pid(ctx, f);
            Op::RegSend(f2, n.clone(), if ctx.rng.chance(1, 2) { m.clone() } else { gen_payload(ctx, &Cfg { huge: false, ..cfg.clone() }) })
        }
        Op::Link(f, t) => { let (f2, t2) = (pid(ctx, f), pid(ctx, t)); Op::Link(f2, t2) }
        Op::Unlink(f, t, i) => { let (f2, t2) = (pid(ctx, f), pid(ctx, t)); Op::Unlink(f2, t2, if ctx.rng.chance(1, 2) { *i } else { *ctx.rng.pick(UNLINK_IDS) }) }
        Op::Monitor(f, t, r) => { let (f2, t2) = (pid(ctx, f), pid(ctx, t)); let r2 = if ctx.rng.chance(1, 2) { reform_ref(ctx, r) } else { r.clone() }; Op::Monitor(f2, t2, r2) }
        Op::Demonitor(f, t, r) => { let (f2, t2) = (pid(ctx, f), pid(ctx, t)); let r2 = if ctx.rng.chance(1, 2) { reform_ref(ctx, r) } else { r.clone() }; Op::Demonitor(f2, t2, r2) }
    }
}

/// The identifiers an operation hands to the library, in the order in which the protocol's control tuple carries them,
/// each with the node-local bytes it was received with (`None`: plain form).
fn op_identifiers(op: &Op) -> Vec<(String, Option<Vec<u8>>)> {
    let p = |x: &ExternalPid| (pid_text(&ExternalPid::new(x.node.clone(), x.id, x.serial, x.creation)), x.local_ext_bytes.as_ref().map(|b| b.to_vec()));
    let rf = |x: &ExternalReference| (ref_text(&ExternalReference::new(x.node.clone(), x.creation, x.ids.clone())), x.local_ext_bytes.as_ref().map(|b| b.to_vec()));
    match op {
        Op::Send(_, t, _) => vec![p(t)],
        Op::RegSend(f, _, _) => vec![p(f)],
        Op::Link(f, t) | Op::Unlink(f, t, _) => vec![p(f), p(t)],
        Op::Monitor(f, t, r) | Op::Demonitor(f, t, r) => vec![p(f), p(t), rf(r)],
    }
}

/// the identifiers of the control tuple actually written (read back with the library's decoder, which keeps the node-local
/// bytes it reads: property C10), top-level elements only
fn wire_identifiers(header: bool, wire: &[u8]) -> Option<Vec<(String, Option<Vec<u8>>)>> {
    if wire.len() < 6 {
        return None;
    }
    let control = if header {
        erltf::decode_with_atom_cache(&wire[4..], &mut erltf::decoder::AtomCache::new()).ok()?.0
    } else {
        erltf::decoder::decode_with_trailing(&wire[5..]).ok()?.0
    };
    let OwnedTerm::Tuple(els) = control else { return None };
    Some(els.iter().filter_map(|e| match e {
        OwnedTerm::Pid(x) => Some((pid_text(&ExternalPid::new(x.node.clone(), x.id, x.serial, x.creation)), x.local_ext_bytes.as_ref().map(|b| b.to_vec()))),
        OwnedTerm::Reference(x) => Some((ref_text(&ExternalReference::new(x.node.clone(), x.creation, x.ids.clone())), x.local_ext_bytes.as_ref().map(|b| b.to_vec()))),
        _ => None,
    }).collect())
}

fn err_class(e: &edp_client::Error) -> String {
    match e {
        edp_client::Error::InvalidState { .. } => "err:state".to_string(),
        edp_client::Error::Encode(_) => "err:encode".to_string(),
        edp_client::Error::MessageTooLarge { .. } => "err:toolarge".to_string(),
        edp_client::Error::InvalidStateMessage(m) if m == "no active stream" => "err:nostream".to_string(),
        other => format!("err:other:{}", other.to_string().replace(' ', "_")),
    }
}

/// the atom order of a distribution header, read off the real bytes (`4-byte length, 131, 68, N, flags, refs`)
fn header_order(wire: &[u8]) -> Option<String> {
    let b = wire.get(4..)?;
    if b.len() < 3 || b[0] != 131 || b[1] != 68 {
        return None;
    }
    let n = b[2] as usize;
    if n == 0 {
        return Some("-".to_string());
    }
    let flags = b.get(3..3 + n / 2 + 1)?;
    let nib = |i: usize| -> u8 { if i % 2 == 0 { flags[i / 2] & 15 } else { flags[i / 2] >> 4 } };
    let long = nib(n) & 1 == 1;
    let mut p = 3 + n / 2 + 1;
    let mut out = vec![];
    for _ in 0..n {
        p += 1; // internal index
        let len = if long {
            let l = u16::from_be_bytes([*b.get(p)?, *b.get(p + 1)?]) as usize;
            p += 2;
            l
        } else {
            let l = *b.get(p)? as usize;
            p += 1;
            l
        };
        out.push(format!("x{}", hex(b.get(p..p + len)?)));
        p += len;
    }
    Some(out.join(","))
}

/// everything the client wrote up to and excluding the sentinel frame; `None` on timeout / close
async fn read_until_sentinel(peer: &mut PeerConn, sentinel: &[u8], wait: Duration) -> Option<Vec<u8>> {
    let mut tail = (sentinel.len() as u32).to_be_bytes().to_vec();
    tail.extend_from_slice(sentinel);
    let mut out: Vec<u8> = vec![];
    let mut buf = vec![0u8; 1 << 16];
    let r = tokio::time::timeout(wait, async {
        loop {
            if out.len() >= tail.len() && out[out.len() - tail.len()..] == tail[..] {
                return true;
            }
            match peer.stream.read(&mut buf).await {
                Ok(n) if n > 0 => out.extend_from_slice(&buf[..n]),
                _ => return false,
            }
        }
    })
    .await;
    match r {
        Ok(true) => {
            out.truncate(out.len() - tail.len());
            Some(out)
        }
        _ => None,
    }
}

static HOOK_HITS: AtomicUsize = AtomicUsize::new(0);

async fn connect_pair(epmd: &FakeEpmd, case: usize, header: bool, dev: Deviation, timeout_ms: u64) -> (Connection, edp_client::Result<()>, Option<PeerConn>) {
    connect_pair2(epmd, case, header, header, dev, timeout_ms).await
}

/// `local_header`: this side is configured with DIST_HDR_ATOM_CACHE; `peer_header`: the peer's challenge advertises it. The
/// framing mode is the NEGOTIATED one (both), not the configured one (seeded change S88).
async fn connect_pair2(epmd: &FakeEpmd, case: usize, local_header: bool, peer_header: bool, dev: Deviation, timeout_ms: u64) -> (Connection, edp_client::Result<()>, Option<PeerConn>) {
    let (conn, res, peer) = connect_pair_h2(epmd, case, local_header, peer_header, dev, timeout_ms).await;
    let p = tokio::time::timeout(Duration::from_secs(5), peer).await.ok().and_then(|r| r.ok()).flatten();
    (conn, res, p)
}

async fn connect_pair_h(epmd: &FakeEpmd, case: usize, header: bool, dev: Deviation, timeout_ms: u64) -> (Connection, edp_client::Result<()>, tokio::task::JoinHandle<Option<PeerConn>>) {
    connect_pair_h2(epmd, case, header, header, dev, timeout_ms).await
}

async fn connect_pair_h2(epmd: &FakeEpmd, case: usize, local_header: bool, peer_header: bool, dev: Deviation, timeout_ms: u64) -> (Connection, edp_client::Result<()>, tokio::task::JoinHandle<Option<PeerConn>>) {
    let short = format!("c07p{}", case);
    let listener = listen_as(epmd, &short).await;
    let mut pcfg = PeerCfg::new(&format!("{}@127.0.0.1", short), "c07cookie");
    pcfg.deviation = dev;
    if peer_header {
        pcfg.flags |= 0x2000;
    }
    let peer = tokio::spawn(async move { accept_and_handshake(&listener, &pcfg).await });
    let mut flags = DistributionFlags::default().as_u64();
    if local_header {
        flags |= 0x2000;
    }
    let cfg = ConnectionConfig::new(format!("c07c{}@127.0.0.1", case), format!("{}@127.0.0.1", short), "c07cookie")
        .with_flags(DistributionFlags::new(flags))
        .with_timeout(Duration::from_millis(timeout_ms));
    let mut conn = Connection::new(cfg);
    let res = conn.connect().await;
    (conn, res, peer)
}

fn neg_text(c: &Connection) -> String {
    c.negotiated_flags().map(|f| f.as_u64().to_string()).unwrap_or_else(|| "-".to_string())
}

async fn part_a(ctx: &mut Ctx, epmd: &FakeEpmd, case: &mut usize) {
    let cfg = Cfg::default();
    for (local_header, peer_header) in [(false, false), (true, true), (true, false), (false, true)] {
        *case += 1;
        let header = local_header && peer_header;
        let asymmetric = local_header != peer_header;
        let mode = if header { "hdr" } else { "pt" };
        if asymmetric {
            ctx.count("asymmetric_header_flag_connections");
        }
        // a loaded machine may miss a timeout during set-up: try again before calling it a failure
        let mut pair = None;
        let mut why = String::new();
        for _attempt in 0..3 {
            let (conn, res, peer) = connect_pair2(epmd, *case, local_header, peer_header, Deviation::None, 5000).await;
            match (peer, res.is_ok() && conn.is_connected()) {
                (Some(p), true) => {
                    pair = Some((conn, p));
                    break;
                }
                (p, _) => {
                    why = format!("peer_finished={} connect={:?}", p.is_some(), res.err().map(|e| e.to_string()));
                    ctx.count("setup_retries");
                    *case += 1;
                }
            }
        }
        let Some((mut conn, mut peer)) = pair else {
            ctx.fail("c07-setup", &format!("mode={} {}", mode, why));
            continue;
        };
        let neg = neg_text(&conn);
        let negotiated_header = conn.negotiated_flags().map(|f| f.as_u64() & 0x2000 != 0).unwrap_or(false);
        if negotiated_header != header {
            ctx.fail("c07-setup", &format!("mode={} negotiated flags {}", mode, neg));
            continue;
        }
        let n = if asymmetric { ctx.n(40, 400) } else { ctx.n(260, 2500) };
        let mut prev: Option<Op> = None;
        // the limit of ONE header: control tuple and payload together name exactly 253..258 distinct atoms (the count is a
        // one-byte field: 255 is the most a header can carry), for a send (cookie '' + one node name in the control tuple)
        // and a send to a name (cookie, node name, the name); both modes get the same operations
        let mut boundary: Vec<Op> = vec![];
        for total in [253usize, 254, 255, 256, 257, 258] {
            for reg in [false, true] {
                let from = ExternalPid::new(Atom::new("lim_a@h"), 1, 2, 3);
                let to = ExternalPid::new(Atom::new("lim_b@h"), 4, 5, 6);
                let control_atoms = if reg { 3 } else { 2 };
                // half of the cases repeat every payload atom (the SET has `total` elements), one payload atom is the cookie
                let k = total - control_atoms;
                let mut els: Vec<OwnedTerm> = (0..k).map(|i| OwnedTerm::Atom(Atom::new(format!("lim_{}", i)))).collect();
                if total % 2 == 0 {
                    let again = els.clone();
                    els.extend(again);
                    els.push(OwnedTerm::Atom(Atom::new("")));
                }
                // a pid inside the payload whose node name the control tuple names already
                let payload = OwnedTerm::Tuple(vec![OwnedTerm::List(els), OwnedTerm::Pid(if reg { from.clone() } else { to.clone() })]);
                boundary.push(if reg { Op::RegSend(from, "lim_name".to_string(), payload) } else { Op::Send(from, to, payload) });
                ctx.count(&format!("{}_operation_distinct_atoms_{}", mode, total));
            }
        }
        boundary.reverse();
        if asymmetric {
            boundary.clear();
        }
        for i in 0..n {
            // a third of the operations are variants of the one before (same kind, `==` arguments in another form, …)
            let op = match (&prev, boundary.pop()) {
                (_, Some(b)) => b,
                (Some(p), None) if ctx.rng.chance(1, 3) => variant_of(ctx, p, &cfg),
                _ => gen_op(ctx, &cfg),
            };
            prev = Some(op.clone());
            let sentinel = ctx.rng.bytes(16);
            HOOK_HITS.store(0, Ordering::SeqCst);
            let ot = op.text();
            let fut = async {
                let r = op.run(&mut conn).await;
                let s = conn.send_raw(&sentinel).await;
                (r, s)
            };
            let joined = tokio::time::timeout(Duration::from_secs(20), async { tokio::join!(fut, read_until_sentinel(&mut peer, &sentinel, Duration::from_secs(15))) }).await;
            let Ok(((r, s), wire)) = joined else {
                ctx.fail("c07-operation-hangs", &format!("mode={} op={}", mode, &ot[..ot.len().min(300)]));
                return;
            };
            let hits = HOOK_HITS.load(Ordering::SeqCst);
            let Some(wire) = wire else {
                ctx.fail("c07-stream-broken", &format!("mode={} op#{} {} result={:?} sentinel={:?}", mode, i, op.kind(), r.as_ref().err().map(|e| e.to_string()), s.err().map(|e| e.to_string())));
                return;
            };
            ctx.count(&format!("{}_{}_{}", mode, op.kind(), if r.is_ok() { "ok" } else { "err" }));
            ctx.add("wire_bytes", wire.len() as u64);
            let order = if header {
                match &r {
                    Ok(()) => match header_order(&wire) {
                        Some(o) => o,
                        None => {
                            ctx.fail("c07-distribution-header-unreadable", &format!("op={} wire={}", &ot[..ot.len().min(300)], hex(&wire[..wire.len().min(64)])));
                            "*".to_string()
                        }
                    },
                    Err(_) => "*".to_string(),
                }
            } else {
                "-".to_string()
            };
            let impl_res = match &r {
                Ok(()) => format!("ok {} w={}", hex(&wire), hits + 1),
                Err(e) => err_class(e),
            };
            ctx.tie("gen", &format!("c07send connected {} 1 {} {}", neg, order, ot), &impl_res);
            if r.is_ok() {
                // the control tuple carries each identifier in the very form it was given in (node-local bytes verbatim,
                // plain stays plain): the frame denotes the same tuple either way, but only these bytes are the peer's own
                let want = op_identifiers(&op);
                if want.iter().any(|w| w.1.is_some()) {
                    ctx.count("identifier_form_checked_node_local");
                }
                match wire_identifiers(header, &wire) {
                    Some(got) if got == want => {}
                    got => ctx.fail("c07-identifier-form", &format!("mode={} op={} wire={} identifiers-on-the-wire={:?}", mode, &ot[..ot.len().min(600)], hex(&wire[..wire.len().min(400)]),
                        got.map(|g| g.into_iter().map(|(t, b)| format!("{}/{}", t, b.map(|b| hex(&b)).unwrap_or("plain".into()))).collect::<Vec<_>>()))),
                }
            }
            match &r {
                Ok(()) => ctx.prop("gen", &format!("c07read {} {} {}", mode, hexarg(&wire), ot), "ok"),
                Err(_) => ctx.prop("gen", &format!("c07none {}", hexarg(&wire)), "ok"),
            }
        }
        // close(): later operations fail and write nothing; the peer sees the end of the stream with no stray bytes
        let _ = conn.close().await;
        for _ in 0..6 {
            let op = gen_op(ctx, &cfg);
            let r = op.run(&mut conn).await;
            let impl_res = match &r {
                Ok(()) => "ok".to_string(),
                Err(e) => err_class(e),
            };
            ctx.count("closed_ops");
            ctx.tie("gen", &format!("c07send {} {} 0 - {}", conn.state().as_str(), neg_text(&conn), op.text()), &impl_res);
        }
        let stray = peer.recv_bytes_until_quiet(Duration::from_millis(30)).await;
        ctx.prop("gen", &format!("c07none {}", hexarg(&stray)), "ok");
    }
}

async fn part_b(ctx: &mut Ctx, epmd: &FakeEpmd, case: &mut usize) {
    let cfg = Cfg::default();
    // never connected
    let mut fresh = Connection::new(ConnectionConfig::new("c07fresh@127.0.0.1", "nobody@127.0.0.1", "x"));
    for _ in 0..ctx.n(12, 200) {
        let op = gen_op(ctx, &cfg);
        let r = op.run(&mut fresh).await;
        let impl_res = match &r {
            Ok(()) => "ok".to_string(),
            Err(e) => err_class(e),
        };
        ctx.count("state_disconnected_ops");
        ctx.tie("gen", &format!("c07send {} {} 0 - {}", fresh.state().as_str(), neg_text(&fresh), op.text()), &impl_res);
        if r.is_ok() {
            ctx.fail("c07-operation-before-connect-succeeds", &op.text());
        }
    }
    // handshake broken at each step: the socket is open, the state machine is not `connected`
    let devs = vec![
        Deviation::Status("nok".into()),
        Deviation::WrongStatusTag,
        Deviation::WrongChallengeTag,
        Deviation::TruncatedChallenge,
        Deviation::WrongAckDigest,
        Deviation::AckForWrongChallenge,
        Deviation::WrongAckTag,
        Deviation::TruncatedAck,
        Deviation::CloseAfterStatus,
        Deviation::CloseAfterChallenge,
    ];
    for dev in devs {
        *case += 1;
        let header = ctx.rng.chance(1, 2);
        let (mut conn, res, mut handle) = connect_pair_h(epmd, *case, header, dev.clone(), 300).await;
        if res.is_ok() && conn.is_connected() {
            // C04's subject; here only: a connection that says connected is not a case of this part
            ctx.count("deviation_connected_anyway");
            continue;
        }
        let st = conn.state().as_str();
        ctx.count(&format!("state_{}_after_failed_handshake", st));
        for _ in 0..ctx.n(6, 40) {
            let op = gen_op(ctx, &cfg);
            let r = tokio::time::timeout(Duration::from_secs(5), op.run(&mut conn)).await;
            let impl_res = match &r {
                Ok(Ok(())) => "ok".to_string(),
                Ok(Err(e)) => err_class(e),
                Err(_) => "hang".to_string(),
            };
            ctx.tie("gen", &format!("c07send {} {} 1 * {}", conn.state().as_str(), neg_text(&conn), op.text()), &impl_res);
            if matches!(r, Ok(Ok(()))) {
                ctx.fail("c07-operation-before-connect-succeeds", &format!("dev={:?} state={} op={}", dev, st, op.text()));
            }
        }
        // what did the peer get after the handshake broke?  A peer that already ended its script (ack-stage deviations)
        // hands over its socket; a peer still waiting for the client's next handshake message would take stray bytes for
        // that message, so the client side is closed now and whatever the peer read after that point is stray.
        let ack_stage = matches!(dev, Deviation::WrongAckDigest | Deviation::AckForWrongChallenge | Deviation::WrongAckTag | Deviation::TruncatedAck);
        let peer = match tokio::time::timeout(Duration::from_millis(60), &mut handle).await {
            Ok(r) => r.ok().flatten(),
            Err(_) => {
                let _ = conn.close().await;
                drop(conn);
                tokio::time::timeout(Duration::from_secs(4), &mut handle).await.ok().and_then(|r| r.ok()).flatten()
            }
        };
        if peer.is_none() {
            ctx.count("peer_ended_without_reading_anything_more");
        }
        if let Some(mut p) = peer {
            let mut stray = if ack_stage { vec![] } else { p.hs.reply.clone() };
            stray.extend_from_slice(&p.recv_bytes_until_quiet(Duration::from_millis(40)).await);
            ctx.count("peer_inspected_after_failed_handshake");
            ctx.prop("gen", &format!("c07none {}", hexarg(&stray)), "ok");
        }
    }
}

tokio::task_local! {
    static TASK: usize;
}

#[derive(Clone)]
enum NodeOp {
    Send(ExternalPid, OwnedTerm),
    Link(ExternalPid, ExternalPid),
    Unlink(ExternalPid, ExternalPid),
    Monitor(ExternalPid, ExternalPid),
    /// demonitor of the reference returned by this task's `n`-th monitor (falls back to a made-up reference)
    Demonitor(ExternalPid, ExternalPid, usize),
}

/// a fresh node (operations before connect checked on it), started and connected to a fresh scripted peer
async fn node_setup(ctx: &mut Ctx, epmd: &FakeEpmd, case: usize) -> Result<(edp_node::Node, PeerConn, String, String), String> {
    let short = format!("c07n{}", case);
    let peer_name = format!("{}@127.0.0.1", short);
    let listener = listen_as(epmd, &short).await;
    let pcfg = PeerCfg::new(&peer_name, "c07cookie");
    let peer = tokio::spawn(async move { accept_and_handshake(&listener, &pcfg).await });
    let me = format!("c07node{}@127.0.0.1", case);
    let mut node = edp_node::Node::new(me.clone(), "c07cookie");
    let peer_atom = Atom::new(&peer_name);
    let me_atom = Atom::new(&me);
    let remote = |id: u32, serial: u32| ExternalPid::new(peer_atom.clone(), id, serial, 77);
    let local = |id: u32, serial: u32| ExternalPid::new(me_atom.clone(), id, serial, 8);
    // before start/connect: every remote operation fails, and there is no socket to write to
    let pre = [
        node.send(&remote(1, 0), OwnedTerm::Atom(Atom::new("early"))).await.is_ok(),
        node.link(&local(1, 0), &remote(1, 0)).await.is_ok(),
        node.unlink(&local(1, 0), &remote(1, 0)).await.is_ok(),
    ];
    ctx.count("node_ops_before_connect");
    if pre.iter().any(|x| *x) {
        ctx.fail("c07-operation-before-connect-succeeds", &format!("node level: send/link/unlink ok={:?}", pre));
    }
    // tie of the node-level model: with no entry in the connection table every operation is `NodeNotConnected`
    {
        let m = node.monitor(&local(2, 0), &remote(2, 0)).await;
        let r0 = ExternalReference::new(me_atom.clone(), 8, vec![1, 2, 3]);
        let d = node.demonitor(&local(2, 0), &remote(2, 0), &r0).await;
        let class = |e: &edp_node::Error| match e {
            edp_node::Error::NodeNotConnected(_) => "err:notconnected wire=-".to_string(),
            other => format!("err:other:{}", other.to_string().replace(' ', "_")),
        };
        let texts = [
            (format!("L;{};{}", pid_text(&local(1, 0)), pid_text(&remote(1, 0))), node.link(&local(1, 0), &remote(1, 0)).await.err()),
            (format!("U;{};{};1", pid_text(&local(1, 0)), pid_text(&remote(1, 0))), node.unlink(&local(1, 0), &remote(1, 0)).await.err()),
            (format!("S;{};{};N", pid_text(&local(1, 0)), pid_text(&remote(1, 0))), node.send(&remote(1, 0), OwnedTerm::Nil).await.err()),
            (format!("M;{};{};{}", pid_text(&local(2, 0)), pid_text(&remote(2, 0)), ref_text(&r0)), m.err()),
            (format!("D;{};{};{}", pid_text(&local(2, 0)), pid_text(&remote(2, 0)), ref_text(&r0)), d.err()),
        ];
        for (t, e) in texts.iter() {
            ctx.count("node_op_without_connection");
            if e.is_none() {
                ctx.fail("c07-operation-before-connect-succeeds", &format!("node level, no connection to the target's node: {} returned Ok", t));
            }
            ctx.tie("gen", &format!("c07node - w {}", t), &e.as_ref().map(class).unwrap_or_else(|| "ok".to_string()));
        }
    }
    node.start(0).await.map_err(|e| format!("node.start: {}", e))?;
    node.connect(peer_name.clone()).await.map_err(|e| format!("node.connect: {}", e))?;
    let peer = tokio::time::timeout(Duration::from_secs(5), peer).await.ok().and_then(|r| r.ok()).flatten().ok_or("peer handshake did not finish")?;
    Ok((node, peer, peer_name, me))
}

async fn part_c(ctx: &mut Ctx, epmd: &FakeEpmd, case: &mut usize) {
    let rounds = ctx.n(14, 200);
    for round in 0..rounds {
        *case += 1;
        let k = if round == 0 { 1 } else { ctx.rng.range(2, 4) as usize };
        let mut setup = None;
        let mut why = String::new();
        for _attempt in 0..3 {
            match node_setup(ctx, epmd, *case).await {
                Ok(x) => {
                    setup = Some(x);
                    break;
                }
                Err(e) => {
                    why = e;
                    ctx.count("setup_retries");
                    *case += 1;
                }
            }
        }
        let Some((node, mut peer, peer_name, me)) = setup else {
            ctx.fail("c07-setup", &format!("node round {}: {}", round, why));
            continue;
        };
        let peer_atom = Atom::new(&peer_name);
        let me_atom = Atom::new(&me);
        let remote = |id: u32, serial: u32| ExternalPid::new(peer_atom.clone(), id, serial, 77);
        let local = |id: u32, serial: u32| ExternalPid::new(me_atom.clone(), id, serial, 8);
        let node = Arc::new(node);
        // per-task programs
        let cfg = Cfg { max_depth: 2, huge: false, ..Cfg::default() };
        let mut progs: Vec<Vec<NodeOp>> = vec![];
        for t in 0..k {
            let m = ctx.rng.range(2, 6) as usize;
            let mut ops = vec![];
            let mut monitors = 0usize;
            for s in 0..m {
                let from = local((t * 1000 + s) as u32, gen_u32(&mut ctx.rng) >> 4);
                let to = if ctx.rng.chance(1, 3) {
                    // one of two peer pids that all tasks address, each time in another form (plain, node-local with
                    // fresh preserved bytes): frames of different tasks then carry `==` control tuples with different bytes
                    ctx.count("node_op_shared_target");
                    let p = remote(7 + ctx.rng.below(2) as u32, 3);
                    if ctx.rng.chance(1, 3) { p } else { reform_pid(ctx, &p) }
                } else if ctx.rng.chance(1, 4) {
                    // node-local form of a pid of the peer node
                    let p = remote(gen_u32(&mut ctx.rng), gen_u32(&mut ctx.rng));
                    let enc = erltf::encode(&OwnedTerm::Pid(p.clone())).unwrap();
                    let mut b = ctx.rng.bytes(8);
                    b.extend_from_slice(&enc[1..]);
                    ExternalPid::with_local_ext_bytes(p.node, p.id, p.serial, p.creation, b)
                } else {
                    remote(gen_u32(&mut ctx.rng), gen_u32(&mut ctx.rng))
                };
                // round 0: the very first remote unlink of a fresh node (its id comes from a counter that starts at 0)
                let pick = if round == 0 && s == 0 { 4 } else { ctx.rng.below(8) };
                let op = match pick {
                    0..=2 => {
                        let body = gen_term(&mut ctx.rng, &cfg, 0);
                        NodeOp::Send(to, OwnedTerm::Tuple(vec![OwnedTerm::Integer(t as i64), OwnedTerm::Integer(s as i64), body]))
                    }
                    3 => NodeOp::Link(from, to),
                    4 => NodeOp::Unlink(from, to),
                    5 | 6 => {
                        monitors += 1;
                        NodeOp::Monitor(from, to)
                    }
                    _ => NodeOp::Demonitor(from, to, if monitors > 0 { ctx.rng.below(monitors as u64) as usize } else { usize::MAX }),
                };
                ctx.count(&format!("node_op_{}", match &op { NodeOp::Send(..) => "send", NodeOp::Link(..) => "link", NodeOp::Unlink(..) => "unlink", NodeOp::Monitor(..) => "monitor", NodeOp::Demonitor(..) => "demonitor" }));
                ops.push(op);
            }
            progs.push(ops);
        }
        // seeded yield decisions
        let yields: Arc<Vec<u32>> = Arc::new((0..4096).map(|_| ctx.rng.below(4) as u32).collect());
        let yi = Arc::new(AtomicUsize::new(0));
        let trace: Arc<Mutex<Vec<(usize, char)>>> = Arc::new(Mutex::new(vec![]));
        {
            let (yields, yi, trace) = (yields.clone(), yi.clone(), trace.clone());
            edp_client::verif_hooks::set_yield_hook(Some(Box::new(move |name: &str| {
                let c = match name {
                    "send:after_len" => 'l',
                    "send:after_marker" => 'm',
                    "send:after_control" => 'c',
                    _ => return 0,
                };
                let t = TASK.try_with(|t| *t).unwrap_or(usize::MAX);
                trace.lock().unwrap().push((t, c));
                yields[yi.fetch_add(1, Ordering::SeqCst) % yields.len()]
            })));
        }
        let texts: Arc<Mutex<Vec<Vec<String>>>> = Arc::new(Mutex::new(vec![vec![]; k]));
        let failures: Arc<Mutex<Vec<String>>> = Arc::new(Mutex::new(vec![]));
        let mut handles = vec![];
        let pre_yields: Vec<u32> = (0..k).map(|_| ctx.rng.below(3) as u32).collect();
        for (t, ops) in progs.iter().cloned().enumerate() {
            let (node, trace, texts, failures) = (node.clone(), trace.clone(), texts.clone(), failures.clone());
            let dummy = local(0, 0);
            let me_atom = me_atom.clone();
            let py = pre_yields[t];
            handles.push(tokio::spawn(TASK.scope(t, async move {
                for _ in 0..py {
                    tokio::task::yield_now().await;
                }
                let mut refs: Vec<ExternalReference> = vec![];
                for op in ops {
                    let (res, text): (Result<(), String>, String) = match op {
                        NodeOp::Send(to, m) => {
                            let r = node.send(&to, m.clone()).await.map_err(|e| e.to_string());
                            (r, format!("S;{};{};{}", pid_text(&dummy), pid_text(&to), term_text(&m)))
                        }
                        NodeOp::Link(f, to) => (node.link(&f, &to).await.map_err(|e| e.to_string()), format!("L;{};{}", pid_text(&f), pid_text(&to))),
                        NodeOp::Unlink(f, to) => (node.unlink(&f, &to).await.map_err(|e| e.to_string()), format!("U;{};{};?", pid_text(&f), pid_text(&to))),
                        NodeOp::Monitor(f, to) => match node.monitor(&f, &to).await {
                            Ok(r) => {
                                let txt = format!("M;{};{};{}", pid_text(&f), pid_text(&to), ref_text(&r));
                                refs.push(r);
                                (Ok(()), txt)
                            }
                            Err(e) => (Err(e.to_string()), "M".to_string()),
                        },
                        NodeOp::Demonitor(f, to, i) => {
                            let r = refs.get(i).cloned().unwrap_or_else(|| ExternalReference::new(me_atom.clone(), 8, vec![t as u32, 4242, 1]));
                            (node.demonitor(&f, &to, &r).await.map_err(|e| e.to_string()), format!("D;{};{};{}", pid_text(&f), pid_text(&to), ref_text(&r)))
                        }
                    };
                    // recorded in the same poll in which the operation returned (the lock was released just before)
                    trace.lock().unwrap().push((t, 'e'));
                    match res {
                        Ok(()) => texts.lock().unwrap()[t].push(text),
                        Err(e) => failures.lock().unwrap().push(format!("task {} op {}: {}", t, text, e)),
                    }
                }
            })));
        }
        let mut hung = false;
        for h in handles {
            if tokio::time::timeout(Duration::from_secs(8), h).await.is_err() {
                hung = true;
            }
        }
        edp_client::verif_hooks::set_yield_hook(None);
        if hung {
            ctx.fail("c07-operation-hangs", &format!("node round {} k={}", round, k));
            return;
        }
        for f in failures.lock().unwrap().iter() {
            ctx.fail("c07-node-operation-fails", f);
        }
        // sentinel through the same connection, then read everything
        let sentinel = ctx.rng.bytes(16);
        let conns = node.connections();
        let neg;
        {
            let Some(c) = conns.get(peer_name.as_str()).map(|r| r.value().clone()) else {
                ctx.fail("c07-setup", "node: connection disappeared");
                continue;
            };
            let mut g = c.lock().await;
            neg = neg_text(&g);
            let _ = g.send_raw(&sentinel).await;
        }
        let Some(wire) = read_until_sentinel(&mut peer, &sentinel, Duration::from_secs(10)).await else {
            ctx.fail("c07-stream-broken", &format!("node round {} k={}", round, k));
            continue;
        };
        let texts = texts.lock().unwrap().clone();
        let total: usize = texts.iter().map(|l| l.len()).sum();
        let prog = texts.iter().map(|l| if l.is_empty() { "-".to_string() } else { l.join("/") }).collect::<Vec<_>>().join("~");
        let tr = trace.lock().unwrap().iter().map(|(t, c)| format!("{}.{}", t, c)).collect::<Vec<_>>().join(",");
        let switches = trace.lock().unwrap().windows(2).filter(|w| w[0].0 != w[1].0).count();
        ctx.add("task_switches_in_traces", switches as u64);
        ctx.add("traces_validated", 1);
        ctx.add("node_frames", total as u64);
        ctx.count(&format!("node_round_tasks_{}", k));
        ctx.tie("gen", &format!("c07trace {} {} {} {}", neg, prog, if tr.is_empty() { "-".to_string() } else { tr }, hexarg(&wire)), &format!("ok frames={}", total));
        ctx.prop("gen", &format!("c07wire {} {}", prog, hexarg(&wire)), &format!("ok frames={}", total));
        drop(node);
        drop(peer);
    }
}

/// a process that takes every message and does nothing with it
struct Quiet;

impl edp_node::Process for Quiet {
    async fn handle_message(&mut self, _msg: edp_node::Message) -> edp_node::Result<()> {
        Ok(())
    }
}

/// number of length-prefixed frames in `wire` (`None`: the bytes do not end at a frame boundary)
fn count_frames(wire: &[u8]) -> Option<usize> {
    let (mut i, mut n) = (0usize, 0usize);
    while i < wire.len() {
        if i + 4 > wire.len() {
            return None;
        }
        let l = u32::from_be_bytes([wire[i], wire[i + 1], wire[i + 2], wire[i + 3]]) as usize;
        i += 4;
        if i + l > wire.len() {
            return None;
        }
        i += l;
        n += 1;
    }
    Some(n)
}

/// Part F — repeated and retried operations through a real `Node`: every operation is tried while there is no connection to
/// the target's node (must fail, nothing to write to), then the node connects and the SAME operation (same arguments) is
/// retried and then issued once more; for local processes spawned on the node (whose link/monitor sets the node keeps) as
/// well as for fabricated pids.  After every single operation a sentinel goes through the same connection and the peer
/// reads up to it: an operation that returned Ok must have written exactly one frame — the one the independent reader
/// reads as this operation (`c07wire` with a one-operation program) —, one that failed none.
async fn part_f(ctx: &mut Ctx, epmd: &FakeEpmd, case: &mut usize) {
    let rounds = ctx.n(4, 40);
    for round in 0..rounds {
        *case += 1;
        let short = format!("c07f{}", *case);
        let peer_name = format!("{}@127.0.0.1", short);
        let listener = listen_as(epmd, &short).await;
        let pcfg = PeerCfg::new(&peer_name, "c07cookie");
        let peer = tokio::spawn(async move { accept_and_handshake(&listener, &pcfg).await });
        let me = format!("c07fnode{}@127.0.0.1", *case);
        let mut node = edp_node::Node::new(me.clone(), "c07cookie");
        if let Err(e) = node.start(0).await {
            ctx.fail("c07-setup", &format!("part F node.start: {}", e));
            peer.abort();
            continue;
        }
        let peer_atom = Atom::new(&peer_name);
        let me_atom = Atom::new(&me);
        let (Ok(sp0), Ok(sp1)) = (node.spawn(Quiet).await, node.spawn(Quiet).await) else {
            ctx.fail("c07-setup", "part F: spawn failed");
            peer.abort();
            continue;
        };
        let fab = ExternalPid::new(me_atom.clone(), 900 + round as u32, gen_u32(&mut ctx.rng) >> 4, node.creation());
        // the targets on the peer: one shared by all operations (so that a repeated (from, to) pair really repeats), one per kind
        let shared = ExternalPid::new(peer_atom.clone(), 7, 3, 77);
        let cfg = Cfg { max_depth: 2, huge: false, ..Cfg::default() };
        // (from, to, which kind) in a seeded order; every kind with a spawned `from`, a second spawned `from`, a fabricated one
        let mut plan: Vec<(usize, ExternalPid, ExternalPid)> = vec![];
        for kind in 0..5usize {
            for (fi, from) in [sp0.clone(), sp1.clone(), fab.clone()].into_iter().enumerate() {
                let to = if fi == 1 || ctx.rng.chance(1, 2) { shared.clone() } else { ExternalPid::new(peer_atom.clone(), gen_u32(&mut ctx.rng) >> 4, gen_u32(&mut ctx.rng) >> 19, 77) };
                plan.push((kind, from, to));
            }
        }
        ctx.rng.shuffle(&mut plan);
        // phase 1: no connection yet
        let mut refs: Vec<Option<ExternalReference>> = vec![None; plan.len()];
        let fixed_ref = |i: usize| ExternalReference::new(me_atom.clone(), 8, vec![i as u32, 4242, 1]);
        let bodies: Vec<OwnedTerm> = (0..plan.len()).map(|_| gen_term(&mut ctx.rng, &cfg, 0)).collect();
        for (i, (kind, from, to)) in plan.iter().enumerate() {
            let ok = match kind {
                0 => node.send(to, bodies[i].clone()).await.is_ok(),
                1 => node.link(from, to).await.is_ok(),
                2 => node.unlink(from, to).await.is_ok(),
                3 => node.monitor(from, to).await.is_ok(),
                _ => node.demonitor(from, to, &fixed_ref(i)).await.is_ok(),
            };
            ctx.count("repeat_op_without_connection");
            if ok {
                ctx.fail("c07-operation-before-connect-succeeds", &format!("part F: kind {} from {} to {} returned Ok with no connection", kind, pid_text(from), pid_text(to)));
            }
        }
        if let Err(e) = node.connect(peer_name.clone()).await {
            ctx.fail("c07-setup", &format!("part F node.connect: {}", e));
            peer.abort();
            continue;
        }
        let Some(mut peer) = tokio::time::timeout(Duration::from_secs(5), peer).await.ok().and_then(|r| r.ok()).flatten() else {
            ctx.fail("c07-setup", "part F: peer handshake did not finish");
            continue;
        };
        let conns = node.connections();
        let Some(handle) = conns.get(peer_name.as_str()).map(|r| r.value().clone()) else {
            ctx.fail("c07-setup", "part F: no connection in the table after connect");
            continue;
        };
        // phase 2: the retry after the failed attempt, then the same operation again (twice in a row), then — for the
        // sixth operation, which a node issues only through the connection (`send_to_name` towards `rex`) — the same
        let dummy = ExternalPid::new(me_atom.clone(), 0, 0, 8);
        let mut broken = false;
        'ops: for (i, (kind, from, to)) in plan.iter().enumerate() {
            for attempt in ["retry", "again", "third"] {
                let (res, text): (Result<(), String>, String) = match kind {
                    0 => (node.send(to, bodies[i].clone()).await.map_err(|e| e.to_string()), format!("S;{};{};{}", pid_text(&dummy), pid_text(to), term_text(&bodies[i]))),
                    1 => (node.link(from, to).await.map_err(|e| e.to_string()), format!("L;{};{}", pid_text(from), pid_text(to))),
                    2 => (node.unlink(from, to).await.map_err(|e| e.to_string()), format!("U;{};{};?", pid_text(from), pid_text(to))),
                    3 => match node.monitor(from, to).await {
                        Ok(r) => {
                            let t = format!("M;{};{};{}", pid_text(from), pid_text(to), ref_text(&r));
                            refs[i] = Some(r);
                            (Ok(()), t)
                        }
                        Err(e) => (Err(e.to_string()), "M".to_string()),
                    },
                    _ => {
                        // the reference of a monitor this history really set up, when there is one
                        let r = refs.iter().flatten().next().cloned().unwrap_or_else(|| fixed_ref(i));
                        (node.demonitor(from, to, &r).await.map_err(|e| e.to_string()), format!("D;{};{};{}", pid_text(from), pid_text(to), ref_text(&r)))
                    }
                };
                if !frame_check(ctx, &handle, &mut peer, round, attempt, res, &text).await {
                    broken = true;
                    break 'ops;
                }
            }
        }
        if !broken {
            for attempt in ["first", "again"] {
                let name = "rex".to_string();
                let body = gen_term(&mut ctx.rng, &cfg, 0);
                let text = format!("R;{};{};{}", pid_text(&sp0), hexarg(name.as_bytes()), term_text(&body));
                let res = handle.lock().await.send_to_name(sp0.clone(), Atom::new(&name), body).await.map_err(|e| e.to_string());
                if !frame_check(ctx, &handle, &mut peer, round, attempt, res, &text).await {
                    break;
                }
            }
        }
        ctx.count("repeat_rounds");
        drop(node);
        drop(peer);
    }
}

/// sentinel after one node-level operation, read up to it, count and judge the frames of that operation alone
async fn frame_check(ctx: &mut Ctx, handle: &Arc<tokio::sync::Mutex<Connection>>, peer: &mut PeerConn, round: usize, attempt: &str, res: Result<(), String>, text: &str) -> bool {
    let sentinel = ctx.rng.bytes(16);
    let _ = handle.lock().await.send_raw(&sentinel).await;
    let Some(wire) = read_until_sentinel(peer, &sentinel, Duration::from_secs(10)).await else {
        ctx.fail("c07-stream-broken", &format!("part F round {} {} {}", round, attempt, &text[..text.len().min(300)]));
        return false;
    };
    let kind = &text[..1];
    ctx.count(&format!("repeat_{}_{}_{}", kind, attempt, if res.is_ok() { "ok" } else { "err" }));
    match res {
        Ok(()) => {
            let frames = count_frames(&wire);
            if frames != Some(1) {
                ctx.fail(
                    "c07-ok-without-exactly-one-frame",
                    &format!("part F ({} of the same operation through one Node): {} returned Ok and wrote {:?} frames, wire={}", attempt, &text[..text.len().min(600)], frames, hexarg(&wire[..wire.len().min(400)])),
                );
            }
            ctx.add("node_frames", 1);
            ctx.prop("gen", &format!("c07wire {} {}", text, hexarg(&wire)), "ok frames=1");
        }
        Err(e) => {
            ctx.fail("c07-node-operation-fails", &format!("part F {} {}: {}", attempt, &text[..text.len().min(300)], e));
            ctx.prop("gen", &format!("c07none {}", hexarg(&wire)), "ok");
        }
    }
    true
}

/// where the armed yield hook stops an operation (name of the H3 point, `None` = not armed) and whether it got there
static CUT_AT: Mutex<Option<&'static str>> = Mutex::new(None);
static CUT_HIT: std::sync::atomic::AtomicBool = std::sync::atomic::AtomicBool::new(false);

/// everything the client wrote until it closed the stream (or `wait` passed: `None`)
async fn read_to_eof(peer: &mut PeerConn, wait: Duration) -> Option<Vec<u8>> {
    let mut out = vec![];
    let mut buf = vec![0u8; 1 << 16];
    tokio::time::timeout(wait, async {
        loop {
            match peer.stream.read(&mut buf).await {
                Ok(n) if n > 0 => out.extend_from_slice(&buf[..n]),
                _ => break,
            }
        }
    })
    .await
    .ok()?;
    Some(out)
}

/// Part D — an operation that ends in the middle of its frame (the future is dropped between two partial writes, as a
/// caller's `tokio::time::timeout` around `Node::send` does; or the write of header mode times out): the stream then carries
/// a partial frame, so nothing more may be written to it.  Several operations on ONE connection, one of them cut at a seeded
/// H3 point, more operations after it, then `close()`; the peer reads to the end of the stream.
/// Tie `c07fail`: result of every operation and the exact bytes against `runOps` of the model; oracle `c07cutwire`: the
/// bytes are the whole frames of the operations that succeeded, in order, followed by at most a proper prefix of ONE frame.
async fn part_d(ctx: &mut Ctx, epmd: &FakeEpmd, case: &mut usize) {
    let cfg = Cfg { huge: false, max_depth: 2, ..Cfg::default() };
    edp_client::verif_hooks::set_yield_hook(Some(Box::new(|name: &str| {
        let at = *CUT_AT.lock().unwrap();
        if at == Some(name) {
            CUT_HIT.store(true, Ordering::SeqCst);
            u32::MAX
        } else {
            0
        }
    })));
    for round in 0..ctx.n(24, 300) {
        *case += 1;
        let (mut conn, res, peer) = connect_pair(epmd, *case, false, Deviation::None, 5000).await;
        let (Some(mut peer), true) = (peer, res.is_ok() && conn.is_connected()) else {
            ctx.count("setup_retries");
            continue;
        };
        let neg = neg_text(&conn);
        let before = if round == 0 { 0 } else { ctx.rng.below(4) as usize };
        let after = 1 + ctx.rng.below(3) as usize;
        let mut ops = vec![];
        let mut fates = vec![];
        let mut results = vec![];
        for i in 0..before + 1 + after {
            let op = gen_op(ctx, &cfg);
            let cut = i == before;
            let point = if cut {
                let with_payload = matches!(op, Op::Send(..) | Op::RegSend(..));
                let k = ctx.rng.below(if with_payload { 3 } else { 2 });
                Some(["send:after_len", "send:after_marker", "send:after_control"][k as usize])
            } else {
                None
            };
            *CUT_AT.lock().unwrap() = point;
            CUT_HIT.store(false, Ordering::SeqCst);
            let r = {
                let mut fut = Box::pin(op.run(&mut conn));
                std::future::poll_fn(|cx| match fut.as_mut().poll(cx) {
                    std::task::Poll::Ready(r) => std::task::Poll::Ready(Some(r)),
                    std::task::Poll::Pending if CUT_HIT.load(Ordering::SeqCst) => std::task::Poll::Ready(None),
                    std::task::Poll::Pending => std::task::Poll::Pending,
                })
                .await
                // the future is dropped here: a cancelled operation
            };
            *CUT_AT.lock().unwrap() = None;
            let (fate, res) = match (&r, point) {
                (None, Some(p)) => {
                    ctx.count(&format!("cut_{}", &p[5..]));
                    (format!("c{}.0", match p { "send:after_len" => 1, "send:after_marker" => 2, _ => 3 }), "cut".to_string())
                }
                // an operation that failed before its first write (a name that cannot be encoded) is not cut
                (Some(Err(e)), _) => ("w".to_string(), err_class(e)),
                (Some(Ok(())), _) => ("w".to_string(), "ok".to_string()),
                (None, None) => ("w".to_string(), "cut-unasked".to_string()),
            };
            ctx.count(&format!("seq_op_{}", if res == "ok" { "ok" } else if res == "cut" { "cut" } else if i > before { "after_cut_err" } else { "err" }));
            ops.push(op.text());
            fates.push(fate);
            results.push(res);
        }
        let _ = conn.close().await;
        drop(conn);
        let Some(wire) = read_to_eof(&mut peer, Duration::from_secs(10)).await else {
            ctx.fail("c07-stream-broken", &format!("part D round {}: the stream did not end after close()", round));
            continue;
        };
        ctx.add("wire_bytes", wire.len() as u64);
        ctx.count("cut_sequences");
        let req_ops = ops.join("/");
        ctx.tie("gen", &format!("c07fail {} {} {}", neg, fates.join(","), req_ops), &format!("{} wire={}", results.join(","), hexarg(&wire)));
        ctx.prop("gen", &format!("c07cutwire pt {} {} {}", results.join(","), hexarg(&wire), req_ops), "ok");
    }
    edp_client::verif_hooks::set_yield_hook(None);

    // header mode: the single `write_all` of a frame larger than the socket buffers, to a peer that does not read, runs into
    // the connection's timeout with part of the frame written.  How much was written is the kernel's business; what is
    // compared: the operation fails, every later operation fails and writes nothing, and what the peer finally reads is a
    // proper prefix of ONE frame (its length prefix announces more bytes than follow).
    for round in 0..ctx.n(1, 3) {
        *case += 1;
        let (mut conn, res, peer) = connect_pair(epmd, *case, true, Deviation::None, 400).await;
        let (Some(mut peer), true) = (peer, res.is_ok() && conn.is_connected()) else {
            ctx.count("setup_retries");
            continue;
        };
        let big = Op::Send(gen_pid(&mut ctx.rng, false), gen_pid(&mut ctx.rng, false), OwnedTerm::Binary(vec![round as u8; 32 << 20]));
        let r = big.run(&mut conn).await;
        let first = match &r {
            Ok(()) => "ok".to_string(),
            Err(edp_client::Error::Timeout(_)) => "cut".to_string(),
            Err(e) => err_class(e),
        };
        ctx.count(&format!("hdr_write_timeout_{}", first));
        // now the peer reads what has arrived, so that the socket would take further writes
        let mut wire = peer.recv_bytes_until_quiet(Duration::from_millis(80)).await;
        let mut later = vec![];
        for _ in 0..3 {
            let op = gen_op(ctx, &cfg);
            let r = op.run(&mut conn).await;
            let res = match &r {
                Ok(()) => "ok".to_string(),
                Err(e) => err_class(e),
            };
            ctx.tie("gen", &format!("c07send {} {} {} * {}", conn.state().as_str(), neg_text(&conn), if first == "cut" { 0 } else { 1 }, op.text()), &res);
            later.push(res);
        }
        let _ = conn.close().await;
        drop(conn);
        let Some(rest) = read_to_eof(&mut peer, Duration::from_secs(20)).await else {
            ctx.fail("c07-stream-broken", "part D header mode: the stream did not end after close()");
            continue;
        };
        wire.extend_from_slice(&rest);
        let announced = if wire.len() >= 4 { u32::from_be_bytes([wire[0], wire[1], wire[2], wire[3]]) as usize } else { usize::MAX };
        let proper_prefix_of_one_frame = wire.len() < 4 || wire.len() - 4 < announced;
        if first != "cut" {
            // the kernel took the whole frame: nothing to see here
            ctx.count("hdr_write_timeout_not_reached");
        } else if !proper_prefix_of_one_frame || later.iter().any(|x| x == "ok") {
            ctx.fail(
                "c07-write-after-partial-frame",
                &format!("mode=hdr send(Binary 32 MiB) to a peer that does not read: result={} later={:?} bytes_at_peer={} announced_frame_length={}", first, later, wire.len(), announced),
            );
        }
    }
}

/// Part E — the caller drops the future of a NODE operation: `tokio::time::timeout(short, node.send(to, big))` towards a peer
/// that has stopped reading (small receive buffer, so the sender stalls after some kilobytes).  The send is cancelled with
/// part of its frame on the wire and the connection mutex is released; then another task issues operations through the same
/// node.  The peer then reads everything there is.  Judge: the independent reader (`c07cutwire`): whole frames of the
/// operations that returned Ok, then at most the beginning of ONE frame, and no operation succeeds after the cut.
async fn part_e(ctx: &mut Ctx, epmd: &FakeEpmd, case: &mut usize) {
    for round in 0..ctx.n(3, 20) {
        *case += 1;
        let short = format!("c07s{}", case);
        let peer_name = format!("{}@127.0.0.1", short);
        let listener = listen_as_rcvbuf(epmd, &short, 4096).await;
        let pcfg = PeerCfg::new(&peer_name, "c07cookie");
        let peer = tokio::spawn(async move { accept_and_handshake(&listener, &pcfg).await });
        let me = format!("c07stall{}@127.0.0.1", case);
        let mut node = edp_node::Node::new(me.clone(), "c07cookie");
        if node.start(0).await.is_err() || node.connect(peer_name.clone()).await.is_err() {
            ctx.count("setup_retries");
            continue;
        }
        let Some(mut peer) = tokio::time::timeout(Duration::from_secs(5), peer).await.ok().and_then(|r| r.ok()).flatten() else {
            ctx.count("setup_retries");
            continue;
        };
        let node = Arc::new(node);
        let peer_atom = Atom::new(&peer_name);
        let me_atom = Atom::new(&me);
        let remote = |id: u32| ExternalPid::new(peer_atom.clone(), id, 1, 77);
        let local = |id: u32| ExternalPid::new(me_atom.clone(), id, 1, 8);
        let mut texts: Vec<String> = vec![];
        let mut results: Vec<String> = vec![];
        // some whole frames first (the peer's buffers take them), in two of three rounds
        let before = if round % 3 == 0 { 0 } else { 1 + ctx.rng.below(3) as usize };
        for i in 0..before {
            let (f, t) = (local(100 + i as u32), remote(200 + i as u32));
            let r = node.link(&f, &t).await;
            texts.push(format!("L;{};{}", pid_text(&f), pid_text(&t)));
            results.push(if r.is_ok() { "ok".into() } else { "err".into() });
        }
        // the big send, dropped by its caller
        let big = OwnedTerm::Binary(vec![0x5a; 6 << 20]);
        let to = remote(1);
        let n2 = node.clone();
        let cancelled = tokio::spawn(async move { tokio::time::timeout(Duration::from_millis(150), n2.send(&to, big)).await.is_err() }).await.unwrap_or(false);
        texts.push("-".to_string());
        results.push(if cancelled { "cut".into() } else { "err".into() });
        ctx.count(if cancelled { "node_send_dropped_by_caller" } else { "node_send_not_dropped" });
        // another task goes on using the node
        let n3 = node.clone();
        let (f1, t1, t2) = (local(2), remote(2), remote(3));
        let later = tokio::spawn(async move {
            let a = tokio::time::timeout(Duration::from_millis(300), n3.link(&f1, &t1)).await;
            let b = tokio::time::timeout(Duration::from_millis(300), n3.send(&t2, OwnedTerm::Atom(Atom::new("after")))).await;
            (a.map(|r| r.is_ok()).unwrap_or(false), b.map(|r| r.is_ok()).unwrap_or(false))
        })
        .await
        .unwrap_or((false, false));
        texts.push(format!("L;{};{}", pid_text(&local(2)), pid_text(&remote(2))));
        results.push(if later.0 { "ok".into() } else { "err".into() });
        texts.push(format!("S;{};{};A6166746572", pid_text(&local(0)), pid_text(&remote(3))));
        results.push(if later.1 { "ok".into() } else { "err".into() });
        // now the peer reads whatever there is
        let wire = peer.recv_bytes_until_quiet(Duration::from_millis(400)).await;
        ctx.add("wire_bytes", wire.len() as u64);
        ctx.count("stalled_peer_rounds");
        if later.0 || later.1 {
            ctx.count("operation_ok_after_dropped_send");
        }
        ctx.prop("gen", &format!("c07cutwire pt {} {} {}", results.join(","), hexarg(&wire), texts.join("/")), "ok");
        drop(node);
        drop(peer);
    }
}

/// One-off demonstration (`drive c07 quick 1 out big`; needs ~13 GiB of memory, not part of any tier): a frame of 2^32
/// bytes or more.  The length prefix is 32 bits wide, so such an operation cannot be a frame; it has to be refused.
async fn part_big(ctx: &mut Ctx, epmd: &FakeEpmd, case: &mut usize) {
    for header in [false, true] {
        *case += 1;
        let (mut conn, res, peer) = connect_pair(epmd, *case, header, Deviation::None, 120_000).await;
        let (Some(mut peer), true) = (peer, res.is_ok()) else {
            ctx.fail("c07-setup", "big: connect failed");
            return;
        };
        let n: usize = (1usize << 32) - 16;
        let op = Op::Send(ExternalPid::new(Atom::new("a@h"), 1, 2, 3), ExternalPid::new(Atom::new("b@h"), 4, 5, 6), OwnedTerm::Binary(vec![0u8; n]));
        let sentinel = ctx.rng.bytes(16);
        let mut tail = (sentinel.len() as u32).to_be_bytes().to_vec();
        tail.extend_from_slice(&sentinel);
        let fut = async {
            let r = op.run(&mut conn).await;
            let _ = conn.send_raw(&sentinel).await;
            r
        };
        let reader = async {
            let mut first: Vec<u8> = vec![];
            let mut last: Vec<u8> = vec![];
            let mut total: u64 = 0;
            let mut buf = vec![0u8; 1 << 20];
            loop {
                if last.len() >= tail.len() && last[last.len() - tail.len()..] == tail[..] {
                    break;
                }
                match peer.stream.read(&mut buf).await {
                    Ok(k) if k > 0 => {
                        total += k as u64;
                        if first.len() < 4 {
                            first.extend_from_slice(&buf[..k.min(4 - first.len())]);
                        }
                        last.extend_from_slice(&buf[..k]);
                        if last.len() > 64 {
                            last.drain(..last.len() - 64);
                        }
                    }
                    _ => break,
                }
            }
            (first, total - tail.len() as u64)
        };
        let (r, (first, total)) = tokio::join!(fut, reader);
        let text = format!(
            "mode={} payload=Binary({} bytes) result={} bytes_on_wire={} length_prefix={}",
            if header { "hdr" } else { "pt" },
            n,
            match &r { Ok(()) => "ok".to_string(), Err(e) => e.to_string().replace(' ', "_") },
            total,
            if first.len() == 4 && total > 0 { u32::from_be_bytes([first[0], first[1], first[2], first[3]]).to_string() } else { "-".to_string() }
        );
        eprintln!("c07 big: {}", text);
        let prefix_ok = total == 0 || (first.len() == 4 && u32::from_be_bytes([first[0], first[1], first[2], first[3]]) as u64 + 4 == total);
        if !(r.is_ok() == (total > 0) && prefix_ok) {
            ctx.fail("c07-frame-length-truncated", &text);
        }
        ctx.count("big_frames");
    }
}

pub fn run(ctx: &mut Ctx) {
    let rt = tokio::runtime::Builder::new_current_thread().enable_all().build().unwrap();
    rt.block_on(async {
        let epmd = FakeEpmd::start().await;
        edp_client::verif_hooks::set_yield_hook(Some(Box::new(|name: &str| {
            if name.starts_with("send:") {
                HOOK_HITS.fetch_add(1, Ordering::SeqCst);
            }
            0
        })));
        let mut case = 0usize;
        if ctx.args.iter().any(|a| a == "big") {
            part_big(ctx, &epmd, &mut case).await;
            return;
        }
        part_a(ctx, &epmd, &mut case).await;
        part_b(ctx, &epmd, &mut case).await;
        edp_client::verif_hooks::set_yield_hook(None);
        part_c(ctx, &epmd, &mut case).await;
        part_d(ctx, &epmd, &mut case).await;
        part_e(ctx, &epmd, &mut case).await;
        part_f(ctx, &epmd, &mut case).await;
    });
}
