//! C18: local processes — ordered exactly-once delivery, exit notices, name lifecycle.
//!
//! * `c18run`  — the real `Node` (started against the scripted EPMD, H1) with instrumented `Process` implementations;
//!   1–3 client tasks issue seeded call sequences, the process tasks are delayed at the H3 points
//!   `proc:before_exit_signals`, `proc:between_links_and_monitors`, `proc:before_registry_remove` and in front of every handler
//!   call. Everything runs on one current-thread runtime: client tasks are `unconstrained` and every process task yields before
//!   each handler call, so no task is ever preempted inside a call — the recorded history is a sequence of atomic blocks
//!   which the Lean driver replays through the small-step model (T line: trace inclusion) and which the Spec oracle judges
//!   (P line).
//! * `c18reg`  — `ProcessRegistry` driven directly.
//! * `c18gs` / `c18ge` — `GenServerProcess` / `GenEventManager` `handle_message` on generated `$gen_call`/`$gen_cast`/… terms.
//! * the former known findings (a link / monitor accepted by a process that has already collected its links / monitors) are
//!   directed scenarios now: the repaired code answers them with a `noproc` notice, exactly once.
use crate::canon::{pid_text, term_text};
use crate::peer::FakeEpmd;
use crate::rng::Rng;
use crate::Ctx;
use edp_node::gen_event::{CallResult as GeCallResult, EventResult, GenEventHandler, GenEventManager};
use edp_node::{CallResult, Error, GenServer, GenServerProcess, Mailbox, Message, Node, Process, ProcessHandle, ProcessRegistry};
use erltf::types::{Atom, ExternalPid, ExternalReference};
use erltf::OwnedTerm;
use std::collections::HashMap;
use std::future::Future;
use std::pin::Pin;
use std::sync::{Arc, Mutex};

// ------------------------------------------------------------------------------------------------ history

#[derive(Clone, Debug, PartialEq)]
enum Entry {
    Call { t: usize, op: String, res: String },
    H { p: usize, msg: String },
    Tm { p: usize },
    X { p: usize, k: u32 },
    D { p: usize },
}

struct Trace {
    log: Vec<Entry>,
    pids: Vec<ExternalPid>,              // slot -> pid, in spawn order
    reserved: usize,                     // slots handed to constructed processes
    refs: Vec<ExternalReference>,        // reference index -> reference, in creation order
    tasks: HashMap<tokio::task::Id, usize>,
    next_msg: u64,
    hook_rng: Rng,
    hook_max: [u32; 3],                  // yields at the three points: 0..=max (seeded)
    hook_fixed: Option<[u32; 3]>,
    node_name: Atom,
    creation: u32,
    unknown_task_hooks: u32,
    /// full-mailbox scenarios: slots whose handler is held at a gate; slots whose handler is waiting there
    gated: Vec<usize>,
    at_gate: Vec<usize>,
}

type Shared = Arc<Mutex<Trace>>;

static CURRENT: Mutex<Option<Shared>> = Mutex::new(None);

fn slot_of(tr: &Trace, pid: &ExternalPid) -> String {
    if let Some(i) = tr.pids.iter().position(|p| p == pid) {
        return i.to_string();
    }
    // fabricated pids of processes that never existed: id 5000 + k  <->  model pid 100 + k
    if pid.node == tr.node_name && pid.id >= 5000 {
        return (100 + pid.id - 5000).to_string();
    }
    format!("?{}", pid_text(pid))
}

fn ref_of(tr: &Trace, r: &ExternalReference) -> String {
    match tr.refs.iter().position(|x| x == r) {
        Some(i) => i.to_string(),
        None => "?".to_string(),
    }
}

fn ghost_pid(tr: &Trace, k: u32) -> ExternalPid {
    ExternalPid::new(tr.node_name.clone(), 5000 + k, 0, tr.creation)
}

fn ghost_ref(tr: &Trace, k: u32) -> ExternalReference {
    ExternalReference::new(tr.node_name.clone(), tr.creation, vec![900_000 + k, 0, 0])
}

// ------------------------------------------------------------------------------------------------ instrumented process

struct Inst {
    slot: usize,
    trap: bool,
    pre_yield: u32,
    sh: Shared,
}

fn msg_text(tr: &Trace, msg: &Message) -> (String, Option<bool>) {
    match msg {
        Message::Regular { from, body } => {
            // body = {id, ok | crash}
            if let OwnedTerm::Tuple(v) = body
                && v.len() == 2
                && let OwnedTerm::Integer(id) = &v[0]
                && let OwnedTerm::Atom(a) = &v[1]
                && from.is_none()
            {
                (format!("r{}", id), Some(a.as_str() == "crash"))
            } else {
                (format!("r?{}", term_text(body)), Some(false))
            }
        }
        // reason `error`: e<p> / m<p>.<r>; reason `noproc` (a link / monitor that came late): E<p> / M<p>.<r>
        Message::Exit { from, reason } => {
            let (tag, odd) = match reason {
                OwnedTerm::Atom(a) if a.as_str() == "error" => ("e", String::new()),
                OwnedTerm::Atom(a) if a.as_str() == "noproc" => ("E", String::new()),
                other => ("e", format!("!{}", term_text(other))),
            };
            (format!("{}{}{}", tag, slot_of(tr, from), odd), None)
        }
        Message::MonitorExit { monitored, reference, reason } => {
            let (tag, odd) = match reason {
                OwnedTerm::Atom(a) if a.as_str() == "error" => ("m", String::new()),
                OwnedTerm::Atom(a) if a.as_str() == "noproc" => ("M", String::new()),
                other => ("m", format!("!{}", term_text(other))),
            };
            (format!("{}{}.{}{}", tag, slot_of(tr, monitored), ref_of(tr, reference), odd), Some(false))
        }
        other => (format!("?{:?}", other).replace(' ', ""), Some(false)),
    }
}

impl Process for Inst {
    async fn handle_message(&mut self, msg: Message) -> edp_node::Result<()> {
        // the gate of the full-mailbox scenarios: the handler does not start, the process takes nothing more
        loop {
            {
                let mut tr = self.sh.lock().unwrap();
                if !tr.gated.contains(&self.slot) {
                    break;
                }
                if !tr.at_gate.contains(&self.slot) {
                    tr.at_gate.push(self.slot);
                }
            }
            tokio::task::yield_now().await;
        }
        // a fresh poll (and a fresh cooperative budget) for every message
        for _ in 0..self.pre_yield.max(1) {
            tokio::task::yield_now().await;
        }
        let mut tr = self.sh.lock().unwrap();
        tr.tasks.insert(tokio::task::id(), self.slot);
        let (text, fail) = msg_text(&tr, &msg);
        let fail = fail.unwrap_or(!self.trap);
        tr.log.push(Entry::H { p: self.slot, msg: text });
        if fail { Err(Error::InvalidMessage("crash".into())) } else { Ok(()) }
    }

    async fn terminate(&mut self) {
        let mut tr = self.sh.lock().unwrap();
        tr.tasks.insert(tokio::task::id(), self.slot);
        tr.log.push(Entry::Tm { p: self.slot });
    }
}

impl Drop for Inst {
    fn drop(&mut self) {
        if let Ok(mut tr) = self.sh.lock() {
            tr.log.push(Entry::D { p: self.slot });
        }
    }
}

fn install_hook() {
    edp_client::verif_hooks::set_yield_hook(Some(Box::new(|name: &str| -> u32 {
        let k = match name {
            "proc:before_exit_signals" => 1,
            "proc:between_links_and_monitors" => 2,
            "proc:before_registry_remove" => 3,
            _ => return 0,
        };
        let cur = CURRENT.lock().unwrap().clone();
        let Some(sh) = cur else { return 0 };
        let mut tr = sh.lock().unwrap();
        let slot = tokio::task::try_id().and_then(|id| tr.tasks.get(&id).copied());
        match slot {
            Some(p) => tr.log.push(Entry::X { p, k }),
            None => {
                tr.unknown_task_hooks += 1;
                return 0;
            }
        }
        match tr.hook_fixed {
            Some(f) => f[(k - 1) as usize],
            None => {
                let m = tr.hook_max[(k - 1) as usize];
                tr.hook_rng.below(m as u64 + 1) as u32
            }
        }
    })));
}

// ------------------------------------------------------------------------------------------------ scripts

/// which process a call refers to, resolved when the call is made
#[derive(Clone, Debug)]
enum PidSel {
    Pick(u64),     // one of the processes spawned so far (pick mod count); a ghost when none exists yet
    Slot(usize),   // exactly this slot (directed scenarios)
    Ghost(u32),    // a pid that was never spawned
}

#[derive(Clone, Debug)]
enum RefSel {
    Pick(u64),
    Idx(usize),
    Ghost(u32),
}

#[derive(Clone, Debug)]
enum OpSpec {
    Spawn { trap: bool, pre_yield: u32 },
    Register(u32, PidSel),
    Unregister(u32),
    Whereis(u32),
    Registered,
    Count,
    Send(PidSel, bool),
    SendName(u32, bool),
    Link(PidSel, PidSel),
    Unlink(PidSel, PidSel),
    Monitor(PidSel, PidSel),
    Demonitor(PidSel, PidSel, RefSel),
}

#[derive(Clone, Debug)]
enum Step {
    Op(OpSpec),
    Yield(u32),
    /// wait until the task of process `slot` has logged point k (1..3), or 4 = ended
    WaitPoint(usize, u32),
    /// wait until process `slot` has handled n messages
    #[allow(dead_code)]
    WaitHandled(usize, usize),
    /// the handler of process `slot` (spawned next with this slot number) is held at a gate
    CloseGate(usize),
    /// real time passes (a send that gives up after a while has given up by then)
    Sleep(u64),
    OpenGate(usize),
    /// wait until process `slot` waits at its gate and its mailbox has no room
    WaitFull(usize),
    /// wait (long) until the task of process `slot` has ended
    WaitEnded(usize),
    /// `Node::send` to process `slot`, whose gate is closed, until its mailbox has no room left (every send is a call of
    /// the history; none of them waits)
    Fill(usize),
}

fn name_atom(n: u32) -> Atom {
    Atom::new(format!("n{}", n))
}

fn resolve_pid(tr: &Trace, s: &PidSel) -> ExternalPid {
    match s {
        PidSel::Pick(x) => {
            if tr.pids.is_empty() { ghost_pid(tr, (*x % 3) as u32) } else { tr.pids[(*x % tr.pids.len() as u64) as usize].clone() }
        }
        PidSel::Slot(i) => tr.pids.get(*i).cloned().unwrap_or_else(|| ghost_pid(tr, 7)),
        PidSel::Ghost(k) => ghost_pid(tr, *k),
    }
}

fn resolve_ref(tr: &Trace, s: &RefSel) -> (ExternalReference, String) {
    match s {
        RefSel::Pick(x) => {
            if tr.refs.is_empty() {
                (ghost_ref(tr, 0), "100".to_string())
            } else {
                let i = (*x % tr.refs.len() as u64) as usize;
                (tr.refs[i].clone(), i.to_string())
            }
        }
        RefSel::Idx(i) => match tr.refs.get(*i) {
            Some(r) => (r.clone(), i.to_string()),
            None => (ghost_ref(tr, 1), "101".to_string()),
        },
        RefSel::Ghost(k) => (ghost_ref(tr, *k), (100 + k).to_string()),
    }
}

fn err_text(e: &Error) -> String {
    match e {
        Error::ProcessNotFound(_) => "noproc".into(),
        Error::MailboxClosed => "closed".into(),
        Error::NameAlreadyRegistered(_) => "taken".into(),
        Error::NameNotRegistered(_) => "noname".into(),
        other => format!("err:{:?}", other).replace(' ', "_"),
    }
}

fn unit_text(r: edp_node::Result<()>) -> String {
    match r {
        Ok(()) => "ok".into(),
        Err(e) => err_text(&e),
    }
}

/// one call of the real `Node`, from start to end; returns (op text, result text)
async fn do_op(node: &Node, sh: &Shared, op: &OpSpec) -> (String, String) {
    match op {
        OpSpec::Spawn { trap, pre_yield } => {
            let slot = {
                let mut tr = sh.lock().unwrap();
                let s = tr.reserved;
                tr.reserved += 1;
                s
            };
            let inst = Inst { slot, trap: *trap, pre_yield: *pre_yield, sh: sh.clone() };
            let r = node.spawn(inst).await;
            let res = match r {
                Ok(pid) => {
                    let mut tr = sh.lock().unwrap();
                    tr.pids.push(pid);
                    format!("pid={}", tr.pids.len() - 1)
                }
                Err(e) => err_text(&e),
            };
            (format!("sp.{}", *trap as u8), res)
        }
        OpSpec::Register(n, p) => {
            let (pid, s) = {
                let tr = sh.lock().unwrap();
                let pid = resolve_pid(&tr, p);
                let s = slot_of(&tr, &pid);
                (pid, s)
            };
            (format!("rg.{}.{}", n, s), unit_text(node.register(name_atom(*n), pid).await))
        }
        OpSpec::Unregister(n) => (format!("ur.{}", n), unit_text(node.unregister(&name_atom(*n)).await)),
        OpSpec::Whereis(n) => {
            let r = node.whereis(&name_atom(*n)).await;
            let tr = sh.lock().unwrap();
            (format!("wh.{}", n), match r { Some(p) => format!("found={}", slot_of(&tr, &p)), None => "found=-".into() })
        }
        OpSpec::Registered => {
            let mut names: Vec<u64> = node
                .registered()
                .await
                .iter()
                .map(|a| a.as_str().trim_start_matches('n').parse::<u64>().unwrap_or(999_999))
                .collect();
            names.sort();
            ("rd".into(), format!("names={}", names.iter().map(|x| x.to_string()).collect::<Vec<_>>().join(".")))
        }
        OpSpec::Count => ("ct".into(), format!("count={}", node.process_count().await)),
        OpSpec::Send(p, fail) => {
            let (pid, s, id) = {
                let mut tr = sh.lock().unwrap();
                let pid = resolve_pid(&tr, p);
                let s = slot_of(&tr, &pid);
                tr.next_msg += 1;
                (pid, s, tr.next_msg)
            };
            let body = OwnedTerm::Tuple(vec![OwnedTerm::Integer(id as i64), OwnedTerm::Atom(Atom::new(if *fail { "crash" } else { "ok" }))]);
            (format!("sd.{}.{}.{}", s, id, *fail as u8), unit_text(node.send(&pid, body).await))
        }
        OpSpec::SendName(n, fail) => {
            let id = {
                let mut tr = sh.lock().unwrap();
                tr.next_msg += 1;
                tr.next_msg
            };
            let body = OwnedTerm::Tuple(vec![OwnedTerm::Integer(id as i64), OwnedTerm::Atom(Atom::new(if *fail { "crash" } else { "ok" }))]);
            (format!("sn.{}.{}.{}", n, id, *fail as u8), unit_text(node.send_to_name(&name_atom(*n), body).await))
        }
        OpSpec::Link(a, b) | OpSpec::Unlink(a, b) => {
            let (pa, pb, sa, sb) = {
                let tr = sh.lock().unwrap();
                let pa = resolve_pid(&tr, a);
                let pb = resolve_pid(&tr, b);
                let (sa, sb) = (slot_of(&tr, &pa), slot_of(&tr, &pb));
                (pa, pb, sa, sb)
            };
            if matches!(op, OpSpec::Link(..)) {
                (format!("lk.{}.{}", sa, sb), unit_text(node.link(&pa, &pb).await))
            } else {
                (format!("ul.{}.{}", sa, sb), unit_text(node.unlink(&pa, &pb).await))
            }
        }
        OpSpec::Monitor(a, b) => {
            let (pa, pb, sa, sb) = {
                let tr = sh.lock().unwrap();
                let pa = resolve_pid(&tr, a);
                let pb = resolve_pid(&tr, b);
                let (sa, sb) = (slot_of(&tr, &pa), slot_of(&tr, &pb));
                (pa, pb, sa, sb)
            };
            let r = node.monitor(&pa, &pb).await;
            let res = match r {
                Ok(reference) => {
                    let mut tr = sh.lock().unwrap();
                    tr.refs.push(reference);
                    format!("ref={}", tr.refs.len() - 1)
                }
                Err(e) => err_text(&e),
            };
            (format!("mo.{}.{}", sa, sb), res)
        }
        OpSpec::Demonitor(a, b, r) => {
            let (pa, pb, sa, sb, rf, rs) = {
                let tr = sh.lock().unwrap();
                let pa = resolve_pid(&tr, a);
                let pb = resolve_pid(&tr, b);
                let (sa, sb) = (slot_of(&tr, &pa), slot_of(&tr, &pb));
                let (rf, rs) = resolve_ref(&tr, r);
                (pa, pb, sa, sb, rf, rs)
            };
            (format!("dm.{}.{}.{}", sa, sb, rs), unit_text(node.demonitor(&pa, &pb, &rf).await))
        }
    }
}

fn point_logged(tr: &Trace, slot: usize, k: u32) -> bool {
    tr.log.iter().any(|e| match e {
        Entry::X { p, k: kk } => *p == slot && *kk == k,
        Entry::D { p } => *p == slot && k == 4,
        _ => false,
    })
}

async fn run_client(node: Arc<Node>, sh: Shared, t: usize, steps: Vec<Step>) {
    for st in steps {
        match st {
            Step::Yield(n) => {
                for _ in 0..n {
                    tokio::task::yield_now().await;
                }
            }
            Step::WaitPoint(slot, k) => {
                for _ in 0..2000 {
                    if point_logged(&sh.lock().unwrap(), slot, k) {
                        break;
                    }
                    tokio::task::yield_now().await;
                }
            }
            Step::WaitHandled(slot, n) => {
                for _ in 0..2000 {
                    let c = sh.lock().unwrap().log.iter().filter(|e| matches!(e, Entry::H { p, .. } if *p == slot)).count();
                    if c >= n {
                        break;
                    }
                    tokio::task::yield_now().await;
                }
            }
            Step::Op(op) => {
                let (optext, res) = do_op(&node, &sh, &op).await;
                sh.lock().unwrap().log.push(Entry::Call { t, op: optext, res });
            }
            Step::WaitFull(slot) => {
                for _ in 0..200_000 {
                    let pid = sh.lock().unwrap().pids.get(slot).cloned();
                    if let Some(pid) = pid
                        && sh.lock().unwrap().at_gate.contains(&slot)
                        && let Some(h) = node.registry().get(&pid).await
                        && h.mailbox_sender.capacity() == 0
                    {
                        break;
                    }
                    tokio::task::yield_now().await;
                }
            }
            Step::WaitEnded(slot) => {
                for _ in 0..5_000_000 {
                    if point_logged(&sh.lock().unwrap(), slot, 4) {
                        break;
                    }
                    tokio::task::yield_now().await;
                }
            }
            Step::CloseGate(slot) => sh.lock().unwrap().gated.push(slot),
            Step::Sleep(ms) => tokio::time::sleep(std::time::Duration::from_millis(ms)).await,
            Step::OpenGate(slot) => sh.lock().unwrap().gated.retain(|x| *x != slot),
            Step::Fill(slot) => {
                let pid = sh.lock().unwrap().pids.get(slot).cloned();
                let Some(pid) = pid else { continue };
                let Some(handle) = node.registry().get(&pid).await else { continue };
                // the first message is taken by the process task, which then waits at the gate
                let (optext, res) = do_op(&node, &sh, &OpSpec::Send(PidSel::Slot(slot), false)).await;
                sh.lock().unwrap().log.push(Entry::Call { t, op: optext, res });
                for _ in 0..2000 {
                    if sh.lock().unwrap().at_gate.contains(&slot) {
                        break;
                    }
                    tokio::task::yield_now().await;
                }
                let mut n = 0;
                while handle.mailbox_sender.capacity() > 0 && n < 100_000 {
                    let (optext, res) = do_op(&node, &sh, &OpSpec::Send(PidSel::Slot(slot), false)).await;
                    sh.lock().unwrap().log.push(Entry::Call { t, op: optext, res });
                    n += 1;
                }
            }
        }
    }
}

async fn quiesce(sh: &Shared) {
    let mut last = usize::MAX;
    let mut same = 0;
    for _ in 0..100_000 {
        tokio::task::yield_now().await;
        let n = sh.lock().unwrap().log.len();
        if n == last {
            same += 1;
            if same >= 80 {
                return;
            }
        } else {
            same = 0;
            last = n;
        }
    }
}

struct Scenario {
    clients: Vec<Vec<Step>>,
    hook_max: [u32; 3],
    hook_fixed: Option<[u32; 3]>,
    hook_seed: u64,
    names: u32,
}

static NODE_SEQ: std::sync::atomic::AtomicU32 = std::sync::atomic::AtomicU32::new(0);

/// runs one scenario against a fresh `Node`; returns the history (final probes included)
async fn run_scenario(sc: &Scenario) -> Option<(Vec<Entry>, u32)> {
    let k = NODE_SEQ.fetch_add(1, std::sync::atomic::Ordering::SeqCst);
    let mut node = Node::new(format!("c18n{}@localhost", k), "cookie");
    if node.start(0).await.is_err() {
        return None;
    }
    let sh: Shared = Arc::new(Mutex::new(Trace {
        log: vec![],
        pids: vec![],
        reserved: 0,
        refs: vec![],
        tasks: HashMap::new(),
        next_msg: 0,
        hook_rng: Rng::new(sc.hook_seed),
        hook_max: sc.hook_max,
        hook_fixed: sc.hook_fixed,
        node_name: node.name().clone(),
        creation: node.creation(),
        unknown_task_hooks: 0,
        gated: vec![],
        at_gate: vec![],
    }));
    *CURRENT.lock().unwrap() = Some(sh.clone());
    let node = Arc::new(node);
    let mut joins = vec![];
    for (t, steps) in sc.clients.iter().enumerate() {
        joins.push(tokio::spawn(tokio::task::unconstrained(run_client(node.clone(), sh.clone(), t, steps.clone()))));
    }
    for j in joins {
        let _ = j.await;
    }
    quiesce(&sh).await;
    // final probes: every name, the name list, the count, one more message to every process
    let mut probes = vec![];
    for n in 0..sc.names {
        probes.push(Step::Op(OpSpec::Whereis(n)));
    }
    probes.push(Step::Op(OpSpec::Registered));
    probes.push(Step::Op(OpSpec::Count));
    let nslots = sh.lock().unwrap().pids.len();
    for s in 0..nslots {
        probes.push(Step::Op(OpSpec::Send(PidSel::Slot(s), false)));
    }
    for n in 0..sc.names {
        probes.push(Step::Op(OpSpec::SendName(n, false)));
    }
    run_client(node.clone(), sh.clone(), 9, probes).await;
    quiesce(&sh).await;
    *CURRENT.lock().unwrap() = None;
    let tr = sh.lock().unwrap();
    Some((tr.log.clone(), tr.unknown_task_hooks))
}

// ------------------------------------------------------------------------------------------------ rendering

fn token(e: &Entry) -> Option<String> {
    match e {
        Entry::Call { t, op, .. } => Some(format!("c{}:{}", t, op)),
        Entry::H { p, .. } => Some(format!("h{}", p)),
        Entry::X { p, k } => Some(format!("x{}.{}", p, k)),
        Entry::D { p } => Some(format!("d{}", p)),
        Entry::Tm { .. } => None,
    }
}

fn parse_mon(s: &str) -> Option<(String, u64)> {
    let rest = s.strip_prefix('m')?;
    let (q, r) = rest.split_once('.')?;
    Some((q.to_string(), r.parse().ok()?))
}

/// per receiver: adjacent MonitorExit notices about one process are sorted by reference (HashSet iteration order)
fn canonical_handled(log: &[Entry]) -> Vec<Entry> {
    let mut per: HashMap<usize, Vec<String>> = HashMap::new();
    for e in log {
        if let Entry::H { p, msg } = e {
            per.entry(*p).or_default().push(msg.clone());
        }
    }
    for v in per.values_mut() {
        let mut i = 0;
        while i < v.len() {
            if let Some((q, _)) = parse_mon(&v[i]) {
                let mut j = i;
                while j < v.len() && parse_mon(&v[j]).map(|x| x.0 == q).unwrap_or(false) {
                    j += 1;
                }
                let mut refs: Vec<u64> = v[i..j].iter().map(|s| parse_mon(s).unwrap().1).collect();
                refs.sort();
                for (o, r) in refs.iter().enumerate() {
                    v[i + o] = format!("m{}.{}", q, r);
                }
                i = j;
            } else {
                i += 1;
            }
        }
    }
    let mut pos: HashMap<usize, usize> = HashMap::new();
    log.iter()
        .map(|e| match e {
            Entry::H { p, .. } => {
                let k = pos.entry(*p).or_insert(0);
                let m = per[p][*k].clone();
                *k += 1;
                Entry::H { p: *p, msg: m }
            }
            other => other.clone(),
        })
        .collect()
}

fn result_item(e: &Entry) -> Option<String> {
    match e {
        Entry::Call { res, .. } => Some(res.clone()),
        Entry::H { msg, .. } => Some(msg.clone()),
        Entry::X { .. } | Entry::D { .. } => Some(".".into()),
        Entry::Tm { .. } => None,
    }
}

fn spec_token(e: &Entry) -> Option<String> {
    match e {
        Entry::Call { t, op, res } => Some(format!("c{}:{}={}", t, op, res)),
        Entry::H { p, msg } => Some(format!("h{}={}", p, msg)),
        Entry::X { p, k } => Some(format!("x{}.{}", p, k)),
        Entry::D { p } => Some(format!("d{}", p)),
        Entry::Tm { .. } => None,
    }
}

/// the order of the termination points of every process, checked on the spot
fn check_points(ctx: &mut Ctx, log: &[Entry], what: &str) {
    let mut slots: Vec<usize> = log.iter().filter_map(|e| if let Entry::Tm { p } = e { Some(*p) } else { None }).collect();
    slots.sort();
    let had_dups = slots.windows(2).any(|w| w[0] == w[1]);
    slots.dedup();
    if had_dups {
        ctx.fail("c18-terminate-twice", what);
    }
    for e in log {
        if let Entry::X { p, .. } | Entry::D { p } = e {
            let failed = log.iter().any(|x| matches!(x, Entry::Tm { p: q } if q == p));
            if !failed {
                ctx.fail("c18-exit-path-without-terminate", &format!("{} process {}", what, p));
                return;
            }
        }
    }
    for p in slots {
        let idx = |f: &dyn Fn(&Entry) -> bool| log.iter().position(|e| f(e));
        let tm = idx(&|e| matches!(e, Entry::Tm { p: q } if *q == p));
        let x1 = idx(&|e| matches!(e, Entry::X { p: q, k: 1 } if *q == p));
        let x2 = idx(&|e| matches!(e, Entry::X { p: q, k: 2 } if *q == p));
        let x3 = idx(&|e| matches!(e, Entry::X { p: q, k: 3 } if *q == p));
        let d = idx(&|e| matches!(e, Entry::D { p: q } if *q == p));
        let ok = matches!((tm, x1, x2, x3, d), (Some(a), Some(b), Some(c), Some(dd), Some(e)) if a < b && b < c && c < dd && dd < e);
        if !ok {
            ctx.fail("c18-termination-steps-out-of-order", &format!("{} process {} points {:?}", what, p, (tm, x1, x2, x3, d)));
        }
    }
}

fn emit(ctx: &mut Ctx, log: &[Entry], what: &str) {
    let log = canonical_handled(log);
    let toks: Vec<String> = log.iter().filter_map(token).collect();
    let res: Vec<String> = log.iter().filter_map(result_item).collect();
    ctx.tie("run", &format!("c18run src {}", toks.join(" ")), &res.join(";"));
    let st: Vec<String> = log.iter().filter_map(spec_token).collect();
    ctx.prop("gen", &format!("c18spec {}", st.join(" ")), "ok");
    check_points(ctx, &log, what);
    ctx.count("traces_validated");
    ctx.add("history_entries", toks.len() as u64);
    for e in &log {
        match e {
            Entry::Call { op, res, .. } => {
                ctx.count(&format!("op_{}", &op[..2]));
                if res.starts_with("no") || res == "taken" || res == "closed" {
                    ctx.count(&format!("res_{}", res));
                }
            }
            Entry::H { msg, .. } => ctx.count(&format!("handled_{}", &msg[..1])),
            Entry::D { .. } => ctx.count("processes_terminated"),
            _ => {}
        }
    }
    // how often a client call fell inside a termination window
    let mut open: Vec<usize> = vec![];
    for e in &log {
        match e {
            Entry::X { p, k: 1 } => open.push(*p),
            Entry::D { p } => open.retain(|q| q != p),
            Entry::Call { .. } if !open.is_empty() => ctx.count("calls_during_a_termination"),
            _ => {}
        }
    }
}

// ------------------------------------------------------------------------------------------------ generators

fn gen_pid(rng: &mut Rng) -> PidSel {
    if rng.chance(1, 12) { PidSel::Ghost(rng.below(3) as u32) } else { PidSel::Pick(rng.next()) }
}

fn gen_op(rng: &mut Rng, names: u32) -> OpSpec {
    let n = rng.below(names as u64) as u32;
    match rng.below(100) {
        0..=21 => OpSpec::Send(gen_pid(rng), false),
        22..=29 => OpSpec::Send(gen_pid(rng), true),
        30..=38 => OpSpec::SendName(n, rng.chance(1, 5)),
        39..=50 => OpSpec::Register(n, gen_pid(rng)),
        51..=56 => OpSpec::Unregister(n),
        57..=62 => OpSpec::Whereis(n),
        63..=72 => OpSpec::Link(gen_pid(rng), gen_pid(rng)),
        73..=76 => OpSpec::Unlink(gen_pid(rng), gen_pid(rng)),
        77..=85 => OpSpec::Monitor(gen_pid(rng), gen_pid(rng)),
        86..=89 => OpSpec::Demonitor(gen_pid(rng), gen_pid(rng), if rng.chance(1, 8) { RefSel::Ghost(rng.below(2) as u32) } else { RefSel::Pick(rng.next()) }),
        90..=94 => OpSpec::Spawn { trap: rng.chance(2, 3), pre_yield: 1 + rng.below(3) as u32 },
        95..=96 => OpSpec::Registered,
        _ => OpSpec::Count,
    }
}

fn gen_scenario(rng: &mut Rng, max_ops: usize) -> Scenario {
    let names = 1 + rng.below(3) as u32;
    let nclients = 1 + rng.below(3) as usize;
    let nprocs = 2 + rng.below(3) as usize;
    let total = 4 + rng.below(max_ops as u64 - 3) as usize;
    let mut clients: Vec<Vec<Step>> = vec![vec![]; nclients];
    // sometimes calls are made before anything exists
    if rng.chance(1, 4) {
        clients[0].push(Step::Op(gen_op(rng, names)));
    }
    for _ in 0..nprocs {
        clients[0].push(Step::Op(OpSpec::Spawn { trap: rng.chance(2, 3), pre_yield: 1 + rng.below(3) as u32 }));
    }
    for c in clients.iter_mut().skip(1) {
        c.push(Step::Yield(1 + rng.below(2) as u32));
    }
    let heavy_links = rng.chance(1, 3);
    for _ in 0..total {
        let c = rng.below(nclients as u64) as usize;
        let op = if heavy_links && rng.chance(1, 3) {
            if rng.chance(1, 2) { OpSpec::Link(gen_pid(rng), gen_pid(rng)) } else { OpSpec::Monitor(gen_pid(rng), gen_pid(rng)) }
        } else {
            gen_op(rng, names)
        };
        clients[c].push(Step::Op(op));
        let y = match rng.below(4) { 0 => 0, 1 => 1, 2 => 2, _ => rng.below(6) as u32 };
        if y > 0 {
            clients[c].push(Step::Yield(y));
        }
    }
    let style = rng.below(4);
    let hook_max = match style { 0 => [0, 0, 0], 1 => [2, 2, 2], 2 => [6, 6, 6], _ => [rng.below(8) as u32, rng.below(8) as u32, rng.below(8) as u32] };
    Scenario { clients, hook_max, hook_fixed: None, hook_seed: rng.next(), names }
}

fn sp(trap: bool) -> Step {
    Step::Op(OpSpec::Spawn { trap, pre_yield: 1 })
}
fn s(i: usize) -> PidSel {
    PidSel::Slot(i)
}

/// directed scenarios; each forces one interleaving through the hook points
fn directed() -> Vec<(&'static str, Scenario)> {
    let fixed = |clients: Vec<Vec<Step>>, hooks: [u32; 3]| Scenario { clients, hook_max: [0, 0, 0], hook_fixed: Some(hooks), hook_seed: 1, names: 3 };
    vec![
        // a name registered for a process that is past its loop but still in the registry is released with it
        ("register-during-termination", fixed(vec![vec![
            sp(true), sp(true),
            Step::Op(OpSpec::Register(0, s(1))),
            Step::Op(OpSpec::Send(s(1), true)),
            Step::WaitPoint(1, 3),
            Step::Op(OpSpec::Register(1, s(1))),
            Step::Op(OpSpec::Whereis(1)),
            Step::WaitPoint(1, 4),
            Step::Op(OpSpec::Whereis(0)), Step::Op(OpSpec::Whereis(1)),
            Step::Op(OpSpec::Register(0, s(0))), Step::Op(OpSpec::Register(1, s(0))),
        ]], [0, 0, 30])),
        // a name cannot be registered for a process that is gone or never existed
        ("register-dead-pid", fixed(vec![vec![
            sp(true), sp(true),
            Step::Op(OpSpec::Register(2, PidSel::Ghost(1))),
            Step::Op(OpSpec::Send(s(1), true)),
            Step::WaitPoint(1, 4),
            Step::Op(OpSpec::Register(0, s(1))),
            Step::Op(OpSpec::Whereis(0)), Step::Op(OpSpec::Whereis(2)),
            Step::Op(OpSpec::Register(0, s(0))),
            Step::Op(OpSpec::Send(s(1), false)), Step::Op(OpSpec::SendName(0, false)),
        ]], [0, 0, 0])),
        // messages accepted between the end of the loop and the removal are never handled
        ("send-during-termination", fixed(vec![vec![
            sp(true), sp(true),
            Step::Op(OpSpec::Register(0, s(1))),
            Step::Op(OpSpec::Send(s(1), false)), Step::Op(OpSpec::Send(s(1), true)), Step::Op(OpSpec::Send(s(1), false)),
            Step::WaitPoint(1, 1),
            Step::Op(OpSpec::Send(s(1), false)), Step::Op(OpSpec::SendName(0, false)),
            Step::WaitPoint(1, 2),
            Step::Op(OpSpec::Send(s(1), false)),
            Step::WaitPoint(1, 3),
            Step::Op(OpSpec::SendName(0, false)),
            Step::WaitPoint(1, 4),
            Step::Op(OpSpec::Send(s(1), false)), Step::Op(OpSpec::SendName(0, false)),
        ]], [20, 20, 20])),
        // exit signals cascade through non-trapping processes; monitors of each are told
        ("cascade", fixed(vec![vec![
            sp(true), sp(false), sp(false), sp(true),
            Step::Op(OpSpec::Link(s(1), s(2))), Step::Op(OpSpec::Link(s(2), s(3))), Step::Op(OpSpec::Link(s(0), s(1))),
            Step::Op(OpSpec::Monitor(s(0), s(1))), Step::Op(OpSpec::Monitor(s(0), s(2))), Step::Op(OpSpec::Monitor(s(3), s(2))),
            Step::Op(OpSpec::Monitor(s(0), s(2))),
            Step::Op(OpSpec::Register(0, s(2))),
            Step::Op(OpSpec::Send(s(1), true)),
            Step::WaitPoint(2, 4),
            Step::Op(OpSpec::Register(0, s(3))),
        ]], [1, 2, 1])),
        // unlink / demonitor before the snapshot: no notice; link from both sides: one notice
        ("unlink-demonitor", fixed(vec![vec![
            sp(true), sp(true), sp(true),
            Step::Op(OpSpec::Link(s(0), s(1))), Step::Op(OpSpec::Link(s(1), s(0))), Step::Op(OpSpec::Link(s(2), s(1))),
            Step::Op(OpSpec::Unlink(s(1), s(2))),
            Step::Op(OpSpec::Monitor(s(0), s(1))), Step::Op(OpSpec::Monitor(s(2), s(1))), Step::Op(OpSpec::Monitor(s(2), s(1))),
            Step::Op(OpSpec::Demonitor(s(2), s(1), RefSel::Idx(1))),
            Step::Op(OpSpec::Link(s(1), s(1))),
            Step::Op(OpSpec::Send(s(1), true)),
        ]], [0, 3, 0])),
        // two clients race for one name while its owner dies
        ("name-race", Scenario { clients: vec![
            vec![sp(true), sp(true), sp(true), Step::Op(OpSpec::Register(0, s(0))), Step::Op(OpSpec::Send(s(0), true)),
                 Step::Yield(1), Step::Op(OpSpec::Register(0, s(1))), Step::Yield(2), Step::Op(OpSpec::Register(0, s(1))), Step::WaitPoint(0, 4), Step::Op(OpSpec::Register(0, s(1)))],
            vec![Step::Yield(2), Step::Op(OpSpec::Register(0, s(2))), Step::Yield(1), Step::Op(OpSpec::Register(0, s(2))), Step::Yield(3), Step::Op(OpSpec::Register(0, s(2))),
                 Step::Op(OpSpec::Whereis(0)), Step::WaitPoint(0, 4), Step::Op(OpSpec::Register(0, s(2))), Step::Op(OpSpec::Whereis(0))],
        ], hook_max: [0, 0, 0], hook_fixed: Some([2, 2, 2]), hook_seed: 1, names: 1 }),
        // a link that reaches the closed set from the terminating process's side; repeated, and unlink + link again: one notice
        ("late-link-from-side-and-repeated", fixed(vec![vec![
            sp(true), sp(true), sp(true),
            Step::Op(OpSpec::Link(s(2), s(1))),
            Step::Op(OpSpec::Send(s(1), true)),
            Step::WaitPoint(1, 2),
            Step::Op(OpSpec::Link(s(1), s(0))),
            Step::Op(OpSpec::Link(s(0), s(1))),
            Step::Op(OpSpec::Unlink(s(0), s(1))),
            Step::Op(OpSpec::Link(s(0), s(1))),
            Step::Op(OpSpec::Link(s(2), s(1))),
            Step::Op(OpSpec::Unlink(s(2), s(1))),
            Step::Op(OpSpec::Link(s(1), s(1))),
            Step::Op(OpSpec::Link(PidSel::Ghost(0), s(1))),
        ]], [0, 30, 0])),
        // late links and monitors in the last window (both sets closed), two monitors = two references = two notices;
        // a demonitor that comes too late changes nothing; a non-trapping late linker dies of the noproc signal
        ("late-in-last-window", fixed(vec![vec![
            sp(true), sp(true), sp(false), sp(true),
            Step::Op(OpSpec::Monitor(s(3), s(1))),
            Step::Op(OpSpec::Monitor(s(0), s(2))),
            Step::Op(OpSpec::Send(s(1), true)),
            Step::WaitPoint(1, 3),
            Step::Op(OpSpec::Monitor(s(0), s(1))),
            Step::Op(OpSpec::Monitor(s(0), s(1))),
            Step::Op(OpSpec::Demonitor(s(3), s(1), RefSel::Idx(0))),
            Step::Op(OpSpec::Demonitor(s(0), s(1), RefSel::Idx(2))),
            Step::Op(OpSpec::Link(s(2), s(1))),
            Step::Op(OpSpec::Monitor(PidSel::Ghost(1), s(1))),
            Step::Op(OpSpec::Monitor(s(1), s(1))),
        ]], [0, 0, 40])),
        // monitor between the two closes: the link set is closed, the monitor set is still open (ordinary notice)
        ("monitor-between-closes", fixed(vec![vec![
            sp(true), sp(true),
            Step::Op(OpSpec::Send(s(1), true)),
            Step::WaitPoint(1, 2),
            Step::Op(OpSpec::Monitor(s(0), s(1))),
            Step::Op(OpSpec::Link(s(0), s(1))),
            Step::WaitPoint(1, 3),
            Step::Op(OpSpec::Monitor(s(0), s(1))),
        ]], [0, 25, 25])),
    ]
}

/// full mailboxes: process 0 is held at its gate with its mailbox filled to capacity; then a linked process and a monitored
/// process fail (their exit signals to 0 wait for room), a plain message and a message by name are sent to 0 from two other
/// tasks (they wait too), the gate opens. Every notice and every message must be handled exactly once, in the order the
/// sends were issued, after everything that was accepted before.
fn full_mailbox() -> Vec<(&'static str, Scenario)> {
    let mk = |clients: Vec<Vec<Step>>| Scenario { clients, hook_max: [0, 0, 0], hook_fixed: Some([0, 0, 0]), hook_seed: 1, names: 1 };
    vec![
        ("full-exit-and-monitor-notices", mk(vec![vec![
            Step::CloseGate(0),
            sp(true), sp(true), sp(true),
            Step::Op(OpSpec::Link(s(0), s(1))),
            Step::Op(OpSpec::Monitor(s(0), s(2))),
            Step::Fill(0),
            Step::Op(OpSpec::Send(s(1), true)),
            Step::Yield(40),
            Step::Op(OpSpec::Send(s(2), true)),
            Step::Yield(40),
            Step::Sleep(25),
            Step::OpenGate(0),
        ]])),
        ("full-sends-by-pid-and-name", mk(vec![
            vec![
                Step::CloseGate(0),
                sp(true), sp(true),
                Step::Op(OpSpec::Register(0, s(0))),
                Step::Op(OpSpec::Monitor(s(0), s(1))),
                Step::Fill(0),
                Step::Yield(120),
                Step::Sleep(25),
                Step::OpenGate(0),
            ],
            vec![Step::WaitFull(0), Step::Op(OpSpec::Send(s(0), false)), Step::Op(OpSpec::Send(s(0), false))],
            vec![Step::WaitFull(0), Step::Yield(20), Step::Op(OpSpec::SendName(0, false))],
            vec![Step::WaitFull(0), Step::Yield(40), Step::Op(OpSpec::Send(s(1), true))],
        ])),
        // a link that reaches the closed set of a terminating process while the OTHER side's mailbox is full: the noproc
        // notice waits for room (signal_noproc_exit); the same for a late monitor
        ("full-late-link-and-monitor", Scenario { clients: vec![
            vec![
                Step::CloseGate(0),
                sp(true), sp(true),
                Step::Fill(0),
                Step::Op(OpSpec::Send(s(1), true)),
                Step::WaitPoint(1, 3),
                Step::Yield(150),
                // process 1 must still be at its last hook point when the two calls complete (a call is one block of
                // the history): a short real wait, and many more yields at the point than fit into it
                Step::Sleep(3),
                Step::OpenGate(0),
                Step::WaitEnded(1),
            ],
            vec![Step::WaitPoint(1, 3), Step::Op(OpSpec::Link(s(0), s(1)))],
            vec![Step::WaitPoint(1, 3), Step::Yield(20), Step::Op(OpSpec::Monitor(s(0), s(1)))],
        ], hook_max: [0, 0, 0], hook_fixed: Some([0, 0, 300_000]), hook_seed: 1, names: 1 }),
    ]
}

/// the former known findings (repaired): a link / monitor accepted after the process collected its links / monitors
fn late_link() -> Scenario {
    Scenario { clients: vec![vec![
        sp(true), sp(true),
        Step::Op(OpSpec::Send(s(1), true)),
        Step::WaitPoint(1, 2),
        Step::Op(OpSpec::Link(s(0), s(1))),
        Step::Op(OpSpec::Whereis(0)),
    ]], hook_max: [0, 0, 0], hook_fixed: Some([0, 30, 0]), hook_seed: 1, names: 1 }
}
fn late_monitor() -> Scenario {
    Scenario { clients: vec![vec![
        sp(true), sp(true),
        Step::Op(OpSpec::Send(s(1), true)),
        Step::WaitPoint(1, 3),
        Step::Op(OpSpec::Monitor(s(0), s(1))),
        Step::Op(OpSpec::Whereis(0)),
    ]], hook_max: [0, 0, 0], hook_fixed: Some([0, 0, 30]), hook_seed: 1, names: 1 }
}

// ------------------------------------------------------------------------------------------------ ProcessRegistry directly

async fn registry_direct(ctx: &mut Ctx) {
    let node = Atom::new("c18reg@localhost");
    let cases = ctx.n(400, 4000);
    for _ in 0..cases {
        let reg = ProcessRegistry::new();
        let npids = 1 + ctx.rng.below(4);
        let nnames = 1 + ctx.rng.below(3);
        let len = 1 + ctx.rng.below(24);
        let mut ops = vec![];
        let mut res = vec![];
        let mut boxes: Vec<Mailbox> = vec![];
        for _ in 0..len {
            let p = ctx.rng.below(npids);
            let n = ctx.rng.below(nnames);
            let pid = ExternalPid::new(node.clone(), 10 + p as u32, 0, 1);
            let name = Atom::new(format!("n{}", n));
            match ctx.rng.below(16) {
                0..=3 => {
                    let mb = Mailbox::with_capacity(4);
                    reg.insert(pid.clone(), ProcessHandle::new(pid.clone(), mb.sender())).await;
                    boxes.push(mb);
                    ops.push(format!("in.{}", p));
                    res.push("ok".to_string());
                }
                4..=5 => {
                    let r = reg.remove(&pid).await;
                    ops.push(format!("rm.{}", p));
                    res.push(match r { Some(h) if h.pid == pid => "some".into(), Some(_) => "some-other".into(), None => "none".into() });
                }
                6 => {
                    let r = reg.get(&pid).await;
                    ops.push(format!("gt.{}", p));
                    res.push(match r { Some(h) if h.pid == pid => "some".into(), Some(_) => "some-other".into(), None => "none".into() });
                }
                7..=10 => {
                    ops.push(format!("rg.{}.{}", n, p));
                    res.push(unit_text(reg.register(name, pid).await));
                }
                11 => {
                    ops.push(format!("ur.{}", n));
                    res.push(unit_text(reg.unregister(&name).await));
                }
                12..=13 => {
                    let r = reg.whereis(&name).await;
                    ops.push(format!("wh.{}", n));
                    res.push(match r { Some(q) if q.id >= 10 => format!("found={}", q.id - 10), Some(_) => "found=?".into(), None => "found=-".into() });
                }
                14 => {
                    let mut names: Vec<u64> = reg.registered().await.iter().map(|a| a.as_str()[1..].parse().unwrap_or(999)).collect();
                    names.sort();
                    ops.push("rd".into());
                    res.push(format!("names={}", names.iter().map(|x| x.to_string()).collect::<Vec<_>>().join(".")));
                }
                _ => {
                    ops.push("ct".into());
                    res.push(format!("count={}", reg.count().await));
                }
            }
        }
        ctx.tie("reg", &format!("c18reg {}", ops.join(" ")), &res.join(";"));
        ctx.count("registry_direct_cases");
    }
}

// ------------------------------------------------------------------------------------------------ behaviours

#[derive(Clone)]
enum GsMode {
    Reply(OwnedTerm),
    NoReply,
    Fail,
}

struct RecServer {
    mode: GsMode,
    seen: Arc<Mutex<Vec<String>>>,
}

impl GenServer for RecServer {
    async fn init(&mut self, _args: Vec<OwnedTerm>) -> edp_node::Result<()> {
        Ok(())
    }
    async fn handle_call(&mut self, msg: OwnedTerm, from: ExternalPid) -> edp_node::Result<CallResult> {
        self.seen.lock().unwrap().push(format!("call:{}:{}", pid_text(&from), term_text(&msg)));
        match &self.mode {
            GsMode::Reply(v) => Ok(CallResult::Reply(v.clone())),
            GsMode::NoReply => Ok(CallResult::NoReply),
            GsMode::Fail => Err(Error::InvalidMessage("x".into())),
        }
    }
    async fn handle_cast(&mut self, msg: OwnedTerm) -> edp_node::Result<()> {
        self.seen.lock().unwrap().push(format!("cast:{}", term_text(&msg)));
        Ok(())
    }
    async fn handle_info(&mut self, msg: OwnedTerm) -> edp_node::Result<()> {
        self.seen.lock().unwrap().push(format!("info:{}", term_text(&msg)));
        Ok(())
    }
}

fn atom(s: &str) -> OwnedTerm {
    OwnedTerm::Atom(Atom::new(s))
}

/// message bodies around the `$gen_*` shapes: the well-formed ones and their near misses
fn gen_body(rng: &mut Rng, tags: &[&str], pids: &[ExternalPid], node: &Atom) -> OwnedTerm {
    let for_event = tags.contains(&"$gen_notify");
    let small = |rng: &mut Rng| -> OwnedTerm {
        match rng.below(6) {
            0 => atom("get"),
            1 => OwnedTerm::Integer(rng.below(1000) as i64 - 500),
            2 => OwnedTerm::Tuple(vec![atom("add"), OwnedTerm::Integer(rng.below(9) as i64)]),
            3 => OwnedTerm::List(vec![]),
            4 => OwnedTerm::Binary(rng.bytes(2)),
            _ => atom("h1"),
        }
    };
    let hid = |rng: &mut Rng| -> OwnedTerm {
        match rng.below(8) {
            0..=2 => atom("h1"),
            3..=5 => atom("h2"),
            6 => atom("h3"),
            _ => OwnedTerm::Binary(b"h1".to_vec()),
        }
    };
    let reference = OwnedTerm::Reference(ExternalReference::new(node.clone(), 1, vec![rng.below(50) as u32, 2, 3]));
    let good_from = |rng: &mut Rng| OwnedTerm::Tuple(vec![OwnedTerm::Pid(rng.pick(pids).clone()), reference.clone()]);
    let bad_from = |rng: &mut Rng| -> OwnedTerm {
        match rng.below(6) {
            0 => OwnedTerm::Tuple(vec![OwnedTerm::Pid(rng.pick(pids).clone())]),
            1 => OwnedTerm::Tuple(vec![reference.clone(), OwnedTerm::Pid(rng.pick(pids).clone())]),
            2 => OwnedTerm::Tuple(vec![OwnedTerm::Pid(rng.pick(pids).clone()), atom("notref")]),
            3 => OwnedTerm::List(vec![OwnedTerm::Pid(rng.pick(pids).clone()), reference.clone()]),
            4 => OwnedTerm::Tuple(vec![OwnedTerm::Pid(rng.pick(pids).clone()), reference.clone(), atom("x")]),
            _ => atom("nobody"),
        }
    };
    let call = atom("$gen_call");
    match rng.below(100) {
        // well-formed calls of the behaviour under test
        0..=27 => {
            if for_event { OwnedTerm::Tuple(vec![call, good_from(rng), hid(rng), small(rng)]) } else { OwnedTerm::Tuple(vec![call, good_from(rng), small(rng)]) }
        }
        // calls with a malformed `from`
        28..=37 => {
            if for_event { OwnedTerm::Tuple(vec![call, bad_from(rng), hid(rng), small(rng)]) } else { OwnedTerm::Tuple(vec![call, bad_from(rng), small(rng)]) }
        }
        // calls of the wrong arity (the other behaviour's shape, too short, too long)
        38..=45 => match rng.below(4) {
            0 => OwnedTerm::Tuple(vec![call, good_from(rng)]),
            1 => OwnedTerm::Tuple(vec![call, good_from(rng), hid(rng), small(rng), small(rng)]),
            2 if for_event => OwnedTerm::Tuple(vec![call, good_from(rng), small(rng)]),
            2 => OwnedTerm::Tuple(vec![call, good_from(rng), hid(rng), small(rng)]),
            _ => OwnedTerm::Tuple(vec![call]),
        },
        // the one-argument shapes: cast / notify / sync_notify, well-formed and with an extra element
        46..=59 => OwnedTerm::Tuple(vec![atom(*rng.pick(tags)), small(rng)]),
        60..=64 => OwnedTerm::Tuple(vec![atom(*rng.pick(tags)), small(rng), small(rng)]),
        // which_handlers
        65..=70 => OwnedTerm::Tuple(vec![atom("$gen_which_handlers"), good_from(rng)]),
        71..=73 => OwnedTerm::Tuple(vec![atom("$gen_which_handlers"), bad_from(rng)]),
        // the tag is not the first element / not an atom / unknown
        74..=78 => OwnedTerm::Tuple(vec![atom("other"), good_from(rng), small(rng)]),
        79..=81 => OwnedTerm::Tuple(vec![OwnedTerm::Binary(b"$gen_call".to_vec()), good_from(rng), small(rng)]),
        82..=84 => OwnedTerm::List(vec![atom(*rng.pick(tags)), good_from(rng), small(rng)]),
        85..=87 => OwnedTerm::Tuple(vec![good_from(rng), atom(*rng.pick(tags)), small(rng)]),
        // plain messages
        _ => small(rng),
    }
}

fn drain(mb: &mut Mailbox) -> Vec<String> {
    let mut out = vec![];
    while let Ok(m) = mb.try_recv() {
        out.push(match m {
            Message::Regular { from: None, body } => term_text(&body),
            other => format!("?{:?}", other).replace(' ', ""),
        });
    }
    out
}

async fn gen_server_direct(ctx: &mut Ctx) {
    let node = Atom::new("c18gs@localhost");
    let live = ExternalPid::new(node.clone(), 1, 0, 1);
    let absent = ExternalPid::new(node.clone(), 2, 0, 1);
    let remote = ExternalPid::new(Atom::new("other@host"), 1, 0, 1);
    let pids = vec![live.clone(), live.clone(), absent, remote];
    let cases = ctx.n(800, 8000);
    for _ in 0..cases {
        let registry = Arc::new(ProcessRegistry::new());
        let mut caller_box = Mailbox::with_capacity(16);
        registry.insert(live.clone(), ProcessHandle::new(live.clone(), caller_box.sender())).await;
        let mode = match ctx.rng.below(5) {
            0 => GsMode::NoReply,
            1 => GsMode::Fail,
            _ => GsMode::Reply(OwnedTerm::Integer(ctx.rng.below(100) as i64)),
        };
        let seen = Arc::new(Mutex::new(vec![]));
        let mut proc_ = GenServerProcess::new(RecServer { mode: mode.clone(), seen: seen.clone() }, registry.clone());
        let body = gen_body(&mut ctx.rng, &["$gen_call", "$gen_call", "$gen_cast"], &pids, &node);
        let r = proc_.handle_message(Message::Regular { from: None, body: body.clone() }).await;
        let seen = seen.lock().unwrap().clone();
        let replies = drain(&mut caller_box);
        let mode_text = match &mode { GsMode::Reply(v) => format!("r:{}", term_text(v)), GsMode::NoReply => "n".into(), GsMode::Fail => "e".into() };
        // the callback's view of the call has no reference; put the model's text together from both observations
        let act = if seen.len() == 1 { seen[0].clone() } else { format!("callbacks={}", seen.len()) };
        ctx.count(&format!("gs_{}", act.split(':').next().unwrap_or("?")));
        let act_full = if act.starts_with("call:") {
            // call:<from>:<req>  ->  call:<from>:<ref>:<req> with the reference taken from the message
            let parts: Vec<&str> = act.splitn(3, ':').collect();
            let reference = match &body { OwnedTerm::Tuple(v) => match &v[1] { OwnedTerm::Tuple(f) => term_text(&f[1]), _ => "?".into() }, _ => "?".into() };
            format!("call:{}:{}:{}", parts[1], reference, parts[2])
        } else {
            act.clone()
        };
        ctx.tie("gs", &format!("c18gs {} {} {}", term_text(&body), mode_text, term_text(&OwnedTerm::Pid(live.clone()))),
            &format!("{};{}", act_full, if replies.is_empty() { "-".to_string() } else { replies.join(",") }));
        // Spec oracle: a well-formed call the server replies to is answered exactly once, `{Ref, Reply}`, to a live caller
        ctx.prop("gen", &format!("c18gsspec {} {} {} {}", term_text(&body), mode_text, term_text(&OwnedTerm::Pid(live.clone())),
            if replies.is_empty() { "-".to_string() } else { replies.join(";") }), "ok");
        if replies.len() > 1 {
            ctx.fail("c18-call-answered-twice", &format!("body={} replies={:?}", term_text(&body), replies));
        }
        let is_fail_on_call = act.starts_with("call:") && matches!(mode, GsMode::Fail);
        if r.is_err() != is_fail_on_call {
            ctx.fail("c18-gs-handler-result", &format!("body={} result_err={}", term_text(&body), r.is_err()));
        }
    }
}

struct RecHandler {
    id: &'static str,
    kind: u8, // 0: reply echo, 1: remove with reply, 2: fail
    seen: Arc<Mutex<Vec<String>>>,
}

impl GenEventHandler for RecHandler {
    fn init<'a>(&'a mut self, _args: OwnedTerm) -> Pin<Box<dyn Future<Output = edp_node::Result<()>> + Send + 'a>> {
        Box::pin(async move { Ok(()) })
    }
    fn handle_event<'a>(&'a mut self, event: OwnedTerm) -> Pin<Box<dyn Future<Output = edp_node::Result<EventResult>> + Send + 'a>> {
        self.seen.lock().unwrap().push(format!("event:{}:{}", term_text(&atom(self.id)), term_text(&event)));
        Box::pin(async move { Ok(EventResult::Ok) })
    }
    fn handle_call<'a>(&'a mut self, request: OwnedTerm) -> Pin<Box<dyn Future<Output = edp_node::Result<GeCallResult>> + Send + 'a>> {
        self.seen.lock().unwrap().push(format!("call:{}:{}", term_text(&atom(self.id)), term_text(&request)));
        let kind = self.kind;
        Box::pin(async move {
            match kind {
                0 => Ok(GeCallResult::Reply(OwnedTerm::Tuple(vec![atom("echo"), request]))),
                1 => Ok(GeCallResult::Remove(OwnedTerm::Tuple(vec![atom("bye"), request]))),
                _ => Err(Error::InvalidMessage("x".into())),
            }
        })
    }
    fn handle_info<'a>(&'a mut self, msg: OwnedTerm) -> Pin<Box<dyn Future<Output = edp_node::Result<EventResult>> + Send + 'a>> {
        self.seen.lock().unwrap().push(format!("info:{}:{}", term_text(&atom(self.id)), term_text(&msg)));
        Box::pin(async move { Ok(EventResult::Ok) })
    }
    fn id(&self) -> OwnedTerm {
        atom(self.id)
    }
}

async fn gen_event_direct(ctx: &mut Ctx) {
    let node = Atom::new("c18ge@localhost");
    let live = ExternalPid::new(node.clone(), 1, 0, 1);
    let absent = ExternalPid::new(node.clone(), 2, 0, 1);
    let pids = vec![live.clone(), live.clone(), live.clone(), absent.clone()];
    let cases = ctx.n(800, 8000);
    for _ in 0..cases {
        let registry = Arc::new(ProcessRegistry::new());
        let mut caller_box = Mailbox::with_capacity(16);
        registry.insert(live.clone(), ProcessHandle::new(live.clone(), caller_box.sender())).await;
        let mut mgr = GenEventManager::new(registry.clone());
        let seen = Arc::new(Mutex::new(vec![]));
        let nh = ctx.rng.below(3) as usize;
        let kinds: Vec<u8> = (0..nh).map(|_| ctx.rng.below(3) as u8).collect();
        let ids = ["h1", "h2"];
        for i in 0..nh {
            let _ = mgr.add_handler(Box::new(RecHandler { id: ids[i], kind: kinds[i], seen: seen.clone() }), atom("args")).await;
        }
        let body = gen_body(&mut ctx.rng, &["$gen_call", "$gen_call", "$gen_notify", "$gen_sync_notify", "$gen_which_handlers"], &pids, &node);
        let from = match ctx.rng.below(3) { 0 => None, 1 => Some(live.clone()), _ => Some(absent.clone()) };
        let r = mgr.handle_message(Message::Regular { from: from.clone(), body: body.clone() }).await;
        let mut seen = seen.lock().unwrap().clone();
        seen.sort();
        let replies = drain(&mut caller_box);
        // what the model needs to know about the handlers: the reply `call_handler` gives for the addressed handler, the ids
        let call_reply = match &body {
            OwnedTerm::Tuple(v) if v.len() == 4 && v[0] == atom("$gen_call") => {
                let hid = &v[2];
                let idx = (0..nh).find(|i| &atom(ids[*i]) == hid);
                match idx {
                    Some(i) if kinds[i] == 0 => Some(OwnedTerm::Tuple(vec![atom("echo"), v[3].clone()])),
                    Some(i) if kinds[i] == 1 => Some(OwnedTerm::Tuple(vec![atom("bye"), v[3].clone()])),
                    _ => None,
                }
            }
            _ => None,
        };
        // `which_handlers` lists the ids in HashMap order: compare as a sorted list on both sides
        let mut id_terms: Vec<String> = (0..nh).map(|i| term_text(&atom(ids[i]))).collect();
        id_terms.sort();
        let replies_canon: Vec<String> = replies.iter().map(|s| if nh == 2 { s.replace(&format!("L[{},{}]", id_terms[1], id_terms[0]), &format!("L[{},{}]", id_terms[0], id_terms[1])) } else { s.clone() }).collect();
        let kind_of = |s: &str| s.split(':').next().unwrap_or("?").to_string();
        let act = if seen.is_empty() { "none".to_string() } else { kind_of(&seen[0]) };
        ctx.count(&format!("ge_{}_{}", act, nh));
        ctx.tie("ge", &format!("c18ge {} {} {} {} {}",
                from.as_ref().map(|p| term_text(&OwnedTerm::Pid(p.clone()))).unwrap_or("-".into()),
                term_text(&body),
                call_reply.as_ref().map(term_text).unwrap_or("-".into()),
                if id_terms.is_empty() { "-".to_string() } else { id_terms.join(";") },
                term_text(&OwnedTerm::Pid(live.clone()))),
            &format!("{};{}", if seen.is_empty() { "-".to_string() } else { seen.join(",") }, if replies_canon.is_empty() { "-".to_string() } else { replies_canon.join(",") }));
        ctx.prop("gen", &format!("c18gespec {} {} {} {} {} {}",
                from.as_ref().map(|p| term_text(&OwnedTerm::Pid(p.clone()))).unwrap_or("-".into()),
                term_text(&body),
                call_reply.as_ref().map(term_text).unwrap_or("-".into()),
                if id_terms.is_empty() { "-".to_string() } else { id_terms.join(";") },
                term_text(&OwnedTerm::Pid(live.clone())),
                if replies_canon.is_empty() { "-".to_string() } else { replies_canon.join(";") }), "ok");
        if replies.len() > 1 {
            ctx.fail("c18-call-answered-twice", &format!("gen_event body={} replies={:?}", term_text(&body), replies));
        }
        if r.is_err() {
            ctx.fail("c18-ge-handler-result", &format!("body={}", term_text(&body)));
        }
    }
}

// ------------------------------------------------------------------------------------------------ entry


struct RaceVictim;
impl Process for RaceVictim {
    async fn handle_message(&mut self, msg: Message) -> edp_node::Result<()> {
        match msg {
            Message::Regular { body: OwnedTerm::Atom(a), .. } if a.as_str() == "die" => Err(Error::MailboxClosed),
            _ => Ok(()),
        }
    }
}
struct RaceBystander;
impl Process for RaceBystander {
    async fn handle_message(&mut self, _msg: Message) -> edp_node::Result<()> {
        Ok(())
    }
}

/// Name operations racing with the exit of the process they are about (seeded change S77: `register` checked that the process
/// is in the registry BEFORE it locked the names, so the exiting process's sweep of its names could run in between and the name
/// outlived the process for good). The registry's locks are tokio locks; an uncontended acquisition does not suspend a task,
/// so on the current-thread runtime the only suspension points inside `register` are the ones the cooperative budget forces:
/// the racing task first makes `k` look-ups (one unit of budget each), which moves the forced suspension across every lock
/// acquisition that follows. The verdict is the property's: once the process has left the registry, every name that was
/// registered for it no longer resolves and can be registered again, whatever the operations answered.
async fn name_races(ctx: &mut Ctx) {
    let node = Atom::new("c18race@localhost");
    let (mut accepted, mut refused) = (0u64, 0u64);
    for variant in 0..3u32 {
        for k in 0..=140u32 {
            let registry = Arc::new(ProcessRegistry::new());
            let pid = ExternalPid::new(node.clone(), 1000 + k, variant, 1);
            let handle = edp_node::process::spawn_process(RaceVictim, Mailbox::new(), registry.clone(), pid.clone()).await;
            registry.insert(pid.clone(), handle.clone()).await;
            let other = ExternalPid::new(node.clone(), 5000 + k, variant, 1);
            let other_handle = edp_node::process::spawn_process(RaceBystander, Mailbox::new(), registry.clone(), other.clone()).await;
            registry.insert(other.clone(), other_handle).await;
            let name = Atom::new("service");
            let old = Atom::new("old_name");
            if variant == 1 {
                let _ = registry.register(old.clone(), pid.clone()).await;
            }
            let answer = {
                let (registry, pid, name, old) = (registry.clone(), pid.clone(), name.clone(), old.clone());
                let nobody = Atom::new("nobody");
                tokio::spawn(async move {
                    let _ = handle.send(Message::Regular { from: None, body: OwnedTerm::Atom(Atom::new("die")) }).await;
                    for _ in 0..k {
                        let _ = registry.whereis(&nobody).await;
                    }
                    match variant {
                        0 => registry.register(name, pid).await.is_ok(),
                        1 => {
                            // the process is renamed while it exits
                            let _ = registry.unregister(&old).await;
                            registry.register(name, pid).await.is_ok()
                        }
                        _ => {
                            // two names in a row
                            let a = registry.register(old, pid.clone()).await.is_ok();
                            let b = registry.register(name, pid).await.is_ok();
                            a || b
                        }
                    }
                })
                .await
                .unwrap_or(false)
            };
            if answer { accepted += 1 } else { refused += 1 }
            let mut rounds = 0;
            while registry.get(&pid).await.is_some() && rounds < 2000 {
                rounds += 1;
                tokio::task::yield_now().await;
            }
            for _ in 0..10 {
                tokio::task::yield_now().await;
            }
            ctx.count("name_race_schedules");
            if registry.get(&pid).await.is_some() {
                ctx.fail("c18-process-never-left-the-registry", &format!("variant {} k={}", variant, k));
                continue;
            }
            for n in [&name, &old] {
                let resolves = registry.whereis(n).await;
                let again = registry.register(n.clone(), other.clone()).await;
                if resolves.is_some() || again.is_err() {
                    ctx.fail("c18-name-outlives-process", &format!(
                        "variant {} k={}: the name operations answered {}; after process {}.{} has left the registry whereis({}) = {:?} and registering the name for a live process answers {:?}",
                        variant, k, answer, pid.id, pid.serial, n.as_str(), resolves.as_ref().map(|p| (p.id, p.serial)), again.as_ref().map_err(|e| e.to_string())));
                }
                let _ = registry.unregister(n).await;
            }
        }
    }
    ctx.add("name_race_accepted", accepted);
    ctx.add("name_race_refused", refused);
    if accepted == 0 || refused == 0 {
        // the schedules must straddle the exit, otherwise the enumeration proves nothing (not a property failure)
        ctx.count("name_race_did_not_straddle_the_exit");
    }
}

pub fn run(ctx: &mut Ctx) {
    let rt = tokio::runtime::Builder::new_current_thread().enable_all().build().unwrap();
    rt.block_on(async {
        let _epmd = FakeEpmd::start().await;
        install_hook();

        // directed interleavings
        for (name, sc) in directed() {
            match run_scenario(&sc).await {
                Some((log, unknown)) => {
                    if unknown > 0 {
                        ctx.fail("c18-hook-from-unknown-task", name);
                    }
                    emit(ctx, &log, name);
                    ctx.count("directed_scenarios");
                }
                None => ctx.fail("c18-node-start-failed", name),
            }
        }

        // full mailboxes
        for (name, sc) in full_mailbox() {
            match run_scenario(&sc).await {
                Some((log, unknown)) => {
                    if unknown > 0 {
                        ctx.fail("c18-hook-from-unknown-task", name);
                    }
                    // the scenario did fill a mailbox: more sends than any other scenario makes
                    let sends = log.iter().filter(|e| matches!(e, Entry::Call { op, res, .. } if op.starts_with("sd.0.") && res == "ok")).count();
                    ctx.add("full_mailbox_fillers", sends as u64);
                    emit(ctx, &log, name);
                    ctx.count("full_mailbox_scenarios");
                }
                None => ctx.fail("c18-node-start-failed", name),
            }
        }

        // the former known findings: the interleaving is forced, the linked / monitoring process must see the noproc notice
        for (sc, what, want) in [(late_link(), "late-link", "E1"), (late_monitor(), "late-monitor", "M1.0")] {
            match run_scenario(&sc).await {
                Some((log, _)) => {
                    emit(ctx, &log, what);
                    let pos = |f: &dyn Fn(&Entry) -> bool| log.iter().position(|e| f(e));
                    let call = pos(&|e| matches!(e, Entry::Call { op, .. } if op.starts_with("lk.") || op.starts_with("mo.")));
                    let k = if what == "late-link" { 2 } else { 3 };
                    let after = pos(&|e| matches!(e, Entry::X { p: 1, k: kk } if *kk == k));
                    let gone = pos(&|e| matches!(e, Entry::D { p: 1 }));
                    if !matches!((after, call, gone), (Some(a), Some(c), Some(g)) if a < c && c < g) {
                        ctx.fail("c18-witness-interleaving-not-forced", what);
                    }
                    let seen = log.iter().filter(|e| matches!(e, Entry::H { p: 0, msg } if msg == want)).count();
                    if seen != 1 {
                        ctx.fail("c18-late-entry-not-answered-once", &format!("{}: process 0 saw {} {} times", what, want, seen));
                    }
                    ctx.count("former_findings_replayed");
                }
                None => ctx.fail("c18-node-start-failed", what),
            }
        }

        // seeded histories
        let traces = ctx.n(1500, 25000);
        let max_ops = 30;
        for i in 0..traces {
            let mut r = Rng::new(ctx.rng.next());
            let sc = gen_scenario(&mut r, max_ops);
            ctx.count(&format!("clients_{}", sc.clients.len()));
            match run_scenario(&sc).await {
                Some((log, unknown)) => {
                    if unknown > 0 {
                        ctx.fail("c18-hook-from-unknown-task", &format!("trace {}", i));
                    }
                    emit(ctx, &log, &format!("trace {}", i));
                }
                None => ctx.fail("c18-node-start-failed", &format!("trace {}", i)),
            }
        }

        registry_direct(ctx).await;
        name_races(ctx).await;
        gen_server_direct(ctx).await;
        gen_event_direct(ctx).await;
        edp_client::verif_hooks::set_yield_hook(None);
    });
}
