import EdpVerif.Impl.Procs
import EdpVerif.Generated.MiscC18
/-!
The behaviours clause of C18, function by function (core Lean only, linked into the driver):

* crates/edp_node/src/gen_server.rs — `GenServerProcess::handle_message` (`gsHandle`: the `Message` variants, the dispatch
  `gsDispatchB` of a `Regular` body — the if-chain of the source with the tags read from the source on this run
  (`Generated/Misc.lean` `GS_CALL_TAG` …; the arities and the order of the chain are compared with `GS_DISPATCH` /
  `GE_DISPATCH` by `C18_behaviour_tables_are_the_source`) —, `handle_gen_call` = callback, then `{Ref, Reply}` through `registry.get(from)` +
  `ProcessHandle::send`; `handle_gen_cast`; `handle_info`; `Exit` = the server's `terminate`), `Process::terminate`;
* crates/edp_node/src/process.rs `spawn_process` — the loop around `handle_message`: an `Err` ends the process, then
  `Process::terminate` (`gsRun`, `geRun`);
* crates/edp_node/src/gen_event.rs — `GenEventManager::{add_handler, delete_handler, notify, call_handler, which_handlers,
  handle_message, terminate}` (`addHandler`, `deleteHandler`, `notify`, `callHandler`, `whichHandlers`, `geHandle`).

What the model does not know is an input:
* the answers of the user's callbacks: for a `GenServer` one answer per message (`GsStep.ans`), for `GenEventHandler`s an
  oracle `ω uid k` = the answer of handler instance `uid` to its `k`-th callback (`init`, `handle_event`, `handle_call`,
  `handle_info` count; `terminate` returns nothing);
* the registry and the mailboxes of the callers at the moment a message is handled (`Env`: for a pid, is it in `by_pid`,
  and does its mailbox still have a receiver);
* the iteration order of the `HashMap` of handlers: the list order of `GeSt.hs`, arbitrary (every statement is for every
  state; removing an entry keeps the relative order of the others).

Modelled is the code AFTER the repair `fix: a reply that cannot be delivered does not end the behaviour process`
(`let _ = handle.send(..)` at the four reply sites): before it, `Reach.closed` made `handle_message` return `Err`.
-/
namespace Edp.Impl.Beh
open Edp Edp.Impl.Procs

/-- mailbox.rs `Message`, as far as the behaviours look at it -/
inductive Msg where
  /-- `Message::Regular { from, body }` -/
  | regular (frm : Option PidF) (body : Term)
  /-- `Message::Control { .. }` -/
  | control
  /-- `Message::Exit { reason, .. }` -/
  | exit (reason : Term)
  /-- `MonitorExit`, `Link`, `Unlink`, `Monitor`, `Demonitor`: the `_ => Ok(())` arm -/
  | other
  deriving Repr, BEq, Inhabited

/-- `registry.get(pid)` and what `handle.send(..)` then finds -/
inductive Reach where
  /-- not in `by_pid`: no send is attempted -/
  | absent
  /-- in `by_pid`, the mailbox has its receiver: the message is queued -/
  | live
  /-- in `by_pid` (or a handle cloned out of it just before the entry went), the receiver is gone: `Err(MailboxClosed)` -/
  | closed
  deriving Repr, DecidableEq, Inhabited

abbrev Env := PidF → Reach

/-- the callbacks the behaviours make -/
inductive Cb where
  | gsCall (req : Term) (frm : PidF)
  | gsCast (req : Term)
  | gsInfo (body : Term)
  | gsTerminate (reason : Term)
  | init (uid : Nat) (args : Term)
  | event (uid : Nat) (ev : Term)
  | call (uid : Nat) (req : Term)
  | info (uid : Nat) (body : Term)
  | terminate (uid : Nat) (reason : Term)
  deriving Repr, BEq, Inhabited

/-- what can be observed of a behaviour process: the callbacks it makes and the messages it puts into mailboxes -/
inductive Out where
  | cb (c : Cb)
  | send (to : PidF) (body : Term)
  deriving Repr, BEq, Inhabited

def sendsOf : List Out → List (PidF × Term)
  | [] => []
  | .send p b :: r => (p, b) :: sendsOf r
  | .cb _ :: r => sendsOf r

def cbsOf : List Out → List Cb
  | [] => []
  | .cb c :: r => c :: cbsOf r
  | .send _ _ :: r => cbsOf r

def atomB (b : Bytes) : Term := .atom b

/-- the dispatch of `GenServerProcess::handle_message` on a `Regular` body: `Tuple(elements)`, `elements.len() >= 2`,
`Atom(tag) = elements[0]`; `tag == call_tag && len == 3`: `elements[1]` must be `{Pid, Reference}` (otherwise the chain is
left: no cast test); `else if tag == cast_tag && len == 2`; everything else is `handle_info(body)` -/
def gsDispatchB (body : Term) : GsAct :=
  match body with
  | .tuple (.atom tag :: e1 :: rest) =>
    if tag = Gen.GS_CALL_TAG ∧ rest.length = 1 then
      match e1, rest with
      | .tuple [.pid fp, r], [req] => if isRef r then .call fp r req else .info body
      | _, _ => .info body
    else if tag = Gen.GS_CAST_TAG ∧ rest.length = 0 then .cast e1
    else .info body
  | _ => .info body

/-- the dispatch of `GenEventManager::handle_message` on a `Regular` body: notify (2), sync_notify (2), call (4, with a
`{Pid, Reference}` second element, otherwise the chain is left), which_handlers (2, with the same test inside its condition) -/
def geDispatchB (body : Term) : GeAct :=
  match body with
  | .tuple (.atom tag :: e1 :: rest) =>
    if tag = Gen.GE_NOTIFY_TAG ∧ rest.length = 0 then .notify e1
    else if tag = Gen.GE_SYNC_NOTIFY_TAG ∧ rest.length = 0 then .syncNotify e1
    else if tag = Gen.GE_CALL_TAG ∧ rest.length = 2 then
      match e1, rest with
      | .tuple [.pid fp, r], [hid, req] => if isRef r then .call fp r hid req else .info body
      | _, _ => .info body
    else if tag = Gen.GE_WHICH_TAG ∧ rest.length = 0 then
      match e1 with
      | .tuple [.pid fp, r] => if isRef r then .which fp r else .info body
      | _ => .info body
    else .info body
  | _ => .info body

/-- `if let Some(handle) = registry.get(&pid).await { let _ = handle.send(Message::Regular { from: None, body }).await; }` -/
def reply (env : Env) (to : PidF) (body : Term) : List Out :=
  match env to with
  | .live => [.send to body]
  | .absent => []
  | .closed => []

/-! ## gen_server.rs -/

/-- the server's answer to the one callback a message causes: `handle_call` → `Ok(Reply(v))` / `Ok(NoReply)` / `Err`;
`handle_cast` / `handle_info` → `Err` for `err`, `Ok(())` otherwise -/
abbrev GsAns := GsResult

structure GsStep where
  msg : Msg
  ans : GsAns
  env : Env

def GsAns.failed : GsAns → Bool
  | .err => true
  | _ => false

/-- `GenServerProcess::handle_gen_call` -/
def handleGenCall (ans : GsAns) (env : Env) (frm : PidF) (ref req : Term) : List Out × Bool :=
  match ans with
  | .err => ([.cb (.gsCall req frm)], false)                       -- `handle_call(..).await?`
  | .noReply => ([.cb (.gsCall req frm)], true)
  | .reply v => (.cb (.gsCall req frm) :: reply env frm (.tuple [ref, v]), true)

/-- `GenServerProcess::handle_message`: what it does, and `true` for `Ok(())` -/
def gsHandle (s : GsStep) : List Out × Bool :=
  match s.msg with
  | .regular _ body =>
    match gsDispatchB body with
    | .call frm ref req => handleGenCall s.ans s.env frm ref req
    | .cast req => ([.cb (.gsCast req)], !s.ans.failed)            -- `handle_gen_cast`
    | .info b => ([.cb (.gsInfo b)], !s.ans.failed)                -- `self.server.handle_info(body).await`
  | .control => ([], true)
  | .exit reason => ([.cb (.gsTerminate reason)], true)
  | .other => ([], true)

/-- the task of `spawn_process` around a `GenServerProcess`: messages in mailbox order; the first `Err` ends the loop,
`Process::terminate` (= the server's `terminate(normal)`) follows; `true`: still in its loop after the last message -/
def gsRun : List GsStep → List Out × Bool
  | [] => ([], true)
  | s :: rest =>
    match gsHandle s with
    | (o, true) => let r := gsRun rest; (o ++ r.1, r.2)
    | (o, false) => (o ++ [.cb (.gsTerminate (atomB Gen.GS_TERMINATE_REASON))], false)

/-- the messages the loop got to (up to and including the one that ended it) -/
def gsHandled : List GsStep → List GsStep
  | [] => []
  | s :: rest => if (gsHandle s).2 then s :: gsHandled rest else [s]

/-! ## gen_event.rs -/

inductive AnsKind where
  | ok | remove | swap | err
  deriving Repr, DecidableEq, Inhabited

/-- a handler's answer to one callback, read per callback:
`init`: `err` → `Err`, otherwise `Ok(())`;
`handle_event`: `ok` → `EventResult::Ok`, `remove` → `Remove`, `swap` → `SwapHandler(new, args)`, `err` → `Err`;
`handle_call`: `ok` → `CallResult::Reply(val)`, `remove` → `Remove(val)`, `swap` → `SwapHandler(new, args, val)`, `err` → `Err`;
`handle_info`: whatever it is, the manager ignores it.
`new` is a handler instance `newUid` whose `id()` is `newKey` -/
structure Ans where
  kind : AnsKind := .ok
  val : Term := .nil
  newUid : Nat := 0
  newKey : Term := .nil
  args : Term := .nil
  deriving Repr, Inhabited

abbrev Oracle := Nat → Nat → Ans

/-- a `HandlerEntry` under its map key -/
structure Entry where
  /-- the key of the map: `format!("{:?}", id)` of the handler that was ADDED under it (a swap keeps the key) -/
  key : Term
  /-- the handler instance in the entry -/
  uid : Nat
  /-- what that instance's `id()` returns -/
  hid : Term
  /-- callbacks that instance has answered so far -/
  n : Nat
  deriving Repr, BEq, Inhabited

structure GeSt where
  hs : List Entry := []
  deriving Repr, Inhabited

def findKey (key : Term) : List Entry → Option Entry
  | [] => none
  | e :: r => if e.key == key then some e else findKey key r

def removeKey (key : Term) : List Entry → List Entry
  | [] => []
  | e :: r => if e.key == key then r else e :: removeKey key r

def replaceKey (e' : Entry) : List Entry → List Entry
  | [] => []
  | e :: r => if e.key == e'.key then e' :: r else e :: replaceKey e' r

/-- `self.handlers.insert(key, entry)`: a new key goes somewhere (here: to the end), an existing one is overwritten -/
def insertKey (e' : Entry) (hs : List Entry) : List Entry :=
  match findKey e'.key hs with
  | some _ => replaceKey e' hs
  | none => hs ++ [e']

/-- `GenEventManager::add_handler(handler, args)`: `init` first (`?`), then `insert` — an entry already under that key is
dropped without `terminate` -/
def addHandler (ω : Oracle) (st : GeSt) (uid : Nat) (hid args : Term) : GeSt × List Out × Bool :=
  match (ω uid 0).kind with
  | .err => (st, [.cb (.init uid args)], false)
  | _ => ({ hs := insertKey ⟨hid, uid, hid, 1⟩ st.hs }, [.cb (.init uid args)], true)

/-- `GenEventManager::delete_handler(id)` -/
def deleteHandler (st : GeSt) (key : Term) : GeSt × List Out × Bool :=
  match findKey key st.hs with
  | some e => ({ hs := removeKey key st.hs }, [.cb (.terminate e.uid (atomB Gen.GE_REASON_DELETE))], true)
  | none => (st, [], false)

/-- one pass of the first loop of `notify` over one entry: the entry afterwards, what was observable, and whether its
key went to `to_remove` -/
def notifyOne (ω : Oracle) (e : Entry) (ev : Term) : Entry × List Out × Bool :=
  let a := ω e.uid e.n
  match a.kind with
  | .ok => ({ e with n := e.n + 1 }, [.cb (.event e.uid ev)], false)
  | .remove => ({ e with n := e.n + 1 }, [.cb (.event e.uid ev)], true)
  | .err => ({ e with n := e.n + 1 }, [.cb (.event e.uid ev)], true)
  | .swap =>
    let fresh : Entry := { key := e.key, uid := a.newUid, hid := a.newKey, n := 1 }
    let o := [Out.cb (.event e.uid ev), .cb (.terminate e.uid (atomB Gen.GE_REASON_EVENT_SWAP)), .cb (.init a.newUid a.args)]
    match (ω a.newUid 0).kind with
    | .err => (fresh, o, true)
    | _ => (fresh, o, false)

/-- the first loop of `notify`: entries afterwards (all of them still there), outputs, flags -/
def notifyPass (ω : Oracle) (ev : Term) : List Entry → List (Entry × Bool) × List Out
  | [] => ([], [])
  | e :: r =>
    let (e', o, rm) := notifyOne ω e ev
    let (es, os) := notifyPass ω ev r
    ((e', rm) :: es, o ++ os)

/-- the second loop of `notify`: the flagged entries leave, each after `terminate(error)` -/
def sweep : List (Entry × Bool) → List Entry × List Out
  | [] => ([], [])
  | (e, false) :: r => let (es, os) := sweep r; (e :: es, os)
  | (e, true) :: r => let (es, os) := sweep r; (es, .cb (.terminate e.uid (atomB Gen.GE_REASON_EVENT_REMOVE)) :: os)

/-- `GenEventManager::notify(event)`; always `Ok(())` -/
def notify (ω : Oracle) (st : GeSt) (ev : Term) : GeSt × List Out :=
  let (marked, o1) := notifyPass ω ev st.hs
  let (hs', o2) := sweep marked
  ({ hs := hs' }, o1 ++ o2)

/-- `GenEventManager::call_handler(handler_id, request)`: the state afterwards, what was observable, and `Ok(reply)` / `Err` -/
def callHandler (ω : Oracle) (st : GeSt) (key req : Term) : GeSt × List Out × Option Term :=
  match findKey key st.hs with
  | none => (st, [], none)                                          -- "Handler not found"
  | some e =>
    let a := ω e.uid e.n
    match a.kind with
    | .ok => ({ hs := replaceKey { e with n := e.n + 1 } st.hs }, [.cb (.call e.uid req)], some a.val)
    | .remove =>
      ({ hs := removeKey key st.hs }, [.cb (.call e.uid req), .cb (.terminate e.uid (atomB Gen.GE_REASON_CALL_REMOVE))], some a.val)
    | .err =>
      ({ hs := removeKey key st.hs }, [.cb (.call e.uid req), .cb (.terminate e.uid (atomB Gen.GE_REASON_CALL_ERR))], none)
    | .swap =>
      let fresh : Entry := { key := e.key, uid := a.newUid, hid := a.newKey, n := 1 }
      let o := [Out.cb (.call e.uid req), .cb (.terminate e.uid (atomB Gen.GE_REASON_CALL_SWAP)), .cb (.init a.newUid a.args)]
      match (ω a.newUid 0).kind with
      | .err => ({ hs := replaceKey fresh st.hs }, o, none)          -- `init(..).await?`: the entry keeps the new handler
      | _ => ({ hs := replaceKey fresh st.hs }, o, some a.val)

/-- `GenEventManager::which_handlers()`: the `id()` of every handler, in map order -/
def whichHandlers (st : GeSt) : List Term := st.hs.map (·.hid)

/-- the loop `for entry in self.handlers.values_mut() { handle_info(body) }`: every answer is ignored -/
def infoAll (body : Term) : List Entry → List Entry × List Out
  | [] => ([], [])
  | e :: r => let (es, os) := infoAll body r; ({ e with n := e.n + 1 } :: es, .cb (.info e.uid body) :: os)

def terminateAll (reason : Term) (hs : List Entry) : List Out :=
  hs.map fun e => .cb (.terminate e.uid reason)

structure GeStep where
  msg : Msg
  env : Env

/-- `GenEventManager::handle_message`; it has no path to `Err` (the repaired code ignores a reply that cannot be delivered) -/
def geHandle (ω : Oracle) (st : GeSt) (s : GeStep) : GeSt × List Out :=
  match s.msg with
  | .regular frm body =>
    match geDispatchB body with
    | .notify ev => notify ω st ev
    | .syncNotify ev =>
      let (st', o) := notify ω st ev
      match frm with
      | some p => (st', o ++ reply s.env p (atomB Gen.GE_ACK_ATOM))
      | none => (st', o)
    | .call fp r hid req =>
      let (st', o, res) := callHandler ω st hid req
      (st', o ++ reply s.env fp (.tuple [r, res.getD (atomB Gen.GE_CALL_ERROR_ATOM)]))
    | .which fp r => (st, reply s.env fp (.tuple [r, .list (whichHandlers st)]))
    | .info b => let (hs', o) := infoAll b st.hs; ({ hs := hs' }, o)
  | .control => (st, [])
  | .exit reason => (st, terminateAll reason st.hs)
  | .other => (st, [])

/-- the manager's process over a sequence of messages: it never leaves its loop by itself -/
def geRun (ω : Oracle) : GeSt → List GeStep → GeSt × List Out
  | st, [] => (st, [])
  | st, s :: rest =>
    let (st', o) := geHandle ω st s
    let (st'', os) := geRun ω st' rest
    (st'', o ++ os)

/-- `Process::terminate` of the manager (when the task is torn down): `terminate(shutdown)` for every handler -/
def geTerminate (st : GeSt) : List Out := terminateAll (atomB Gen.GE_REASON_SHUTDOWN) st.hs

end Edp.Impl.Beh
