#!/bin/sh
# usage: tools/mkcopy.sh <name>   -> /tmp/bld/<name>/verif (copy of /verif incl. build caches) and /tmp/bld/<name>/repo (git worktree of /repo HEAD)
# A builder works there without disturbing /verif or /repo. Remove with: tools/mkcopy.sh -r <name>
set -e
if [ "$1" = "-r" ]; then
  git -C /repo worktree remove --force /tmp/bld/$2/repo 2>/dev/null || true
  rm -rf /tmp/bld/$2
  exit 0
fi
D=/tmp/bld/$1
mkdir -p $D
git -C /repo worktree add --detach $D/repo HEAD >/dev/null
rsync -a --exclude runs --exclude .git /verif/ $D/verif/ || [ $? -eq 24 ]
sed -i "s#\"/repo/#\"$D/repo/#" $D/verif/harness/Cargo.toml
sed -i "s#/verif/.cache/target#$D/verif/.cache/target#" $D/verif/harness/.cargo/config.toml
echo "export EDP_REPO=$D/repo" > $D/env.sh
echo $D
