import EdpVerif.Impl.EqHash
import EdpVerif.Lemmas.EqCmp
/-!
`==` on terms (`Term.eqv`, the model of the derived `PartialEq`) is an equivalence relation on terms without a NaN: what a
hashed container needs besides `a == b → hash a = hash b`.  (A NaN is `!=` itself: `f64 ==`.)
-/
open Edp Edp.Term
namespace Edp

mutual
/-- no NaN anywhere in the term -/
def noNaN : Term → Bool
  | .float b => !(f64 b).isNaN
  | .list l => noNaNL l
  | .ilist l t => noNaNL l && noNaN t
  | .map kvs => noNaNKV kvs
  | .tuple l => noNaNL l
  | .ifun _ _ _ _ _ _ _ _ fr => noNaNL fr
  | _ => true
def noNaNL : List Term → Bool
  | [] => true
  | t :: ts => noNaN t && noNaNL ts
def noNaNKV : List (Term × Term) → Bool
  | [] => true
  | (k, v) :: r => noNaN k && noNaN v && noNaNKV r
end

theorem floatEq_refl (a : Nat) (h : (f64 a).isNaN = false) : floatEq a a = true := by simp [floatEq, h]

theorem floatEq_symm {a b : Nat} (h : floatEq a b = true) : floatEq b a = true := by
  simp only [floatEq, Bool.and_eq_true, Bool.or_eq_true, Bool.not_eq_true', beq_iff_eq] at h ⊢
  obtain ⟨⟨h1, h2⟩, h3⟩ := h
  refine ⟨⟨h2, h1⟩, ?_⟩
  rcases h3 with h3 | h3
  · exact .inl ⟨h3.2, h3.1⟩
  · exact .inr ⟨⟨h3.1.1.symm, h3.1.2.symm⟩, h3.2.symm⟩

theorem floatEq_trans {a b c : Nat} (h1 : floatEq a b = true) (h2 : floatEq b c = true) : floatEq a c = true := by
  simp only [floatEq, F64.isZero, Bool.and_eq_true, Bool.or_eq_true, Bool.not_eq_true', beq_iff_eq] at h1 h2 ⊢
  obtain ⟨⟨a1, _⟩, a3⟩ := h1
  obtain ⟨⟨_, b2⟩, b3⟩ := h2
  refine ⟨⟨a1, b2⟩, ?_⟩
  rcases a3 with a3 | a3 <;> rcases b3 with b3 | b3
  · exact .inl ⟨a3.1, b3.2⟩
  · exact .inl ⟨a3.1, by rw [← b3.1.2, ← b3.2]; exact a3.2⟩
  · exact .inl ⟨by rw [a3.1.2, a3.2]; exact b3.1, b3.2⟩
  · exact .inr ⟨⟨a3.1.1.trans b3.1.1, a3.1.2.trans b3.1.2⟩, a3.2.trans b3.2⟩

theorem pidEq_refl (p : PidF) : pidEq p p = true := by simp [pidEq]
theorem pidEq_symm {p q : PidF} (h : pidEq p q = true) : pidEq q p = true := by
  simp only [pidEq, Bool.and_eq_true, beq_iff_eq] at h ⊢
  exact ⟨⟨⟨h.1.1.1.symm, h.1.1.2.symm⟩, h.1.2.symm⟩, h.2.symm⟩
theorem pidEq_trans {p q r : PidF} (h1 : pidEq p q = true) (h2 : pidEq q r = true) : pidEq p r = true := by
  simp only [pidEq, Bool.and_eq_true, beq_iff_eq] at h1 h2 ⊢
  exact ⟨⟨⟨h1.1.1.1.trans h2.1.1.1, h1.1.1.2.trans h2.1.1.2⟩, h1.1.2.trans h2.1.2⟩, h1.2.trans h2.2⟩

mutual
theorem eqv_refl : ∀ (t : Term), noNaN t = true → eqv t t = true
  | .float b, h => by simp only [noNaN, Bool.not_eq_true'] at h; simpa [eqv] using floatEq_refl b h
  | .list l, h => by simpa [eqv] using eqvL_refl l (by simpa [noNaN] using h)
  | .ilist l t, h => by
    simp only [noNaN, Bool.and_eq_true] at h
    simp [eqv, eqvL_refl l h.1, eqv_refl t h.2]
  | .map kvs, h => by simpa [eqv] using eqvKV_refl kvs (by simpa [noNaN] using h)
  | .tuple l, h => by simpa [eqv] using eqvL_refl l (by simpa [noNaN] using h)
  | .ifun _ _ _ _ _ _ _ p fr, h => by simp [eqv, pidEq_refl, eqvL_refl fr (by simpa [noNaN] using h)]
  | .atom _, _ => by simp [eqv]
  | .int _, _ => by simp [eqv]
  | .pid p, _ => by simp [eqv, pidEq_refl]
  | .port _ _ _ _, _ => by simp [eqv]
  | .ref _ _ _ _, _ => by simp [eqv]
  | .bin _, _ => by simp [eqv]
  | .bits _ _, _ => by simp [eqv]
  | .str _, _ => by simp [eqv]
  | .big _ _, _ => by simp [eqv]
  | .xfun _ _ _, _ => by simp [eqv]
  | .nil, _ => by simp [eqv]
theorem eqvL_refl : ∀ (l : List Term), noNaNL l = true → eqvL l l = true
  | [], _ => by simp [eqvL]
  | t :: ts, h => by
    simp only [noNaNL, Bool.and_eq_true] at h
    simp [eqvL, eqv_refl t h.1, eqvL_refl ts h.2]
theorem eqvKV_refl : ∀ (l : List (Term × Term)), noNaNKV l = true → eqvKV l l = true
  | [], _ => by simp [eqvKV]
  | (k, v) :: r, h => by
    simp only [noNaNKV, Bool.and_eq_true] at h
    simp [eqvKV, eqv_refl k h.1.1, eqv_refl v h.1.2, eqvKV_refl r h.2]
end

mutual
theorem eqv_symm (a b : Term) (h : eqv a b = true) : eqv b a = true := by
  cases a <;> cases b <;> (try (simp [eqv] at h; done))
  case float.float x y => simp only [eqv] at h ⊢; exact floatEq_symm h
  case pid.pid p q => simp only [eqv] at h ⊢; exact pidEq_symm h
  case list.list x y => simp only [eqv] at h ⊢; exact eqvL_symm x y h
  case ilist.ilist x t y u =>
    simp only [eqv, Bool.and_eq_true] at h ⊢
    exact ⟨eqvL_symm x y h.1, eqv_symm t u h.2⟩
  case map.map x y => simp only [eqv] at h ⊢; exact eqvKV_symm x y h
  case tuple.tuple x y => simp only [eqv] at h ⊢; exact eqvL_symm x y h
  case ifun.ifun a1 u1 i1 n1 m1 oi1 ou1 p1 fr1 a2 u2 i2 n2 m2 oi2 ou2 p2 fr2 =>
    simp only [eqv, Bool.and_eq_true, beq_iff_eq] at h ⊢
    obtain ⟨⟨⟨⟨⟨⟨⟨⟨e1, e2⟩, e3⟩, e4⟩, e5⟩, e6⟩, e7⟩, e8⟩, e9⟩ := h
    exact ⟨⟨⟨⟨⟨⟨⟨⟨e1.symm, e2.symm⟩, e3.symm⟩, e4.symm⟩, e5.symm⟩, e6.symm⟩, e7.symm⟩, pidEq_symm e8⟩, eqvL_symm fr1 fr2 e9⟩
  all_goals (simp only [eqv, Bool.and_eq_true, beq_iff_eq] at h ⊢ <;> simp_all)
termination_by sizeOf a
decreasing_by all_goals (subst_vars; simp_wf; try omega)
theorem eqvL_symm (x y : List Term) (h : eqvL x y = true) : eqvL y x = true := by
  match x, y with
  | [], [] => simp [eqvL]
  | [], _ :: _ => simp [eqvL] at h
  | _ :: _, [] => simp [eqvL] at h
  | a :: as, b :: bs =>
    simp only [eqvL, Bool.and_eq_true] at h ⊢
    exact ⟨eqv_symm a b h.1, eqvL_symm as bs h.2⟩
termination_by sizeOf x
decreasing_by all_goals (subst_vars; simp_wf; try omega)
theorem eqvKV_symm (x y : List (Term × Term)) (h : eqvKV x y = true) : eqvKV y x = true := by
  match x, y with
  | [], [] => simp [eqvKV]
  | [], _ :: _ => simp [eqvKV] at h
  | _ :: _, [] => simp [eqvKV] at h
  | (k, v) :: r, (k2, v2) :: r2 =>
    simp only [eqvKV, Bool.and_eq_true] at h ⊢
    exact ⟨⟨eqv_symm k k2 h.1.1, eqv_symm v v2 h.1.2⟩, eqvKV_symm r r2 h.2⟩
termination_by sizeOf x
decreasing_by all_goals (subst_vars; simp_wf; try omega)
end

mutual
theorem eqv_trans (a b c : Term) (h1 : eqv a b = true) (h2 : eqv b c = true) : eqv a c = true := by
  cases a <;> cases b <;> (try (simp [eqv] at h1; done)) <;> cases c <;> (try (simp [eqv] at h2; done))
  case float.float.float x y z => simp only [eqv] at h1 h2 ⊢; exact floatEq_trans h1 h2
  case pid.pid.pid p q r => simp only [eqv] at h1 h2 ⊢; exact pidEq_trans h1 h2
  case list.list.list x y z => simp only [eqv] at h1 h2 ⊢; exact eqvL_trans x y z h1 h2
  case ilist.ilist.ilist x t y u z w =>
    simp only [eqv, Bool.and_eq_true] at h1 h2 ⊢
    exact ⟨eqvL_trans x y z h1.1 h2.1, eqv_trans t u w h1.2 h2.2⟩
  case map.map.map x y z => simp only [eqv] at h1 h2 ⊢; exact eqvKV_trans x y z h1 h2
  case tuple.tuple.tuple x y z => simp only [eqv] at h1 h2 ⊢; exact eqvL_trans x y z h1 h2
  case ifun.ifun.ifun a1 u1 i1 n1 m1 oi1 ou1 p1 fr1 a2 u2 i2 n2 m2 oi2 ou2 p2 fr2 a3 u3 i3 n3 m3 oi3 ou3 p3 fr3 =>
    simp only [eqv, Bool.and_eq_true, beq_iff_eq] at h1 h2 ⊢
    obtain ⟨⟨⟨⟨⟨⟨⟨⟨e1, e2⟩, e3⟩, e4⟩, e5⟩, e6⟩, e7⟩, e8⟩, e9⟩ := h1
    obtain ⟨⟨⟨⟨⟨⟨⟨⟨g1, g2⟩, g3⟩, g4⟩, g5⟩, g6⟩, g7⟩, g8⟩, g9⟩ := h2
    exact ⟨⟨⟨⟨⟨⟨⟨⟨e1.trans g1, e2.trans g2⟩, e3.trans g3⟩, e4.trans g4⟩, e5.trans g5⟩, e6.trans g6⟩, e7.trans g7⟩,
      pidEq_trans e8 g8⟩, eqvL_trans fr1 fr2 fr3 e9 g9⟩
  all_goals (simp only [eqv, Bool.and_eq_true, beq_iff_eq] at h1 h2 ⊢ <;> simp_all)
termination_by sizeOf a
decreasing_by all_goals (subst_vars; simp_wf; try omega)
theorem eqvL_trans (x y z : List Term) (h1 : eqvL x y = true) (h2 : eqvL y z = true) : eqvL x z = true := by
  match x, y, z with
  | [], [], [] => simp [eqvL]
  | [], [], _ :: _ => simp [eqvL] at h2
  | [], _ :: _, _ => simp [eqvL] at h1
  | _ :: _, [], _ => simp [eqvL] at h1
  | _ :: _, _ :: _, [] => simp [eqvL] at h2
  | a :: as, b :: bs, c :: cs =>
    simp only [eqvL, Bool.and_eq_true] at h1 h2 ⊢
    exact ⟨eqv_trans a b c h1.1 h2.1, eqvL_trans as bs cs h1.2 h2.2⟩
termination_by sizeOf x
decreasing_by all_goals (subst_vars; simp_wf; try omega)
theorem eqvKV_trans (x y z : List (Term × Term)) (h1 : eqvKV x y = true) (h2 : eqvKV y z = true) : eqvKV x z = true := by
  match x, y, z with
  | [], [], [] => simp [eqvKV]
  | [], [], _ :: _ => simp [eqvKV] at h2
  | [], _ :: _, _ => simp [eqvKV] at h1
  | _ :: _, [], _ => simp [eqvKV] at h1
  | _ :: _, _ :: _, [] => simp [eqvKV] at h2
  | (k, v) :: r, (k2, v2) :: r2, (k3, v3) :: r3 =>
    simp only [eqvKV, Bool.and_eq_true] at h1 h2 ⊢
    exact ⟨⟨eqv_trans k k2 k3 h1.1.1 h2.1.1, eqv_trans v v2 v3 h1.1.2 h2.1.2⟩, eqvKV_trans r r2 r3 h1.2 h2.2⟩
termination_by sizeOf x
decreasing_by all_goals (subst_vars; simp_wf; try omega)
end

/-! ### a hashed container keyed by terms

Entries are looked up by hash first and by `==` second, as `HashMap` does; `hf` stands for the hasher (any function of the
byte stream `Hash::hash` writes). -/

def hmTest (hf : Bytes → Nat) (a b : Term) : Bool := hf (hashBytes a) == hf (hashBytes b) && eqv a b

def hmGet (hf : Bytes → Nat) (m : List (Term × Term)) (k : Term) : Option Term :=
  (m.find? (fun p => hmTest hf p.1 k)).map (·.2)

def hmInsert (hf : Bytes → Nat) : List (Term × Term) → Term → Term → List (Term × Term)
  | [], k, v => [(k, v)]
  | (k0, v0) :: r, k, v => if hmTest hf k0 k then (k0, v) :: r else (k0, v0) :: hmInsert hf r k v

/-- because `==` implies equal hashed bytes, the hash comparison never hides an entry -/
theorem hmTest_eq (hf : Bytes → Nat) (a b : Term) : hmTest hf a b = eqv a b := by
  cases h : eqv a b
  · simp [hmTest, h]
  · simp [hmTest, h, hashBytes_of_eqv a b h]

theorem hmGet_cons (hf : Bytes → Nat) (p : Term × Term) (m : List (Term × Term)) (k : Term) :
    hmGet hf (p :: m) k = if eqv p.1 k = true then some p.2 else hmGet hf m k := by
  simp only [hmGet, List.find?_cons, hmTest_eq]
  cases eqv p.1 k <;> simp

/-- one insertion into a hashed container: every key `==` to the inserted key now reads the new value, every other key
reads what it read before — for every hash function -/
theorem hmGet_hmInsert (hf : Bytes → Nat) (m : List (Term × Term)) (k v k' : Term) :
    hmGet hf (hmInsert hf m k v) k' = if eqv k k' = true then some v else hmGet hf m k' := by
  induction m with
  | nil => simp [hmInsert, hmGet, hmTest_eq]
  | cons p0 r ih =>
    obtain ⟨k0, v0⟩ := p0
    simp only [hmInsert, hmTest_eq]
    by_cases h0 : eqv k0 k = true
    · rw [if_pos h0]
      simp only [hmGet_cons]
      by_cases h1 : eqv k k' = true
      · simp [h1, eqv_trans k0 k k' h0 h1]
      · have : eqv k0 k' ≠ true := fun h2 => h1 (eqv_trans k k0 k' (eqv_symm k0 k h0) h2)
        simp [h1, this]
    · rw [if_neg h0]
      simp only [hmGet_cons, ih]
      by_cases h1 : eqv k k' = true
      · have : eqv k0 k' ≠ true := fun h2 => h0 (eqv_trans k0 k' k h2 (eqv_symm k k' h1))
        simp [h1, this]
      · simp [h1]

end Edp
