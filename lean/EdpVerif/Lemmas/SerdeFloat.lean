import EdpVerif.Impl.Serde
/-! C15: `f32 → f64 → f32` is the identity on every non-NaN bit pattern. -/
namespace Edp.Serde

set_option maxRecDepth 8000 in
theorem f64to32_normal (s e m : Nat) (hs : s < 2) (he1 : 1 ≤ e) (he2 : e ≤ 254) (hm : m < 2 ^ 23) :
    f64to32 (s * 2 ^ 63 + (e + 896) * 2 ^ 52 + m * 2 ^ 29) = s * 2 ^ 31 + e * 2 ^ 23 + m := by
  unfold f64to32 rneShift
  simp only [Nat.reducePow] at *
  have h1 : (s * 9223372036854775808 + (e + 896) * 4503599627370496 + m * 536870912) / 9223372036854775808 % 2 = s := by omega
  have h2 : (s * 9223372036854775808 + (e + 896) * 4503599627370496 + m * 536870912) / 4503599627370496 % 2048 = e + 896 := by omega
  have h3 : (s * 9223372036854775808 + (e + 896) * 4503599627370496 + m * 536870912) % 4503599627370496 = m * 536870912 := by omega
  simp only [h1, h2, h3]
  have h4 : (4503599627370496 + m * 536870912) / 536870912 = 8388608 + m := by omega
  have h5 : (4503599627370496 + m * 536870912) % 536870912 = 0 := by omega
  simp only [h4, h5]
  split
  · omega
  · split
    · omega
    · split
      · split
        · omega
        · split
          · omega
          · omega
      · omega

theorem topBit_spec : ∀ (n m : Nat), 0 < m → m < 2 ^ n → 2 ^ topBit n m ≤ m ∧ m < 2 ^ (topBit n m + 1) ∧ topBit n m < n
  | 0, m, h0, h => by simp at h; omega
  | n + 1, m, h0, h => by
    unfold topBit
    split
    · exact ⟨by assumption, h, by omega⟩
    · rename_i hlt
      have := topBit_spec n m h0 (by omega)
      exact ⟨this.1, this.2.1, by omega⟩

set_option maxRecDepth 8000 in
theorem f64to32_sub_aux (s e' sh m c : Nat) (hs : s < 2) (he1 : 1 ≤ e') (he2 : e' ≤ 896) (hsh : sh = 926 - e')
    (hc : c = 2 ^ sh) (hc2 : 2 ≤ c) (hge : 2 ^ 52 ≤ m * c) (hlt : m * c < 2 ^ 53) :
    f64to32 (s * 2 ^ 63 + e' * 2 ^ 52 + (m * c - 2 ^ 52)) = s * 2 ^ 31 + m := by
  have hq : m * c / c = m := Nat.mul_div_cancel m (by omega)
  have hr : m * c % c = 0 := Nat.mul_mod_left m c
  generalize hmc : m * c = mc at *
  unfold f64to32 rneShift
  simp only [Nat.reducePow] at *
  have h1 : (s * 9223372036854775808 + e' * 4503599627370496 + (mc - 4503599627370496)) / 9223372036854775808 % 2 = s := by omega
  have h2 : (s * 9223372036854775808 + e' * 4503599627370496 + (mc - 4503599627370496)) / 4503599627370496 % 2048 = e' := by omega
  have h3 : (s * 9223372036854775808 + e' * 4503599627370496 + (mc - 4503599627370496)) % 4503599627370496 = mc - 4503599627370496 := by omega
  simp only [h1, h2, h3]
  have h4 : 4503599627370496 + (mc - 4503599627370496) = mc := by omega
  rw [h4, ← hsh, ← hc, hq, hr]
  split
  · omega
  · split
    · omega
    · split
      · omega
      · split
        · omega
        · rfl

theorem f64to32_sub (s m : Nat) (hs : s < 2) (h0 : 0 < m) (hm : m < 2 ^ 23) :
    f64to32 (s * 2 ^ 63 + (topBit 23 m + 874) * 2 ^ 52 + (m * 2 ^ (52 - topBit 23 m) - 2 ^ 52)) = s * 2 ^ 31 + m := by
  obtain ⟨h1, h2, h3⟩ := topBit_spec 23 m h0 hm
  generalize topBit 23 m = k at *
  have e : 2 ^ k * 2 ^ (52 - k) = 2 ^ 52 := by rw [← Nat.pow_add]; congr 1; omega
  have e2 : 2 ^ (k + 1) * 2 ^ (52 - k) = 2 ^ 53 := by rw [← Nat.pow_add]; congr 1; omega
  have hpos : 0 < 2 ^ (52 - k) := Nat.pow_pos (by omega)
  apply f64to32_sub_aux s (k + 874) (52 - k) m (2 ^ (52 - k)) hs (by omega) (by omega) (by omega) rfl
  · calc 2 = 2 ^ 1 := rfl
      _ ≤ 2 ^ (52 - k) := Nat.pow_le_pow_right (by omega) (by omega)
  · rw [← e]; exact Nat.mul_le_mul_right _ h1
  · rw [← e2]; exact (Nat.mul_lt_mul_right hpos).mpr h2

set_option maxRecDepth 8000 in
theorem f64to32_inf (s : Nat) (hs : s < 2) : f64to32 (s * 2 ^ 63 + 2047 * 2 ^ 52) = s * 2 ^ 31 + 255 * 2 ^ 23 := by
  unfold f64to32
  simp only [Nat.reducePow]
  have h1 : (s * 9223372036854775808 + 2047 * 4503599627370496) / 9223372036854775808 % 2 = s := by omega
  have h2 : (s * 9223372036854775808 + 2047 * 4503599627370496) / 4503599627370496 % 2048 = 2047 := by omega
  have h3 : (s * 9223372036854775808 + 2047 * 4503599627370496) % 4503599627370496 = 0 := by omega
  simp [h1, h2, h3]

set_option maxRecDepth 8000 in
theorem f64to32_zero (s : Nat) (hs : s < 2) : f64to32 (s * 2 ^ 63) = s * 2 ^ 31 := by
  unfold f64to32
  simp only [Nat.reducePow]
  have h1 : (s * 9223372036854775808) / 9223372036854775808 % 2 = s := by omega
  have h2 : (s * 9223372036854775808) / 4503599627370496 % 2048 = 0 := by omega
  simp only [h1, h2]
  simp

set_option maxRecDepth 8000 in
/-- widening an `f32` and narrowing it again gives back every bit pattern that is not a NaN -/
theorem f32_roundtrip (b : Nat) (h : b < 2 ^ 32) (hn : f32IsNaN b = false) : f64to32 (f32to64 b) = b := by
  have hs : b / 2 ^ 31 % 2 < 2 := Nat.mod_lt _ (by omega)
  have hm : b % 2 ^ 23 < 2 ^ 23 := Nat.mod_lt _ (Nat.pow_pos (by omega))
  have hb : b / 2 ^ 31 % 2 * 2 ^ 31 + b / 2 ^ 23 % 256 * 2 ^ 23 + b % 2 ^ 23 = b := by
    simp only [Nat.reducePow] at *; omega
  simp only [f32IsNaN, Bool.and_eq_false_iff, beq_eq_false_iff_ne, bne_eq_false_iff_eq, ne_eq] at hn
  unfold f32to64
  simp only []
  split
  · rename_i he
    have hm0 : b % 2 ^ 23 = 0 := by rcases hn with hn | hn; exact absurd he hn; exact hn
    simp only [hm0, if_true]
    rw [f64to32_inf _ hs]
    rw [he, hm0] at hb
    exact hb
  · split
    · rename_i he0
      split
      · rename_i hm0
        rw [f64to32_zero _ hs]
        rw [he0, hm0] at hb
        simpa using hb
      · rename_i hm0
        rw [f64to32_sub _ _ hs (by omega) hm]
        rw [he0] at hb
        simpa using hb
    · rename_i he255 he0
      have he : b / 2 ^ 23 % 256 < 256 := Nat.mod_lt _ (by omega)
      rw [f64to32_normal _ _ _ hs (by omega) (by omega) hm]
      exact hb

end Edp.Serde
