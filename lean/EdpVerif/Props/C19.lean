import EdpVerif.Lemmas.Receiver
import EdpVerif.Lemmas.ReceiverRecv
import EdpVerif.Lemmas.ReceiverBP
import EdpVerif.Generated.Control
import EdpVerif.Generated.MiscC19
import EdpVerif.Generated.MiscC17
import EdpVerif.Generated.MiscState
/-!
C19 — inbound routing is exact and the connection's receiver outlives bad input.

Model: `Impl/Receiver.lean` (`classify` = what `receive_message_from_read_half` makes of a frame body, `route` =
`Node::route_message`, `loop` = the task of `spawn_receiver_task` over a read script, `wire` = histories of whole frames
with silences). `T` is the control table extracted from control.rs on this run; `x` (the decoder's external calls:
zlib, float text) is arbitrary everywhere. All statements hold for every registry content `st`, every segmentation
of the byte stream (`Clean` scripts: any chunking, `Pending` polls anywhere) and every length of history.
-/
namespace Edp.Props.C19
open Edp Edp.Framing Edp.Receiver

abbrev T : Control.Table := Gen.controlTable

/-! ## routing is exact -/

/-- SEND `{2, Cookie, ToPid}` + message for a live process: exactly that message is appended to exactly that mailbox;
every other mailbox, the set of processes, the names, the outstanding calls and their answers are untouched -/
theorem C19_send_to_live_process (st : NodeSt) (cookie body : Term) (p : PidF) (mb : List LMsg)
    (h : mailbox st p.key = some mb) :
    let st' := routeCtl T st (.tuple [.int 2, cookie, .pid p]) (some body)
    mailbox st' p.key = some (mb ++ [.regular body]) ∧
    (∀ k, k ≠ p.key → mailbox st' k = mailbox st k) ∧
    st'.procs.map (·.1) = st.procs.map (·.1) ∧
    st'.names = st.names ∧ st'.pending = st.pending ∧ st'.replies = st.replies := by
  have hl : isLive st p.key = true := by unfold isLive; rw [h]; rfl
  have hr : routeCtl T st (.tuple [.int 2, cookie, .pid p]) (some body) = sendTo st p.key (.regular body) := by
    show route st (.known "Send" [("cookie", .term cookie), ("to_pid", .term (.pid p))]) (some body) = _
    simp [route, armOf, fld, Control.lookup, hl]
  simp only [hr]
  exact ⟨mailbox_sendTo_same st _ _ mb h, fun k hk => mailbox_sendTo_other st _ k _ hk, sendTo_pids st _ _,
    rfl, rfl, rfl⟩

example : mailbox ⟨[(⟨[110], 1, 0, 3⟩, [])], [], [], []⟩ (PidF.key ⟨[110], 1, 0, 3, none⟩) = some [] := rfl

/-- a SEND for a pid that is not a live process but from which a remote call is outstanding answers that call, once:
the call is handed the message, its key is no longer pending, all other pending calls and all mailboxes stay -/
theorem C19_send_answers_outstanding_call (st : NodeSt) (cookie body : Term) (p : PidF)
    (hd : isLive st p.key = false) (hp : rpcKey p ∈ st.pending) :
    let st' := routeCtl T st (.tuple [.int 2, cookie, .pid p]) (some body)
    st'.replies = st.replies ++ [(rpcKey p, body)] ∧
    rpcKey p ∉ st'.pending ∧ (∀ k, k ≠ rpcKey p → (k ∈ st'.pending ↔ k ∈ st.pending)) ∧
    st'.procs = st.procs ∧ st'.names = st.names := by
  have hr : routeCtl T st (.tuple [.int 2, cookie, .pid p]) (some body) = answer st (rpcKey p) body := by
    show route st (.known "Send" [("cookie", .term cookie), ("to_pid", .term (.pid p))]) (some body) = _
    simp [route, armOf, fld, Control.lookup, hd, hp]
  simp only [hr]
  refine ⟨rfl, ?_, ?_, rfl, rfl⟩
  · simp [answer]
  · intro k hk
    simp [answer, hk]

example : isLive ⟨[], [], [(4, 0, 3)], []⟩ (PidF.key ⟨[110], 4, 0, 3, none⟩) = false ∧
    rpcKey ⟨[110], 4, 0, 3, none⟩ ∈ [((4 : Nat), (0 : Nat), (3 : Nat))] := by decide

/-- a SEND for a pid that is neither a live process nor the origin of an outstanding call changes nothing at all -/
theorem C19_send_to_unknown_dropped (st : NodeSt) (cookie body : Term) (p : PidF)
    (hd : isLive st p.key = false) (hp : rpcKey p ∉ st.pending) :
    routeCtl T st (.tuple [.int 2, cookie, .pid p]) (some body) = st := by
  show route st (.known "Send" [("cookie", .term cookie), ("to_pid", .term (.pid p))]) (some body) = _
  simp [route, armOf, fld, Control.lookup, hd, hp]

example : isLive ⟨[], [], [(4, 0, 3)], []⟩ (PidF.key ⟨[110], 5, 0, 3, none⟩) = false ∧
    rpcKey ⟨[110], 5, 0, 3, none⟩ ∉ [((4 : Nat), (0 : Nat), (3 : Nat))] := by decide

/-- a call is answered once: the same SEND a second time finds neither a process nor an outstanding call -/
theorem C19_call_answered_once (st : NodeSt) (cookie body cookie2 body2 : Term) (p : PidF)
    (hd : isLive st p.key = false) (hp : rpcKey p ∈ st.pending) :
    let st' := routeCtl T st (.tuple [.int 2, cookie, .pid p]) (some body)
    routeCtl T st' (.tuple [.int 2, cookie2, .pid p]) (some body2) = st' := by
  obtain ⟨_, h2, _, h4, _⟩ := C19_send_answers_outstanding_call st cookie body p hd hp
  intro st'
  apply C19_send_to_unknown_dropped
  · show isLive st' p.key = false
    unfold isLive mailbox at hd ⊢
    rw [show st'.procs = st.procs from h4]
    exact hd
  · exact h2

/-- badly addressed operations are dropped without effect: a SEND without a message or to something that is not a
pid, a REG_SEND to something that is not an atom, an EXIT from something that is not a pid, a MONITOR_P_EXIT whose
reference is not a reference -/
theorem C19_malformed_addressing_dropped (st : NodeSt) (a b c d body : Term) (p q : PidF) :
    routeCtl T st (.tuple [.int 2, a, .pid p]) none = st ∧
    ((∀ r, b ≠ .pid r) → routeCtl T st (.tuple [.int 2, a, b]) (some body) = st) ∧
    ((∀ n, c ≠ .atom n) → routeCtl T st (.tuple [.int 6, a, b, c]) (some body) = st) ∧
    ((∀ r, a ≠ .pid r) → routeCtl T st (.tuple [.int 3, a, .pid p, d]) none = st) ∧
    ((∀ n cr ids l, c ≠ .ref n cr ids l) → routeCtl T st (.tuple [.int 21, .pid q, .pid p, c, d]) none = st) := by
  refine ⟨?_, ?_, ?_, ?_, ?_⟩
  · show route st (.known "Send" [("cookie", .term a), ("to_pid", .term (.pid p))]) none = _
    simp [route, armOf, fld, Control.lookup]
  · intro h
    show route st (.known "Send" [("cookie", .term a), ("to_pid", .term b)]) (some body) = _
    cases b <;> first | exact absurd rfl (h _) | simp [route, armOf, fld, Control.lookup]
  · intro h
    show route st (.known "RegSend" [("from_pid", .term a), ("cookie", .term b), ("to_name", .term c)]) (some body) = _
    cases c <;> first | exact absurd rfl (h _) | simp [route, armOf, fld, Control.lookup]
  · intro h
    show route st (.known "Exit" [("from_pid", .term a), ("to_pid", .term (.pid p)), ("reason", .term d)]) none = _
    cases a <;> first | exact absurd rfl (h _) | simp [route, armOf, fld, Control.lookup]
  · intro h
    show route st (.known "MonitorPExit" [("from_proc", .term (.pid q)), ("to_pid", .term (.pid p)),
      ("reference", .term c), ("reason", .term d)]) none = _
    cases c <;> first | exact absurd rfl (h _ _ _ _) | simp [route, armOf, fld, Control.lookup]

/-- REG_SEND `{6, FromPid, Cookie, ToName}` + message for a registered name whose owner is live: exactly that message
goes to exactly that process -/
theorem C19_regsend_to_registered_name (st : NodeSt) (sender cookie body : Term) (n : Bytes) (k : PidKey)
    (mb : List LMsg) (hw : whereis st n = some k) (h : mailbox st k = some mb) :
    let st' := routeCtl T st (.tuple [.int 6, sender, cookie, .atom n]) (some body)
    mailbox st' k = some (mb ++ [.regular body]) ∧
    (∀ k', k' ≠ k → mailbox st' k' = mailbox st k') ∧
    st'.procs.map (·.1) = st.procs.map (·.1) ∧
    st'.names = st.names ∧ st'.pending = st.pending ∧ st'.replies = st.replies := by
  have hl : isLive st k = true := by unfold isLive; rw [h]; rfl
  have hr : routeCtl T st (.tuple [.int 6, sender, cookie, .atom n]) (some body) = sendTo st k (.regular body) := by
    show route st (.known "RegSend" [("from_pid", .term sender), ("cookie", .term cookie),
      ("to_name", .term (.atom n))]) (some body) = _
    simp [route, armOf, fld, Control.lookup, hw, hl]
  simp only [hr]
  exact ⟨mailbox_sendTo_same st _ _ mb h, fun k' hk => mailbox_sendTo_other st _ k' _ hk, sendTo_pids st _ _,
    rfl, rfl, rfl⟩

example : whereis ⟨[(⟨[110], 1, 0, 3⟩, [])], [([115], ⟨[110], 1, 0, 3⟩)], [], []⟩ [115] = some ⟨[110], 1, 0, 3⟩ := by
  decide

/-- a REG_SEND for a name nobody holds, or whose holder is gone, changes nothing -/
theorem C19_regsend_unknown_dropped (st : NodeSt) (sender cookie body : Term) (n : Bytes)
    (h : whereis st n = none ∨ ∃ k, whereis st n = some k ∧ isLive st k = false) :
    routeCtl T st (.tuple [.int 6, sender, cookie, .atom n]) (some body) = st := by
  show route st (.known "RegSend" [("from_pid", .term sender), ("cookie", .term cookie),
    ("to_name", .term (.atom n))]) (some body) = _
  rcases h with h | ⟨k, h1, h2⟩
  · simp [route, armOf, fld, Control.lookup, h]
  · simp [route, armOf, fld, Control.lookup, h1, h2]

example : whereis ⟨[], [], [], []⟩ [115] = none := by decide

/-- EXIT `{3, FromPid, ToPid, Reason}` for a live process: it finds the exit notification in its mailbox with the
sender and the reason as sent; nothing else changes -/
theorem C19_exit_reaches_target (st : NodeSt) (sender to : PidF) (reason : Term) (mb : List LMsg)
    (h : mailbox st to.key = some mb) :
    let st' := routeCtl T st (.tuple [.int 3, .pid sender, .pid to, reason]) none
    mailbox st' to.key = some (mb ++ [.exit sender reason]) ∧
    (∀ k, k ≠ to.key → mailbox st' k = mailbox st k) ∧
    st'.procs.map (·.1) = st.procs.map (·.1) ∧
    st'.names = st.names ∧ st'.pending = st.pending ∧ st'.replies = st.replies := by
  have hl : isLive st to.key = true := by unfold isLive; rw [h]; rfl
  have hr : routeCtl T st (.tuple [.int 3, .pid sender, .pid to, reason]) none = sendTo st to.key (.exit sender reason) := by
    show route st (.known "Exit" [("from_pid", .term (.pid sender)), ("to_pid", .term (.pid to)),
      ("reason", .term reason)]) none = _
    simp [route, armOf, fld, Control.lookup, hl]
  simp only [hr]
  exact ⟨mailbox_sendTo_same st _ _ mb h, fun k hk => mailbox_sendTo_other st _ k _ hk, sendTo_pids st _ _,
    rfl, rfl, rfl⟩

/-- MONITOR_P_EXIT `{21, FromProc, ToPid, Ref, Reason}` for a live process: the notification carries the monitored
process, the reference and the reason as sent; nothing else changes -/
theorem C19_monitor_exit_reaches_target (st : NodeSt) (sender to : PidF) (rn : Bytes) (rc : Nat) (ids : List Nat)
    (rl : Option Bytes) (reason : Term) (mb : List LMsg) (h : mailbox st to.key = some mb) :
    let st' := routeCtl T st (.tuple [.int 21, .pid sender, .pid to, .ref rn rc ids rl, reason]) none
    mailbox st' to.key = some (mb ++ [.monitorExit sender (.ref rn rc ids rl) reason]) ∧
    (∀ k, k ≠ to.key → mailbox st' k = mailbox st k) ∧
    st'.procs.map (·.1) = st.procs.map (·.1) ∧
    st'.names = st.names ∧ st'.pending = st.pending ∧ st'.replies = st.replies := by
  have hl : isLive st to.key = true := by unfold isLive; rw [h]; rfl
  have hr : routeCtl T st (.tuple [.int 21, .pid sender, .pid to, .ref rn rc ids rl, reason]) none =
      sendTo st to.key (.monitorExit sender (.ref rn rc ids rl) reason) := by
    show route st (.known "MonitorPExit" [("from_proc", .term (.pid sender)), ("to_pid", .term (.pid to)),
      ("reference", .term (.ref rn rc ids rl)), ("reason", .term reason)]) none = _
    simp [route, armOf, fld, Control.lookup, hl]
  simp only [hr]
  exact ⟨mailbox_sendTo_same st _ _ mb h, fun k hk => mailbox_sendTo_other st _ k _ hk, sendTo_pids st _ _,
    rfl, rfl, rfl⟩

/-- exit and monitor notifications for a process that does not exist (any more) change nothing -/
theorem C19_notifications_for_unknown_dropped (st : NodeSt) (sender to : PidF) (rf reason : Term)
    (hd : isLive st to.key = false) :
    routeCtl T st (.tuple [.int 3, .pid sender, .pid to, reason]) none = st ∧
    routeCtl T st (.tuple [.int 8, .pid sender, .pid to, reason]) none = st ∧
    routeCtl T st (.tuple [.int 21, .pid sender, .pid to, rf, reason]) none = st := by
  refine ⟨?_, ?_, ?_⟩
  · show route st (.known "Exit" [("from_pid", .term (.pid sender)), ("to_pid", .term (.pid to)),
      ("reason", .term reason)]) none = _
    simp [route, armOf, fld, Control.lookup, hd]
  · show route st (.known "Exit2" [("from_pid", .term (.pid sender)), ("to_pid", .term (.pid to)),
      ("reason", .term reason)]) none = _
    simp [route, armOf, fld, Control.lookup, hd]
  · show route st (.known "MonitorPExit" [("from_proc", .term (.pid sender)), ("to_pid", .term (.pid to)),
      ("reference", .term rf), ("reason", .term reason)]) none = _
    cases rf <;> simp [route, armOf, fld, Control.lookup, hd]

/-- the forms a conforming peer may use without negotiation are routed like the plain ones: EXIT2 (`exit/2`) like EXIT,
and the trace-token forms SEND_TT, REG_SEND_TT, EXIT_TT, EXIT2_TT like SEND, REG_SEND, EXIT (the token is dropped) -/
theorem C19_exit2_and_trace_token_forms (st : NodeSt) (a b c d tt : Term) (payload : Option Term) :
    routeCtl T st (.tuple [.int 8, a, b, c]) payload = routeCtl T st (.tuple [.int 3, a, b, c]) payload ∧
    routeCtl T st (.tuple [.int 12, a, b, tt]) payload = routeCtl T st (.tuple [.int 2, a, b]) payload ∧
    routeCtl T st (.tuple [.int 16, a, b, c, tt]) payload = routeCtl T st (.tuple [.int 6, a, b, c]) payload ∧
    routeCtl T st (.tuple [.int 13, a, b, tt, d]) payload = routeCtl T st (.tuple [.int 3, a, b, d]) payload ∧
    routeCtl T st (.tuple [.int 18, a, b, tt, d]) payload = routeCtl T st (.tuple [.int 3, a, b, d]) payload := by
  refine ⟨?_, ?_, ?_, ?_, ?_⟩
  · show route st (.known "Exit2" [("from_pid", .term a), ("to_pid", .term b), ("reason", .term c)]) payload =
      route st (.known "Exit" [("from_pid", .term a), ("to_pid", .term b), ("reason", .term c)]) payload
    simp [route, armOf, fld, Control.lookup]
  · show route st (.known "SendTt" [("cookie", .term a), ("to_pid", .term b), ("trace_token", .term tt)]) payload =
      route st (.known "Send" [("cookie", .term a), ("to_pid", .term b)]) payload
    simp [route, armOf, fld, Control.lookup]
  · show route st (.known "RegSendTt" [("from_pid", .term a), ("cookie", .term b), ("to_name", .term c),
        ("trace_token", .term tt)]) payload =
      route st (.known "RegSend" [("from_pid", .term a), ("cookie", .term b), ("to_name", .term c)]) payload
    simp [route, armOf, fld, Control.lookup]
  · show route st (.known "ExitTt" [("from_pid", .term a), ("to_pid", .term b), ("trace_token", .term tt),
        ("reason", .term d)]) payload =
      route st (.known "Exit" [("from_pid", .term a), ("to_pid", .term b), ("reason", .term d)]) payload
    simp [route, armOf, fld, Control.lookup]
  · show route st (.known "Exit2Tt" [("from_pid", .term a), ("to_pid", .term b), ("trace_token", .term tt),
        ("reason", .term d)]) payload =
      route st (.known "Exit" [("from_pid", .term a), ("to_pid", .term b), ("reason", .term d)]) payload
    simp [route, armOf, fld, Control.lookup]

/-- every other control kind — all remaining known operations in any arity, unknown operation numbers, known
numbers in an unexpected arity — changes nothing (a fact about the table extracted from control.rs on this run) -/
theorem C19_unrouted_kinds_change_nothing (st : NodeSt) (tag : Int) (args : List Term) (payload : Option Term)
    (h : tag.toNat ∉ [2, 3, 6, 8, 12, 13, 16, 18, 21]) :
    routeCtl T st (.tuple (.int tag :: args)) payload = st :=
  routeCtl_unrouted T (by decide) st tag args payload h

example : (99 : Int).toNat ∉ [2, 3, 6, 8, 12, 13, 16, 18, 21] ∧ (19 : Int).toNat ∉ [2, 3, 6, 8, 12, 13, 16, 18, 21] := by
  decide

/-- the routing table as written in node.rs on this run (`Generated/Misc.lean` `ROUTE_ARMS`): a variant is routed by the arm
whose pattern names it — by which fields, through which lookups, into which `Message` -/
def armOfSource (v : String) : Arm :=
  match Gen.ROUTE_ARMS.find? (fun a => a.1.contains v) with
  | some (_, fields, msg, lookups) =>
    if msg = "Regular" ∧ fields = ["to_pid"] ∧ lookups = ["get", "rpc"] then .send
    else if msg = "Regular" ∧ fields = ["to_name"] ∧ lookups = ["whereis", "get"] then .regSend
    else if msg = "Exit" ∧ fields = ["from_pid", "reason", "to_pid"] ∧ lookups = ["get"] then .exit
    else if msg = "MonitorExit" ∧ fields = ["from_proc", "reason", "reference", "to_pid"] ∧ lookups = ["get"] then .monitorExit
    else .ignored
  | none => .ignored

/-- the protocol's table (erl_dist_protocol): SEND 2 / SEND_TT 12 carry a message for a pid, REG_SEND 6 / REG_SEND_TT 16 for a
name, EXIT 3 / EXIT2 8 / EXIT_TT 13 / EXIT2_TT 18 an exit signal, MONITOR_P_EXIT 21 a monitor notification; no other operation
this library negotiates addresses a process with something to deliver -/
def specRoute : Nat → Arm
  | 2 => .send | 12 => .send
  | 6 => .regSend | 16 => .regSend
  | 3 => .exit | 8 => .exit | 13 => .exit | 18 => .exit
  | 21 => .monitorExit
  | _ => .ignored

/-- **the routing table is the source's and the protocol's**: for every variant of `ControlMessage` the model's `armOf` is the
arm written in `route_message` (dropping a variant from a pattern, reading another field, sending another `Message` or
skipping a lookup changes `ROUTE_ARMS` and breaks this), for every operation number of `ControlMessageType` it is what the
protocol says; unlisted variants fall into `_ => {}`; the errors the loop survives and the idle limit are the model's -/
theorem C19_route_table_is_the_sources_and_the_protocols :
    (∀ v ∈ T.variants.map (·.1) ++ ["Generic", "NoSuchVariant"], armOf v = armOfSource v) ∧
    (∀ p ∈ T.enumTags, armOf p.1 = specRoute p.2) ∧
    Gen.ROUTE_DEFAULT_IGNORED = true ∧
    Gen.RECEIVER_SKIPPED_ERRORS = ["Decode", "InvalidControlMessage", "Protocol"] ∧
    Gen.NODE_NET_TICK_TIME_MS = idleLimitMs := by
  decide

example : armOfSource "Exit2Tt" = .exit ∧ armOfSource "MonitorP" = .ignored ∧ specRoute 16 = .regSend := by decide

/-- **exactly one recipient**: whatever arrives — any control message, any payload, any registry — routing does
nothing, or appends one message to the mailbox of one live process, or hands one message to one outstanding call -/
theorem C19_at_most_one_recipient (st : NodeSt) (m : Control.Msg) (payload : Option Term) :
    route st m payload = st ∨
    (∃ k msg, isLive st k = true ∧ route st m payload = sendTo st k msg) ∨
    (∃ key body, key ∈ st.pending ∧ route st m payload = answer st key body) := by
  unfold route
  split
  · exact Or.inl rfl
  · split
    · split
      · split
        · rename_i hl; exact Or.inr (Or.inl ⟨_, _, hl, rfl⟩)
        · split
          · rename_i hp; exact Or.inr (Or.inr ⟨_, _, hp, rfl⟩)
          · exact Or.inl rfl
      · exact Or.inl rfl
    · split
      · split
        · split
          · rename_i hl; exact Or.inr (Or.inl ⟨_, _, hl, rfl⟩)
          · exact Or.inl rfl
        · exact Or.inl rfl
      · exact Or.inl rfl
    · split
      · split
        · rename_i hl; exact Or.inr (Or.inl ⟨_, _, hl, rfl⟩)
        · exact Or.inl rfl
      · exact Or.inl rfl
    · split
      · split
        · rename_i hl; exact Or.inr (Or.inl ⟨_, _, hl, rfl⟩)
        · exact Or.inl rfl
      · exact Or.inl rfl
    · exact Or.inl rfl

/-- nothing is ever taken away: a routed message leaves every process alive, every name registered, and every
mailbox with what it held before (plus at most one message at the end) -/
theorem C19_routing_never_loses (st : NodeSt) (m : Control.Msg) (payload : Option Term) (k : PidKey) (mb : List LMsg)
    (h : mailbox st k = some mb) :
    (∃ extra, mailbox (route st m payload) k = some (mb ++ extra) ∧ extra.length ≤ 1) ∧
    (route st m payload).names = st.names ∧
    (route st m payload).procs.map (·.1) = st.procs.map (·.1) := by
  rcases C19_at_most_one_recipient st m payload with hr | ⟨k', msg, _, hr⟩ | ⟨key, body, _, hr⟩
  · rw [hr]; exact ⟨⟨[], by simp [h], by simp⟩, rfl, rfl⟩
  · rw [hr]
    refine ⟨?_, rfl, sendTo_pids st k' msg⟩
    by_cases hk : k = k'
    · subst hk; exact ⟨[msg], mailbox_sendTo_same st k msg mb h, by simp⟩
    · exact ⟨[], by rw [mailbox_sendTo_other st k' k msg hk]; simp [h], by simp⟩
  · rw [hr]; exact ⟨⟨[], by simp [answer, mailbox] at h ⊢; simpa using h, by simp⟩, rfl, rfl⟩

/-- over whole histories: whatever a sequence of frames does, every mailbox keeps what it held and only grows at the
end (messages to one process arrive in the order they were sent and are never lost or overtaken), every process stays,
every name stays -/
theorem C19_mailboxes_only_grow (x : Ext) (bodies : List Bytes) (st : NodeSt) (k : PidKey) (mb : List LMsg)
    (h : mailbox st k = some mb) :
    (∃ extra, mailbox (routeAll x T st bodies) k = some (mb ++ extra)) ∧
    (routeAll x T st bodies).names = st.names ∧
    (routeAll x T st bodies).procs.map (·.1) = st.procs.map (·.1) := by
  induction bodies generalizing st mb with
  | nil => exact ⟨⟨[], by simp [routeAll, h]⟩, rfl, rfl⟩
  | cons b bs ih =>
    simp only [routeAll]
    cases hc : classify x T b with
    | error e =>
      by_cases hk : keepGoing e = true
      · simp only [step, hk, if_true]; exact ih st mb h
      · simp only [step, hk]; exact ih st mb h
    | ok r =>
      obtain ⟨m, p⟩ := r
      simp only [step]
      obtain ⟨⟨e1, he1, _⟩, hn, hp⟩ := C19_routing_never_loses st m p k mb h
      obtain ⟨⟨e2, he2⟩, hn2, hp2⟩ := ih (route st m p) (mb ++ e1) he1
      exact ⟨⟨e1 ++ e2, by rw [he2, List.append_assoc]⟩, hn2.trans hn, hp2.trans hp⟩

/-! ## from the bytes of a frame -/

/-- the fate of a frame is a function of its bytes alone (`classify` has no other argument): a pass-through body whose
control term decodes to `ct` (a control tuple) and whose message decodes to `p` with nothing after it is routed as `(ct, p)`;
an empty rest means no message. No state of the receiver enters. -/
theorem C19_frame_fate_is_in_its_bytes (x : Ext) (st : NodeSt) (r rest : Bytes) (ct : Term) (m : Control.Msg)
    (hd : decodeTrailing x r = .ok (ct, rest)) (hm : Control.parse T ct = .ok m) :
    (rest = [] → step st (classify x T (112 :: r)) = .ok (routeCtl T st ct none)) ∧
    (∀ p, rest ≠ [] → decodeTrailing x rest = .ok (p, []) →
      step st (classify x T (112 :: r)) = .ok (routeCtl T st ct (some p))) := by
  obtain ⟨h1, h2, _⟩ := classify_pass x T r rest ct m hd hm
  constructor
  · intro h0; rw [h1 h0]; simp [step, routeCtl, hm]
  · intro p h0 hp; rw [h2 p h0 hp]; simp [step, routeCtl, hm]

/-- bytes after the payload term (connection.rs: `DecodeError::TrailingData`): the frame is not delivered to anybody, no
state changes, and the loop goes on with the next frame (the stream is at a frame boundary) -/
theorem C19_trailing_bytes_after_payload_skip_the_frame (x : Ext) (st : NodeSt) (r rest rr : Bytes) (ct p : Term)
    (m : Control.Msg) (hd : decodeTrailing x r = .ok (ct, rest)) (hm : Control.parse T ct = .ok m)
    (h0 : rest ≠ []) (h1 : rr ≠ []) (hp : decodeTrailing x rest = .ok (p, rr)) :
    classify x T (112 :: r) = .error .decode ∧ step st (classify x T (112 :: r)) = .ok st ∧
      Survivable x T (112 :: r) := by
  obtain ⟨_, _, h3⟩ := classify_pass x T r rest ct m hd hm
  have hc := h3 p rr h0 h1 hp
  refine ⟨hc, by rw [hc]; rfl, ?_⟩
  intro e he
  rw [hc] at he
  cases he
  rfl

/-- non-vacuity: `112, {2, '', <n.1.0>}, 7` followed by one more byte -/
example :
    let p : PidF := ⟨[110], 1, 0, 3, none⟩
    let r : Bytes := [131, 104, 3, 97, 2, 119, 0, 88, 119, 1, 110, 0, 0, 0, 1, 0, 0, 0, 0, 0, 0, 0, 3, 131, 97, 7, 255]
    decodeTrailing Ext.none r = .ok (.tuple [.int 2, .atom [], .pid p], [131, 97, 7, 255]) ∧
    decodeTrailing Ext.none [131, 97, 7, 255] = .ok (.int 7, [255]) := by
  have v0 : validUtf8 [] = true := by decide
  have v1 : validUtf8 [110] = true := by decide
  refine ⟨?_, ?_⟩
  · simp [decodeTrailing, Ext.none, dec, decN, MAX_NESTING_DEPTH, MAX_ATOM_SIZE, rdU, rdN, decAtomBody, takeE, takeN, v0, v1]
  · simp [decodeTrailing, Ext.none, dec, MAX_NESTING_DEPTH, rdU, rdN]

/-- one Rust function, two models: `classify` here and `Recv.recvRH` of property C06 (`Impl/Recv.lean`) give the same result
on every frame body, for every control table (the C06 model has one error class and reads an empty body as "no result") -/
theorem C19_classify_is_the_c06_model (x : Ext) (tbl : Control.Table) (body : Bytes) :
    toRecvRes (classify x tbl body) = Recv.recvRH x tbl body :=
  classify_eq_recvRH x tbl body

example : toRecvRes (classify Ext.none T [113, 1]) = some .err := by
  simp [classify, toRecvRes]

/-- non-vacuity from real bytes: the frame body `112, {2, '', <n.1.0>}, 7` (a SEND with message 7) decodes, parses and is
delivered to the process it names -/
example :
    let p : PidF := ⟨[110], 1, 0, 3, none⟩
    let st : NodeSt := ⟨[(p.key, [])], [], [], []⟩
    let r : Bytes := [131, 104, 3, 97, 2, 119, 0, 88, 119, 1, 110, 0, 0, 0, 1, 0, 0, 0, 0, 0, 0, 0, 3, 131, 97, 7]
    decodeTrailing Ext.none r = .ok (.tuple [.int 2, .atom [], .pid p], [131, 97, 7]) ∧
    decodeTrailing Ext.none [131, 97, 7] = .ok (.int 7, []) ∧
    Control.parse T (.tuple [.int 2, .atom [], .pid p]) = .ok (.known "Send" [("cookie", .term (.atom [])), ("to_pid", .term (.pid p))]) ∧
    mailbox (routeCtl T st (.tuple [.int 2, .atom [], .pid p]) (some (.int 7))) p.key = some [.regular (.int 7)] := by
  have v0 : validUtf8 [] = true := by decide
  have v1 : validUtf8 [110] = true := by decide
  refine ⟨?_, ?_, rfl, ?_⟩
  · simp [decodeTrailing, Ext.none, dec, decN, MAX_NESTING_DEPTH, MAX_ATOM_SIZE, rdU, rdN, decAtomBody, takeE, takeN, v0, v1]
  · simp [decodeTrailing, Ext.none, dec, MAX_NESTING_DEPTH, rdU, rdN]
  · exact (C19_send_to_live_process ⟨[(PidF.key ⟨[110], 1, 0, 3, none⟩, [])], [], [], []⟩ (.atom []) (.int 7)
      ⟨[110], 1, 0, 3, none⟩ [] rfl).1

/-- what a frame body can be to the receiver: a message, or one of five errors; three of them (`Error::Decode`,
`Error::InvalidControlMessage`, `Error::Protocol`) are survived, so a body is survivable unless it is empty (which a
frame never is) or makes the decoder panic -/
theorem C19_survivable_bodies (x : Ext) (body : Bytes) :
    (Survivable x T body ↔ classify x T body ≠ .error .empty ∧ classify x T body ≠ .error .panic) ∧
    (∀ b r, b ≠ 112 → classify x T (b :: r) = .error (.marker b)) ∧
    (∀ r, (∀ v, decodeTrailing x r ≠ .ok v) → decodeTrailing x r ≠ .error .panic →
      classify x T (112 :: r) = .error .decode) := by
  refine ⟨survivable_iff x T body, ?_, ?_⟩
  · intro b r hb
    simp [classify, hb]
  · intro r h1 h2
    unfold classify
    simp only [ne_eq, not_true_eq_false, if_false]
    cases hd : decodeTrailing x r with
    | ok v => exact absurd hd (h1 v)
    | error e =>
      cases e with
      | panic => exact absurd hd h2
      | err => rfl
      | trailing n => rfl

example : Survivable Ext.none T [113, 1, 2] := by
  intro e he
  simp [classify] at he
  subst he; rfl

example : Survivable Ext.none T [112] := by
  intro e he
  simp [classify, decodeTrailing] at he
  subst he; rfl

/-! ## the receiver outlives bad input -/

/-- **survival**: after any finite sequence of complete frames — deliverable messages, messages for unknown recipients,
unknown control kinds, control terms that are no control tuples, undecodable bodies, bodies with a wrong first byte —
and ticks (the empty bodies), in any segmentation, with `Pending` polls (silence) anywhere, the loop is exactly where
a loop started afresh on the routed state would be: still running, the connection still registered, and the rest of
the stream is read as if nothing had happened. -/
theorem C19_survives (x : Ext) (bodies : List Bytes) (st : NodeSt) (c tail : List Ev)
    (hb : ∀ b ∈ bodies, Framable b ∧ (b ≠ [] → Survivable x T b)) (hc : Clean c)
    (hp : payload c = (bodies.map (frame .distribution)).flatten) :
    loop x T st (c ++ tail) = loop x T (routeAll x T st bodies) tail :=
  loop_clean_frames x T tail bodies st c hb hc hp

example : (∀ b ∈ [[113, 1, 2], [], [112]], Framable b ∧ (b ≠ [] → Survivable Ext.none T b)) ∧
    Clean [.chunk [0, 0, 0], .pending, .chunk [3, 113, 1, 2, 0, 0, 0, 0, 0], .chunk [0, 0, 1, 112]] ∧
    payload [.chunk [0, 0, 0], .pending, .chunk [3, 113, 1, 2, 0, 0, 0, 0, 0], .chunk [0, 0, 1, 112]] =
      (([[113, 1, 2], [], [112]] : List Bytes).map (frame .distribution)).flatten := by
  refine ⟨?_, by simp [Clean], by decide⟩
  intro b hb
  simp only [List.mem_cons, List.not_mem_nil, or_false] at hb
  rcases hb with rfl | rfl | rfl
  · refine ⟨⟨by decide, by decide⟩, fun _ e he => ?_⟩
    simp [classify] at he; subst he; rfl
  · exact ⟨⟨by decide, by decide⟩, fun h => absurd rfl h⟩
  · refine ⟨⟨by decide, by decide⟩, fun _ e he => ?_⟩
    simp [classify, decodeTrailing] at he; subst he; rfl

/-- frames without effect leave no trace: bodies that are skipped or routed nowhere (`Inert`: undecodable, wrong marker,
not a control tuple, unrouted control kinds), wherever they stand in a history, do not change what any other frame does -/
theorem C19_inert_frames_leave_no_trace (x : Ext) (st : NodeSt) (before after : List Bytes) (b : Bytes)
    (h : Inert x T b) :
    routeAll x T st (before ++ b :: after) = routeAll x T st (before ++ after) := by
  rw [routeAll_append, routeAll_append, routeAll_inert x T _ b after h]

example : Inert Ext.none T [113] := by
  intro st; simp [classify, step, keepGoing]

/-- no hidden state: what a history does is the composition of what its parts do, so a frame's fate after any
survived prefix is its fate at a fresh loop on the state the prefix left -/
theorem C19_no_hidden_state (x : Ext) (st : NodeSt) (b1 b2 : List Bytes) (c1 c2 tail : List Ev)
    (h1 : ∀ b ∈ b1, Framable b ∧ (b ≠ [] → Survivable x T b)) (h2 : ∀ b ∈ b2, Framable b ∧ (b ≠ [] → Survivable x T b))
    (hc1 : Clean c1) (hc2 : Clean c2)
    (hp1 : payload c1 = (b1.map (frame .distribution)).flatten)
    (hp2 : payload c2 = (b2.map (frame .distribution)).flatten) :
    loop x T st (c1 ++ (c2 ++ tail)) = loop x T (routeAll x T st b1) (c2 ++ tail) ∧
    loop x T (routeAll x T st b1) (c2 ++ tail) = loop x T (routeAll x T st (b1 ++ b2)) tail := by
  refine ⟨loop_clean_frames x T _ b1 st c1 h1 hc1 hp1, ?_⟩
  rw [routeAll_append]
  exact loop_clean_frames x T tail b2 _ c2 h2 hc2 hp2

/-- quiet periods: a history of survivable frames, ticks and silences during which no single wait reaches the idle
limit (a tick, like any frame, starts a new wait) is survived; the silences leave no trace -/
theorem C19_survives_quiet_periods (x : Ext) (limit : Nat) (h : List Item) (w : Nat) (st : NodeSt) (tail : List Ev)
    (hc : Calm x T limit w h) :
    loop x T st (wire limit w h ++ tail) = loop x T (routeAll x T st (bodiesOf h)) tail :=
  loop_calm x T limit tail h w st hc

example : Calm Ext.none T idleLimitMs 0 [.quiet 15000, .tick, .quiet 15000, .quiet 15000, .tick, .quiet 59999] := by
  simp [Calm, idleLimitMs]

/-- the idle limit the node gives its receiver covers the interval at which a peer ticks (a quarter of Erlang's
default net_ticktime of 60 s), with the whole tick time to spare -/
theorem C19_idle_limit_covers_tick_interval : 4 * 15000 ≤ idleLimitMs := by decide

/-! ## it stops, and the connection is deregistered, only when the peer closes the stream or breaks framing -/

/-- the peer closes the stream at a frame boundary (after any survived history): the loop ends with what was routed,
and the connection is deregistered. The same when the script simply ends. -/
theorem C19_stops_on_close (x : Ext) (bodies : List Bytes) (st : NodeSt) (c tail : List Ev)
    (hb : ∀ b ∈ bodies, Framable b ∧ (b ≠ [] → Survivable x T b)) (hc : Clean c)
    (hp : payload c = (bodies.map (frame .distribution)).flatten) :
    loop x T st (c ++ .eof :: tail) = ⟨routeAll x T st bodies, .eof, tail⟩ ∧
    loop x T st (c ++ []) = ⟨routeAll x T st bodies, .eof, []⟩ ∧
    (loop x T st (c ++ .eof :: tail)).deregistered = true := by
  have h1 := loop_clean_frames x T (.eof :: tail) bodies st c hb hc hp
  have h2 := loop_clean_frames x T [] bodies st c hb hc hp
  rw [loop_eof] at h1
  rw [loop_nil] at h2
  exact ⟨h1, h2, by rw [h1]; rfl⟩

/-- a length prefix above the limit (64 MiB) breaks framing: the loop ends right there, nothing after it is read -/
theorem C19_stops_on_overlong_length (x : Ext) (st : NodeSt) (c : List Ev) (len : Nat) (rest : Bytes) (tail : List Ev)
    (hc : Clean c) (hp : payload c = beN 4 len ++ rest) (hl : len < 2 ^ 32) (hcap : connCap < len) :
    ∃ c', Clean c' ∧ payload c' = rest ∧ loop x T st (c ++ tail) = ⟨st, .tooLarge len, c' ++ tail⟩ ∧
      (loop x T st (c ++ tail)).deregistered = true := by
  obtain ⟨c', k1, k2, k3⟩ := loop_clean_overlong x T st c len rest tail hc hp hl hcap
  exact ⟨c', k1, k2, k3, by rw [k3]; rfl⟩

example : Clean [.chunk [4, 0], .chunk [0, 1, 9]] ∧ payload [.chunk [4, 0], .chunk [0, 1, 9]] = beN 4 (connCap + 1) ++ [9] ∧
    connCap + 1 < 2 ^ 32 := by
  refine ⟨by simp [Clean], by decide, by decide⟩

/-- the stream ends inside a frame (premature close): the loop ends, nothing of the partial frame is routed -/
theorem C19_stops_on_close_inside_frame (x : Ext) (st : NodeSt) (c : List Ev) (m missing : Bytes) (tail : List Ev)
    (hc : Clean c) (hp : payload c ++ missing = frame .distribution m) (hmiss : missing ≠ [])
    (hf : Framable m) (ht : tail = [] ∨ ∃ t, tail = .eof :: t) :
    (loop x T st (c ++ tail)).why = .eof ∧ (loop x T st (c ++ tail)).node = st ∧
    (loop x T st (c ++ tail)).deregistered = true := by
  obtain ⟨h1, h2⟩ := loop_clean_short x T st c m missing tail hc hp hmiss hf.1 hf.2 ht
  exact ⟨h1, h2, by simp [Fin.deregistered, h1]⟩

example : payload [.chunk [0, 0], .chunk [0, 3, 112]] ++ [1, 2] = frame .distribution [112, 1, 2] := by decide

/-- the peer falls silent inside a frame until the timeout around the read fires: the loop ends (the bytes already
consumed are gone, the stream position is unknown), nothing of the partial frame is routed -/
theorem C19_stops_on_silence_inside_frame (x : Ext) (st : NodeSt) (c : List Ev) (m missing : Bytes) (t : List Ev)
    (hc : Clean c) (hp : payload c ++ missing = frame .distribution m) (hmiss : missing ≠ []) (hf : Framable m) :
    (loop x T st (c ++ .stall :: t)).why = .timeout ∧ (loop x T st (c ++ .stall :: t)).node = st ∧
    (loop x T st (c ++ .stall :: t)).deregistered = true := by
  obtain ⟨h1, h2⟩ := loop_clean_short_stall x T st c m missing t hc hp hmiss hf.1 hf.2
  exact ⟨h1, h2, by simp [Fin.deregistered, h1]⟩

example : payload [.chunk [0, 0, 0, 3], .pending, .chunk [112, 1]] ++ [2] = frame .distribution [112, 1, 2] ∧
    Framable [112, 1, 2] := by
  exact ⟨by decide, by decide, by decide⟩

/-- the wait for the next frame reaches the idle limit (the peer stopped ticking), or the transport fails: the loop ends -/
theorem C19_stops_on_idle_timeout_or_io_error (x : Ext) (limit w d : Nat) (r : List Item) (st : NodeSt) (tail : List Ev)
    (h : limit ≤ w + d) :
    loop x T st (wire limit w (.quiet d :: r) ++ tail) = ⟨st, .timeout, wire limit 0 r ++ tail⟩ ∧
    loop x T st (.fail :: tail) = ⟨st, .io, tail⟩ := by
  have hn : ¬ w + d < limit := by omega
  simp only [wire, hn, if_false, List.cons_append]
  exact ⟨loop_stall x T st _, loop_fail x T st tail⟩

/-- **only then**: on every script whatsoever (any bytes, any segmentation, closes, failures, timeouts anywhere) the
loop never ends because of a frame it could read completely and not make sense of: its reason to stop is never
`Error::Decode`, `Error::InvalidControlMessage` or `Error::Protocol` -/
theorem C19_stops_only_on_stream_errors (x : Ext) (st : NodeSt) (evs : List Ev) :
    (loop x T st evs).why ≠ .decode ∧ (loop x T st evs).why ≠ .control ∧ ∀ b, (loop x T st evs).why ≠ .marker b := by
  have h := loopF_why x T (weight evs + 1) st evs
  change keepGoing (loop x T st evs).why = false at h
  refine ⟨?_, ?_, ?_⟩
  · intro he; rw [he] at h; simp [keepGoing] at h
  · intro he; rw [he] at h; simp [keepGoing] at h
  · intro b he; rw [he] at h; simp [keepGoing] at h

/-! ## bounded mailboxes: a full mailbox delays (and blocks the connection's receiver), it never drops

Everything above appends to mailboxes without bound. A real mailbox is a channel of `DEFAULT_MAILBOX_CAPACITY` messages and
`route_message` hands a message over with `ProcessHandle::send(..).await` from the connection's ONE receiver task. The
bounded system is `Impl/ReceiverBP.lean`: schedules of `rx` (the receiver routes the next message it has read, if the form of
its send lets it) and `take k` (process `k`'s `recv()` returns its oldest message); the form of each arm's send is a
parameter, read from the source by `srcRouteForms`. -/

open Edp.ReceiverBP in
/-- **the sends of `route_message` wait for room** (regenerated from node.rs / process.rs on this run): its four deliveries —
`Regular` for SEND, `Regular` for REG_SEND, `Exit` for the four exit forms, `MonitorExit` — are `handle.send(..).await?`,
and `ProcessHandle::send` is `mailbox_sender.send(msg).await`; no arm builds a message and hands it to anything else. A
`try_send`, `send_timeout` or a new handle method at one arm changes the table and breaks this. -/
theorem C19_route_sends_wait_for_room :
    (∀ a, srcRouteForms a = .await) ∧
    (Gen.MAILBOX_DELIVERIES.filter fun e => e.1 = "node.rs" ∧ e.2.1 = "route_message") =
      [("node.rs", "route_message", "Regular", "send", true, "propagated"),
       ("node.rs", "route_message", "Regular", "send", true, "propagated"),
       ("node.rs", "route_message", "Exit", "send", true, "propagated"),
       ("node.rs", "route_message", "MonitorExit", "send", true, "propagated")] ∧
    Chan.handleSendForm = .await ∧ Gen.PROCESS_HANDLE_SENDER_METHODS = ["send"] ∧
    Gen.MAILBOX_DELIVERIES.length = Gen.MAILBOX_MESSAGE_CONSTRUCTIONS ∧ 0 < Gen.MAILBOX_DEFAULT_CAPACITY := by
  refine ⟨fun a => by cases a <;> decide, by decide, by decide, by decide, by decide, by decide⟩

open Edp.ReceiverBP in
/-- **a full mailbox delays, it never drops; every routing theorem above holds with bounded mailboxes**: for every capacity,
every initial node (mailboxes filled to any degree), every sequence of frame bodies the receiver reads and EVERY schedule of
the receiver task and the processes' `recv()`s — processes that take nothing for as long as the schedule likes included —
with the send forms of the source: some prefix of the frames has been routed, and for that prefix the history of every
mailbox (what its process has taken, in order, followed by what is still queued), the names, the outstanding calls and
their answers are EXACTLY what the unbounded model (`routeAll`, the subject of `C19_send_to_live_process` …
`C19_mailboxes_only_grow`) gives; the rest of the frames is still to be routed, in order; no send has given up on a
message. -/
theorem C19_full_mailbox_delays_never_drops (x : Ext) (cap : Nat) (b0 : BSt) (bodies : List Bytes) (evs : List ReceiverBP.Ev) :
    let s := runB srcRouteForms cap ⟨b0, bodies.map (classify x T), []⟩ evs
    ∃ n, n ≤ bodies.length ∧ s.b.total = routeAll x T b0.total (bodies.take n) ∧
      s.todo = (bodies.drop n).map (classify x T) ∧ s.b.dropped = b0.dropped := by
  dsimp only
  obtain ⟨h1, h2, _, _, h5⟩ := runB_await srcRouteForms C19_route_sends_wait_for_room.1 cap evs
    ⟨b0, bodies.map (classify x T), []⟩
  simp only [List.length_nil, List.drop_zero, List.nil_append] at h1 h2
  generalize runB srcRouteForms cap ⟨b0, bodies.map (classify x T), []⟩ evs = s at h1 h2 h5 ⊢
  have hlen : s.done.length ≤ bodies.length := by
    have := congrArg List.length h2
    simp only [List.length_append, List.length_map] at this
    omega
  have hd : s.done = (bodies.take s.done.length).map (classify x T) := by
    have := congrArg (List.take s.done.length) h2
    rw [List.take_left' rfl] at this
    rw [List.map_take]
    exact this
  have ht : s.todo = (bodies.drop s.done.length).map (classify x T) := by
    have := congrArg (List.drop s.done.length) h2
    rw [List.drop_left' rfl] at this
    rw [List.map_drop]
    exact this
  refine ⟨s.done.length, hlen, ?_, ht, h5⟩
  rw [routeAll_eq_routeRes, ← hd]
  exact h1

open Edp.ReceiverBP in
/-- non-vacuity: a mailbox of capacity 1 that is full, an EXIT for its owner, then a SEND-like second EXIT: the receiver is
suspended until the process takes a message, then both arrive, in order -/
example :
    let k : PidKey := ⟨[110], 1, 0, 3⟩
    let p : PidF := ⟨[110], 1, 0, 3, none⟩
    let q : PidF := ⟨[120], 7, 0, 1, none⟩
    let ex (r : Int) : Except RxErr Received :=
      .ok (.known "Exit" [("from_pid", .term (.pid q)), ("to_pid", .term (.pid p)), ("reason", .term (.int r))], none)
    let s0 : Sys := ⟨⟨[⟨k, [], [.regular (.int 0)]⟩], [], [], [], []⟩, [ex 1, ex 2], []⟩
    (runB srcRouteForms 1 s0 [.rx, .rx]).todo.length = 2 ∧
    (runB srcRouteForms 1 s0 [.rx, .take k, .rx, .rx, .take k, .rx]).todo.length = 0 ∧
    ((runB srcRouteForms 1 s0 [.rx, .take k, .rx, .rx, .take k, .rx]).b.boxes.map fun b => (b.taken.length, b.queue.length)) =
      [(2, 1)] := by
  decide

open Edp.ReceiverBP in
/-- **head-of-line blocking** (not a violation of the statement — nothing is lost — but worth knowing): when the receiver
has a message to route and cannot step, it is suspended inside `route_message` on the full mailbox of a live process `k`;
until `k` takes a message NOTHING further of this connection is routed — messages for other processes, answers to
outstanding calls and the detection of a closed stream included (`todo` does not change under `rx`). -/
theorem C19_full_mailbox_blocks_the_receiver (F : Arm → Chan.Form) (cap : Nat) (s : Sys)
    (h : rxStep F cap s = none) (ht : s.todo ≠ []) :
    (∃ k msg, s.blockedOn cap = some (k, msg) ∧ cap ≤ s.b.queued k) ∧
    ∀ n, runB F cap s (List.replicate n .rx) = s := by
  refine ⟨rxStep_none F cap s h ht, ?_⟩
  intro n
  induction n with
  | zero => rfl
  | succ n ih =>
    show runB F cap ((stepB F cap s .rx).getD s) (List.replicate n .rx) = s
    have : stepB F cap s .rx = none := h
    rw [this]
    exact ih

open Edp.ReceiverBP in
/-- **the parameter matters** (what `try_send` at the exit arm would do): a live process whose mailbox is full at the moment
an EXIT for it is routed never gets the notification — `route_message` returns an error, the loop logs it and goes on; the
mailbox history is NOT what `C19_exit_reaches_target` promises. -/
theorem C19_a_send_that_gives_up_loses_the_notification :
    ∃ (F : Arm → Chan.Form) (s0 : Sys) (k : PidKey), (∀ a, a ≠ .exit → F a = srcRouteForms a) ∧
      isLive s0.b.view k = true ∧
      let s := runB F 1 s0 [.rx, .take k, .take k]
      s.todo = [] ∧ s.b.dropped.length = 1 ∧ (s.b.boxes.map fun b => (b.taken.length, b.queue.length)) = [(1, 0)] ∧
      ((mailbox (routeRes s0.b.total s0.todo) k).map List.length) = some 2 :=
  ⟨fun a => if a = .exit then .trySend else srcRouteForms a,
    ⟨⟨[⟨⟨[110], 1, 0, 3⟩, [], [.regular (.int 0)]⟩], [], [], [], []⟩,
      [.ok (.known "Exit" [("from_pid", .term (.pid ⟨[120], 7, 0, 1, none⟩)), ("to_pid", .term (.pid ⟨[110], 1, 0, 3, none⟩)),
        ("reason", .term (.int 1))], none)], []⟩,
    ⟨[110], 1, 0, 3⟩, fun a ha => by simp [ha], by decide, by decide⟩

/-- The state the receiver/routing model carries IS the state the node keeps (regenerated from the source on every run):
registry, connections and the table of outstanding calls (plus name, cookie, creation, the two counters' owners, and the
start flag); nothing else is consulted when a message is routed, in the struct or process-wide. -/
theorem C19_state_is_the_sources_state :
    Edp.Gen.STRUCT_Node =
      ["name:Atom", "cookie:String", "creation:Arc<AtomicU32>", "pid_allocator:Arc<PidAllocator>",
       "reference_counter:Arc<AtomicU32>", "registry:Arc<ProcessRegistry>",
       "connections:Arc<DashMap<String,Arc<Mutex<Connection>>>>",
       "pending_rpcs:Arc<DashMap<String,oneshot::Sender<OwnedTerm>>>", "started:Arc<AtomicBool>",
       "listen_port:Option<u16>", "hidden:bool"]
    ∧ Edp.Gen.PROCESS_WIDE_STATE = [] := by decide

end Edp.Props.C19

namespace Edp.Props.C19
open Edp Edp.Framing Edp.Receiver

/-! ## the key of an outstanding call -/

/-- the text under which an outstanding call is filed (`pending_rpcs.insert` in `rpc_call_raw_with_timeout`) and looked up
(`pending_rpcs.remove` in the Send arm of `route_message`), regenerated from node.rs at both sites, is
`"{}.{}.{}"` of the reply pid's id, serial AND creation — the three numbers of the model's `rpcKey` —, the same at both
sites; and the model's key tells apart any two pids that differ in one of them.  A key that drops a field (a late reply
to the node's previous incarnation would then complete a call of this one) changes the generated text. -/
theorem C19_reply_key_is_the_sources_key :
    Gen.RPC_KEY_FORMAT_CALL = ("{}.{}.{}", ["id", "serial", "creation"]) ∧
    Gen.RPC_KEY_FORMAT_ROUTE = Gen.RPC_KEY_FORMAT_CALL ∧
    ∀ p q : PidF, rpcKey p = rpcKey q ↔ (p.id = q.id ∧ p.serial = q.serial ∧ p.creation = q.creation) := by
  refine ⟨by decide, by decide, ?_⟩
  intro p q
  simp [rpcKey]

example : rpcKey ⟨[110], 4, 0, 3, none⟩ ≠ rpcKey ⟨[110], 4, 0, 2, none⟩ := by decide

/-- a SEND for a pid that differs from the reply pid of an outstanding call in its id, its serial or its creation — a
near miss: a late reply to an earlier call or to an earlier incarnation of the node — never completes that call,
whatever else it does (it may be for a live process or for another outstanding call): the call stays outstanding and
is handed nothing -/
theorem C19_near_miss_leaves_the_call_outstanding (st : NodeSt) (cookie body : Term) (p q : PidF)
    (hp : rpcKey p ∈ st.pending) (hne : q.id ≠ p.id ∨ q.serial ≠ p.serial ∨ q.creation ≠ p.creation) :
    let st' := routeCtl T st (.tuple [.int 2, cookie, .pid q]) (some body)
    rpcKey p ∈ st'.pending ∧
    st'.replies.filter (fun r => r.1 = rpcKey p) = st.replies.filter (fun r => r.1 = rpcKey p) := by
  have hk : rpcKey q ≠ rpcKey p := by
    intro h
    have := (C19_reply_key_is_the_sources_key.2.2 q p).mp h
    omega
  intro st'
  have hr : st' = route st (.known "Send" [("cookie", .term cookie), ("to_pid", .term (.pid q))]) (some body) := rfl
  by_cases hl : isLive st q.key = true
  · have : st' = sendTo st q.key (.regular body) := by
      rw [hr]; simp [route, armOf, fld, Control.lookup, hl]
    rw [this]
    exact ⟨hp, rfl⟩
  · have hl' : isLive st q.key = false := by simpa using hl
    by_cases hq : rpcKey q ∈ st.pending
    · have : st' = answer st (rpcKey q) body := by
        rw [hr]; simp [route, armOf, fld, Control.lookup, hl', hq]
      rw [this]
      constructor
      · simp only [answer, List.mem_filter]
        exact ⟨hp, by simpa using fun h => hk h.symm⟩
      · simp only [answer, List.filter_append]
        have : List.filter (fun r => decide (r.1 = rpcKey p)) [(rpcKey q, body)] = [] := by
          simp [hk]
        rw [this, List.append_nil]
    · have : st' = st := by
        rw [hr]; simp [route, armOf, fld, Control.lookup, hl', hq]
      rw [this]
      exact ⟨hp, rfl⟩

example : (∃ q p : PidF, rpcKey p ∈ [((4 : Nat), (0 : Nat), (3 : Nat))] ∧ q.creation ≠ p.creation) :=
  ⟨⟨[110], 4, 0, 2, none⟩, ⟨[110], 4, 0, 3, none⟩, by decide, by decide⟩

end Edp.Props.C19
