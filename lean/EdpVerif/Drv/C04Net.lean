import EdpVerif.Drv.Etf
import EdpVerif.Spec.Handshake
namespace Edp.Drv
open Edp

/-- socket-level C04 oracles: what the scripted peer received, judged by the handshake Spec (layouts; the reply digest
recomputed with the MD5 implemented in Lean) -/
def handleC04Net : List String → Option String
  -- `c04netname <send_name bytes without the 2-byte length> <expected node name>`
  | ["c04netname", m, n] => some <| run do
    let m ← getHex m
    let n ← getHex n
    match Spec.Handshake.parseSendNameOld (be16 m.length ++ m) with
    | some (_, name) => pure (if name == n && 1 ≤ name.length && name.length ≤ 255 then "ok" else "FAIL name " ++ hexOf name)
    | none =>
      -- new format: 'N' flags:u64 creation:u32 nlen:u16 name
      match m with
      | 78 :: r =>
        if r.length ≥ 14 && r.drop 14 == n && (rdN 2 (r.drop 12)).map (·.1) == some n.length then pure "ok" else pure "FAIL new-format layout"
      | _ => pure "FAIL not a send_name"
  -- `c04netreply <reply bytes> <cookie> <peer challenge>`: 'r' challenge:u32 digest = MD5(cookie ++ decimal(peer challenge))
  | ["c04netreply", m, c, ch] => some <| run do
    let m ← getHex m
    let c ← getHex c
    match Spec.Handshake.parseReply (be16 m.length ++ m) with
    | some (_, d) => pure (if d == Spec.Handshake.digest c ch.toNat! then "ok" else "FAIL digest " ++ hexOf d)
    | none => pure "FAIL not a reply"
  | _ => none

end Edp.Drv
