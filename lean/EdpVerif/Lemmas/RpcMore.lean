import EdpVerif.Lemmas.Rpc
set_option linter.unusedSimpArgs false
/-! More lemmas for C17: the connection table and stopped receivers, calls nobody answers, the key text as the source
builds it. -/
namespace Edp.Impl.Rpc
open Edp.Impl.PidAlloc (Pid Sh Res alloc seqState seqAlloc MAXP U32)

@[simp] theorem removeKey_conns (s : St) (k : Pid) : (s.removeKey k).conns = s.conns := rfl

/-! ### a connection id is out of the table exactly when its receiver has stopped -/

def ConnInv (s : St) : Prop := ∀ r, s.conns r = false ↔ s.recv r = .stopped

theorem conn_init (a : Sh) (n : Nat) : ConnInv (St.init a n) := by
  intro r; simp [St.init]

theorem conn_step {s s' : St} {e : Step} (h : ConnInv s) (hs : step s e = some s') : ConnInv s' := by
  intro r
  cases e <;> simp only [step] at hs <;> (repeat' split at hs) <;> (try cases hs) <;> (try contradiction) <;>
    simp only [upd_apply, St.setCaller, removeKey_recv, removeKey_conns]
  all_goals (have := h r; grind)

theorem conn_run (σ : List Step) {s : St} (h : ConnInv s) : ConnInv (run s σ) :=
  run_induct (P := ConnInv) σ s h (fun _ _ _ h hs => conn_step h hs)

/-- a receiver that has stopped takes no further step -/
theorem stopped_step {s s' : St} {e : Step} (hs : step s e = some s') (r : Nat) (h : s.recv r = .stopped) :
    s'.recv r = .stopped := by
  cases e <;> simp only [step] at hs <;> (repeat' split at hs) <;> (try cases hs) <;> (try contradiction) <;>
    simp only [upd_apply, St.setCaller, removeKey_recv]
  all_goals grind

theorem stopped_run (σ : List Step) : ∀ (s : St) (r : Nat), s.recv r = .stopped → (run s σ).recv r = .stopped := by
  induction σ with
  | nil => intro s r h; exact h
  | cons e σ ih =>
    intro s r h
    rw [run_cons]
    cases hs : step s e with
    | none => exact ih s r h
    | some s' => exact ih s' r (stopped_step hs r h)

/-- the log of inbound messages grows only by `rStart` -/
theorem inbox_len_step {s s' : St} {e : Step} (hs : step s e = some s') (h : ∀ r msg, e ≠ .rStart r msg) :
    s'.inbox = s.inbox := by
  cases e <;> simp only [step] at hs <;> (repeat' split at hs) <;> (try cases hs) <;> (try contradiction) <;>
    simp only [St.setCaller, removeKey_inbox]
  all_goals first | rfl | (exfalso; exact h _ _ rfl)

/-! ### a call nobody answers -/

/-- call `i` waits (or is on its timeout path, or is over by its timer or by being dropped), and nothing addressed to
its key is in flight: no receiver is routing a message to its key or holds its sender, its channel is empty -/
structure Unans (s : St) (i : Nat) : Prop where
  noRoute : ∀ r msg m, s.recv r = .routing msg m → msg.pid ≠ (s.callers i).key
  noHold : ∀ r m b, s.recv r ≠ .holding i m b
  pcs : ((s.callers i).pc = .waiting ∧ (s.callers i).val = none) ∨ (s.callers i).pc = .timedOut ∨
        (s.callers i).pc = .exiting .timeout ∨
        ((s.callers i).pc = .done ∧ ((s.callers i).out = some .timeout ∨ (s.callers i).out = some .dropped))

theorem Unans.started {s : St} {i : Nat} (h : Unans s i) : (s.callers i).pc ≠ .start := by
  rcases h.pcs with ⟨h, _⟩ | h | h | ⟨h, _⟩ <;> rw [h] <;> simp

theorem unans_step_route {s s' : St} {e : Step} {i : Nat} (h : Unans s i) (hs : step s e = some s')
    (hne : ∀ r msg, e = .rStart r msg → msg.pid ≠ (s.callers i).key) :
    ∀ r msg m, s'.recv r = .routing msg m → msg.pid ≠ (s'.callers i).key := by
  have hk := key_step hs i h.started
  rw [hk]
  obtain ⟨h1, h2, h3⟩ := h
  intro r msg m
  cases e <;> simp only [step] at hs <;> (repeat' split at hs) <;> (try cases hs) <;> (try contradiction) <;>
    simp only [upd_apply, St.setCaller, removeKey_recv]
  all_goals (have := h1 r msg m; grind)

theorem unans_step_hold {s s' : St} {e : Step} {i : Nat} (he : EntryInv s) (h : Unans s i) (hs : step s e = some s') :
    ∀ r m b, s'.recv r ≠ .holding i m b := by
  obtain ⟨h1, h2, h3⟩ := h
  have hl := fun k j => @lookupKey_some s.pending k j
  have he' : ∀ k j, (k, j) ∈ s.pending → (s.callers j).key = k := fun k j hm => (he k j hm).1
  intro r m b
  cases e <;> simp only [step] at hs <;> (repeat' split at hs) <;> (try cases hs) <;> (try contradiction) <;>
    simp only [upd_apply, St.setCaller, removeKey_recv]
  all_goals (have := h2 r m b; grind)

theorem unans_step_pcs {s s' : St} {e : Step} {i : Nat} (hd : DoneInv s) (ht : TxInv s) (h : Unans s i)
    (hs : step s e = some s') :
    ((s'.callers i).pc = .waiting ∧ (s'.callers i).val = none) ∨ (s'.callers i).pc = .timedOut ∨
        (s'.callers i).pc = .exiting .timeout ∨
        ((s'.callers i).pc = .done ∧ ((s'.callers i).out = some .timeout ∨ (s'.callers i).out = some .dropped)) := by
  obtain ⟨h1, h2, h3⟩ := h
  have htx := ht.tx i
  have hdi := hd i
  cases e <;> simp only [step] at hs <;> (repeat' split at hs) <;> (try cases hs) <;> (try contradiction) <;>
    simp only [upd_apply, St.setCaller, ite_pc, ite_out, ite_val, removeKey_pc, removeKey_out, removeKey_val]
  all_goals (have := h2; grind [Pc.suspended, Pc.over])

theorem unans_step {s s' : St} {e : Step} {i : Nat} (he : EntryInv s) (hd : DoneInv s) (ht : TxInv s) (h : Unans s i)
    (hs : step s e = some s') (hne : ∀ r msg, e = .rStart r msg → msg.pid ≠ (s.callers i).key) : Unans s' i :=
  ⟨unans_step_route h hs hne, unans_step_hold he h hs, unans_step_pcs hd ht h hs⟩

/-- along every run in which no message addressed to the call's key is handed to a receiver, while the allocator has
not gone round -/
theorem unans_run {a0 : Sh} (τ : List Step) : ∀ {s : St}, Inv a0 s → TxInv s → (run s τ).nalloc ≤ MAXP * U32 →
    ∀ i, Unans s i → (∀ r msg, Step.rStart r msg ∈ τ → msg.pid ≠ (s.callers i).key) → Unans (run s τ) i := by
  induction τ with
  | nil => intro s _ _ _ i h _; exact h
  | cons e τ ih =>
    intro s hi ht hb i h hτ
    rw [run_cons] at hb ⊢
    cases hs : step s e with
    | none =>
      rw [hs] at hb
      exact ih hi ht hb i h (fun r msg hm => hτ r msg (List.mem_cons_of_mem _ hm))
    | some s' =>
      rw [hs] at hb
      have hb' : s.nalloc ≤ MAXP * U32 := Nat.le_trans (Nat.le_trans (nalloc_step hs) (nalloc_run τ s')) hb
      have hk := key_step hs i h.started
      refine ih (inv_step hi hs) (tx_step hb' hi.entry hi.done hi.alloc ht hs) hb i
        (unans_step hi.entry hi.done ht h hs (fun r msg he => hτ r msg (he ▸ List.mem_cons_self))) ?_
      intro r msg hm
      rw [hk]
      exact hτ r msg (List.mem_cons_of_mem _ hm)

/-! ### the key text as the source builds it -/

theorem renderFmt_key (p : Pid) :
    keyCharsFrom ("{}.{}.{}", ["id", "serial", "creation"]) p = keyChars p := by
  have h : ("{}.{}.{}" : String).toList = ['{', '}', '.', '{', '}', '.', '{', '}'] := by decide
  simp [keyCharsFrom, h, renderFmt, Pid.field, keyChars]

end Edp.Impl.Rpc
