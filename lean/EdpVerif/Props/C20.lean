import EdpVerif.Lemmas.ElixirRange
import EdpVerif.Lemmas.ElixirKeys
import EdpVerif.Lemmas.ElixirLists
import EdpVerif.Lemmas.ElixirUtf8
import EdpVerif.Lemmas.SerdeEx
import EdpVerif.Lemmas.ElixirOrder
import EdpVerif.Lemmas.ElixirWire
import EdpVerif.Lemmas.ElixirFaithful
import EdpVerif.Lemmas.ElixirWireWF
import EdpVerif.Props.C01
/-
C20 — Elixir wrappers and proplist/map helpers convert back to what went in.
Property theorems only; the model is Impl/Elixir.lean (the code with the repairs of notes/C20-fixes/ applied), the
oracle Spec/Elixir.lean, helper lemmas are in Lemmas/.
-/
namespace Edp.Props.C20
open Edp Edp.Ex Edp.Term

/-! ## ranges: `len`, `contains`, `size_hint` and the iterator against Elixir's `Range` -/

/-- the oracle is coherent: membership is membership in the element list, the size is its length -/
theorem C20_range_spec_coherent (f l s v : Int) :
    (Spec.Range.mem f l s v = true ↔ v ∈ Spec.Range.elems f l s) ∧
    (Spec.Range.elems f l s).length = Spec.Range.count f l s :=
  ⟨spec_mem_iff f l s v, spec_length f l s⟩

/-- the iteration is Elixir's element list; `contains` is membership in it; `len` is its length as far as a
64-bit `usize` can say (it saturates at `usize::MAX`); `size_hint` is exact, or `(usize::MAX, None)` when the
length does not fit. None of these functions can panic (the model has no panic outcome: all arithmetic is total). -/
def RangeConsistent (r : Range) : Prop :=
  r.toList = Spec.Range.elems r.first r.last r.step ∧
  r.len = min r.toList.length 18446744073709551615 ∧
  (∀ v, r.contains v = decide (v ∈ r.toList)) ∧
  r.sizeHint r.iter =
    (if r.toList.length ≤ 18446744073709551615 then (r.toList.length, some r.toList.length)
     else (18446744073709551615, none))

/-- for ALL `i64` first, last and step (a zero step is the empty range, as `is_empty` defines it) -/
theorem C20_range_consistent (r : Range) (hw : r.WF) : RangeConsistent r := by
  have hl : r.toList = Spec.Range.elems r.first r.last r.step := collect_all r hw r.fuel (Nat.le_refl _)
  refine ⟨hl, ?_, ?_, ?_⟩
  · rw [len_eq r, hl, spec_length]
  · intro v
    rw [contains_eq r v, hl]
    have := spec_mem_iff r.first r.last r.step v
    by_cases h : v ∈ Spec.Range.elems r.first r.last r.step
    · simp [h, this.mpr h]
    · cases hm : Spec.Range.mem r.first r.last r.step v with
      | true => exact absurd (this.mp hm) h
      | false => simp [h]
  · rw [sizeHint_eq r, hl, spec_length]

example : (⟨I64_MIN, I64_MAX, 1⟩ : Range).WF ∧ (⟨0, -5, I64_MIN⟩ : Range).WF ∧ (⟨3, 3, 0⟩ : Range).WF := by decide

/-- `len` and `size_hint` are exact for every `i64` range except the one with 2^64 members
(`i64::MIN..=i64::MAX` with step 1, or reversed with step -1), which no `usize` can count -/
theorem C20_range_len_exact (r : Range) (hw : r.WF)
    (h : ¬ (r.first = I64_MIN ∧ r.last = I64_MAX ∧ r.step = 1) ∧ ¬ (r.first = I64_MAX ∧ r.last = I64_MIN ∧ r.step = -1)) :
    r.len = r.toList.length ∧ r.sizeHint r.iter = (r.toList.length, some r.toList.length) := by
  obtain ⟨hl, h1, -, h3⟩ := C20_range_consistent r hw
  have hc := count_le_usize r hw h
  rw [← spec_length, ← hl] at hc
  constructor
  · rw [h1]; omega
  · rw [h3, if_pos hc]

example : ¬ ((⟨0, I64_MAX, 1⟩ : Range).first = I64_MIN ∧ (⟨0, I64_MAX, 1⟩ : Range).last = I64_MAX ∧ (⟨0, I64_MAX, 1⟩ : Range).step = 1) := by
  decide

/-- the iterator stops, and `toList` is the whole iteration: more calls of `next` add nothing -/
theorem C20_range_iter_fuel (r : Range) (hw : r.WF) (fuel : Nat) (hf : r.fuel ≤ fuel) :
    r.collect fuel r.iter = r.toList := by
  rw [collect_all r hw fuel hf]
  exact (collect_all r hw r.fuel (Nat.le_refl _)).symm

example : (⟨-5, 5, 2⟩ : Range).WF ∧ (⟨-5, 5, 2⟩ : Range).fuel ≤ 100 := by decide

/-- the inputs that used to fail, evaluated on the model of the repaired code -/
theorem C20_range_former_failures :
    (⟨I64_MAX - 1, I64_MAX, 2⟩ : Range).toList = [I64_MAX - 1] ∧
    (⟨I64_MAX - 1, I64_MAX, 2⟩ : Range).contains I64_MAX = false ∧
    (⟨I64_MIN, I64_MAX, 1⟩ : Range).contains 0 = true ∧
    (⟨0, -5, I64_MIN⟩ : Range).contains 0 = true ∧
    (⟨0, I64_MAX, 1⟩ : Range).len = 9223372036854775808 ∧
    (⟨0, -5, I64_MIN⟩ : Range).len = 1 ∧
    (⟨0, I64_MIN, -1⟩ : Range).len = 9223372036854775809 ∧
    (⟨I64_MIN, I64_MAX, 1⟩ : Range).len = 18446744073709551615 ∧
    (⟨I64_MIN, I64_MAX, 1⟩ : Range).sizeHint (⟨I64_MIN, I64_MAX, 1⟩ : Range).iter = (18446744073709551615, none) := by
  decide

/-! ## wrappers: `from_term (to_term x) = x`, in memory and after the wire (`wireNorm`, see Impl/Elixir.lean) -/

/-- the field reader is `T::try_from` on the integer the term holds (small or big): it answers with exactly that
integer, and only when it lies in the range of the field's type — nothing is fabricated -/
theorem C20_field_reader_exact (lo hi : Int) (t : Term) (i : Int) :
    intIn lo hi t = some i ↔ (intOf t = some i ∧ lo ≤ i ∧ i ≤ hi) := by
  unfold intIn
  cases h : intOf t with
  | none => simp
  | some j =>
    simp only [Option.bind_some, Option.some.injEq]
    by_cases hj : lo ≤ j ∧ j ≤ hi
    · simp only [hj, and_self, if_true, Option.some.injEq]
      constructor
      · intro e; subst e; exact ⟨rfl, hj⟩
      · intro e; exact e.1
    · simp only [hj, if_false]
      constructor
      · intro e; cases e
      · rintro ⟨e, h1, h2⟩; subst e; exact absurd ⟨h1, h2⟩ hj

/-- every Rust `String` (valid UTF-8) satisfies the `IsStr` guard used below: `from_utf8_lossy` gives it back -/
theorem C20_string_lossy_fixpoint (b : Bytes) (h : validUtf8 b = true) : IsStr b := isStr_of_valid b h

example : validUtf8 [69, 116, 99, 47, 85, 84, 67] = true := by decide

theorem C20_range_term_roundtrip (r : Range) (hw : r.WF) : Range.fromTerm r.toTerm = some r := by
  obtain ⟨h0, h1, h2, h3⟩ := range_look
  unfold Range.fromTerm Range.toTerm
  simp only [mkMap_eq, structModule_lift, fldWith_lift, getA_mkA_reidx (range_reidx r), h0, h1, h2, h3, Option.map_some]
  simp only [val, Range.fields, List.map_cons, List.map_nil, List.getD_cons_zero, List.getD_cons_succ,
    Option.bind_some, atomName, bne_self_eq_false, Bool.false_eq_true, if_false, i64In]
  obtain ⟨a1, a2, a3⟩ := hw
  rw [intIn_int _ _ _ a1, intIn_int _ _ _ a2, intIn_int _ _ _ a3]

example : (⟨1, 10, 1⟩ : Range).WF := by decide

/-- a range survives encode + decode whatever its fields are: wide integers come back as big integers, which the
field reader accepts -/
theorem C20_range_term_wire (r : Range) (hw : r.WF) : Range.fromTerm (wireNorm r.toTerm) = some r := by
  obtain ⟨h0, h1, h2, h3⟩ := range_lookW
  unfold Range.fromTerm Range.toTerm
  simp only [mkMap_eq, wireNorm_map_lift, structModule_lift, fldWith_lift, getA_wire_reidx (range_reidx r), h0, h1, h2, h3,
    Option.map_some]
  simp only [val, Range.fields, List.map_cons, List.map_nil, List.getD_cons_zero, List.getD_cons_succ, wireNorm,
    Option.bind_some, atomName, bne_self_eq_false, Bool.false_eq_true, if_false, i64In, intIn_wireInt]
  obtain ⟨a1, a2, a3⟩ := hw
  rw [intIn_int _ _ _ a1, intIn_int _ _ _ a2, intIn_int _ _ _ a3]

example : (⟨1099511627776, 5, 2⟩ : Range).WF ∧ (⟨I64_MIN, I64_MAX, 1⟩ : Range).WF := by decide

theorem C20_date_roundtrip (d : Date) (hw : d.WF) : Date.fromTerm d.toTerm = some d ∧ Date.fromTerm (wireNorm d.toTerm) = some d := by
  obtain ⟨h0, h1, h2, h3, -⟩ := date_look
  obtain ⟨w0, w1, w2, w3, -⟩ := date_lookW
  obtain ⟨a1, a2, a3⟩ := hw
  unfold Date.fromTerm Date.toTerm
  simp only [mkMap_eq, wireNorm_map_lift, structModule_lift, fldWith_lift, getA_mkA_reidx (date_reidx d),
    getA_wire_reidx (date_reidx d), h0, h1, h2, h3, w0, w1, w2, w3, Option.map_some]
  simp only [val, Date.fields, List.map_cons, List.map_nil, List.getD_cons_zero, List.getD_cons_succ, wireNorm,
    Option.bind_some, atomName, bne_self_eq_false, Bool.false_eq_true, if_false, i32In, u8In, intIn_wireInt]
  rw [intIn_int _ _ _ a1, intIn_int _ _ _ a2, intIn_int _ _ _ a3]
  exact ⟨rfl, rfl⟩

example : (⟨2025, 12, 25⟩ : Date).WF := by decide

/-- `from_term` invents nothing: the fields of the date it returns are the integers the term holds, and they fit
the field types -/
theorem C20_date_faithful (m : List (Term × Term)) (d : Date) (h : Date.fromTerm (.map m) = some d) :
    (fld m kYear).bind intOf = some d.year ∧ (fld m kMonth).bind intOf = some d.month ∧
    (fld m kDay).bind intOf = some d.day ∧ d.WF := by
  unfold Date.fromTerm at h
  split at h
  · cases h
  · cases hy : fldWith i32In m kYear with
    | none => simp [hy] at h
    | some y =>
      cases hm : fldWith u8In m kMonth with
      | none => simp [hy, hm] at h
      | some mo =>
        cases hd : fldWith u8In m kDay with
        | none => simp [hy, hm, hd] at h
        | some dd =>
          simp only [hy, hm, hd, Option.some.injEq] at h
          subst h
          unfold fldWith at hy hm hd
          cases ty : fld m kYear with
          | none => simp [ty] at hy
          | some t1 =>
            cases tm : fld m kMonth with
            | none => simp [tm] at hm
            | some t2 =>
              cases td : fld m kDay with
              | none => simp [td] at hd
              | some t3 =>
                simp only [ty, tm, td, Option.bind_some, i32In, u8In] at hy hm hd ⊢
                have b1 := (C20_field_reader_exact _ _ _ _).mp hy
                have b2 := (C20_field_reader_exact _ _ _ _).mp hm
                have b3 := (C20_field_reader_exact _ _ _ _).mp hd
                exact ⟨b1.1, b2.1, b3.1, b1.2, b2.2, b3.2⟩

example : Date.fromTerm (Date.toTerm ⟨2025, 12, 25⟩) = some ⟨2025, 12, 25⟩ := (C20_date_roundtrip _ (by decide)).1

/-- an out-of-range field makes `from_term` answer `None`: e.g. a month of 300 -/
theorem C20_date_rejects (m : List (Term × Term)) (v : Int) (hv : (fld m kMonth).bind intOf = some v) (hr : ¬ InU8 v) :
    Date.fromTerm (.map m) = none := by
  cases h : Date.fromTerm (.map m) with
  | none => rfl
  | some d =>
    have := C20_date_faithful m d h
    rw [hv] at this
    obtain ⟨-, e, -, -, w, -⟩ := this
    cases e
    exact absurd w hr

example : (fld [(Term.atom kMonth, Term.int 300)] kMonth).bind intOf = some 300 ∧ ¬ InU8 300 := by
  constructor
  · simp [fld, mapGet, cmp_atom]; decide
  · decide

theorem C20_time_roundtrip (x : Time) (hw : x.WF) : Time.fromTerm x.toTerm = some x ∧ Time.fromTerm (wireNorm x.toTerm) = some x := by
  obtain ⟨h0, h1, h2, h3, h4, -⟩ := time_look
  obtain ⟨w0, w1, w2, w3, w4, -⟩ := time_lookW
  obtain ⟨a1, a2, a3, a4, a5⟩ := hw
  unfold Time.fromTerm Time.toTerm
  simp only [mkMap_eq, wireNorm_map_lift, structModule_lift, fldWith_lift, fld_lift, usPart, getA_mkA_reidx (time_reidx x),
    getA_wire_reidx (time_reidx x), h0, h1, h2, h3, h4, w0, w1, w2, w3, w4, Option.map_some]
  simp only [val, Time.fields, List.map_cons, List.map_nil, List.getD_cons_zero, List.getD_cons_succ, wireNorm, wireNormL,
    Option.bind_some, atomName, bne_self_eq_false, Bool.false_eq_true, if_false, u8In, u32In, intIn_wireInt]
  rw [intIn_int _ _ _ a1, intIn_int _ _ _ a2, intIn_int _ _ _ a3, intIn_int _ _ _ a4, intIn_int _ _ _ a5]
  exact ⟨rfl, rfl⟩

example : (⟨14, 30, 0, 3000000000, 6⟩ : Time).WF := by decide

theorem C20_naive_roundtrip (x : Naive) (hw : x.WF) :
    Naive.fromTerm x.toTerm = some x ∧ Naive.fromTerm (wireNorm x.toTerm) = some x := by
  obtain ⟨h0, h1, h2, h3, h4, h5, h6, h7, -⟩ := naive_look
  obtain ⟨w0, w1, w2, w3, w4, w5, w6, w7, -⟩ := naive_lookW
  obtain ⟨a1, a2, a3, a4, a5, a6, a7, a8⟩ := hw
  unfold Naive.fromTerm Naive.toTerm
  simp only [mkMap_eq, wireNorm_map_lift, structModule_lift, fldWith_lift, fld_lift, usPart, getA_mkA_reidx (naive_reidx x),
    getA_wire_reidx (naive_reidx x), h0, h1, h2, h3, h4, h5, h6, h7, w0, w1, w2, w3, w4, w5, w6, w7, Option.map_some]
  simp only [val, Naive.fields, List.map_cons, List.map_nil, List.getD_cons_zero, List.getD_cons_succ, wireNorm, wireNormL,
    Option.bind_some, atomName, bne_self_eq_false, Bool.false_eq_true, if_false, i32In, u8In, u32In, intIn_wireInt]
  rw [intIn_int _ _ _ a1, intIn_int _ _ _ a2, intIn_int _ _ _ a3, intIn_int _ _ _ a4, intIn_int _ _ _ a5,
    intIn_int _ _ _ a6, intIn_int _ _ _ a7, intIn_int _ _ _ a8]
  exact ⟨rfl, rfl⟩

example : (⟨2025, 12, 25, 14, 30, 0, 0, 0⟩ : Naive).WF := by decide

theorem C20_datetime_roundtrip (x : DateTime) (hw : x.WF) :
    DateTime.fromTerm x.toTerm = some x ∧ DateTime.fromTerm (wireNorm x.toTerm) = some x := by
  obtain ⟨h0, h1, h2, h3, h4, h5, h6, h7, h8, h9, h10, h11, -⟩ := dt_look
  obtain ⟨w0, w1, w2, w3, w4, w5, w6, w7, w8, w9, w10, w11, -⟩ := dt_lookW
  obtain ⟨⟨a1, a2, a3, a4, a5, a6, a7, a8⟩, a9, a10, s1, s2⟩ := hw
  unfold IsStr at s1 s2
  unfold DateTime.fromTerm DateTime.toTerm
  simp only [mkMap_eq, wireNorm_map_lift, structModule_lift, fldWith_lift, fld_lift, usPart, getA_mkA_reidx (dt_reidx x),
    getA_wire_reidx (dt_reidx x), h0, h1, h2, h3, h4, h5, h6, h7, h8, h9, h10, h11,
    w0, w1, w2, w3, w4, w5, w6, w7, w8, w9, w10, w11, Option.map_some]
  simp only [val, DateTime.fields, List.map_cons, List.map_nil, List.getD_cons_zero, List.getD_cons_succ, wireNorm, wireNormL,
    Option.bind_some, atomName, bne_self_eq_false, Bool.false_eq_true, if_false, i32In, u8In, u32In, intIn_wireInt,
    asErlangString, s1, s2]
  rw [intIn_int _ _ _ a1, intIn_int _ _ _ a2, intIn_int _ _ _ a3, intIn_int _ _ _ a4, intIn_int _ _ _ a5,
    intIn_int _ _ _ a6, intIn_int _ _ _ a7, intIn_int _ _ _ a8, intIn_int _ _ _ a9, intIn_int _ _ _ a10]
  exact ⟨rfl, rfl⟩

example : (⟨⟨2025, 12, 25, 14, 30, 0, 0, 0⟩, [85, 84, 67], [85, 84, 67], 0, 0⟩ : DateTime).WF := by decide

/-! ## nothing fabricated: what a successful `from_term` says about the term, for every integer-carrying wrapper -/

theorem C20_range_faithful (m : List (Term × Term)) (r : Range) (h : Range.fromTerm (.map m) = some r) :
    (fld m kFirst).bind intOf = some r.first ∧ (fld m kLast).bind intOf = some r.last ∧
    (fld m kStep).bind intOf = some r.step ∧ r.WF := by
  unfold Range.fromTerm at h
  split at h
  · cases h
  · cases h1 : fldWith i64In m kFirst with
    | none => simp [h1] at h
    | some a =>
      cases h2 : fldWith i64In m kLast with
      | none => simp [h1, h2] at h
      | some b =>
        cases h3 : fldWith i64In m kStep with
        | none => simp [h1, h2, h3] at h
        | some c =>
          simp only [h1, h2, h3, Option.some.injEq] at h
          subst h
          have b1 := fldWith_some _ _ _ _ _ h1
          have b2 := fldWith_some _ _ _ _ _ h2
          have b3 := fldWith_some _ _ _ _ _ h3
          exact ⟨b1.1, b2.1, b3.1, b1.2, b2.2, b3.2⟩

example : Range.fromTerm (Range.toTerm ⟨1, 10, 1⟩) = some ⟨1, 10, 1⟩ := C20_range_term_roundtrip _ (by decide)

theorem C20_time_faithful (m : List (Term × Term)) (x : Time) (h : Time.fromTerm (.map m) = some x) :
    (fld m kHour).bind intOf = some x.hour ∧ (fld m kMinute).bind intOf = some x.minute ∧
    (fld m kSecond).bind intOf = some x.second ∧ UsFaithful m x.usValue x.usPrecision ∧ x.WF := by
  unfold Time.fromTerm at h
  split at h
  · cases h
  · cases h1 : fldWith u8In m kHour with
    | none => simp [h1] at h
    | some a =>
      cases h2 : fldWith u8In m kMinute with
      | none => simp [h1, h2] at h
      | some b =>
        cases h3 : fldWith u8In m kSecond with
        | none => simp [h1, h2, h3] at h
        | some c =>
          cases h4 : usPart m with
          | none => simp [h1, h2, h3, h4] at h
          | some uu =>
            obtain ⟨uv, up⟩ := uu
            simp only [h1, h2, h3, h4, Option.some.injEq] at h
            subst h
            have b1 := fldWith_some _ _ _ _ _ h1
            have b2 := fldWith_some _ _ _ _ _ h2
            have b3 := fldWith_some _ _ _ _ _ h3
            have b4 := usPart_some m uv up h4
            refine ⟨b1.1, b2.1, b3.1, b4, b1.2, b2.2, b3.2, ?_⟩
            rcases b4 with ⟨_, _, _, _, _, q1, q2⟩ | ⟨_, rfl, rfl⟩
            · exact ⟨q1, q2⟩
            · exact ⟨show InU32 0 by decide, show InU8 0 by decide⟩

example : Time.fromTerm (Time.toTerm ⟨14, 30, 0, 5, 6⟩) = some ⟨14, 30, 0, 5, 6⟩ := (C20_time_roundtrip _ (by decide)).1

theorem C20_naive_faithful (m : List (Term × Term)) (x : Naive) (h : Naive.fromTerm (.map m) = some x) :
    (fld m kYear).bind intOf = some x.year ∧ (fld m kMonth).bind intOf = some x.month ∧
    (fld m kDay).bind intOf = some x.day ∧ (fld m kHour).bind intOf = some x.hour ∧
    (fld m kMinute).bind intOf = some x.minute ∧ (fld m kSecond).bind intOf = some x.second ∧
    UsFaithful m x.usValue x.usPrecision ∧ x.WF := by
  unfold Naive.fromTerm at h
  split at h
  · cases h
  · cases h1 : fldWith i32In m kYear with
    | none => simp [h1] at h
    | some a1 =>
    cases h2 : fldWith u8In m kMonth with
    | none => simp [h1, h2] at h
    | some a2 =>
    cases h3 : fldWith u8In m kDay with
    | none => simp [h1, h2, h3] at h
    | some a3 =>
    cases h4 : fldWith u8In m kHour with
    | none => simp [h1, h2, h3, h4] at h
    | some a4 =>
    cases h5 : fldWith u8In m kMinute with
    | none => simp [h1, h2, h3, h4, h5] at h
    | some a5 =>
    cases h6 : fldWith u8In m kSecond with
    | none => simp [h1, h2, h3, h4, h5, h6] at h
    | some a6 =>
    cases h7 : usPart m with
    | none => simp [h1, h2, h3, h4, h5, h6, h7] at h
    | some uu =>
      obtain ⟨uv, up⟩ := uu
      simp only [h1, h2, h3, h4, h5, h6, h7, Option.some.injEq] at h
      subst h
      have b1 := fldWith_some _ _ _ _ _ h1
      have b2 := fldWith_some _ _ _ _ _ h2
      have b3 := fldWith_some _ _ _ _ _ h3
      have b4 := fldWith_some _ _ _ _ _ h4
      have b5 := fldWith_some _ _ _ _ _ h5
      have b6 := fldWith_some _ _ _ _ _ h6
      have b7 := usPart_some m uv up h7
      refine ⟨b1.1, b2.1, b3.1, b4.1, b5.1, b6.1, b7, b1.2, b2.2, b3.2, b4.2, b5.2, b6.2, ?_⟩
      rcases b7 with ⟨_, _, _, _, _, q1, q2⟩ | ⟨_, rfl, rfl⟩
      · exact ⟨q1, q2⟩
      · exact ⟨show InU32 0 by decide, show InU8 0 by decide⟩

example : Naive.fromTerm (Naive.toTerm ⟨2025, 2, 30, 24, 60, 60, 0, 0⟩) = some ⟨2025, 2, 30, 24, 60, 60, 0, 0⟩ :=
  (C20_naive_roundtrip _ (by decide)).1

/-- the same for DateTime: the civil fields, the offsets, and the two strings are what the term holds -/
theorem C20_datetime_faithful (m : List (Term × Term)) (x : DateTime) (h : DateTime.fromTerm (.map m) = some x) :
    (fld m kYear).bind intOf = some x.naive.year ∧ (fld m kMonth).bind intOf = some x.naive.month ∧
    (fld m kDay).bind intOf = some x.naive.day ∧ (fld m kHour).bind intOf = some x.naive.hour ∧
    (fld m kMinute).bind intOf = some x.naive.minute ∧ (fld m kSecond).bind intOf = some x.naive.second ∧
    UsFaithful m x.naive.usValue x.naive.usPrecision ∧
    (fld m kTimeZone).bind asErlangString = some x.timeZone ∧ (fld m kZoneAbbr).bind asErlangString = some x.zoneAbbr ∧
    (fld m kUtcOffset).bind intOf = some x.utcOffset ∧ (fld m kStdOffset).bind intOf = some x.stdOffset ∧
    x.naive.WF ∧ InI32 x.utcOffset ∧ InI32 x.stdOffset := by
  unfold DateTime.fromTerm at h
  split at h
  · cases h
  · cases h1 : fldWith i32In m kYear with
    | none => simp [h1] at h
    | some a1 =>
    cases h2 : fldWith u8In m kMonth with
    | none => simp [h1, h2] at h
    | some a2 =>
    cases h3 : fldWith u8In m kDay with
    | none => simp [h1, h2, h3] at h
    | some a3 =>
    cases h4 : fldWith u8In m kHour with
    | none => simp [h1, h2, h3, h4] at h
    | some a4 =>
    cases h5 : fldWith u8In m kMinute with
    | none => simp [h1, h2, h3, h4, h5] at h
    | some a5 =>
    cases h6 : fldWith u8In m kSecond with
    | none => simp [h1, h2, h3, h4, h5, h6] at h
    | some a6 =>
    cases h7 : usPart m with
    | none => simp [h1, h2, h3, h4, h5, h6, h7] at h
    | some uu =>
    obtain ⟨uv, up⟩ := uu
    cases h8 : (fld m kTimeZone).bind asErlangString with
    | none => simp [h1, h2, h3, h4, h5, h6, h7, h8] at h
    | some tz =>
    cases h9 : (fld m kZoneAbbr).bind asErlangString with
    | none => simp [h1, h2, h3, h4, h5, h6, h7, h8, h9] at h
    | some za =>
    cases h10 : fldWith i32In m kUtcOffset with
    | none => simp [h1, h2, h3, h4, h5, h6, h7, h8, h9, h10] at h
    | some uo =>
    cases h11 : fldWith i32In m kStdOffset with
    | none => simp [h1, h2, h3, h4, h5, h6, h7, h8, h9, h10, h11] at h
    | some so =>
      simp only [h1, h2, h3, h4, h5, h6, h7, h8, h9, h10, h11, Option.some.injEq] at h
      subst h
      have b1 := fldWith_some _ _ _ _ _ h1
      have b2 := fldWith_some _ _ _ _ _ h2
      have b3 := fldWith_some _ _ _ _ _ h3
      have b4 := fldWith_some _ _ _ _ _ h4
      have b5 := fldWith_some _ _ _ _ _ h5
      have b6 := fldWith_some _ _ _ _ _ h6
      have b7 := usPart_some m uv up h7
      have b10 := fldWith_some _ _ _ _ _ h10
      have b11 := fldWith_some _ _ _ _ _ h11
      refine ⟨b1.1, b2.1, b3.1, b4.1, b5.1, b6.1, b7, rfl, rfl, b10.1, b11.1,
        ⟨b1.2, b2.2, b3.2, b4.2, b5.2, b6.2, ?_⟩, b10.2, b11.2⟩
      rcases b7 with ⟨_, _, _, _, _, q1, q2⟩ | ⟨_, rfl, rfl⟩
      · exact ⟨q1, q2⟩
      · exact ⟨show InU32 0 by decide, show InU8 0 by decide⟩

example : (DateTime.fromTerm (DateTime.toTerm ⟨⟨2025, 12, 25, 14, 30, 0, 0, 0⟩, [85, 84, 67], [85, 84, 67], 0, 0⟩)).isSome :=
  by rw [(C20_datetime_roundtrip _ (by decide)).1]; rfl

/-- "rejects instead of fabricating", for every integer field of every calendar wrapper and of the range: when the
entry is missing, is not an integer (small or big), or is an integer outside the range of the field's Rust type, the
whole `from_term` answers `None`.  The field tables `Gen.C20_*_INT_FIELDS` (key, range of the Rust type of the struct field
the key is read into) are regenerated from the `from_term`s and struct definitions of the source on every run. -/
theorem C20_bad_field_rejected (m : List (Term × Term)) (k : Bytes) (lo hi : Int)
    (hbad : ¬ ∃ v, (fld m k).bind intOf = some v ∧ lo ≤ v ∧ v ≤ hi) :
    ((k, lo, hi) ∈ Gen.C20_RANGE_INT_FIELDS → Range.fromTerm (.map m) = none) ∧
    ((k, lo, hi) ∈ Gen.C20_DATE_INT_FIELDS → Date.fromTerm (.map m) = none) ∧
    ((k, lo, hi) ∈ Gen.C20_TIME_INT_FIELDS → Time.fromTerm (.map m) = none) ∧
    ((k, lo, hi) ∈ Gen.C20_NAIVE_INT_FIELDS → Naive.fromTerm (.map m) = none) ∧
    ((k, lo, hi) ∈ Gen.C20_DATETIME_INT_FIELDS → DateTime.fromTerm (.map m) = none) := by
  refine ⟨?_, ?_, ?_, ?_, ?_⟩
  · intro hk
    cases h : Range.fromTerm (.map m) with
    | none => rfl
    | some r =>
      obtain ⟨f1, f2, f3, w1, w2, w3⟩ := C20_range_faithful m r h
      simp only [Gen.C20_RANGE_INT_FIELDS, Gen.C20_DATE_INT_FIELDS, Gen.C20_TIME_INT_FIELDS, Gen.C20_NAIVE_INT_FIELDS,
        Gen.C20_DATETIME_INT_FIELDS, List.mem_cons, Prod.mk.injEq, List.not_mem_nil, or_false] at hk
      rcases hk with ⟨rfl, rfl, rfl⟩ | ⟨rfl, rfl, rfl⟩ | ⟨rfl, rfl, rfl⟩
      · exact absurd ⟨_, f1, w1⟩ hbad
      · exact absurd ⟨_, f2, w2⟩ hbad
      · exact absurd ⟨_, f3, w3⟩ hbad
  · intro hk
    cases h : Date.fromTerm (.map m) with
    | none => rfl
    | some r =>
      obtain ⟨f1, f2, f3, w1, w2, w3⟩ := C20_date_faithful m r h
      simp only [Gen.C20_RANGE_INT_FIELDS, Gen.C20_DATE_INT_FIELDS, Gen.C20_TIME_INT_FIELDS, Gen.C20_NAIVE_INT_FIELDS,
        Gen.C20_DATETIME_INT_FIELDS, List.mem_cons, Prod.mk.injEq, List.not_mem_nil, or_false] at hk
      rcases hk with ⟨rfl, rfl, rfl⟩ | ⟨rfl, rfl, rfl⟩ | ⟨rfl, rfl, rfl⟩
      · exact absurd ⟨_, f1, w1⟩ hbad
      · exact absurd ⟨_, f2, w2⟩ hbad
      · exact absurd ⟨_, f3, w3⟩ hbad
  · intro hk
    cases h : Time.fromTerm (.map m) with
    | none => rfl
    | some r =>
      obtain ⟨f1, f2, f3, -, w1, w2, w3, -⟩ := C20_time_faithful m r h
      simp only [Gen.C20_RANGE_INT_FIELDS, Gen.C20_DATE_INT_FIELDS, Gen.C20_TIME_INT_FIELDS, Gen.C20_NAIVE_INT_FIELDS,
        Gen.C20_DATETIME_INT_FIELDS, List.mem_cons, Prod.mk.injEq, List.not_mem_nil, or_false] at hk
      rcases hk with ⟨rfl, rfl, rfl⟩ | ⟨rfl, rfl, rfl⟩ | ⟨rfl, rfl, rfl⟩
      · exact absurd ⟨_, f1, w1⟩ hbad
      · exact absurd ⟨_, f2, w2⟩ hbad
      · exact absurd ⟨_, f3, w3⟩ hbad
  · intro hk
    cases h : Naive.fromTerm (.map m) with
    | none => rfl
    | some r =>
      obtain ⟨f1, f2, f3, f4, f5, f6, -, w1, w2, w3, w4, w5, w6, -⟩ := C20_naive_faithful m r h
      simp only [Gen.C20_RANGE_INT_FIELDS, Gen.C20_DATE_INT_FIELDS, Gen.C20_TIME_INT_FIELDS, Gen.C20_NAIVE_INT_FIELDS,
        Gen.C20_DATETIME_INT_FIELDS, List.mem_cons, Prod.mk.injEq, List.not_mem_nil, or_false] at hk
      rcases hk with ⟨rfl, rfl, rfl⟩ | ⟨rfl, rfl, rfl⟩ | ⟨rfl, rfl, rfl⟩ | ⟨rfl, rfl, rfl⟩ | ⟨rfl, rfl, rfl⟩ | ⟨rfl, rfl, rfl⟩
      · exact absurd ⟨_, f1, w1⟩ hbad
      · exact absurd ⟨_, f2, w2⟩ hbad
      · exact absurd ⟨_, f3, w3⟩ hbad
      · exact absurd ⟨_, f4, w4⟩ hbad
      · exact absurd ⟨_, f5, w5⟩ hbad
      · exact absurd ⟨_, f6, w6⟩ hbad
  · intro hk
    cases h : DateTime.fromTerm (.map m) with
    | none => rfl
    | some r =>
      obtain ⟨f1, f2, f3, f4, f5, f6, -, -, -, f7, f8, ⟨w1, w2, w3, w4, w5, w6, -⟩, w7, w8⟩ := C20_datetime_faithful m r h
      simp only [Gen.C20_RANGE_INT_FIELDS, Gen.C20_DATE_INT_FIELDS, Gen.C20_TIME_INT_FIELDS, Gen.C20_NAIVE_INT_FIELDS,
        Gen.C20_DATETIME_INT_FIELDS, List.mem_cons, Prod.mk.injEq, List.not_mem_nil, or_false] at hk
      rcases hk with ⟨rfl, rfl, rfl⟩ | ⟨rfl, rfl, rfl⟩ | ⟨rfl, rfl, rfl⟩ | ⟨rfl, rfl, rfl⟩ | ⟨rfl, rfl, rfl⟩ | ⟨rfl, rfl, rfl⟩ |
        ⟨rfl, rfl, rfl⟩ | ⟨rfl, rfl, rfl⟩
      · exact absurd ⟨_, f1, w1⟩ hbad
      · exact absurd ⟨_, f2, w2⟩ hbad
      · exact absurd ⟨_, f3, w3⟩ hbad
      · exact absurd ⟨_, f4, w4⟩ hbad
      · exact absurd ⟨_, f5, w5⟩ hbad
      · exact absurd ⟨_, f6, w6⟩ hbad
      · exact absurd ⟨_, f7, w7⟩ hbad
      · exact absurd ⟨_, f8, w8⟩ hbad

/-- e.g. an hour of 256 (which `as u8` would have turned into 0), or an hour that is an atom -/
example : (¬ ∃ v, (fld [(Term.atom kHour, Term.int 256)] kHour).bind intOf = some v ∧ (0 : Int) ≤ v ∧ v ≤ 255) ∧
    (¬ ∃ v, (fld [(Term.atom kHour, Term.atom kNil)] kHour).bind intOf = some v ∧ (0 : Int) ≤ v ∧ v ≤ 255) := by
  constructor
  · rintro ⟨v, h, h1, h2⟩
    have : (fld [(Term.atom kHour, Term.int 256)] kHour).bind intOf = some 256 := by simp [fld, mapGet, cmp_atom]; decide
    rw [this] at h; cases h; omega
  · rintro ⟨v, h, -⟩
    have : (fld [(Term.atom kHour, Term.atom kNil)] kHour).bind intOf = none := by simp [fld, mapGet, cmp_atom]; decide
    rw [this] at h; cases h

/-! ## the checked constructors against `Calendar.ISO` -/

/-- `try_new` / `try_hms` / `try_utc` accept exactly the dates and times of the ISO calendar (leap years, days per
month, 0..23 h, 0..59 min/s, 0..999_999 µs, precision 0..6) and return the fields they were given; what they return
round-trips.  The arguments range over the Rust parameter types (`i32`, `u8`, `u32`). -/
theorem C20_checked_constructors (y mo d h mi s us p : Int) (hy : InI32 y) (hmo : InU8 mo) (hd : InU8 d) (hh : InU8 h)
    (hmi : InU8 mi) (hs : InU8 s) (hus : InU32 us) (hp : InU8 p) :
    Date.tryNew y mo d = (if Spec.Cal.validDate y mo d then some ⟨y, mo, d⟩ else none) ∧
    Time.tryNew h mi s us p = (if Spec.Cal.validTime h mi s us p then some ⟨h, mi, s, us, p⟩ else none) ∧
    Time.tryHms h mi s = (if Spec.Cal.validTime h mi s 0 0 then some ⟨h, mi, s, 0, 0⟩ else none) ∧
    Naive.tryNew y mo d h mi s us p =
      (if Spec.Cal.validDate y mo d ∧ Spec.Cal.validTime h mi s us p then some ⟨y, mo, d, h, mi, s, us, p⟩ else none) ∧
    DateTime.tryUtc y mo d h mi s us p =
      (if Spec.Cal.validDate y mo d ∧ Spec.Cal.validTime h mi s us p
       then some ⟨⟨y, mo, d, h, mi, s, us, p⟩, sEtcUtc, sUtc, 0, 0⟩ else none) ∧
    (∀ x, Date.tryNew y mo d = some x → Date.fromTerm x.toTerm = some x) ∧
    (∀ x, Naive.tryNew y mo d h mi s us p = some x → Naive.fromTerm x.toTerm = some x) := by
  have e1 := date_tryNew_spec y mo d
  have e2 := time_tryNew_spec h mi s us p hh.1 hmi.1 hs.1 hus.1 hp.1
  have e3 := time_tryNew_spec h mi s 0 0 hh.1 hmi.1 hs.1 (by decide) (by decide)
  have e4 : Naive.tryNew y mo d h mi s us p =
      (if Spec.Cal.validDate y mo d ∧ Spec.Cal.validTime h mi s us p then some ⟨y, mo, d, h, mi, s, us, p⟩ else none) := by
    unfold Naive.tryNew
    rw [e1, e2]
    by_cases c1 : Spec.Cal.validDate y mo d <;> by_cases c2 : Spec.Cal.validTime h mi s us p <;> simp [c1, c2]
  refine ⟨e1, e2, e3, e4, ?_, ?_, ?_⟩
  · unfold DateTime.tryUtc
    rw [e4]
    by_cases c : Spec.Cal.validDate y mo d ∧ Spec.Cal.validTime h mi s us p <;> simp [c]
  · intro x hx
    rw [e1] at hx
    split at hx
    · cases hx; exact (C20_date_roundtrip _ ⟨hy, hmo, hd⟩).1
    · cases hx
  · intro x hx
    rw [e4] at hx
    split at hx
    · cases hx; exact (C20_naive_roundtrip _ ⟨hy, hmo, hd, hh, hmi, hs, hus, hp⟩).1
    · cases hx

example : Spec.Cal.validDate 2024 2 29 ∧ ¬ Spec.Cal.validDate 2023 2 29 ∧ ¬ Spec.Cal.validDate 1900 2 29 ∧
    Spec.Cal.validDate 2000 2 29 ∧ Spec.Cal.validDate (-4) 2 29 ∧ ¬ Spec.Cal.validDate 2025 13 1 ∧
    ¬ Spec.Cal.validDate 2025 4 31 ∧ ¬ Spec.Cal.validTime 24 0 0 0 0 ∧ ¬ Spec.Cal.validTime 0 0 60 0 0 ∧
    ¬ Spec.Cal.validTime 0 0 0 1000000 6 ∧ ¬ Spec.Cal.validTime 0 0 0 0 7 := by decide

/-- the unchecked constructors store what they are given, except that the precision is clamped to 6; `to_time` and
`to_naive` go through them, so they keep every field of a value whose precision is at most 6 and clamp it otherwise -/
theorem C20_unchecked_constructors (y mo d h mi s us p : Int) :
    Date.new y mo d = ⟨y, mo, d⟩ ∧
    Time.new h mi s us p = ⟨h, mi, s, us, min p 6⟩ ∧
    Naive.new y mo d h mi s us p = ⟨y, mo, d, h, mi, s, us, min p 6⟩ ∧
    (p ≤ 6 → (Naive.mk y mo d h mi s us p).toTime = ⟨h, mi, s, us, p⟩ ∧
      (DateTime.mk ⟨y, mo, d, h, mi, s, us, p⟩ sEtcUtc sUtc 0 0).toNaive = ⟨y, mo, d, h, mi, s, us, p⟩) ∧
    Naive.fromDateTime (Naive.mk y mo d h mi s us p).toDate ⟨h, mi, s, us, p⟩ = ⟨y, mo, d, h, mi, s, us, p⟩ := by
  refine ⟨rfl, rfl, rfl, ?_, rfl⟩
  intro hp
  have : min p 6 = p := by omega
  simp [Naive.toTime, DateTime.toNaive, Time.new, Naive.new, Gen.C20_CLAMP, this]

/-! ## the wire: `wireNorm` is what the codec model's `decode (encode t)` returns -/

/-- every wire statement below is about `wireNorm t`; this is the codec: for every well-formed term within the nesting
limit and every behaviour `x` of the external calls, decoding the bytes the encoder wrote for `t` returns `wireNorm t`
(C01's round-trip theorem; `wireNorm t = wire t` is `wireNorm_eq_wire`) -/
theorem C20_wire_is_the_codec (x : Ext) (t : Term) (bs : Bytes) (hw : wfT t = true) (hd : dep t ≤ MAX_NESTING_DEPTH)
    (he : encode t = .ok bs) : decode x bs = .ok (wireNorm t) := by
  rw [wireNorm_eq_wire t hw]
  exact Edp.Props.C01.C01_roundtrip x t bs hw hd he

example : (2 : Nat) ≤ MAX_NESTING_DEPTH := by decide

/-- the struct maps of the integer-carrying wrappers are well-formed terms of depth at most 2 whatever the field
values are, so the theorem above applies to every one of them -/
theorem C20_struct_terms_wellformed :
    (∀ r : Range, r.WF → wfT r.toTerm = true ∧ dep r.toTerm ≤ 2) ∧
    (∀ d : Date, d.WF → wfT d.toTerm = true ∧ dep d.toTerm ≤ 2) ∧
    (∀ t : Time, t.WF → wfT t.toTerm = true ∧ dep t.toTerm ≤ 2) ∧
    (∀ n : Naive, n.WF → wfT n.toTerm = true ∧ dep n.toTerm ≤ 2) ∧
    (∀ z : DateTime, z.WF → z.timeZone.length ≤ MAX_BINARY_SIZE → z.zoneAbbr.length ≤ MAX_BINARY_SIZE →
      wfT z.toTerm = true ∧ dep z.toTerm ≤ 2) := by
  have i32 : ∀ i, InI32 i → wfT (.int i) = true := by
    intro i h; unfold InI32 at h; simp only [wfT, decide_eq_true_eq]; omega
  have u8 : ∀ i, InU8 i → wfT (.int i) = true := by
    intro i h; unfold InU8 at h; simp only [wfT, decide_eq_true_eq]; omega
  have u32 : ∀ i, InU32 i → wfT (.int i) = true := by
    intro i h; unfold InU32 at h; simp only [wfT, decide_eq_true_eq]; omega
  have i64 : ∀ i, InI64 i → wfT (.int i) = true := by
    intro i h; unfold InI64 I64_MIN I64_MAX at h; simp only [wfT, decide_eq_true_eq]; omega
  have us : ∀ a b, InU32 a → InU8 b → wfT (.tuple [.int a, .int b]) = true := by
    intro a b ha hb
    have := u32 a ha
    have := u8 b hb
    simp_all [wfT, wfL, MAX_TUPLE_SIZE]
  have wa : ∀ a, validUtf8 a = true → wfT (.atom a) = true := by intro a h; simp [wfT, h]
  have wb : ∀ b : Bytes, b.length ≤ MAX_BINARY_SIZE → wfT (.bin b) = true := by intro b h; simp [wfT, h]
  have k1 : validUtf8 kStruct = true := by decide
  have kc : validUtf8 kCalendar = true := by decide
  have ci := wa mCalendarISO (by decide)
  refine ⟨?_, ?_, ?_, ?_, ?_⟩
  · intro r ⟨a1, a2, a3⟩
    constructor
    · apply wfT_mkMap _ _ (by simp [Range.fields, Date.fields, Time.fields, Naive.fields, DateTime.fields, MAX_MAP_SIZE])
      have h1 : validUtf8 kFirst = true := by decide
      have h2 : validUtf8 kLast = true := by decide
      have h3 : validUtf8 kStep = true := by decide
      have hm := wa mRange (by decide)
      simp [Range.fields, k1, h1, h2, h3, hm, i64 _ a1, i64 _ a2, i64 _ a3]
    · exact dep_mkMap _ 1 (by simp [Range.fields, dep])
  · intro d ⟨a1, a2, a3⟩
    constructor
    · apply wfT_mkMap _ _ (by simp [Range.fields, Date.fields, Time.fields, Naive.fields, DateTime.fields, MAX_MAP_SIZE])
      have h1 : validUtf8 kYear = true := by decide
      have h2 : validUtf8 kMonth = true := by decide
      have h3 : validUtf8 kDay = true := by decide
      have hm := wa mDate (by decide)
      simp [Date.fields, k1, kc, ci, h1, h2, h3, hm, i32 _ a1, u8 _ a2, u8 _ a3]
    · exact dep_mkMap _ 1 (by simp [Date.fields, dep])
  · intro t ⟨a1, a2, a3, a4, a5⟩
    constructor
    · apply wfT_mkMap _ _ (by simp [Range.fields, Date.fields, Time.fields, Naive.fields, DateTime.fields, MAX_MAP_SIZE])
      have h1 : validUtf8 kHour = true := by decide
      have h2 : validUtf8 kMinute = true := by decide
      have h3 : validUtf8 kSecond = true := by decide
      have h4 : validUtf8 kMicrosecond = true := by decide
      have hm := wa mTime (by decide)
      have hu := us _ _ a4 a5
      simp [Time.fields, k1, kc, ci, hm, h1, h2, h3, h4, u8 _ a1, u8 _ a2, u8 _ a3, hu]
    · exact dep_mkMap _ 1 (by simp [Time.fields, dep, depL])
  · intro n ⟨a1, a2, a3, a4, a5, a6, a7, a8⟩
    constructor
    · apply wfT_mkMap _ _ (by simp [Range.fields, Date.fields, Time.fields, Naive.fields, DateTime.fields, MAX_MAP_SIZE])
      have h1 : validUtf8 kHour = true := by decide
      have h2 : validUtf8 kMinute = true := by decide
      have h3 : validUtf8 kSecond = true := by decide
      have h4 : validUtf8 kMicrosecond = true := by decide
      have h5 : validUtf8 kYear = true := by decide
      have h6 : validUtf8 kMonth = true := by decide
      have h7 : validUtf8 kDay = true := by decide
      have hm := wa mNaiveDateTime (by decide)
      have hu := us _ _ a7 a8
      simp [Naive.fields, k1, kc, ci, hm, h1, h2, h3, h4, h5, h6, h7, i32 _ a1, u8 _ a2, u8 _ a3, u8 _ a4, u8 _ a5, u8 _ a6, hu]
    · exact dep_mkMap _ 1 (by simp [Naive.fields, dep, depL])
  · intro z ⟨⟨a1, a2, a3, a4, a5, a6, a7, a8⟩, a9, a10, _, _⟩ l1 l2
    constructor
    · apply wfT_mkMap _ _ (by simp [Range.fields, Date.fields, Time.fields, Naive.fields, DateTime.fields, MAX_MAP_SIZE])
      have h1 : validUtf8 kHour = true := by decide
      have h2 : validUtf8 kMinute = true := by decide
      have h3 : validUtf8 kSecond = true := by decide
      have h4 : validUtf8 kMicrosecond = true := by decide
      have h5 : validUtf8 kYear = true := by decide
      have h6 : validUtf8 kMonth = true := by decide
      have h7 : validUtf8 kDay = true := by decide
      have h8 : validUtf8 kTimeZone = true := by decide
      have h9 : validUtf8 kZoneAbbr = true := by decide
      have h10 : validUtf8 kUtcOffset = true := by decide
      have h11 : validUtf8 kStdOffset = true := by decide
      have hm := wa mDateTime (by decide)
      have hu := us _ _ a7 a8
      simp [DateTime.fields, k1, kc, ci, hm, h1, h2, h3, h4, h5, h6, h7, h8, h9, h10, h11, i32 _ a1, u8 _ a2, u8 _ a3, u8 _ a4,
        u8 _ a5, u8 _ a6, i32 _ a9, i32 _ a10, hu, wb _ l1, wb _ l2]
    · exact dep_mkMap _ 1 (by simp [DateTime.fields, dep, depL])

/-- so a range, a date, a time and a naive date-time survive the codec itself: whatever bytes the encoder produces for
the struct, decoding them (any behaviour of the external calls) and calling `from_term` gives the value back -/
theorem C20_wrappers_through_the_codec (x : Ext) (bs : Bytes) :
    (∀ r : Range, r.WF → encode r.toTerm = .ok bs → ∃ t, decode x bs = .ok t ∧ Range.fromTerm t = some r) ∧
    (∀ d : Date, d.WF → encode d.toTerm = .ok bs → ∃ t, decode x bs = .ok t ∧ Date.fromTerm t = some d) ∧
    (∀ v : Time, v.WF → encode v.toTerm = .ok bs → ∃ t, decode x bs = .ok t ∧ Time.fromTerm t = some v) ∧
    (∀ n : Naive, n.WF → encode n.toTerm = .ok bs → ∃ t, decode x bs = .ok t ∧ Naive.fromTerm t = some n) ∧
    (∀ z : DateTime, z.WF → z.timeZone.length ≤ MAX_BINARY_SIZE → z.zoneAbbr.length ≤ MAX_BINARY_SIZE →
      encode z.toTerm = .ok bs → ∃ t, decode x bs = .ok t ∧ DateTime.fromTerm t = some z) := by
  obtain ⟨w1, w2, w3, w4, w5⟩ := C20_struct_terms_wellformed
  have dl : (2 : Nat) ≤ MAX_NESTING_DEPTH := by decide
  refine ⟨?_, ?_, ?_, ?_, ?_⟩
  · intro r hw he
    exact ⟨_, C20_wire_is_the_codec x _ bs (w1 r hw).1 (Nat.le_trans (w1 r hw).2 dl) he, C20_range_term_wire r hw⟩
  · intro d hw he
    exact ⟨_, C20_wire_is_the_codec x _ bs (w2 d hw).1 (Nat.le_trans (w2 d hw).2 dl) he, (C20_date_roundtrip d hw).2⟩
  · intro v hw he
    exact ⟨_, C20_wire_is_the_codec x _ bs (w3 v hw).1 (Nat.le_trans (w3 v hw).2 dl) he, (C20_time_roundtrip v hw).2⟩
  · intro n hw he
    exact ⟨_, C20_wire_is_the_codec x _ bs (w4 n hw).1 (Nat.le_trans (w4 n hw).2 dl) he, (C20_naive_roundtrip n hw).2⟩
  · intro z hw l1 l2 he
    exact ⟨_, C20_wire_is_the_codec x _ bs (w5 z hw l1 l2).1 (Nat.le_trans (w5 z hw l1 l2).2 dl) he,
      (C20_datetime_roundtrip z hw).2⟩

example : (⟨I64_MIN, I64_MAX, 1⟩ : Range).WF ∧ (⟨23, 59, 59, 4294967295, 255⟩ : Time).WF := by decide

/-! ## exceptions -/

/-- ArgumentError, RuntimeError, ArithmeticError (any module name): the message comes back, also after the wire -/
theorem C20_msg_exception_roundtrip (module msg : Bytes) (hm : IsStr msg) :
    msgExcFromTerm module (msgExcToTerm module msg) = some msg ∧
    msgExcFromTerm module (wireNorm (msgExcToTerm module msg)) = some msg := by
  obtain ⟨h0, -, h2⟩ := msg_look
  obtain ⟨w0, -, w2⟩ := msg_lookW
  unfold msgExcFromTerm msgExcToTerm excMap
  simp only [mkMap_eq, wireNorm_map_lift, structModule_lift, fld_lift, getA_mkA_reidx (msg_reidx module (.bin msg)),
    getA_wire_reidx (msg_reidx module (.bin msg)), h0, h2, w0, w2, Option.map_some]
  simp only [val, excFields, List.map_cons, List.map_nil, List.getD_cons_zero, List.getD_cons_succ, wireNorm,
    Option.bind_some, atomName, bne_self_eq_false, Bool.false_eq_true, if_false, asErlangString, and_self]
  unfold IsStr at hm
  rw [hm]

example : IsStr [98, 97, 100, 32, 97, 114, 103] ∧ IsStr [230, 151, 165, 230, 156, 172] ∧ ¬ IsStr [240, 159, 152] := by decide

/-- MatchError, BadMapError, BadFunctionError, CaseClauseError, WithClauseError: the carried term comes back; after
the wire it is the wire image of the term -/
theorem C20_term_exception_roundtrip (module : Bytes) (x : Term) :
    termExcFromTerm module (termExcToTerm module x) = some x ∧
    termExcFromTerm module (wireNorm (termExcToTerm module x)) = some (wireNorm x) := by
  obtain ⟨h0, -, h2⟩ := texc_look
  obtain ⟨w0, -, w2⟩ := texc_lookW
  unfold termExcFromTerm termExcToTerm excMap
  simp only [mkMap_eq, wireNorm_map_lift, structModule_lift, fld_lift, getA_mkA_reidx (texc_reidx module x),
    getA_wire_reidx (texc_reidx module x), h0, h2, w0, w2, Option.map_some]
  simp only [val, excFields, List.map_cons, List.map_nil, List.getD_cons_zero, List.getD_cons_succ, wireNorm,
    Option.bind_some, atomName, bne_self_eq_false, Bool.false_eq_true, if_false, and_self]

theorem C20_cond_exception_roundtrip :
    condExcFromTerm condExcToTerm = some () ∧ condExcFromTerm (wireNorm condExcToTerm) = some () := by
  obtain ⟨h0, -⟩ := cond_look
  obtain ⟨w0, -⟩ := cond_lookW
  unfold condExcFromTerm condExcToTerm excMap
  simp only [mkMap_eq, wireNorm_map_lift, structModule_lift, getA_mkA_reidx (cond_reidx mCondClauseError),
    getA_wire_reidx (cond_reidx mCondClauseError), h0, w0, Option.map_some]
  simp only [val, excFields, List.map_cons, List.map_nil, List.getD_cons_zero, wireNorm,
    Option.bind_some, atomName, bne_self_eq_false, Bool.false_eq_true, if_false, and_self]

theorem C20_key_error_roundtrip (e : KeyError) (hm : ∀ b, e.message = some b → IsStr b) :
    (KeyError.fromTerm e.toTerm).map (fun r => (r.key, r.term, r.message)) = some (e.key, e.term, e.message) := by
  obtain ⟨h0, -, h2, h3, h4⟩ := keyerr_look
  unfold KeyError.fromTerm KeyError.toTerm excMap
  simp only [mkMap_eq, structModule_lift, fld_lift,
    getA_mkA_reidx (keyerr_reidx mKeyError e.key e.term (optBin e.message)), h0, h2, h3, h4, Option.map_some]
  simp only [val, excFields, List.map_cons, List.map_nil, List.getD_cons_zero, List.getD_cons_succ,
    Option.bind_some, atomName, bne_self_eq_false, Bool.false_eq_true, if_false]
  cases hmsg : e.message with
  | none => rfl
  | some b =>
    have := hm b hmsg
    unfold IsStr at this
    simp only [optBin, asErlangString, this]
    rfl

example : ∀ b, (⟨.atom [97], .map [], some [107]⟩ : KeyError).message = some b → IsStr b := by
  intro b h; cases h; decide

/-- after the wire: key and term are their wire images, the message is unchanged -/
theorem C20_key_error_wire (e : KeyError) (hm : ∀ b, e.message = some b → IsStr b) :
    (KeyError.fromTerm (wireNorm e.toTerm)).map (fun r => (r.key, r.term, r.message)) =
      some (wireNorm e.key, wireNorm e.term, e.message) := by
  obtain ⟨h0, -, h2, h3, h4⟩ := keyerr_lookW
  unfold KeyError.fromTerm KeyError.toTerm excMap
  simp only [mkMap_eq, wireNorm_map_lift, structModule_lift, fld_lift,
    getA_wire_reidx (keyerr_reidx mKeyError e.key e.term (optBin e.message)), h0, h2, h3, h4, Option.map_some]
  simp only [val, excFields, List.map_cons, List.map_nil, List.getD_cons_zero, List.getD_cons_succ, wireNorm,
    Option.bind_some, atomName, bne_self_eq_false, Bool.false_eq_true, if_false]
  cases hmsg : e.message with
  | none => rfl
  | some b =>
    have := hm b hmsg
    unfold IsStr at this
    simp only [optBin, wireNorm, asErlangString, this]
    rfl

/-- UndefinedFunctionError comes back for every module name (`to_term` adds the `Elixir.` prefix, `from_term`
removes it), every function name, every `u8` arity and every reason -/
theorem C20_undef_fn_roundtrip (e : UndefFn) (ha : InU8 e.arity) (hr : ∀ b, e.reason = some b → IsStr b) :
    UndefFn.fromTerm e.toTerm = some e := by
  obtain ⟨h0, -, h2, h3, h4, h5⟩ := undef_look
  unfold UndefFn.fromTerm UndefFn.toTerm excMap
  simp only [mkMap_eq, structModule_lift, fld_lift, fldWith_lift,
    getA_mkA_reidx (undef_reidx mUndefinedFunctionError (.atom (withElixir e.module)) (.atom e.function) (.int e.arity) (optBin e.reason)),
    h0, h2, h3, h4, h5, Option.map_some]
  simp only [val, excFields, List.map_cons, List.map_nil, List.getD_cons_zero, List.getD_cons_succ,
    Option.bind_some, atomName, u8In, bne_self_eq_false, Bool.false_eq_true, if_false]
  rw [intIn_int _ _ _ ha]
  have e3 : (some (optBin e.reason)).bind asErlangString = e.reason := by
    cases hre : e.reason with
    | none => rfl
    | some b =>
      have := hr b hre
      unfold IsStr at this
      simp only [optBin, Option.bind_some, asErlangString, this]
  obtain ⟨m, f, a, r⟩ := e
  simp only at e3
  simp only [Option.bind_some] at e3
  simp only [withoutElixir_withElixir, e3]

example : InU8 (⟨[69, 108, 105, 120, 105, 114, 46, 70], [98, 97, 114], 1, none⟩ : UndefFn).arity ∧
    (∀ b, (⟨[69, 108, 105, 120, 105, 114, 46, 70], [98, 97, 114], 1, none⟩ : UndefFn).reason = some b → IsStr b) :=
  ⟨by decide, fun b h => by cases h⟩

/-- the constructors accept either spelling of the module: the stored name has one leading `Elixir.` removed -/
theorem C20_undef_fn_new (m f : Bytes) (a : Int) (r : Option Bytes) :
    (UndefFn.new (elixirDot ++ m) f a r).module = m ∧
    (elixirDot.isPrefixOf m = false → (UndefFn.new m f a r).module = m) := by
  constructor
  · exact withoutElixir_withElixir m
  · intro h
    simp [UndefFn.new, withoutElixir, stripPrefix, h]

/-- and after the wire -/
theorem C20_undef_fn_wire (e : UndefFn) (ha : InU8 e.arity) (hr : ∀ b, e.reason = some b → IsStr b) :
    UndefFn.fromTerm (wireNorm e.toTerm) = some e := by
  obtain ⟨h0, -, h2, h3, h4, h5⟩ := undef_lookW
  unfold UndefFn.fromTerm UndefFn.toTerm excMap
  simp only [mkMap_eq, wireNorm_map_lift, structModule_lift, fld_lift, fldWith_lift,
    getA_wire_reidx (undef_reidx mUndefinedFunctionError (.atom (withElixir e.module)) (.atom e.function) (.int e.arity) (optBin e.reason)),
    h0, h2, h3, h4, h5, Option.map_some]
  simp only [val, excFields, List.map_cons, List.map_nil, List.getD_cons_zero, List.getD_cons_succ, wireNorm,
    Option.bind_some, atomName, u8In, bne_self_eq_false, Bool.false_eq_true, if_false, intIn_wireInt]
  rw [intIn_int _ _ _ ha]
  have e3 : (some (wireNorm (optBin e.reason))).bind asErlangString = e.reason := by
    cases hre : e.reason with
    | none => rfl
    | some b =>
      have := hr b hre
      unfold IsStr at this
      simp only [optBin, wireNorm, Option.bind_some, asErlangString, this]
  obtain ⟨m, f, a, r⟩ := e
  simp only at e3
  simp only [Option.bind_some] at e3
  simp only [withoutElixir_withElixir, e3]

/-- FunctionClauseError comes back for every combination of present and absent fields. Excluded are only the
values the representation itself cannot tell from "absent": a function called `nil` and the argument term `nil`. -/
theorem C20_fn_clause_roundtrip (e : FnClause) (hf : e.function ≠ some kNil)
    (ha : ∀ a, e.arity = some a → InU8 a) (hg : ∀ g, e.args = some g → isNilAtom g = false) :
    (FnClause.fromTerm e.toTerm).map (fun r => (r.module, r.function, r.arity, r.args)) =
      some (e.module, e.function, e.arity, e.args) := by
  obtain ⟨h0, -, h2, h3, h4, h5⟩ := fncl_look
  unfold FnClause.fromTerm FnClause.toTerm excMap
  simp only [mkMap_eq, structModule_lift, fld_lift, fldWith_lift, getA_mkA_reidx (fncl_reidx mFunctionClauseError _ _ _ _),
    h0, h2, h3, h4, h5, Option.map_some]
  simp only [val, excFields, List.map_cons, List.map_nil, List.getD_cons_zero, List.getD_cons_succ,
    Option.bind_some, atomName, bne_self_eq_false, Bool.false_eq_true, if_false, Option.map_some]
  obtain ⟨mo, fn, ar, ag⟩ := e
  simp only at hf ha hg
  have c1 : ∀ mo' : Option Bytes, (((some (match mo' with | some m => Term.atom (withElixir m) | none => Term.atom kNil)).filter
      (fun a => !isNilAtom a)).bind atomName).map withoutElixir = mo' := by
    intro mo'
    cases mo' with
    | none => rfl
    | some m => simp [Option.filter, elixir_atom_not_nil, atomName, withoutElixir_withElixir]
  have c2 : ∀ fn' : Option Bytes, fn' ≠ some kNil →
      ((some (match fn' with | some f => Term.atom f | none => Term.atom kNil)).filter
        (fun a => !isNilAtom a)).bind atomName = fn' := by
    intro fn' hf'
    cases fn' with
    | none => rfl
    | some f =>
      have : (f == kNil) = false := by
        cases h : f == kNil with
        | false => rfl
        | true => exact absurd (by rw [eq_of_beq h]) hf'
      simp [Option.filter, isNilAtom, atomName, this]
  have c3 : ∀ ar' : Option Int, (∀ a, ar' = some a → InU8 a) →
      (some (match ar' with | some a => Term.int a | none => Term.atom kNil)).bind u8In = ar' := by
    intro ar' ha'
    cases ar' with
    | none => rfl
    | some a => simp only [Option.bind_some, u8In]; rw [intIn_int _ _ _ (ha' a rfl)]
  have c4 : ∀ ag' : Option Term, (∀ g, ag' = some g → isNilAtom g = false) →
      (some (ag'.getD (Term.atom kNil))).filter (fun a => !isNilAtom a) = ag' := by
    intro ag' hg'
    cases ag' with
    | none => rfl
    | some g => simp [Option.filter, hg' g rfl]
  simp only [c4 ag hg]
  have e1 := c1 mo
  have e2 := c2 fn hf
  have e3 := c3 ar ha
  exact congrArg some (Prod.ext e1 (Prod.ext e2 (Prod.ext e3 rfl)))

example : (⟨none, none, none, none⟩ : FnClause).function ≠ some kNil := by simp

/-- in particular `FunctionClauseError::empty()` comes back as itself -/
theorem C20_fn_clause_empty :
    (FnClause.fromTerm (FnClause.toTerm ⟨none, none, none, none⟩)).map (fun r => (r.module, r.function, r.arity, r.args)) =
      some (none, none, none, none) :=
  C20_fn_clause_roundtrip ⟨none, none, none, none⟩ (by simp) (by simp) (by simp)

/-- after the wire the arguments are their wire image, everything else is unchanged -/
theorem C20_fn_clause_wire (e : FnClause) (hf : e.function ≠ some kNil)
    (ha : ∀ a, e.arity = some a → InU8 a) (hg : ∀ g, e.args = some g → isNilAtom g = false) :
    (FnClause.fromTerm (wireNorm e.toTerm)).map (fun r => (r.module, r.function, r.arity, r.args)) =
      some (e.module, e.function, e.arity, e.args.map wireNorm) := by
  obtain ⟨h0, -, h2, h3, h4, h5⟩ := fncl_lookW
  unfold FnClause.fromTerm FnClause.toTerm excMap
  simp only [mkMap_eq, wireNorm_map_lift, structModule_lift, fld_lift, fldWith_lift,
    getA_wire_reidx (fncl_reidx mFunctionClauseError _ _ _ _), h0, h2, h3, h4, h5, Option.map_some]
  simp only [val, excFields, List.map_cons, List.map_nil, List.getD_cons_zero, List.getD_cons_succ, wireNorm,
    Option.bind_some, atomName, bne_self_eq_false, Bool.false_eq_true, if_false, Option.map_some]
  obtain ⟨mo, fn, ar, ag⟩ := e
  simp only at hf ha hg
  have c1 : ∀ mo' : Option Bytes, (((some (wireNorm (match mo' with | some m => Term.atom (withElixir m) | none => Term.atom kNil))).filter
      (fun a => !isNilAtom a)).bind atomName).map withoutElixir = mo' := by
    intro mo'
    cases mo' with
    | none => rfl
    | some m => simp [wireNorm, Option.filter, elixir_atom_not_nil, atomName, withoutElixir_withElixir]
  have c2 : ∀ fn' : Option Bytes, fn' ≠ some kNil →
      ((some (wireNorm (match fn' with | some f => Term.atom f | none => Term.atom kNil))).filter
        (fun a => !isNilAtom a)).bind atomName = fn' := by
    intro fn' hf'
    cases fn' with
    | none => rfl
    | some f =>
      have : (f == kNil) = false := by
        cases h : f == kNil with
        | false => rfl
        | true => exact absurd (by rw [eq_of_beq h]) hf'
      simp [wireNorm, Option.filter, isNilAtom, atomName, this]
  have c3 : ∀ ar' : Option Int, (∀ a, ar' = some a → InU8 a) →
      (some (wireNorm (match ar' with | some a => Term.int a | none => Term.atom kNil))).bind u8In = ar' := by
    intro ar' ha'
    cases ar' with
    | none => rfl
    | some a => simp only [wireNorm, Option.bind_some, u8In, intIn_wireInt]; rw [intIn_int _ _ _ (ha' a rfl)]
  have c4 : ∀ ag' : Option Term, (∀ g, ag' = some g → isNilAtom g = false) →
      (some (wireNorm (ag'.getD (Term.atom kNil)))).filter (fun a => !isNilAtom a) = ag'.map wireNorm := by
    intro ag' hg'
    cases ag' with
    | none => rfl
    | some g => simp [Option.filter, isNilAtom_wireNorm, hg' g rfl]
  simp only [c4 ag hg]
  have e1 := c1 mo
  have e2 := c2 fn hf
  have e3 := c3 ar ha
  exact congrArg some (Prod.ext e1 (Prod.ext e2 (Prod.ext e3 rfl)))

/-- a term that is not a struct of the wrapper's module is rejected by every `from_term` -/
theorem C20_foreign_struct_rejected (t : Term) :
    (structModule t ≠ some mRange → Range.fromTerm t = none) ∧
    (structModule t ≠ some mMapSet → (MapSet.fromTerm t).isNone = true) ∧
    (structModule t ≠ some mDate → Date.fromTerm t = none) ∧
    (structModule t ≠ some mTime → Time.fromTerm t = none) ∧
    (structModule t ≠ some mNaiveDateTime → Naive.fromTerm t = none) ∧
    (structModule t ≠ some mDateTime → DateTime.fromTerm t = none) ∧
    (∀ m, structModule t ≠ some m → msgExcFromTerm m t = none ∧ termExcFromTerm m t = none) ∧
    (structModule t ≠ some mCondClauseError → condExcFromTerm t = none) ∧
    (structModule t ≠ some mKeyError → (KeyError.fromTerm t).isNone = true) ∧
    (structModule t ≠ some mUndefinedFunctionError → UndefFn.fromTerm t = none) ∧
    (structModule t ≠ some mFunctionClauseError → (FnClause.fromTerm t).isNone = true) := by
  have key : ∀ m : Bytes, structModule t ≠ some m → (structModule t != some m) = true := by
    intro m h; simp [bne, h]
  refine ⟨?_, ?_, ?_, ?_, ?_, ?_, ?_, ?_, ?_, ?_, ?_⟩
  · intro h; simp [Range.fromTerm, key _ h]
  · intro h; simp [MapSet.fromTerm, key _ h]
  · intro h; simp [Date.fromTerm, key _ h]
  · intro h; simp [Time.fromTerm, key _ h]
  · intro h; simp [Naive.fromTerm, key _ h]
  · intro h; simp [DateTime.fromTerm, key _ h]
  · intro m h; simp [msgExcFromTerm, termExcFromTerm, key _ h]
  · intro h; simp [condExcFromTerm, key _ h]
  · intro h; simp [KeyError.fromTerm, key _ h]
  · intro h; simp [UndefFn.fromTerm, key _ h]
  · intro h; simp [FnClause.fromTerm, key _ h]

example : structModule (.tuple []) ≠ some mRange := by simp [structModule]

/-! ## map sets -/

/-- the invariant of an `ElixirMapSet`: the elements are strictly ascending under the model of `Ord` (what a `BTreeSet`
holds), and their big integers carry minimal digits (the guard of C11's transitivity) -/
def SetInv (s : MapSet) : Prop := Asc s.elements ∧ ∀ x ∈ s.elements, WFo x = true

/-- every way the library offers to build a map set establishes or keeps the invariant — `new`, `insert`, `remove`,
`clear`, `from_values` / `collect`, `union`, `intersection`, `difference`, `symmetric_difference`, and `from_term`
(which inserts the keys of the inner map) — by C11's order laws -/
theorem C20_mapset_invariant :
    SetInv MapSet.empty ∧
    (∀ (s : MapSet) (t : Term), WFo t = true → SetInv s → SetInv (s.insert t).1) ∧
    (∀ (s : MapSet) (t : Term), SetInv s → SetInv (s.remove t).1 ∧ SetInv s.clear) ∧
    (∀ l : List Term, (∀ x ∈ l, WFo x = true) → SetInv (MapSet.ofValues l)) ∧
    (∀ a b : MapSet, SetInv a → SetInv b →
      SetInv (a.union b) ∧ SetInv (a.intersection b) ∧ SetInv (a.difference b) ∧ SetInv (a.symmetricDifference b)) := by
  have filt : ∀ (l : List Term) (p : Term → Bool), (Asc l ∧ ∀ x ∈ l, WFo x = true) →
      (Asc (l.filter p) ∧ ∀ x ∈ l.filter p, WFo x = true) := by
    intro l p ⟨h1, h2⟩
    exact ⟨asc_sublist List.filter_sublist h1, fun x hx => h2 x (List.mem_filter.mp hx).1⟩
  refine ⟨⟨List.Pairwise.nil, by simp [MapSet.empty]⟩, ?_, ?_, ?_, ?_⟩
  · intro s t ht ⟨h1, h2⟩
    refine ⟨setInsert_asc _ _ ht h2 h1, ?_⟩
    intro x hx
    rcases setInsert_mem _ _ _ hx with h | h
    · exact h2 x h
    · subst h; exact ht
  · intro s t ⟨h1, h2⟩
    refine ⟨⟨asc_sublist (setRemove_sublist _ _) h1, fun x hx => h2 x ((setRemove_sublist _ _).subset hx)⟩, ?_⟩
    exact ⟨List.Pairwise.nil, by simp [MapSet.clear]⟩
  · intro l hl
    exact ⟨foldl_setInsert_sorted l [] hl (by simp) List.Pairwise.nil, foldl_setInsert_wf l [] hl (by simp)⟩
  · intro a b ⟨a1, a2⟩ ⟨b1, b2⟩
    refine ⟨⟨foldl_setInsert_sorted _ _ b2 a2 a1, foldl_setInsert_wf _ _ b2 a2⟩, filt _ _ ⟨a1, a2⟩, filt _ _ ⟨a1, a2⟩, ?_⟩
    have fa := filt a.elements (fun e => !setContains b.elements e) ⟨a1, a2⟩
    have fb := filt b.elements (fun e => !setContains a.elements e) ⟨b1, b2⟩
    exact ⟨foldl_setInsert_sorted _ _ fb.2 fa.2 fa.1, foldl_setInsert_wf _ _ fb.2 fa.2⟩

example : SetInv (MapSet.ofValues [.int 3, .atom [97], .int 3, .big false [0, 0, 0, 0, 1]]) :=
  C20_mapset_invariant.2.2.2.1 _ (by simp [WFo, minDigits])

/-- a map set comes back from its `:sets` v2 struct: for every set that satisfies the invariant, i.e. (previous theorem)
every set the library can build from terms whose big integers have minimal digits -/
theorem C20_mapset_roundtrip (s : MapSet) (hs : SetInv s) :
    (MapSet.fromTerm s.toTerm).map (·.elements) = some s.elements := by
  obtain ⟨hs, -⟩ := hs
  obtain ⟨h0, h1⟩ := mapset_look
  have hin : s.inner = s.elements.map (fun e => (e, Term.list [])) := by
    unfold MapSet.inner
    have hid : s.elements.map (fun e => e) = s.elements := by simp
    have := foldl_mapInsert_asc (fun e => e) (fun _ => Term.list []) s.elements [] (by rw [hid]; exact hs)
      (fun p hp => by cases hp)
    simpa using this
  unfold MapSet.fromTerm MapSet.toTerm
  simp only [mkMap_eq, structModule_lift, fld_lift, getA_mkA_reidx (mapset_reidx s), h0, h1, Option.map_some]
  simp only [val, MapSet.fields, List.map_cons, List.map_nil, List.getD_cons_zero, List.getD_cons_succ,
    Option.bind_some, atomName, bne_self_eq_false, Bool.false_eq_true, if_false, Option.map_some, hin, List.map_map]
  have : (List.map ((fun x => x.fst) ∘ fun e => (e, Term.list [])) s.elements) = s.elements := by
    rw [show ((fun x : Term × Term => x.fst) ∘ fun e => (e, Term.list [])) = id from rfl, List.map_id]
  rw [this, foldl_setInsert_asc s.elements [] hs (by simp)]
  simp

/-- in particular for the set collected from ANY list of values (duplicates, any order) -/
theorem C20_mapset_built_roundtrip (l : List Term) (hl : ∀ x ∈ l, WFo x = true) :
    (MapSet.fromTerm (MapSet.ofValues l).toTerm).map (·.elements) = some (MapSet.ofValues l).elements :=
  C20_mapset_roundtrip _ (C20_mapset_invariant.2.2.2.1 l hl)

example : ∀ x ∈ [Term.int 5, .tuple [.atom [97], .float 0], .int 5], WFo x = true := by simp [WFo, WFoL]

/-- after the wire the set holds the wire images of its elements (collected again: two elements may have become
`Ord`-equal) — for every set satisfying the invariant whose elements' wire images do too -/
theorem C20_mapset_wire (s : MapSet) (hs : SetInv s) (hw : ∀ x ∈ s.elements, WFo (wireNorm x) = true) :
    (MapSet.fromTerm (wireNorm s.toTerm)).map (·.elements) = some (MapSet.ofValues (s.elements.map wireNorm)).elements := by
  obtain ⟨hs, -⟩ := hs
  obtain ⟨h0, h1⟩ := mapset_lookW
  have hin : s.inner = s.elements.map (fun e => (e, Term.list [])) := by
    unfold MapSet.inner
    have hid : s.elements.map (fun e => e) = s.elements := by simp
    have := foldl_mapInsert_asc (fun e => e) (fun _ => Term.list []) s.elements [] (by rw [hid]; exact hs)
      (fun p hp => by cases hp)
    simpa using this
  have hwm : ∀ x ∈ s.elements.map wireNorm, WFo x = true := by
    intro x hx
    obtain ⟨e, he, rfl⟩ := List.mem_map.mp hx
    exact hw e he
  have hS := foldl_setInsert_sorted (s.elements.map wireNorm) [] hwm (by simp) List.Pairwise.nil
  have hk := wireNormKV_unit s.elements []
  simp only [unitKV, List.map_nil] at hk
  unfold MapSet.fromTerm MapSet.toTerm
  simp only [mkMap_eq, wireNorm_map_lift, structModule_lift, fld_lift, getA_wire_reidx (mapset_reidx s), h0, h1, Option.map_some]
  simp only [val, MapSet.fields, List.map_cons, List.map_nil, List.getD_cons_zero, List.getD_cons_succ, wireNorm, wireNormL,
    Option.bind_some, atomName, bne_self_eq_false, Bool.false_eq_true, if_false, Option.map_some, hin, hk, List.map_map]
  have : (List.map ((fun x => x.fst) ∘ fun e => (e, Term.nil)) (List.foldl setInsert [] (List.map wireNorm s.elements))) =
      List.foldl setInsert [] (List.map wireNorm s.elements) := by
    rw [show ((fun x : Term × Term => x.fst) ∘ fun e => (e, Term.nil)) = id from rfl, List.map_id]
  rw [this, foldl_setInsert_asc _ [] hS (by simp)]
  simp [MapSet.ofValues]

example : SetInv ⟨[.int 1099511627776, .atom [97]]⟩ ∧ ∀ x ∈ [Term.int 1099511627776, .atom [97]], WFo (wireNorm x) = true := by
  refine ⟨⟨?_, by simp [WFo]⟩, ?_⟩
  · simp [Asc, Term.cmp, Term.norm, Term.cmpN, Term.rank]; decide
  · intro x hx
    simp only [List.mem_cons, List.not_mem_nil, or_false] at hx
    rcases hx with rfl | rfl
    · simp only [wireNorm, wireInt]; exact minDigits_natDigits _
    · simp [wireNorm, WFo]

/-- the extra hypothesis of `C20_mapset_wire` is no hypothesis: the wire image of a term whose big integers have minimal digits
has minimal digits again (Lemmas/ElixirWireWF.lean), so the wire theorem holds for EVERY set satisfying the invariant, i.e.
(`C20_mapset_invariant`) every set the library can build -/
theorem C20_mapset_wire_all (s : MapSet) (hs : SetInv s) :
    (MapSet.fromTerm (wireNorm s.toTerm)).map (·.elements) = some (MapSet.ofValues (s.elements.map wireNorm)).elements :=
  C20_mapset_wire s hs (fun x hx => WFo_wireNorm x (hs.2 x hx))

example : SetInv ⟨[.int 1099511627776, .atom [97]]⟩ := by
  refine ⟨?_, by simp [WFo]⟩
  simp [Asc, Term.cmp, Term.norm, Term.cmpN, Term.rank]; decide

/-! ## proplists, maps, builders -/

/-- normalising a proplist first does not change the map it converts to -/
theorem C20_proplist_normalize_map (l : List Term) :
    (normalizeProplist (.list l)).bind proplistToMap = proplistToMap (.list l) := by
  simp only [normalizeProplist, proplistToMap, Option.bind_some]
  congr 2
  suffices h : ∀ acc, (l.filterMap normEl).foldl insEl acc = l.foldl insEl acc from h []
  induction l with
  | nil => intro acc; rfl
  | cons a t ih =>
    intro acc
    cases hn : normEl a with
    | none =>
      rw [List.filterMap_cons_none hn, List.foldl_cons, ih]
      congr 1
      unfold normEl at hn
      split at hn
      · cases hn
      · cases hn
      · rename_i h1 h2
        unfold insEl
        split
        · exact absurd rfl (h1 _ _)
        · exact absurd rfl (h2 _)
        · rfl
    | some b =>
      rw [List.filterMap_cons_some hn, List.foldl_cons, List.foldl_cons, ih]
      congr 1
      unfold normEl at hn
      split at hn
      · cases hn; rfl
      · cases hn; rfl
      · cases hn

/-- a map converted to a proplist and back is the same map — for every map whose keys are strictly ascending, the
shape of a `BTreeMap`'s key sequence -/
theorem C20_map_proplist_map (m : List (Term × Term)) (hm : keysSorted m) :
    (mapToProplist (.map m)).bind proplistToMap = some (.map m) := by
  have hm := (asc_iff_sorted m).mpr hm
  simp only [mapToProplist, proplistToMap, Option.bind_some, Option.some.injEq, Term.map.injEq]
  rw [List.foldl_map]
  have := foldl_mapInsert_asc (fun kv : Term × Term => kv.1) (fun kv => kv.2) m [] hm (by simp)
  simpa [insEl] using this

example : keysSorted [(Term.atom [97], Term.int 1), (Term.atom [98], Term.int 2)] := by
  simp [keysSorted, cmp_atom]; decide

/-- which is every map the library can build: whatever entries are inserted into an empty `BTreeMap` in whatever order
(duplicates included; keys with minimal big-integer digits, the guard of C11), the result converts to a proplist and
back to itself.  The decoder builds its maps the same way. -/
theorem C20_built_map_proplist_map (l : List (Term × Term)) (hl : ∀ p ∈ l, WFo p.1 = true) :
    (mapToProplist (.map (l.foldl (fun m kv => mapInsert m kv.1 kv.2) []))).bind proplistToMap =
      some (.map (l.foldl (fun m kv => mapInsert m kv.1 kv.2) [])) :=
  C20_map_proplist_map _ (foldl_mapInsert_sorted (fun kv : Term × Term => kv.1) (fun kv => kv.2) l [] hl (by simp)
    List.Pairwise.nil).1

example : ∀ p ∈ [(Term.int 2, Term.nil), (Term.atom [97], Term.nil), (Term.int 2, Term.int 7)], WFo p.1 = true := by simp [WFo]

/-- the key and value of a (normalised) proplist element -/
def elKV : Term → Term × Term
  | .tuple [k, v] => (k, v)
  | t => (t, t)

/-- a proplist — 2-tuples and bare atoms in ANY order, other elements ignored as `normalize_proplist` does — whose keys
are pairwise different under `Ord` converted to a map and back loses nothing and invents nothing: the result is a
permutation of the normalised proplist (the map's key order).  No order law is needed for this. -/
theorem C20_proplist_map_proplist (l : List Term)
    (hd : ((l.filterMap normEl).map elKV).Pairwise (fun a b => Term.cmp a.1 b.1 ≠ .eq)) :
    ∃ l', (proplistToMap (.list l)).bind mapToProplist = some (.list l') ∧ l'.Perm (l.filterMap normEl) := by
  have hn : ∀ acc, l.foldl insEl acc = ((l.filterMap normEl).map elKV).foldl (fun m kv => mapInsert m kv.1 kv.2) acc := by
    induction l with
    | nil => intro acc; rfl
    | cons a t ih =>
      intro acc
      rw [List.pairwise_map] at hd
      cases hn : normEl a with
      | none =>
        rw [List.filterMap_cons_none hn] at hd ⊢
        rw [List.foldl_cons, ih (by rw [List.pairwise_map]; exact hd)]
        congr 1
        unfold normEl at hn
        split at hn
        · cases hn
        · cases hn
        · rename_i h1 h2
          unfold insEl
          split
          · exact absurd rfl (h1 _ _)
          · exact absurd rfl (h2 _)
          · rfl
      | some b =>
        rw [List.filterMap_cons_some hn] at hd ⊢
        rw [List.pairwise_cons] at hd
        rw [List.foldl_cons, List.map_cons, List.foldl_cons, ih (by rw [List.pairwise_map]; exact hd.2)]
        congr 1
        unfold normEl at hn
        split at hn
        · cases hn; rfl
        · cases hn; rfl
        · cases hn
  have hp := foldl_mapInsert_perm ((l.filterMap normEl).map elKV) [] hd (by simp)
  refine ⟨(l.foldl insEl []).map (fun kv => Term.tuple [kv.1, kv.2]),
    by simp only [proplistToMap, mapToProplist, Option.bind_some], ?_⟩
  rw [hn []]
  simp only [List.nil_append] at hp
  have h2 := hp.map (fun kv : Term × Term => Term.tuple [kv.1, kv.2])
  refine h2.trans ?_
  rw [List.map_map]
  have : ∀ (l0 : List Term), (∀ e ∈ l0, ∃ k v, e = Term.tuple [k, v]) →
      l0.map ((fun kv : Term × Term => Term.tuple [kv.1, kv.2]) ∘ elKV) = l0 := by
    intro l0 h0
    induction l0 with
    | nil => rfl
    | cons e r ih =>
      obtain ⟨k, v, rfl⟩ := h0 e (by simp)
      simp only [List.map_cons, Function.comp, elKV]
      rw [ih (fun e he => h0 e (List.mem_cons_of_mem _ he))]
  rw [this]
  intro e he
  obtain ⟨a, -, ha⟩ := List.mem_filterMap.mp he
  unfold normEl at ha
  split at ha
  · cases ha; exact ⟨_, _, rfl⟩
  · cases ha; exact ⟨_, _, rfl⟩
  · cases ha

example : (([Term.atom [98], .tuple [.atom [97], .int 1], .int 7].filterMap normEl).map elKV).Pairwise
    (fun a b => Term.cmp a.1 b.1 ≠ .eq) := by
  simp [normEl, elKV, cmp_atom]; decide

/-- a proplist of 2-tuples whose keys are already ascending converted to a map and back is the same list -/
theorem C20_proplist_map_proplist_sorted (m : List (Term × Term)) (hm : keysSorted m) :
    (proplistToMap (.list (m.map fun kv => .tuple [kv.1, kv.2]))).bind mapToProplist =
      some (.list (m.map fun kv => .tuple [kv.1, kv.2])) := by
  have h := C20_map_proplist_map m hm
  simp only [mapToProplist, Option.bind_some] at h
  rw [h]
  rfl

/-- with a duplicate key the later value wins and the earlier one is lost (pinned by the repository's own test
`test_proplist_to_map_duplicate_keys_last_wins`), while `proplist_get_atom_key` returns the earlier one -/
theorem C20_proplist_duplicate_last_wins :
    proplistToMap (.list [.tuple [.atom [97], .int 1], .tuple [.atom [97], .int 2]]) = some (.map [(.atom [97], .int 2)]) ∧
    proplistGetAtomKey (.list [.tuple [.atom [97], .int 1], .tuple [.atom [97], .int 2]]) [97] = some (.int 1) := by
  constructor
  · simp only [proplistToMap, List.foldl_cons, List.foldl_nil, insEl, mapInsert, cmp_atom]
    rfl
  · rfl

/-- the keyword list and the atom-key map built from the same chain of builder calls — `put`/`insert` with any
convertible value, `put_atom`, `put_flag`, `put_term`, `put_if`, `put_some`, `extend`, in any number and order —
convert into one another; `len`/`is_empty` count the pushes resp. the distinct keys; every key comes back out of the
keyword list with the value of its first `put` -/
theorem C20_builders_agree (ops : List BOp) :
    isProplist (kwRun ops).2.2 = true ∧ proplistToMap (kwRun ops).2.2 = some (akmRun ops).2.2 ∧
    (kwRun ops).1 = (bopPairs ops).length ∧ (akmRun ops).1 ≤ (kwRun ops).1 ∧
    ((kwRun ops).2.1 = true ↔ bopPairs ops = []) ∧
    (∀ k v r, bopPairs ops = (k, v) :: r → proplistGetAtomKey (kwRun ops).2.2 k = some v) := by
  refine ⟨?_, ?_, rfl, ?_, ?_, ?_⟩
  · simp [kwRun, isProplist, kwBuild, isProplistElement]
  · simp only [kwRun, akmRun, kwBuild, akmBuild, proplistToMap, mkMap, Option.some.injEq, Term.map.injEq]
    rw [List.foldl_map]
    rfl
  · simp only [kwRun, akmRun, mkMap]
    have := (foldl_mapInsert_all (fun _ => True) (fun _ => True) (fun kv : Bytes × Term => Term.atom kv.1)
      (fun kv => kv.2) (bopPairs ops) [] (by simp) (by simp)).2
    simpa using this
  · simp [kwRun]
  · intro k v r h
    simp [kwRun, kwBuild, h, proplistGetAtomKey, List.findSome?]

example : bopPairs [.putIf false [97] (.int 1), .putFlag [98], .putSome [99] none, .extend [([100], .str [104, 105])],
    .put [98] (.bool false)] = [([98], .atom kTrue), ([100], .str [104, 105]), ([98], .atom kFalse)] := by
  simp [bopPairs, BOp.pairs, BVal.into]

/-! ## the tables the model transcribes are the tables of the source (regenerated by tools/gen_misc.py `gen_c20`) -/

/-- module atoms, the keys each `to_term` inserts (in order), the `Elixir.` prefix, the key sets of the exceptions, the
day table of `try_new` and its leap rule are those of the source; the day table and the leap rule are the ISO calendar's.
(The integer field tables are used directly by `C20_bad_field_rejected`, the numeric limits directly by the model.) -/
theorem C20_model_tables_are_the_source_tables :
    (mRange = Gen.C20_RANGE_MODULE ∧ ∀ r : Range, r.fields.map (·.1) = Gen.C20_RANGE_KEYS) ∧
    (mMapSet = Gen.C20_MAPSET_MODULE ∧ ∀ x : MapSet, x.fields.map (·.1) = Gen.C20_MAPSET_KEYS) ∧
    (mDate = Gen.C20_DATE_MODULE ∧ ∀ x : Date, x.fields.map (·.1) = Gen.C20_DATE_KEYS) ∧
    (mTime = Gen.C20_TIME_MODULE ∧ ∀ x : Time, x.fields.map (·.1) = Gen.C20_TIME_KEYS) ∧
    (mNaiveDateTime = Gen.C20_NAIVE_MODULE ∧ ∀ x : Naive, x.fields.map (·.1) = Gen.C20_NAIVE_KEYS) ∧
    (mDateTime = Gen.C20_DATETIME_MODULE ∧ ∀ x : DateTime, x.fields.map (·.1) = Gen.C20_DATETIME_KEYS) ∧
    (∀ m fs, (excFields m fs).map (·.1) = Gen.C20_EXC_BASE_KEYS ++ fs.map (·.1)) ∧
    Gen.C20_EXCEPTIONS = [(mArgumentError, [kMessage]), (mRuntimeError, [kMessage]), (mKeyError, [kKey, kTerm, kMessage]),
      (mMatchError, [kTerm]), (mUndefinedFunctionError, [kModule, kFunction, kArity, kReason]),
      (mArithmeticError, [kMessage]), (mBadMapError, [kTerm]), (mBadFunctionError, [kTerm]),
      (mFunctionClauseError, [kModule, kFunction, kArity, kArgs]), (mCaseClauseError, [kTerm]), (mCondClauseError, []),
      (mWithClauseError, [kTerm])] ∧
    Gen.C20_ELIXIR_PREFIX = elixirDot ∧
    (∀ y : Int, ∀ p ∈ Gen.C20_DAYS, maxDay y p.1 = some (if isLeapYear y then p.2.2 else p.2.1)) ∧
    Gen.C20_DAYS.map (·.1) = [1, 2, 3, 4, 5, 6, 7, 8, 9, 10, 11, 12] ∧
    (∀ p ∈ Gen.C20_DAYS, p.2.1 = Spec.Cal.daysIn 2023 p.1 ∧ p.2.2 = Spec.Cal.daysIn 2024 p.1) ∧
    Gen.C20_LEAP_RULE = [4, 100, 400] := by
  refine ⟨⟨rfl, fun _ => rfl⟩, ⟨rfl, fun _ => rfl⟩, ⟨rfl, fun _ => rfl⟩, ⟨rfl, fun _ => rfl⟩, ⟨rfl, fun _ => rfl⟩,
    ⟨rfl, fun _ => rfl⟩, fun _ _ => rfl, by decide, rfl, ?_, by decide, by decide, by decide⟩
  intro y p hp
  simp only [Gen.C20_DAYS, List.mem_cons, List.not_mem_nil, or_false] at hp
  rcases hp with rfl | rfl | rfl | rfl | rfl | rfl | rfl | rfl | rfl | rfl | rfl | rfl <;> simp [maxDay]

/-! ## derived struct mappings (`#[derive(ElixirStruct)]`, erltf_serde_derive)

The generated `Serialize` / `Deserialize` are modelled in Impl/Serde.lean (`ser (.exStruct …)`, `de (.exStruct …)`,
`deExFields`; the struct key and the module prefix are regenerated from the macro's source, Generated/Misc.lean) and tied to
the real derive output by the c15 correspondence run (two derived types, perturbed maps).  Field types range over the whole
universe of C15 (every integer width, strings, options, containers, nested derived structs …). -/

/-- a derived struct converts to a term and back to an equal value, also after that term has been through the wire encoding
(`Serde.wireT`: integers beyond 32 bits as big integers, …) — for every module name, every list of fields of every type of
the universe, every value.  The guard is the one of C15 (distinct field names none of which is `__struct__`, field types
the format can carry, maps inside listed in key order). -/
theorem C20_derived_struct_roundtrip (md : Bytes) (fts : List (Bytes × Serde.Ty)) (v : Serde.Val)
    (ht : Serde.hasTy v (.exStruct md fts) = true) (hd : Spec.Serde.distinguishableW v (.exStruct md fts) = true) :
    Serde.de (.exStruct md fts) (Serde.ser v) = .ok v ∧ Serde.de (.exStruct md fts) (Serde.wireT (Serde.ser v)) = .ok v := by
  simp only [Spec.Serde.distinguishableW, Spec.Serde.distinguishable, Spec.Serde.Val.plainW, Spec.Serde.Val.plain,
    Bool.and_eq_true] at hd
  exact ⟨Serde.de_ser _ v ht hd.1.1 hd.1.2, Serde.deW _ v ht hd.1.1 hd.1.2 hd.2⟩

example : Serde.hasTy (.exStruct [85] [([97], .int .i64 1099511627776), ([98], .some (.string [104, 105]))])
      (.exStruct [85] [([97], .int .i64), ([98], .option .string)]) = true ∧
    Spec.Serde.distinguishableW (.exStruct [85] [([97], .int .i64 1099511627776), ([98], .some (.string [104, 105]))])
      (.exStruct [85] [([97], .int .i64), ([98], .option .string)]) = true := by decide

/-- a map that names ANOTHER module under `__struct__` (whichever way the key and the name are written: atom, binary or
string) is rejected, whatever else it contains -/
theorem C20_derived_struct_rejects_foreign_module (md : Bytes) (fts : List (Bytes × Serde.Ty)) (m : List (Term × Term))
    (kv : Term × Term) (hm : kv ∈ m) (hk : Serde.keyIs Serde.sStructKey kv = true)
    (hv : ∀ s, Serde.deStr kv.2 = .ok s → s ≠ Serde.sElixirDot ++ md) :
    Serde.de (.exStruct md fts) (.map m) = .error .err :=
  SerdeEx.foreign_module md fts m kv hm hk hv

example : Serde.de (.exStruct [85] []) (.map [(.atom Serde.sStructKey, .atom (Serde.sElixirDot ++ [86]))]) = .error .err := by
  apply C20_derived_struct_rejects_foreign_module [85] [] _ (.atom Serde.sStructKey, .atom (Serde.sElixirDot ++ [86])) (by simp)
    (by decide)
  intro s hs; simp [Serde.deStr] at hs; subst hs; decide

/-- a map that lacks one of the struct's fields is rejected — no value is made up for it, not even `None` for an `Option` -/
theorem C20_derived_struct_rejects_missing_field (md : Bytes) (fts : List (Bytes × Serde.Ty)) (m : List (Term × Term))
    (n : Bytes) (ty : Serde.Ty) (h : (n, ty) ∈ fts) (hf : m.filter (Serde.keyIs n) = []) :
    Serde.de (.exStruct md fts) (.map m) = .error .err :=
  SerdeEx.missing_field_de md fts m n ty h hf

example : Serde.de (.exStruct [85] [([97], .option .bool)]) (.map [(.atom Serde.sStructKey, .atom (Serde.sElixirDot ++ [85]))]) =
    .error .err :=
  C20_derived_struct_rejects_missing_field [85] _ _ [97] (.option .bool) (by simp) (by decide)

end Edp.Props.C20
