import EdpVerif.Generated.MiscC04
import EdpVerif.Generated.MiscState
import EdpVerif.Lemmas.Handshake
import EdpVerif.Lemmas.Epmd
import EdpVerif.Lemmas.Connect
/-!
# C04 — handshake: connected only after cookie proof, in protocol order; failure is final; flags are the intersection; layouts

All statements are about `Impl.Handshake.step` / `run` (the model of state_machine.rs + handshake.rs + flags.rs, tied to
the code by the correspondence run) and quantify over EVERY sequence of API calls with arbitrary byte arguments, every
configuration (cookie, name, flags, creation) and every digest function `dg` (uninterpreted: nothing cryptographic is
claimed; in the driver `dg` is MD5 (cookie ++ decimal challenge)).

`Spec.Handshake.connStep` is the protocol automaton of the connecting side, written from the protocol; the model refines
it (`C04_refines_protocol`), and the shape of every call sequence that ends `connected` is spelled out without reference
to either (`C04_connected_only_in_order`, `C04_in_order_connects`).
-/
namespace Edp.Props.C04
open Edp
open Edp.Impl.Handshake
open Edp.Lemmas.Handshake
open Edp.Spec.Handshake (Op Phase Conn Side Resp connStep connRun connResps parseAck parseChallenge parseStatus parseReply)

/-- a configuration and digest used by the non-vacuity examples -/
def cfg0 : Cfg := { name := [110, 64, 104], cookie := [99, 107], flags := 0xd07df7fbd, creation := 7 }
def dg0 : Bytes → Nat → Bytes := fun ck c => List.replicate 15 0 ++ [UInt8.ofNat (ck.length + c)]
/-- a well-formed challenge message: flags 0xff, challenge 9, creation 3, name "p" -/
def chal0 : Bytes := [78, 0, 0, 0, 0, 0, 0, 0, 255, 0, 0, 0, 9, 0, 0, 0, 3, 0, 1, 112]
def ack0 (c : Nat) : Bytes := 97 :: dg0 cfg0.cookie c
def statusOk : Bytes := [115, 111, 107]
def statusNok : Bytes := [115, 110, 111, 107]
/-- the calls of `Connection::connect` with a conforming peer -/
def good0 : List Op := connectScript statusOk chal0 5 (ack0 5)

/-! ## connected only after the cookie proof, made in protocol order, in this handshake -/

/-- THE central statement. Whatever calls were made, in whatever order and with whatever arguments: if the machine is
`connected`, then the call sequence since the last `disconnect` (`pre` is empty or ends with one; nothing after it is a
`disconnect`) contains `begin_connect`, then the first `prepare_send_name` after it (the name has at most 255 bytes), then
the first `handle_status` after that (an accepting status), then the first `handle_challenge` after that (a well-formed
challenge; `c` is the challenge this side generated in THAT call), then the first `prepare_challenge_reply` after that,
then the first `handle_challenge_ack` after that, whose digest is `dg cookie c` — and the negotiated capability set is
the intersection of that challenge's flags with this side's. (`prepare_complement` may occur in the gaps.) -/
theorem C04_connected_only_in_order (cfg : Cfg) (dg : Bytes → Nat → Bytes) (ops : List Op)
    (hc : (run cfg dg ops).state = .connected) :
    ∃ pre g0 g1 g2 sb g3 cb c g4 g5 ab post,
      ops = pre ++ g0 ++ Op.beginConnect :: g1 ++ Op.prepareSendName :: g2 ++ Op.handleStatus sb :: g3 ++
        Op.handleChallenge cb c :: g4 ++ Op.prepareChallengeReply :: g5 ++ Op.handleChallengeAck ab :: post ∧
      (pre = [] ∨ ∃ q, pre = q ++ [Op.disconnect]) ∧
      (∀ o ∈ g0, o.isBegin = false ∧ o.isDisconnect = false) ∧
      (∀ o ∈ g1, (o.isSendName || o.isDisconnect) = false) ∧
      (∀ o ∈ g2, (o.isStatus || o.isDisconnect) = false) ∧
      (∀ o ∈ g3, (o.isChallenge || o.isDisconnect) = false) ∧
      (∀ o ∈ g4, (o.isReply || o.isDisconnect) = false) ∧
      (∀ o ∈ g5, (o.isAck || o.isDisconnect) = false) ∧
      (∀ o ∈ post, o.isDisconnect = false) ∧
      cfg.name.length ≤ 255 ∧
      (∃ st, parseStatus sb = some st ∧ st.accepts = true) ∧
      (∃ m, parseChallenge cb = some m ∧ (run cfg dg ops).neg = some (m.flags &&& cfg.flags)) ∧
      parseAck ab = some (dg cfg.cookie c) := by
  have h1 : abs (run cfg dg ops) = connRun (sideOf cfg) dg Conn.empty ops := by
    rw [run, runFrom_refines, abs_init]
  have he : (connRun (sideOf cfg) dg Conn.empty ops).phase = .established := by
    rw [← h1]; exact (connected_iff _).mp hc
  have hneg : (run cfg dg ops).neg = (connRun (sideOf cfg) dg Conn.empty ops).neg := by rw [← h1]; rfl
  obtain ⟨pre, g0, g1, g2, sb, g3, cb, c, g4, g5, ab, post, e, h⟩ := established_decomp (sideOf cfg) dg ops he
  rw [← hneg] at h
  exact ⟨pre, g0, g1, g2, sb, g3, cb, c, g4, g5, ab, post, e, h⟩

example : (run cfg0 dg0 good0).state = .connected := by decide

/-- and conversely: every call sequence of that shape ends `connected` (so the shape is exactly the set of successful
histories — neither a conforming peer nor out-of-order calls that were refused in between are locked out) -/
theorem C04_in_order_connects (cfg : Cfg) (dg : Bytes → Nat → Bytes) (pre g0 g1 g2 g3 : List Op) (sb cb : Bytes) (c : Nat)
    (g4 g5 : List Op) (ab : Bytes) (post : List Op)
    (hpre : pre = [] ∨ ∃ q, pre = q ++ [Op.disconnect])
    (hg0 : ∀ o ∈ g0, o.isBegin = false ∧ o.isDisconnect = false)
    (hg1 : ∀ o ∈ g1, (o.isSendName || o.isDisconnect) = false)
    (hg2 : ∀ o ∈ g2, (o.isStatus || o.isDisconnect) = false)
    (hg3 : ∀ o ∈ g3, (o.isChallenge || o.isDisconnect) = false)
    (hg4 : ∀ o ∈ g4, (o.isReply || o.isDisconnect) = false)
    (hg5 : ∀ o ∈ g5, (o.isAck || o.isDisconnect) = false)
    (hpost : ∀ o ∈ post, o.isDisconnect = false)
    (hname : cfg.name.length ≤ 255)
    (hst : ∃ st, parseStatus sb = some st ∧ st.accepts = true)
    (hm : ∃ m, parseChallenge cb = some m)
    (hack : parseAck ab = some (dg cfg.cookie c)) :
    (run cfg dg (pre ++ g0 ++ Op.beginConnect :: g1 ++ Op.prepareSendName :: g2 ++ Op.handleStatus sb :: g3 ++
      Op.handleChallenge cb c :: g4 ++ Op.prepareChallengeReply :: g5 ++ Op.handleChallengeAck ab :: post)).state
      = .connected := by
  rw [connected_iff, run, runFrom_refines, abs_init]
  exact established_of_shape (sideOf cfg) dg pre g0 g1 g2 g3 sb cb c g4 g5 ab post hpre hg0 hg1 hg2 hg3 hg4 hg5 hpost
    hname hst hm hack

/-- a short form of the central statement, as in the design: there are indices `i < j`, `ops[i]` a well-formed
challenge message for which this side generated `c`, `ops[j]` the ack with `dg cookie c`, and no `disconnect` after `i` -/
theorem C04_connected_only_after_proof (cfg : Cfg) (dg : Bytes → Nat → Bytes) (ops : List Op)
    (hc : (run cfg dg ops).state = .connected) :
    ∃ p1 cb c mid ab post, ops = p1 ++ Op.handleChallenge cb c :: mid ++ Op.handleChallengeAck ab :: post ∧
      (parseChallenge cb).isSome = true ∧ parseAck ab = some (dg cfg.cookie c) ∧
      (∀ o ∈ mid, o.isDisconnect = false) ∧ (∀ o ∈ post, o.isDisconnect = false) := by
  obtain ⟨pre, g0, g1, g2, sb, g3, cb, c, g4, g5, ab, post, e, _, _, _, _, _, hg4, hg5, hpost, _, _, ⟨m, hm, _⟩, hack⟩ :=
    C04_connected_only_in_order cfg dg ops hc
  refine ⟨pre ++ g0 ++ Op.beginConnect :: g1 ++ Op.prepareSendName :: g2 ++ Op.handleStatus sb :: g3, cb, c,
    g4 ++ Op.prepareChallengeReply :: g5, ab, post, by simp [e], by simp [hm], hack, ?_, hpost⟩
  intro o ho
  rcases List.mem_append.mp ho with h | h
  · have := hg4 o h; simp only [Bool.or_eq_false_iff] at this; exact this.2
  · rcases List.mem_cons.mp h with rfl | h
    · rfl
    · have := hg5 o h; simp only [Bool.or_eq_false_iff] at this; exact this.2

/-- `disconnect` starts from scratch: whatever happened before it is forgotten — in particular a proof (ack) or a
challenge of an earlier handshake is of no use afterwards, a whole new handshake is needed (apply
`C04_connected_only_in_order` to `post`) -/
theorem C04_disconnect_resets (cfg : Cfg) (dg : Bytes → Nat → Bytes) (pre post : List Op) :
    run cfg dg (pre ++ Op.disconnect :: post) = run cfg dg post := by
  simp [run, runFrom_append, runFrom_cons, step, State.init]

example : (run cfg0 dg0 (good0 ++ [.disconnect, .handleChallengeAck (ack0 5)])).state = .disconnected := by decide

/-! ## the model refines the protocol automaton -/

/-- over every call sequence: the machine's state stands for the phase the protocol automaton of the connecting side is
in (`abs`), its negotiated flags are the automaton's, and every call answers what the automaton answers — success,
the same bytes, or an error (never a panic) -/
theorem C04_refines_protocol (cfg : Cfg) (dg : Bytes → Nat → Bytes) (ops : List Op) :
    abs (run cfg dg ops) = connRun (sideOf cfg) dg Conn.empty ops ∧
    (outsFrom cfg dg State.init ops).map respOf = (connResps (sideOf cfg) dg Conn.empty ops).map some := by
  constructor
  · rw [run, runFrom_refines, abs_init]
  · rw [outs_refine, abs_init]

example : connRun (sideOf cfg0) dg0 Conn.empty good0 = ⟨.established, some (255 &&& 0xd07df7fbd)⟩ := by decide

/-! ## failure is final; bad input never connects; out-of-order calls are refused -/

/-- once `Failed` (or left in `SendingName` by a refused name): every call but `disconnect` is an
`InvalidStateTransition` error and nothing changes — in particular `Connected` is out of reach until `disconnect` -/
theorem C04_failed_is_final (cfg : Cfg) (dg : Bytes → Nat → Bytes) (s : State)
    (hs : s.state = .failed ∨ s.state = .sendingName) (ops : List Op) (hnd : ∀ o ∈ ops, o ≠ Op.disconnect) :
    runFrom cfg dg s ops = s ∧ ∀ o ∈ outsFrom cfg dg s ops, o = Out.err .invalidTransition := by
  have stuck : ∀ op, op ≠ Op.disconnect → step cfg dg s op = (s, .err .invalidTransition) := by
    intro op hd
    cases op with
    | disconnect => exact absurd rfl hd
    | beginConnect => exact step_out_of_order cfg dg s _ _ rfl (by rcases hs with h | h <;> simp [h])
    | prepareSendName => exact step_out_of_order cfg dg s _ _ rfl (by rcases hs with h | h <;> simp [h])
    | handleStatus b => exact step_out_of_order cfg dg s _ _ rfl (by rcases hs with h | h <;> simp [h])
    | prepareComplement => exact step_out_of_order cfg dg s _ _ rfl (by rcases hs with h | h <;> simp [h])
    | handleChallenge b c => exact step_out_of_order cfg dg s _ _ rfl (by rcases hs with h | h <;> simp [h])
    | prepareChallengeReply => exact step_out_of_order cfg dg s _ _ rfl (by rcases hs with h | h <;> simp [h])
    | handleChallengeAck b => exact step_out_of_order cfg dg s _ _ rfl (by rcases hs with h | h <;> simp [h])
  induction ops with
  | nil => exact ⟨rfl, by simp [outsFrom]⟩
  | cons op rest ih =>
    have h1 := stuck op (hnd op (by simp))
    obtain ⟨ih1, ih2⟩ := ih (fun o ho => hnd o (by simp [ho]))
    constructor
    · rw [runFrom_cons, h1]; exact ih1
    · intro o ho
      simp only [outsFrom, h1, List.mem_cons] at ho
      rcases ho with rfl | ho
      · rfl
      · exact ih2 o ho

example : (runFrom cfg0 dg0 ⟨.failed, some 5, some 9, none⟩ good0).state = .failed := by decide

/-- what a misbehaving peer (or an over-long local name) leads to: a call that fails with `ConnectionRefused`,
`InvalidHandshakeMessage` or `AuthenticationFailed` leaves the machine `Failed`; `NodeNameTooLong` leaves it in
`SendingName`; both are dead ends (`C04_failed_is_final`) -/
theorem C04_peer_error_latches (cfg : Cfg) (dg : Bytes → Nat → Bytes) (s : State) (op : Op) (e : Err)
    (h : (step cfg dg s op).2 = .err e) (he : e = .refused ∨ e = .malformed ∨ e = .auth ∨ e = .nameTooLong) :
    (e = .nameTooLong ∧ (step cfg dg s op).1.state = .sendingName) ∨
    (e ≠ .nameTooLong ∧ (step cfg dg s op).1.state = .failed) := by
  rcases step_err_state cfg dg s op e h with ⟨h1, _⟩ | ⟨h1, h2⟩ | ⟨h1, h2⟩
  · rcases h1 with rfl | rfl <;> simp at he
  · exact .inl ⟨h1, h2⟩
  · refine .inr ⟨?_, h2⟩
    rcases h1 with rfl | rfl | rfl <;> simp

/-- refusal status, malformed / truncated / ill-typed / out-of-order MESSAGE, wrong digest: once any call of a handshake
has returned such an error, no later call reaches `Connected` until `disconnect` -/
theorem C04_never_connected_after_error (cfg : Cfg) (dg : Bytes → Nat → Bytes) (pre : List Op) (op : Op) (post : List Op)
    (e : Err) (h : (step cfg dg (run cfg dg pre) op).2 = .err e)
    (he : e = .refused ∨ e = .malformed ∨ e = .auth ∨ e = .nameTooLong) (hnd : ∀ o ∈ post, o ≠ Op.disconnect) :
    (run cfg dg (pre ++ op :: post)).state ≠ .connected := by
  have hdead : (step cfg dg (run cfg dg pre) op).1.state = .failed ∨ (step cfg dg (run cfg dg pre) op).1.state = .sendingName := by
    rcases C04_peer_error_latches cfg dg _ op e h he with ⟨_, h2⟩ | ⟨_, h2⟩
    · exact .inr h2
    · exact .inl h2
  have hfin := (C04_failed_is_final cfg dg _ hdead post hnd).1
  have e1 : run cfg dg (pre ++ op :: post) = runFrom cfg dg (step cfg dg (run cfg dg pre) op).1 post := by
    simp [run, runFrom_append, runFrom_cons]
  rw [e1, hfin]
  rcases hdead with h | h <;> simp [h]

example : (step cfg0 dg0 (run cfg0 dg0 [.beginConnect, .prepareSendName]) (.handleStatus statusNok)).2 = .err .refused := by
  decide
example : (run cfg0 dg0 ([.beginConnect, .prepareSendName, .handleStatus statusNok] ++ good0.drop 2)).state = .failed := by
  decide

/-- a call made in another state than the one the protocol puts it in (`needs`: begin_connect — Disconnected,
prepare_send_name — Connecting, handle_status — AwaitingStatus, prepare_complement and handle_challenge —
AwaitingChallenge, prepare_challenge_reply — SendingChallengeReply, handle_challenge_ack — AwaitingChallengeAck) returns
`InvalidStateTransition` and changes nothing, whatever its argument -/
theorem C04_out_of_order_rejected (cfg : Cfg) (dg : Bytes → Nat → Bytes) (s : State) (op : Op) (st : ConnState)
    (hn : needs op = some st) (hs : s.state ≠ st) : step cfg dg s op = (s, .err .invalidTransition) :=
  step_out_of_order cfg dg s op st hn hs

example : (run cfg0 dg0 [.handleChallenge chal0 5, .prepareChallengeReply, .handleChallengeAck (ack0 5)]).state
    = .disconnected := by decide

/-- the only call that takes the machine INTO `connected` is an ack, made while the ack is awaited, carrying
`dg cookie (the challenge this side issued)`, and it returns success (so no error result ever enters `connected`) -/
theorem C04_bad_input_never_connects (cfg : Cfg) (dg : Bytes → Nat → Bytes) (s : State) (op : Op)
    (hs : s.state ≠ .connected) (hc : (step cfg dg s op).1.state = .connected) :
    (step cfg dg s op).2 = .unit ∧ s.state = .awaitingChallengeAck ∧
    ∃ a c, op = .handleChallengeAck a ∧ s.our = some c ∧ parseAck a = some (dg cfg.cookie c) := by
  obtain ⟨r1, r2⟩ := step_refines cfg dg s op
  have hn : ¬ (abs s).phase = .established := fun h => hs ((connected_iff s).mpr h)
  have hp : (connStep (sideOf cfg) dg (abs s) op).1.phase = .established := by
    rw [← r1]; exact (connected_iff _).mp hc
  obtain ⟨a, c, rfl, hr, hack⟩ := enter_established (sideOf cfg) dg _ _ hn hp
  obtain ⟨hst, hour⟩ := abs_replied s c hr
  refine ⟨?_, hst, a, c, rfl, hour, hack⟩
  have : (connStep (sideOf cfg) dg (abs s) (.handleChallengeAck a)).2 = .ok := by
    have hr' : (abs s) = ⟨.replied c, (abs s).neg⟩ := by rw [← hr]
    rw [hr']
    simp [connStep, hack]
  rw [this] at r2
  cases ho : (step cfg dg s (.handleChallengeAck a)).2 <;> simp [ho, respOf] at r2
  rfl

example : (step cfg0 dg0 (run cfg0 dg0 (good0.take 6)) (.handleChallengeAck (ack0 5))).1.state = .connected := by decide

/-- while the ack is awaited: a malformed / truncated / wrong-tag / wrong-digest ack is an error and the machine is `Failed` -/
theorem C04_bad_ack_rejected (cfg : Cfg) (dg : Bytes → Nat → Bytes) (s : State) (a : Bytes) (c : Nat)
    (hs : s.state = .awaitingChallengeAck) (ho : s.our = some c) (hbad : parseAck a ≠ some (dg cfg.cookie c)) :
    (step cfg dg s (.handleChallengeAck a)).1 = { s with state := .failed } ∧
    (step cfg dg s (.handleChallengeAck a)).2.isErr = true := by
  simp only [step, decodeAck_eq, hs]
  cases hp : parseAck a with
  | none => simp [Out.isErr]
  | some d =>
    have : d ≠ dg cfg.cookie c := by
      intro e
      exact hbad (by rw [hp, e])
    simp [ho, this, Out.isErr]

example : (step cfg0 dg0 (run cfg0 dg0 (good0.take 6)) (.handleChallengeAck (ack0 9))) =
    (⟨.failed, some 5, some 9, some (255 &&& 0xd07df7fbd)⟩, .err .auth) := by decide

/-- while the status is awaited: ok / ok_simultaneous — success and the challenge is awaited next; a refusal
(nok, not_allowed, alive), an unknown or malformed status — an error and the machine is `Failed` -/
theorem C04_status (cfg : Cfg) (dg : Bytes → Nat → Bytes) (s : State) (b : Bytes) (hs : s.state = .awaitingStatus) :
    ((∃ st, parseStatus b = some st ∧ st.accepts = true) →
      step cfg dg s (.handleStatus b) = ({ s with state := .awaitingChallenge }, .unit)) ∧
    ((¬ ∃ st, parseStatus b = some st ∧ st.accepts = true) →
      (step cfg dg s (.handleStatus b)).1 = { s with state := .failed } ∧
      (step cfg dg s (.handleStatus b)).2.isErr = true) := by
  simp only [step, decodeStatus_eq, hs]
  cases hp : parseStatus b with
  | none => simp [Out.isErr]
  | some st =>
    have := convStatus_isOk st
    cases hacc : st.accepts <;> simp [hacc, this, Out.isErr]

example : (step cfg0 dg0 (run cfg0 dg0 (good0.take 2)) (.handleStatus statusNok)).1.state = .failed := by decide

/-! ## the reply carries the digest of the cookie and the peer's challenge -/

/-- at any point of any call sequence: a reply that is emitted is exactly `'r' ourChallenge digest(cookie, theirChallenge)`,
where the two challenges are those of the challenge message handled in this handshake: `ops = pre ++ handleChallenge cb c :: g`
with `cb` well-formed carrying the peer's challenge `t`, and neither a reply nor a `disconnect` since -/
theorem C04_reply_digest (cfg : Cfg) (dg : Bytes → Nat → Bytes) (ops : List Op) (bs : Bytes)
    (h : (step cfg dg (run cfg dg ops) .prepareChallengeReply).2 = .bytes bs) :
    ∃ c t, bs = Spec.Handshake.reply c (dg cfg.cookie t) ∧
      ∃ pre cb m g, ops = pre ++ Op.handleChallenge cb c :: g ∧ parseChallenge cb = some m ∧ m.challenge = t ∧
        ∀ o ∈ g, (o.isReply || o.isDisconnect) = false := by
  obtain ⟨_, r2⟩ := step_refines cfg dg (run cfg dg ops) .prepareChallengeReply
  have h1 : abs (run cfg dg ops) = connRun (sideOf cfg) dg Conn.empty ops := by
    rw [run, runFrom_refines, abs_init]
  rw [h, h1] at r2
  generalize hq : connRun (sideOf cfg) dg Conn.empty ops = q at r2
  obtain ⟨ph, ng⟩ := q
  cases ph <;> simp [respOf, connStep] at r2
  rename_i c t
  refine ⟨c, t, by rw [r2]; rfl, ?_⟩
  have hph : (connRun (sideOf cfg) dg Conn.empty ops).phase = .challenged c t := by rw [hq]
  rcases last_entry (sideOf cfg) dg (P := fun h => h.phase = .challenged c t) (leaves := fun o => o.isReply || o.isDisconnect)
      (exit_challenged (sideOf cfg) dg c t) ops Conn.empty hph with ⟨h0, _⟩ | ⟨pre, o, g, e, hn, hp, hg⟩
  · simp [Conn.empty] at h0
  · obtain ⟨cb, m, rfl, hm, ht, _⟩ := enter_challenged (sideOf cfg) dg c t _ _ hn hp
    exact ⟨pre, cb, m, g, e, hm, ht, hg⟩

example : (step cfg0 dg0 (run cfg0 dg0 (good0.take 5)) .prepareChallengeReply).2
    = .bytes (Spec.Handshake.reply 5 (dg0 cfg0.cookie 9)) := by decide

/-- and a peer reading that reply gets this side's challenge and that digest back (16-byte digest, 32-bit challenge) -/
theorem C04_reply_parses (c : Nat) (d : Bytes) (hc : c < 4294967296) (hd : d.length = 16) :
    parseReply (Spec.Handshake.reply c d) = some (c, d) := by
  have e : Spec.Handshake.reply c d = be16 21 ++ (114 :: (be32 c ++ d)) := by
    simp [Spec.Handshake.reply, List.append_assoc]
  have h1 : rdN 2 (be16 21 ++ (114 :: (be32 c ++ d))) = some (21, 114 :: (be32 c ++ d)) :=
    rdN_beN 2 21 _ (by decide)
  have h2 : rdN 4 (be32 c ++ d) = some (c, d) := rdN_beN 4 c d (by simpa using hc)
  have hl : (be32 c ++ d).length = 20 := by simp [be32, beN_length, hd]
  rw [e]
  unfold parseReply
  rw [h1]
  simp [hl, h2]

example : parseReply (Spec.Handshake.reply 5 (dg0 cfg0.cookie 9)) = some (5, dg0 cfg0.cookie 9) :=
  C04_reply_parses 5 _ (by decide) (by decide)

/-! ## negotiated flags = intersection -/

/-- one call, made while the challenge is awaited: a well-formed challenge message sets the negotiated flags to
`peer flags AND our flags`, stores the peer's challenge and the freshly generated one, and the reply is due; a
malformed one is an error, changes none of them, and the machine is `Failed` -/
theorem C04_flags (cfg : Cfg) (dg : Bytes → Nat → Bytes) (s : State) (b : Bytes) (c : Nat)
    (hs : s.state = .awaitingChallenge) :
    match parseChallenge b with
    | some m => step cfg dg s (.handleChallenge b c) =
        (⟨.sendingChallengeReply, some c, some m.challenge, some (m.flags &&& cfg.flags)⟩, .unit)
    | none => step cfg dg s (.handleChallenge b c) = ({ s with state := .failed }, .err .malformed) := by
  simp only [step, decodeChallenge_eq, hs]
  cases parseChallenge b <;> simp [convMsg]

/-- over every call sequence the negotiated flags are the protocol automaton's: nothing before a well-formed challenge
was handled in its place, `peer flags AND our flags` of that challenge from then on, nothing again after `disconnect`
(for the `connected` state see the last clause of `C04_connected_only_in_order`) -/
theorem C04_flags_run (cfg : Cfg) (dg : Bytes → Nat → Bytes) (ops : List Op) :
    (run cfg dg ops).neg = (connRun (sideOf cfg) dg Conn.empty ops).neg := by
  have h1 : abs (run cfg dg ops) = connRun (sideOf cfg) dg Conn.empty ops := by
    rw [run, runFrom_refines, abs_init]
  rw [← h1]; rfl

example : (run cfg0 dg0 (good0.take 5)).neg = some (255 &&& 0xd07df7fbd) := by decide

/-! ## layouts -/

/-- every message the state machine emits, in any state, is the protocol's layout: the old-style send_name
(name at most 255 bytes; a longer name is an error, never a wrapped length), the complement, the reply -/
theorem C04_layouts (cfg : Cfg) (dg : Bytes → Nat → Bytes) (s : State) (op : Op) (bs : Bytes)
    (h : (step cfg dg s op).2 = .bytes bs) :
    (op = .prepareSendName ∧ cfg.name.length ≤ 255 ∧ bs = Spec.Handshake.sendNameOld cfg.flags cfg.name) ∨
    (op = .prepareComplement ∧ bs = Spec.Handshake.complement cfg.flags cfg.creation) ∨
    (op = .prepareChallengeReply ∧ ∃ c t, s.our = some c ∧ s.their = some t ∧
      bs = Spec.Handshake.reply c (dg cfg.cookie t)) := by
  obtain ⟨_, r2⟩ := step_refines cfg dg s op
  rw [h] at r2
  simp only [respOf, Option.some.injEq] at r2
  cases op with
  | beginConnect => simp only [step] at h; split at h <;> simp at h
  | prepareSendName =>
    left
    simp only [step] at h
    split at h
    · simp at h
    · by_cases hn : cfg.name.length > 255
      · simp [encodeSendNameOld, hn] at h
      · simp only [encodeSendNameOld, hn, if_false, Out.bytes.injEq] at h
        refine ⟨rfl, by omega, ?_⟩
        rw [← h]
        simp [Spec.Handshake.sendNameOld]
  | handleStatus b =>
    simp only [step] at h
    split at h
    · simp at h
    · split at h
      · split at h <;> simp at h
      · simp at h
      · simp at h
  | prepareComplement =>
    simp only [step] at h
    split at h
    · simp at h
    · simp only [Out.bytes.injEq] at h
      exact .inr (.inl ⟨rfl, by rw [← h]; simp [Spec.Handshake.complement]⟩)
  | handleChallenge b c =>
    simp only [step] at h
    split at h
    · simp at h
    · split at h <;> simp at h
  | prepareChallengeReply =>
    simp only [step] at h
    split at h
    · simp at h
    · split at h
      · rename_i o t ho ht
        simp only [Out.bytes.injEq] at h
        exact .inr (.inr ⟨rfl, o, t, ho, ht, by rw [← h]; simp [encodeReply, Spec.Handshake.reply]⟩)
      · simp at h
  | handleChallengeAck b =>
    simp only [step] at h
    split at h
    · simp at h
    · split at h
      · split at h
        · simp at h
        · split at h <;> simp at h
      · simp at h
      · simp at h
  | disconnect => simp [step] at h

example : (step cfg0 dg0 (run cfg0 dg0 [.beginConnect]) .prepareSendName).2
    = .bytes (Spec.Handshake.sendNameOld cfg0.flags cfg0.name) := by decide

/-- when the name is due: a name of at most 255 bytes always yields the send_name message; a longer one always an error -/
theorem C04_send_name_total (cfg : Cfg) (dg : Bytes → Nat → Bytes) (s : State) (hs : s.state = .connecting) :
    (step cfg dg s .prepareSendName).2 =
      if cfg.name.length ≤ 255 then .bytes (Spec.Handshake.sendNameOld cfg.flags cfg.name) else .err .nameTooLong := by
  by_cases hn : cfg.name.length > 255
  · have : ¬ cfg.name.length ≤ 255 := by omega
    simp [step, hs, encodeSendNameOld, hn, this]
  · have h2 : cfg.name.length ≤ 255 := by omega
    simp [step, hs, encodeSendNameOld, hn, h2, Spec.Handshake.sendNameOld]

/-- the message structs' encoders produce the protocol layouts too (new-style send_name, challenge, reply, ack) -/
theorem C04_codec_layouts (f cr ch : Nat) (name d : Bytes) (hn : name.length ≤ 255) :
    encodeSendName ⟨f, cr, name⟩ = .ok (Spec.Handshake.sendNameNew f cr name) ∧
    encodeSendNameOld ⟨f, cr, name⟩ = .ok (Spec.Handshake.sendNameOld f name) ∧
    encodeChallenge ⟨f, ch, cr, name⟩ = .ok (Spec.Handshake.challenge f ch cr name) ∧
    encodeReply ch d = Spec.Handshake.reply ch d ∧
    encodeAck d = Spec.Handshake.ack d := by
  have h : ¬ name.length > 255 := by omega
  refine ⟨?_, ?_, ?_, ?_, ?_⟩
  · simp [encodeSendName, h, Spec.Handshake.sendNameNew]
  · simp [encodeSendNameOld, h, Spec.Handshake.sendNameOld]
  · simp [encodeChallenge, h, Spec.Handshake.challenge]
  · simp [encodeReply, Spec.Handshake.reply]
  · simp [encodeAck, Spec.Handshake.ack]

example : encodeAck [1, 2] = Spec.Handshake.ack [1, 2] := (C04_codec_layouts 0 0 0 [] [1, 2] (by decide)).2.2.2.2

/-- `StatusMessage::encode` emits the protocol's layout — 2-byte length of tag plus text, `'s'`, the status as text —
for all five statuses, and `StatusMessage::decode` (given the message without the length, as the transport delivers
it) returns the status that was encoded -/
theorem C04_status_round_trip (st : Status) :
    encodeStatus st = Spec.Handshake.status st.text ∧
    decodeStatus ((encodeStatus st).drop 2) = .ok st ∧
    st.text = (match st with
      | .ok => Spec.Handshake.txtOk | .okSimultaneous => Spec.Handshake.txtOkSimultaneous | .nok => Spec.Handshake.txtNok
      | .notAllowed => Spec.Handshake.txtNotAllowed | .alive => Spec.Handshake.txtAlive) := by
  cases st <;> exact ⟨by decide, rfl, rfl⟩

example : encodeStatus .notAllowed = [0, 12, 115, 110, 111, 116, 95, 97, 108, 108, 111, 119, 101, 100] := by decide

/-- what the peer's messages are: the model's decoders are exactly the protocol parsers (so they also never panic) -/
theorem C04_decoders_refine_spec (bs : Bytes) :
    (decodeAck bs = match parseAck bs with | some d => .ok d | none => .err .malformed) ∧
    (decodeChallenge bs = match parseChallenge bs with | some m => .ok (convMsg m) | none => .err .malformed) ∧
    (decodeStatus bs = match parseStatus bs with | some s => .ok (convStatus s) | none => .err .malformed) :=
  ⟨decodeAck_eq bs, decodeChallenge_eq bs, decodeStatus_eq bs⟩

/-- no decoder of a handshake message panics, whatever the bytes (including the two the state machine does not use) -/
theorem C04_decoders_no_panic (bs : Bytes) :
    decodeAck bs ≠ .panic ∧ decodeChallenge bs ≠ .panic ∧ decodeStatus bs ≠ .panic ∧
    decodeReply bs ≠ .panic ∧ decodeSendName bs ≠ .panic := by
  refine ⟨?_, ?_, ?_, decodeReply_no_panic bs, decodeSendName_no_panic bs⟩
  · rw [decodeAck_eq]; cases parseAck bs <;> simp
  · rw [decodeChallenge_eq]; cases parseChallenge bs <;> simp
  · rw [decodeStatus_eq]; cases parseStatus bs <;> simp

/-- reading back the protocol layouts (length prefix stripped, as the transport does): the challenge and the ack a
peer sends are decoded to exactly their fields -/
theorem C04_codec_round_trip (f ch cr : Nat) (name d : Bytes) (hf : f < 18446744073709551616)
    (hch : ch < 4294967296) (hcr : cr < 4294967296) (hn : name.length ≤ 255) (hu : validUtf8 name = true)
    (hd : d.length = 16) :
    decodeChallenge ((Spec.Handshake.challenge f ch cr name).drop 2) = .ok ⟨f, ch, cr, name⟩ ∧
    decodeAck ((Spec.Handshake.ack d).drop 2) = .ok d := by
  have drop2 : ∀ (x : Nat) (r : Bytes), (be16 x ++ r).drop 2 = r := by intro x r; simp [be16, beN]
  constructor
  · rw [decodeChallenge_eq]
    have e : (Spec.Handshake.challenge f ch cr name).drop 2 =
        78 :: (beN 8 f ++ (beN 4 ch ++ (beN 4 cr ++ (beN 2 name.length ++ name)))) := by
      simp only [Spec.Handshake.challenge, List.append_assoc, be64, be32, be16]
      rfl
    have h8 := rdN_beN 8 f (beN 4 ch ++ (beN 4 cr ++ (beN 2 name.length ++ name))) (by simpa using hf)
    have h4 := rdN_beN 4 ch (beN 4 cr ++ (beN 2 name.length ++ name)) (by simpa using hch)
    have h4' := rdN_beN 4 cr (beN 2 name.length ++ name) (by simpa using hcr)
    have h2 := rdN_beN 2 name.length name (by simp; omega)
    rw [e]
    simp [parseChallenge, h8, h4, h4', h2, hu, convMsg]
  · rw [decodeAck_eq]
    have e : (Spec.Handshake.ack d).drop 2 = 97 :: d := by
      simp only [Spec.Handshake.ack, List.append_assoc, drop2]
      rfl
    rw [e]
    simp only [parseAck, hd]
    simp
    exact List.take_of_length_le (by omega)

example : decodeAck ((Spec.Handshake.ack (dg0 [] 1)).drop 2) = .ok (dg0 [] 1) :=
  (C04_codec_round_trip 0 0 0 [] (dg0 [] 1) (by decide) (by decide) (by decide) (by decide) (by decide) (by decide)).2

/-! ## no panic -/

/-- no call, in any state, with any argument, panics -/
theorem C04_no_panic (cfg : Cfg) (dg : Bytes → Nat → Bytes) (s : State) (op : Op) :
    (step cfg dg s op).2 ≠ .panic := step_no_panic cfg dg s op

/-- and no result in a whole call sequence is a panic -/
theorem C04_no_panic_run (cfg : Cfg) (dg : Bytes → Nat → Bytes) (ops : List Op) :
    ∀ s, Out.panic ∉ outsFrom cfg dg s ops := by
  induction ops with
  | nil => intro s; simp [outsFrom]
  | cons op rest ih =>
    intro s
    simp only [outsFrom, List.mem_cons, not_or]
    exact ⟨fun h => step_no_panic cfg dg s op h.symm, ih _⟩

/-! ## `Connection::connect` -/

/-- the calls `Connection::connect` makes (connection.rs l.192-232), whatever the peer sends: the machine ends
`connected` exactly when every step was right — name within 255 bytes, an accepting status, a well-formed challenge,
and an ack with `dg cookie (the challenge generated in handle_challenge)` -/
theorem C04_connect_script (cfg : Cfg) (dg : Bytes → Nat → Bytes) (sb cb : Bytes) (c : Nat) (ab : Bytes) :
    (run cfg dg (connectScript sb cb c ab)).state = .connected ↔
      (cfg.name.length ≤ 255 ∧ (∃ st, parseStatus sb = some st ∧ st.accepts = true) ∧
        (parseChallenge cb).isSome = true ∧ parseAck ab = some (dg cfg.cookie c)) := by
  constructor
  · intro hc
    have hne : (run cfg dg (connectScript sb cb c ab)).state ≠ .failed := by rw [hc]; simp
    rw [connected_iff, run, runFrom_refines, abs_init] at hc
    simp only [connectScript, connRun, List.foldl_cons, List.foldl_nil] at hc
    by_cases hn : cfg.name.length ≤ 255
    · cases hs : parseStatus sb with
      | none => simp [connStep, Conn.empty, sideOf, hn, hs] at hc
      | some st =>
        cases ha : st.accepts with
        | false => simp [connStep, Conn.empty, sideOf, hn, hs, ha] at hc
        | true =>
          cases hm : parseChallenge cb with
          | none => simp [connStep, Conn.empty, sideOf, hn, hs, ha, hm] at hc
          | some m =>
            by_cases hd : parseAck ab = some (dg cfg.cookie c)
            · exact ⟨hn, ⟨st, rfl, ha⟩, by simp, hd⟩
            · simp [connStep, Conn.empty, sideOf, hn, hs, ha, hm, hd] at hc
    · simp [connStep, Conn.empty, sideOf, hn] at hc
  · rintro ⟨hn, hst, hm, hack⟩
    have hm' : ∃ m, parseChallenge cb = some m := by
      cases h : parseChallenge cb with
      | none => simp [h] at hm
      | some m => exact ⟨m, rfl⟩
    have := C04_in_order_connects cfg dg [] [] [] [] [Op.prepareComplement] sb cb c [] [] ab [] (.inl rfl)
      (by simp) (by simp) (by simp) (by simp [Op.isChallenge, Op.isDisconnect]) (by simp) (by simp) (by simp) hn hst hm' hack
    simpa [connectScript] using this

example : (run cfg0 dg0 (connectScript statusOk chal0 5 (ack0 6))).state = .failed := by decide

/-! ## constants regenerated from the source: message tags and capability-flag bits -/

/-- the tags and the version the encoders/decoders use (regenerated from handshake.rs / state_machine.rs) are the
protocol's: `n` (old send_name, version 5), `N` (new send_name, challenge), `s`, `c`, `r`, `a` -/
theorem C04_tags_are_protocol :
    tagNOld.toNat = Spec.Handshake.tagNameOld ∧ tagN.toNat = Spec.Handshake.tagNameNew ∧
    tagS.toNat = Spec.Handshake.tagStatus ∧ tagC.toNat = Spec.Handshake.tagComplement ∧
    tagR.toNat = Spec.Handshake.tagReply ∧ tagA.toNat = Spec.Handshake.tagAck ∧
    version5 = Spec.Handshake.versionOld := by decide

/-- the capability-flag constants whose value is NOT the protocol's (finding `kf-c04-flag-bits`) -/
def misnumberedFlags : List String := ["FRAGMENTS", "SPAWN", "NAME_ME", "ALIAS"]

/-- THE statement one wants — every capability-flag constant of flags.rs has the bit the protocol assigns to that
capability — is
    `∀ nv ∈ Gen.DIST_FLAGS, Spec.Handshake.protocolFlag nv.1 = some nv.2`.
It does not hold (`C04_not_flag_bits`). What holds: every constant except FRAGMENTS, SPAWN, NAME_ME and ALIAS has the
protocol's bit — in particular all thirteen that are mandatory for OTP 26 (`C04_mandatory_flags`). -/
theorem C04_flag_bits_partial :
    ∀ nv ∈ Gen.DIST_FLAGS, nv.1 ∉ misnumberedFlags → Spec.Handshake.protocolFlag nv.1 = some nv.2 := by decide

/-- finding `kf-c04-flag-bits`: flags.rs gives FRAGMENTS bit 27 (protocol: 23), SPAWN bit 36 (32), NAME_ME bit 37 (33)
and ALIAS bit 43 (35); V4_NC between them is right (34). `DistributionFlags::DEFAULT` therefore announces bits 27, 36,
37 and 43 and does not announce the protocol's FRAGMENTS, SPAWN and ALIAS, so the intersection with a real peer's
flags never contains them. -/
theorem C04_not_flag_bits :
    flagConst "FRAGMENTS" = some (2 ^ 27) ∧ Spec.Handshake.protocolFlag "FRAGMENTS" = some (2 ^ 23) ∧
    flagConst "SPAWN" = some (2 ^ 36) ∧ Spec.Handshake.protocolFlag "SPAWN" = some (2 ^ 32) ∧
    flagConst "NAME_ME" = some (2 ^ 37) ∧ Spec.Handshake.protocolFlag "NAME_ME" = some (2 ^ 33) ∧
    flagConst "ALIAS" = some (2 ^ 43) ∧ Spec.Handshake.protocolFlag "ALIAS" = some (2 ^ 35) ∧
    flagDefault &&& Spec.Handshake.otpAcceptorFlags &&& (2 ^ 23 ||| 2 ^ 32 ||| 2 ^ 35) = 0 := by decide

/-- the flag constants are pairwise distinct single bits of a 64-bit word, under pairwise distinct names -/
theorem C04_flag_bits_distinct :
    (Gen.DIST_FLAGS.map (·.2)).Nodup ∧ (Gen.DIST_FLAGS.map (·.1)).Nodup ∧
    ∀ nv ∈ Gen.DIST_FLAGS, (List.range 64).any (fun k => nv.2 == 2 ^ k) = true := by decide

/-- the flag sets are what their definitions list: `MANDATORY_OTP26` is the union of exactly the thirteen capabilities
the protocol makes mandatory for OTP 26, each with the protocol's bit; `DEFAULT` is the union of its listed members and
contains `MANDATORY_OTP26`; `DEFAULT_HIDDEN` is `DEFAULT` without `PUBLISHED` -/
theorem C04_mandatory_flags :
    flagMandatory = evalFlagSet 3 "MANDATORY_OTP26" ∧ flagDefault = evalFlagSet 3 "DEFAULT" ∧
    flagDefaultHidden = evalFlagSet 3 "DEFAULT_HIDDEN" ∧
    flagMandatory = (Spec.Handshake.mandatoryOtp26.map fun n => (Spec.Handshake.protocolFlag n).getD 0).foldl (· ||| ·) 0 ∧
    flagDefault &&& flagMandatory = flagMandatory ∧
    flagDefaultHidden = flagDefault &&& (18446744073709551615 - 1) ∧ flagDefault &&& 1 = 1 := by decide

/-- The state the handshake model carries IS the state the code keeps (regenerated from the source on every run): the nine
fields of `HandshakeStateMachine` — `state` ↦ `Machine.state`, `cookie`/`flags`/`creation`/`local_node_name` ↦ the
configuration, `our_challenge`/`their_challenge`/`negotiated_flags` ↦ the three optional components; `remote_node_name`
is never read — and no process-wide state in the modelled files. A new field or a static is state this model does not know. -/
theorem C04_state_is_the_sources_state :
    Edp.Gen.STRUCT_HandshakeStateMachine =
      ["state:ConnectionState", "local_node_name:String", "remote_node_name:String", "cookie:String",
       "flags:DistributionFlags", "creation:Creation", "our_challenge:Option<u32>", "their_challenge:Option<u32>",
       "negotiated_flags:Option<DistributionFlags>"]
    ∧ Edp.Gen.PROCESS_WIDE_STATE = [] := by decide

/-! ## on the way to `connected`: the EPMD client (epmd_client.rs) -/

section Epmd
open Edp.Impl.Epmd

/-- The request this side writes for a lookup. On the connect path the name has passed `validate_node_name` (at most 255
bytes): the request is exactly the protocol's PORT_PLEASE2_REQ. For the public call with any name: the length field is
the name's length modulo 2^16 plus one, and the addition panics (dev profile) exactly when that is 65535 + 1. -/
theorem C04_epmd_request_layout (name : Bytes) :
    (name.length ≤ 255 → lookupReq name = .ok (Spec.Epmd.portPlease2Req name)) ∧
    (lookupReq name = .panic ↔ name.length % 65536 = 65535) := by
  constructor
  · intro h
    have h1 : name.length % 65536 = name.length := Nat.mod_eq_of_lt (by omega)
    have h2 : ¬ name.length + 1 ≥ 65536 := by omega
    simp [lookupReq, h1, h2, Spec.Epmd.portPlease2Req, tagPort2Req, Gen.EPMD_PORT2_REQ, Nat.add_comm]
  · unfold lookupReq
    split <;> simp <;> omega

example : lookupReq [97, 98] = .ok [0, 3, 122, 97, 98] := by rfl

/-- What the reply reader accepts is EXACTLY the protocol's PORT2_RESP with a known node type and protocol, a UTF-8 name
of at most 255 bytes and at most 4096 bytes of extra (the regenerated limits), whatever follows it and whether EPMD then
closes or not: a result `ok i` means the bytes start with the layout of `i`, and every such reply is read back as `i`. -/
theorem C04_epmd_reply_is_the_protocols (data : Bytes) (closed : Bool) (i : NodeInfo) :
    (lookupParse ⟨data, closed⟩).2 = .ok i ↔ (∃ rest, data = Spec.Epmd.port2Resp (toSpec i) ++ rest) ∧ accepted i := by
  constructor
  · exact lookupParse_sound ⟨data, closed⟩ i
  · rintro ⟨⟨rest, hd⟩, ha⟩
    rw [hd, lookupParse_complete i rest closed ha]

example : (lookupParse ⟨[119, 0, 17, 18, 77, 0, 0, 6, 0, 5, 0, 1, 120, 0, 0], true⟩).2 = .ok ⟨4370, 77, 0, 6, 5, [120], []⟩ := by rfl

/-- A truncated reply — any proper prefix of a reply that would be accepted — is never accepted, whether EPMD closes after
it (end of stream) or stays silent (the timeout of the exchange): `lookup_node` returns an error. -/
theorem C04_epmd_truncated_reply_is_error (i : NodeInfo) (n : Nat) (closed : Bool) (h : accepted i)
    (hn : n < (Spec.Epmd.port2Resp (toSpec i)).length) :
    ∃ e, (lookupParse ⟨(Spec.Epmd.port2Resp (toSpec i)).take n, closed⟩).2 = .error e := by
  cases hr : (lookupParse ⟨(Spec.Epmd.port2Resp (toSpec i)).take n, closed⟩).2 with
  | error e => exact ⟨e, rfl⟩
  | ok j => exact absurd hr (lookupParse_truncated i n closed h hn j)

example : (lookupParse ⟨[119, 0, 17, 18, 77, 0, 0, 6, 0, 5, 0, 1], false⟩).2 = .error .timeout := by rfl
example : (lookupParse ⟨[119, 0, 17, 18, 77, 0, 0, 6, 0, 5, 0, 1], true⟩).2 = .error .eof := by rfl

/-- No oversized allocation from a length field: whatever EPMD sends, `lookup_node` allocates at most two buffers, the
first of at most 255 bytes (name), the second of at most 4096 bytes (extra) — a larger declared length is refused before
the buffer is requested; and a reply is accepted only if it really carries the bytes it declares. -/
theorem C04_epmd_allocation_bounded (s : Stream) :
    ((lookupParse s).1 = [] ∨ (∃ n, (lookupParse s).1 = [n] ∧ n ≤ 255) ∨ (∃ n e, (lookupParse s).1 = [n, e] ∧ n ≤ 255 ∧ e ≤ 4096)) ∧
    (∀ i, (lookupParse s).2 = .ok i → 14 + i.name.length + i.extra.length ≤ s.data.length) := by
  refine ⟨?_, fun i h => lookupParse_no_ok_when_short s i h⟩
  have := lookupParse_allocs s
  simpa [maxName, maxExtra, Gen.EPMD_MAX_NAME, Gen.EPMD_MAX_EXTRA] using this

example : (lookupParse ⟨[119, 0, 0, 1, 77, 0, 0, 6, 0, 5, 1, 0, 1, 2], false⟩).1 = [] := by decide
example : (lookupParse ⟨[119, 0, 0, 1, 77, 0, 0, 6, 0, 5, 0, 2, 65, 66, 0, 1, 7], true⟩).1 = [2, 1] := by decide

/-- Registration (ALIVE2_REQ): with a name and extra that fit the 16-bit length fields the request is the protocol's, and
both reply forms of the protocol (ALIVE2_RESP with a 16-bit, ALIVE2_X_RESP with a 32-bit creation) are read back. -/
theorem C04_epmd_register_is_the_protocols (port type hi lo cr : Nat) (name extra rest : Bytes) (closed : Bool) :
    (13 + name.length + extra.length < 65536 →
      registerReq port type hi lo name extra = Spec.Epmd.alive2Req port type 0 hi lo name extra) ∧
    (cr < 65536 → registerParse ⟨Spec.Epmd.alive2Resp cr ++ rest, closed⟩ = .ok cr) ∧
    (cr < 4294967296 → registerParse ⟨Spec.Epmd.alive2XResp cr ++ rest, closed⟩ = .ok cr) := by
  refine ⟨fun h => ?_, registerParse_resp cr rest closed, registerParse_xresp cr rest closed⟩
  have : 1 + 2 + 1 + 1 + 2 + 2 + 2 + name.length + 2 + extra.length = 13 + name.length + extra.length := by omega
  simp [registerReq, Spec.Epmd.alive2Req, this, tagAlive2Req, Gen.EPMD_ALIVE2_REQ]

example : registerParse ⟨[118, 0, 0, 0, 0, 9], true⟩ = .ok 9 := by rfl
example : registerParse ⟨[121, 1, 0, 0], true⟩ = .error (.regErr 1) := by rfl

/-- The EPMD constants, node types and limits the model reads are the ones in the source, and they are the protocol's. -/
theorem C04_epmd_constants_are_the_protocols :
    Gen.EPMD_CONSTS = [("ALIVE2_REQ", 120), ("ALIVE2_RESP", 121), ("ALIVE2_X_RESP", 118), ("PORT2_REQ", 122), ("PORT2_RESP", 119)] ∧
    typeArms = Spec.Epmd.nodeTypes ∧ Gen.EPMD_NODE_TYPES.map (·.2) = Spec.Epmd.nodeTypes ∧
    Gen.EPMD_TYPE_ARMS.map (fun p => (p.2, p.1)) = Gen.EPMD_NODE_TYPES ∧
    protoArms = [Spec.Epmd.protoTcp] ∧ maxName = 255 ∧ maxExtra = 4096 ∧
    Gen.EPMD_LOOKUP_READS = ["read_u8", "read_u8", "read_u16", "read_u8", "read_u8", "read_u16", "read_u16", "read_u16",
      "read_exact", "read_u16", "read_exact"] := by decide

end Epmd

/-! ## `Connection::connect` as the sequence of awaited steps it is (connection.rs, transport.rs) -/

section Connect
open Edp.Impl.Connect

/-- an environment in which everything goes right, for the examples -/
def env0 : Env :=
  { remote := [112, 64, 104], epmdUp := true, epmd := ⟨[119, 0, 17, 18, 77, 0, 0, 6, 0, 5, 0, 1, 112, 0, 0], true⟩, tcp := .ok,
    status := .frame statusOk, chal := .frame chal0, ack := .frame (ack0 5), c := 5, w1 := .ok, w2 := .ok, w3 := .ok }

/-- THE statement about the driver loop. `connect` on a fresh connection returns `Ok` exactly when: the remote name is
`name@host` with 1..255 name bytes and EPMD answered the lookup with an acceptable PORT2_RESP; the TCP connect succeeded;
the local name has at most 255 bytes; all three writes went out; and the peer sent — one complete frame per awaited read, in
this order — an accepting status, a well-formed challenge, and the digest of the cookie and the challenge THIS side
generated in THIS handshake. Anything else at any step — a close, silence, a refusal, a malformed, truncated or
out-of-order message, a wrong digest, a failed or timed-out write — is an error. And then the machine is `connected`, the
negotiated set is `peer AND ours`, and what was written is send_name, complement, reply (the digest of the cookie and the
PEER's challenge) in the protocol's layouts and order. -/
theorem C04_connect_ok_iff (cfg : Cfg) (dg : Bytes → Nat → Bytes) (env : Env) :
    (connect cfg dg State.init env).2 = .ok () ↔
      (∃ p, lookupRemote env = .ok p) ∧ env.tcp = .ok ∧ cfg.name.length ≤ 255 ∧
      env.w1 = .ok ∧ env.w2 = .ok ∧ env.w3 = .ok ∧
      (∃ sb st, env.status = .frame sb ∧ parseStatus sb = some st ∧ st.accepts = true) ∧
      (∃ cb m, env.chal = .frame cb ∧ parseChallenge cb = some m ∧
        (∃ ab, env.ack = .frame ab ∧ parseAck ab = some (dg cfg.cookie env.c)) ∧
        (connect cfg dg State.init env).1 =
          ⟨⟨.connected, some env.c, some m.challenge, some (m.flags &&& cfg.flags)⟩,
           [Spec.Handshake.sendNameOld cfg.flags cfg.name, Spec.Handshake.complement cfg.flags cfg.creation,
            Spec.Handshake.reply env.c (dg cfg.cookie m.challenge)]⟩) := by
  have hlay : ∀ m : Spec.Handshake.ChallengeMsg,
      [nameMsg cfg, complMsg cfg, encodeReply env.c (dg cfg.cookie m.challenge)] =
      [Spec.Handshake.sendNameOld cfg.flags cfg.name, Spec.Handshake.complement cfg.flags cfg.creation,
        Spec.Handshake.reply env.c (dg cfg.cookie m.challenge)] := by
    intro m
    simp [nameMsg, complMsg, encodeReply, Spec.Handshake.sendNameOld, Spec.Handshake.complement, Spec.Handshake.reply]
    try omega
  unfold connect
  simp only [step, State.init, ne_eq, not_true_eq_false, ↓reduceIte]
  cases hl : lookupRemote env with
  | error e => cases hsp : splitOnce env.remote <;> simp
  | ok p =>
    obtain ⟨q, hq⟩ := lookup_split env p hl
    simp only [hq]
    cases htcp : env.tcp with
    | refused => simp
    | silent => simp
    | ok =>
      simp only [Except.ok.injEq, exists_eq', true_and]
      rcases hr : runSteps cfg dg env.c Gen.CONNECT_STEPS [env.status, env.chal, env.ack] [env.w1, env.w2, env.w3]
        ⟨sBegun, []⟩ with ⟨af, r⟩
      have key := handshake_ok_iff cfg dg env.c env.status env.chal env.ack env.w1 env.w2 env.w3 af
      have hr' : runSteps cfg dg env.c Gen.CONNECT_STEPS [env.status, env.chal, env.ack] [env.w1, env.w2, env.w3]
          ⟨⟨.connecting, none, none, none⟩, []⟩ = (af, r) := hr
      rw [hr']
      rw [hr] at key
      cases r with
      | error e =>
        simp only [reduceCtorEq, false_iff]
        intro hh
        obtain ⟨g1, g2, g3, g4, g5, cb, m, g6, g7, g8, _⟩ := hh
        have := (handshake_ok_iff cfg dg env.c env.status env.chal env.ack env.w1 env.w2 env.w3
          ⟨⟨.connected, some env.c, some m.challenge, some (m.flags &&& cfg.flags)⟩,
            [nameMsg cfg, complMsg cfg, encodeReply env.c (dg cfg.cookie m.challenge)]⟩).mpr
          ⟨g1, g2, g3, g4, g5, cb, m, g6, g7, g8, rfl⟩
        rw [hr] at this
        simp at this
      | ok u =>
        cases u
        simp only [true_iff]
        obtain ⟨h1, h2, h3, h4, h5, cb, m, h6, h7, h8, h9⟩ := key.mp rfl
        exact ⟨h1, h2, h3, h4, h5, cb, m, h6, h7, h8, by rw [h9, hlay]⟩

example : (connect cfg0 dg0 State.init env0).2 = .ok () := by rfl
example : (connect cfg0 dg0 State.init { env0 with ack := .silent }).2 = .error .timeout := by rfl
example : (connect cfg0 dg0 State.init { env0 with ack := .frame (ack0 9) }) =
    (⟨⟨.failed, some 5, some 9, some (255 &&& 0xd07df7fbd)⟩, (connect cfg0 dg0 State.init env0).1.w⟩, .error (.hs .auth)) := by rfl

/-- Never in the connected state on an error: whatever EPMD, the network and the peer do, and whatever the writes do, a
`connect` on a fresh connection that returns an error leaves the machine in a state other than `Connected`. -/
theorem C04_connect_error_never_connected (cfg : Cfg) (dg : Bytes → Nat → Bytes) (env : Env) (e : CErr)
    (h : (connect cfg dg State.init env).2 = .error e) :
    (connect cfg dg State.init env).1.st.state ≠ .connected := by
  revert h
  unfold connect
  simp only [step, State.init, ne_eq, not_true_eq_false, ↓reduceIte]
  split
  · simp
  · split
    · simp
    · split
      · simp
      · simp
      · intro h
        rcases hr : runSteps cfg dg env.c Gen.CONNECT_STEPS [env.status, env.chal, env.ack] [env.w1, env.w2, env.w3]
          ⟨⟨.connecting, none, none, none⟩, []⟩ with ⟨af, r⟩
        rw [hr] at h
        simp only at h
        subst h
        exact runSteps_error_not_connected cfg dg env.c _ _ _ _ af e (by decide) (by simp) hr

example : (connect cfg0 dg0 State.init { env0 with status := .frame statusNok }).1.st.state = .failed := by rfl

/-- Reuse: `connect` on a connection whose machine is not `Disconnected` (a second `connect`, or one after a failed
attempt — nothing in `connect` resets the machine) is refused with `InvalidStateTransition`, before anything is looked up,
connected to or written, and changes nothing. -/
theorem C04_connect_reuse_refused (cfg : Cfg) (dg : Bytes → Nat → Bytes) (s0 : State) (env : Env)
    (h : s0.state ≠ .disconnected) :
    connect cfg dg s0 env = (⟨s0, []⟩, .error (.hs .invalidTransition)) := by
  simp [connect, step, h]

example : (connect cfg0 dg0 (connect cfg0 dg0 State.init { env0 with chal := .close }).1.st env0).2
    = .error (.hs .invalidTransition) := by rfl

/-- The step order, the timeouts and the limits the model reads are the ones in the source (regenerated on every run),
and they are what the protocol and the property ask for: begin, name split, EPMD lookup, TCP connect (under the configured
timeout), then send_name → status → complement → challenge → reply → ack, each helper one state-machine call and one
awaited transport operation; every awaited transport operation is wrapped in `tokio::time::timeout(self.timeout, ..)`, and
so are the two EPMD exchanges; the acknowledgement is read by the last step only. -/
theorem C04_connect_steps_are_the_sources :
    Gen.CONNECT_PRELUDE = Impl.Connect.prelude ∧
    Gen.CONNECT_STEPS = [("send_name", "prepare_send_name", "write_raw"), ("receive_status", "handle_status", "read"),
      ("send_complement", "prepare_complement", "write_raw"), ("receive_challenge", "handle_challenge", "read"),
      ("send_challenge_reply", "prepare_challenge_reply", "write_raw"), ("receive_challenge_ack", "handle_challenge_ack", "read")] ∧
    (∀ x ∈ Gen.CONNECT_STEPS, x.2.2 ∈ Gen.TRANSPORT_UNDER_TIMEOUT) ∧
    (∀ x ∈ Gen.CONNECT_STEPS, (opOf x.2.1 [] 0).isSome = true) ∧
    "lookup_node" ∈ Gen.EPMD_UNDER_TIMEOUT ∧ "register_node" ∈ Gen.EPMD_UNDER_TIMEOUT ∧
    maxRemoteName = 255 := by decide

end Connect

end Edp.Props.C04
