import EdpVerif.Drv.Common
namespace Edp.Drv

/-- driver requests of property C05 (stub: nothing handled yet) -/
def handleC05 : List String → Option String
  | _ => none

end Edp.Drv
