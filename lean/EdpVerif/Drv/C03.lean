import EdpVerif.Drv.Common
namespace Edp.Drv

/-- driver requests of property C03 (stub: nothing handled yet) -/
def handleC03 : List String → Option String
  | _ => none

end Edp.Drv
