import EdpVerif.Impl.Control
import EdpVerif.Spec.Control
/-
Helper lemmas for C08 (table-generic facts about `Control.parse / toTerm / intoTerm`).
-/
namespace Edp.Control

theorem lookup_mem {α : Type} : ∀ (l : List (String × α)) (f : String) (v : α), lookup l f = some v → (f, v) ∈ l := by
  intro l
  induction l with
  | nil => intro f v h; simp [lookup] at h
  | cons p r ih =>
    intro f v h
    obtain ⟨g, x⟩ := p
    simp only [lookup] at h
    split at h
    · rename_i hg; subst hg; simp at h; subst h; simp
    · exact List.mem_cons_of_mem _ (ih f v h)

theorem lookup_isSome_of_mem {α : Type} : ∀ (l : List (String × α)) (f : String) (v : α), (f, v) ∈ l → (lookup l f).isSome := by
  intro l
  induction l with
  | nil => intro f v h; simp at h
  | cons p r ih =>
    intro f v h
    obtain ⟨g, x⟩ := p
    simp only [lookup]
    split
    · simp
    · rename_i hg
      rcases List.mem_cons.mp h with h1 | h1
      · simp at h1; exact absurd h1.1.symm hg
      · exact ih f v h1

/-- components of `TableOK` -/
structure OKParts (tbl : Table) : Prop where
  tryInv : ∀ p ∈ tbl.tryFrom, enumDisc tbl p.2 = some p.1
  enumInv : ∀ p ∈ tbl.enumTags, fromU8 tbl p.2 = some p.1
  fromOK : ∀ a ∈ tbl.fromArms, fromArmOK tbl a = true
  intoTo : ∀ b ∈ tbl.toArms, findTo tbl.intoArms b.variant = findTo tbl.toArms b.variant
  toInto : ∀ c ∈ tbl.intoArms, (findTo tbl.toArms c.variant).isSome = true
  varOK : ∀ v ∈ tbl.variants, variantOK tbl v = true
  toDecl : ∀ b ∈ tbl.toArms, (lookup tbl.variants b.variant).isSome = true
  fromDecl : ∀ a ∈ tbl.fromArms, (lookup tbl.variants a.variant).isSome = true

theorem okParts {tbl : Table} (h : TableOK tbl) : OKParts tbl := by
  simp only [TableOK, tableOK, Bool.and_eq_true, List.all_eq_true, decide_eq_true_eq] at h
  obtain ⟨⟨⟨⟨⟨⟨⟨h1, h2⟩, h3⟩, h4⟩, h5⟩, h6⟩, h7⟩, h8⟩ := h
  exact ⟨h1, h2, h3, h4, h5, h6, h7, h8⟩

theorem findTo_some {arms : List ToArm} {v : String} {b : ToArm} (h : findTo arms v = some b) :
    b ∈ arms ∧ b.variant = v := by
  unfold findTo at h
  have h1 := List.mem_of_find?_eq_some h
  have h2 := List.find?_some h
  simp at h2
  exact ⟨h1, h2⟩

theorem fromU8_some {tbl : Table} {v : Nat} {n : String} (h : fromU8 tbl v = some n) : (v, n) ∈ tbl.tryFrom := by
  unfold fromU8 at h
  split at h
  · rename_i p hp
    have h1 := List.mem_of_find?_eq_some hp
    have h2 := List.find?_some hp
    simp at h2 h
    obtain ⟨a, b⟩ := p
    simp at h2 h
    subst h2; subst h
    exact h1
  · simp at h

theorem selectArm_some {tbl : Table} {ty : Option String} {len : Nat} {a : FromArm}
    (h : selectArm tbl ty len = some a) : a ∈ tbl.fromArms ∧ ty = some a.ty ∧ a.arity = len := by
  unfold selectArm at h
  split at h
  · simp at h
  · rename_i n
    have h1 := List.mem_of_find?_eq_some h
    have h2 := List.find?_some h
    simp at h2
    exact ⟨h1, by rw [h2.1], h2.2⟩

/-! ### the two serialisers agree -/

theorem findTo_into_eq {tbl : Table} (h : TableOK tbl) (v : String) :
    findTo tbl.intoArms v = findTo tbl.toArms v := by
  have ok := okParts h
  cases hb : findTo tbl.toArms v with
  | some b =>
    obtain ⟨hm, hv⟩ := findTo_some hb
    have := ok.intoTo b hm
    rw [hv] at this
    rw [this, hb]
  | none =>
    cases hc : findTo tbl.intoArms v with
    | none => rfl
    | some c =>
      obtain ⟨hm, hv⟩ := findTo_some hc
      have := ok.toInto c hm
      rw [hv, hb] at this
      simp at this

theorem into_eq_to {tbl : Table} (h : TableOK tbl) (m : Msg) : intoTerm tbl m = toTerm tbl m := by
  cases m with
  | generic ty l => rfl
  | known v fs => simp only [intoTerm, toTerm, serialise, findTo_into_eq h v]

/-! ### parse then serialise -/

theorem evalFields_lookup (els : List Term) :
    ∀ (flds : List (String × Src)) (fs : List (String × FVal)) (f : String) (s : Src),
      evalFields els flds = .ok fs → lookup flds f = some s →
      ∃ v, evalSrc els s = .ok v ∧ lookup fs f = some v := by
  intro flds
  induction flds with
  | nil => intro fs f s _ h; simp [lookup] at h
  | cons p r ih =>
    intro fs f s he hl
    obtain ⟨g, src⟩ := p
    simp only [evalFields] at he
    cases hs : evalSrc els src with
    | error e => simp [hs] at he
    | ok v =>
      cases hr : evalFields els r with
      | error e => simp [hs, hr] at he
      | ok vs =>
        simp [hs, hr] at he
        subst he
        simp only [lookup] at hl ⊢
        split
        · rename_i hg
          simp [hg] at hl
          subst hl
          exact ⟨v, hs, rfl⟩
        · rename_i hg
          simp [hg] at hl
          exact ih vs f s hr hl

theorem evalFields_lookup_none (els : List Term) :
    ∀ (flds : List (String × Src)) (fs : List (String × FVal)) (f : String),
      evalFields els flds = .ok fs → lookup flds f = none → lookup fs f = none := by
  intro flds
  induction flds with
  | nil => intro fs f he _; simp [evalFields] at he; subst he; rfl
  | cons p r ih =>
    intro fs f he hl
    obtain ⟨g, src⟩ := p
    simp only [evalFields] at he
    cases hs : evalSrc els src with
    | error e => simp [hs] at he
    | ok v =>
      cases hr : evalFields els r with
      | error e => simp [hs, hr] at he
      | ok vs =>
        simp [hs, hr] at he
        subst he
        simp only [lookup] at hl ⊢
        split
        · rename_i hg; simp [hg] at hl
        · rename_i hg
          simp [hg] at hl
          exact ih vs f hr hl

theorem evalFields_ok (els : List Term) :
    ∀ (flds : List (String × Src)), (∀ p ∈ flds, ∃ v, evalSrc els p.2 = .ok v) →
      ∃ fs, evalFields els flds = .ok fs := by
  intro flds
  induction flds with
  | nil => intro _; exact ⟨[], rfl⟩
  | cons p r ih =>
    intro h
    obtain ⟨g, src⟩ := p
    obtain ⟨v, hv⟩ := h (g, src) (by simp)
    obtain ⟨vs, hvs⟩ := ih (fun q hq => h q (List.mem_cons_of_mem _ hq))
    exact ⟨(g, v) :: vs, by simp [evalFields, hv, hvs]⟩

/-! ### unlink ids -/

theorem u8_pos {b : UInt8} (h : b ≠ 0) : 1 ≤ b.toNat := by
  rcases Nat.eq_zero_or_pos b.toNat with h0 | h0
  · exact absurd (UInt8.toNat_inj.mp (by simpa using h0)) h
  · exact h0

theorem sigDigits_zero_magVal : ∀ d : Bytes, sigDigits d = 0 → magVal d = 0 := by
  intro d
  induction d with
  | nil => intro _; rfl
  | cons b r ih =>
    intro h
    simp only [sigDigits] at h
    split at h
    · rename_i hr
      split at h
      · rename_i hb; subst hb; simp [magVal, ih hr]
      · simp at h
    · simp at h

theorem magVal_take_sig : ∀ d : Bytes, magVal (d.take (sigDigits d)) = magVal d := by
  intro d
  induction d with
  | nil => rfl
  | cons b r ih =>
    simp only [sigDigits]
    split
    · rename_i hr
      split
      · rename_i hb; subst hb; simp [magVal, sigDigits_zero_magVal r hr]
      · simp [magVal, sigDigits_zero_magVal r hr]
    · simp [magVal, ih]

theorem sig_le_length : ∀ d : Bytes, sigDigits d ≤ d.length := by
  intro d
  induction d with
  | nil => simp [sigDigits]
  | cons b r ih =>
    simp only [sigDigits, List.length_cons]
    split
    · split <;> omega
    · omega

theorem magVal_lt : ∀ d : Bytes, magVal d < 256 ^ d.length := by
  intro d
  induction d with
  | nil => simp [magVal]
  | cons b r ih =>
    simp only [magVal, List.length_cons, Nat.pow_succ]
    have := b.toNat_lt
    omega

theorem magVal_ge_of_sig : ∀ d : Bytes, 0 < sigDigits d → 256 ^ (sigDigits d - 1) ≤ magVal d := by
  intro d
  induction d with
  | nil => intro h; simp [sigDigits] at h
  | cons b r ih =>
    intro h
    simp only [sigDigits] at h ⊢
    split
    · rename_i hr
      split
      · rename_i hb; simp [hr, hb] at h
      · rename_i hb
        have := u8_pos hb
        simp [magVal]; omega
    · rename_i hr
      have hpos : 0 < sigDigits r := by omega
      have := ih hpos
      have e : sigDigits r + 1 - 1 = (sigDigits r - 1) + 1 := by omega
      rw [e, Nat.pow_succ]
      simp only [magVal]
      omega

theorem leN_length : ∀ (k n : Nat), (leN k n).length = k := by
  intro k
  induction k with
  | zero => intro n; rfl
  | succ k ih => intro n; simp [leN, ih]

theorem magVal_leN : ∀ (k n : Nat), magVal (leN k n) = n % 256 ^ k := by
  intro k
  induction k with
  | zero => intro n; simp [leN, magVal, Nat.mod_one]
  | succ k ih =>
    intro n
    simp only [leN, magVal, ih]
    have : (UInt8.ofNat (n % 256)).toNat = n % 256 := by simp [UInt8.toNat_ofNat']
    rw [this, Nat.pow_succ, Nat.mul_comm (256 ^ k) 256, Nat.mod_mul]

theorem magVal_lt_of_sig {d : Bytes} (h : sigDigits d ≤ 8) : magVal d < 2 ^ 64 := by
  rw [← magVal_take_sig d]
  have h1 := magVal_lt (d.take (sigDigits d))
  have h2 : (d.take (sigDigits d)).length ≤ 8 := by simp; omega
  have h3 : 256 ^ (d.take (sigDigits d)).length ≤ 256 ^ 8 := Nat.pow_le_pow_right (by omega) h2
  have h4 : (256 : Nat) ^ 8 = 2 ^ 64 := by decide
  omega

/-- what `unlink_id_from_term` returns is the integer the element stands for -/
theorem unlinkId_intOf {e : Term} {n : Nat} (h : unlinkIdFromTerm e = some n) : intOf e = some (n : Int) := by
  cases e <;> simp only [unlinkIdFromTerm] at h <;> try (simp at h; done)
  · rename_i i
    split at h
    · simp at h
    · simp at h; subst h; simp only [intOf]; congr 1; omega
  · rename_i neg d
    split at h
    · simp at h
    · split at h
      · simp at h
      · rename_i h1 h2
        simp at h
        rw [magVal_take_sig] at h
        subst h
        simp only [intOf, bigVal]
        cases neg with
        | false => simp
        | true =>
          have : sigDigits d = 0 := by
            rcases Nat.eq_zero_or_pos (sigDigits d) with hz | hp
            · exact hz
            · exact absurd ⟨hp, rfl⟩ h1
          simp [sigDigits_zero_magVal d this]

/-- it accepts every element that stands for an integer `0 ≤ v < 2^64` -/
theorem unlinkId_total {e : Term} {v : Int} (hi : intOf e = some v) (h0 : 0 ≤ v) (h64 : v < 2 ^ 64) :
    ∃ n, unlinkIdFromTerm e = some n := by
  cases e <;> simp only [intOf] at hi <;> try (simp at hi; done)
  · rename_i i
    simp at hi; subst hi
    have : ¬ i < 0 := by omega
    exact ⟨i.toNat, by simp [unlinkIdFromTerm, this]⟩
  · rename_i neg d
    simp at hi
    simp only [unlinkIdFromTerm]
    have hge : 0 < sigDigits d → 1 ≤ magVal d := by
      intro hp
      have := magVal_ge_of_sig d hp
      have : 1 ≤ 256 ^ (sigDigits d - 1) := Nat.pow_pos (by decide)
      omega
    have h1 : ¬ (0 < sigDigits d ∧ neg = true) := by
      intro ⟨hp, hn⟩
      subst hn
      have := hge hp
      simp only [bigVal, if_true] at hi
      omega
    have h2 : ¬ 8 < sigDigits d := by
      intro h8
      have hp : 0 < sigDigits d := by omega
      have hm := magVal_ge_of_sig d hp
      have hpow : 256 ^ 8 ≤ 256 ^ (sigDigits d - 1) := Nat.pow_le_pow_right (by omega) (by omega)
      have h4 : (256 : Nat) ^ 8 = 2 ^ 64 := by decide
      cases neg with
      | true => exact h1 ⟨hp, rfl⟩
      | false =>
        simp only [bigVal, Bool.false_eq_true, if_false] at hi
        omega
    simp [h1, h2]

theorem intOf_toTerm {n : Nat} (h : n < 2 ^ 64) : intOf (unlinkIdToTerm n) = some (n : Int) := by
  simp only [unlinkIdToTerm]
  split
  · rfl
  · have h4 : (256 : Nat) ^ 8 = 2 ^ 64 := by decide
    simp only [intOf, bigVal, Bool.false_eq_true, if_false, magVal_leN, h4, Nat.mod_eq_of_lt h]

theorem intOf_den {e : Term} {v : Int} (h : intOf e = some v) : e.den = .int v := by
  cases e <;> simp only [intOf] at h <;> try (simp at h; done)
  · simp at h; subst h; simp [Term.den]
  · simp at h; subst h; simp [Term.den]

/-- reading back what the serialiser wrote, possibly re-represented by the wire -/
theorem unlinkId_back {w : Term → Term} (hw : Transparent w) {n : Nat} (h : n < 2 ^ 64) :
    unlinkIdFromTerm (w (unlinkIdToTerm n)) = some n := by
  have h1 := hw.ints _ _ (intOf_toTerm h)
  obtain ⟨m, hm⟩ := unlinkId_total h1 (by omega) (by omega)
  have h2 := unlinkId_intOf hm
  rw [h1] at h2
  simp at h2
  rw [hm]; congr 1; omega


/-- a source that satisfies the id guard and indexes inside the tuple evaluates -/
theorem evalSrc_ok {els : List Term} {s : Src} (hi : s.idx < els.length) (hg : srcIdOk els s = true) :
    ∃ v, evalSrc els s = .ok v := by
  cases s with
  | elem i =>
    simp only [Src.idx] at hi
    simp [evalSrc, List.getElem?_eq_getElem hi]
  | uid i =>
    simp only [Src.idx] at hi
    simp only [srcIdOk, List.getElem?_eq_getElem hi] at hg
    simp only [evalSrc, List.getElem?_eq_getElem hi]
    cases hv : intOf els[i] with
    | none => simp [hv] at hg
    | some v =>
      simp [hv] at hg
      obtain ⟨n, hn⟩ := unlinkId_total hv hg.1 hg.2
      exact ⟨.uid n, by simp [hn]⟩

theorem evalOuts_of_match (els : List Term) (flds : List (String × Src)) (fs : List (String × FVal))
    (he : evalFields els flds = .ok fs) (hg : ∀ p ∈ flds, srcIdOk els p.2 = true) :
    ∀ (outs : List Out) (k : Nat), matchOuts flds outs k = true → k + outs.length = els.length →
      ∃ ts, evalOuts fs outs = some ts ∧ Term.denL ts = Term.denL (els.drop k) := by
  intro outs
  induction outs with
  | nil =>
    intro k _ hk
    simp at hk
    exact ⟨[], rfl, by simp [hk]⟩
  | cons o os ih =>
    intro k hm hk
    have hlt : k < els.length := by simp at hk; omega
    have hdrop : els.drop k = els[k] :: els.drop (k + 1) := List.drop_eq_getElem_cons hlt
    cases o with
    | fld f =>
      simp only [matchOuts, Bool.and_eq_true, decide_eq_true_eq] at hm
      obtain ⟨v, hv, hl⟩ := evalFields_lookup els flds fs f _ he hm.1
      simp only [evalSrc, List.getElem?_eq_getElem hlt] at hv
      simp at hv
      subst hv
      obtain ⟨ts, hts, hden⟩ := ih (k + 1) hm.2 (by simp at hk ⊢; omega)
      refine ⟨els[k] :: ts, by simp only [evalOuts, evalOut, hl, hts], ?_⟩
      rw [hdrop]
      simp only [Term.denL, hden]
    | uid f =>
      simp only [matchOuts, Bool.and_eq_true, decide_eq_true_eq] at hm
      obtain ⟨v, hv, hl⟩ := evalFields_lookup els flds fs f _ he hm.1
      have hgk := hg (f, .uid k) (lookup_mem _ _ _ hm.1)
      simp only [srcIdOk, List.getElem?_eq_getElem hlt] at hgk
      simp only [evalSrc, List.getElem?_eq_getElem hlt] at hv
      obtain ⟨ts, hts, hden⟩ := ih (k + 1) hm.2 (by simp at hk ⊢; omega)
      cases hn : unlinkIdFromTerm els[k] with
      | none => simp [hn] at hv
      | some n =>
        simp [hn] at hv
        subst hv
        have hi := unlinkId_intOf hn
        simp [hi] at hgk
        have hn64 : n < 2 ^ 64 := by omega
        refine ⟨unlinkIdToTerm n :: ts, by simp only [evalOuts, evalOut, hl, hts], ?_⟩
        rw [hdrop]
        simp only [Term.denL, hden, intOf_den (intOf_toTerm hn64), intOf_den hi]

/-- `from_term` then `to_term` / `into_term` give back a tuple that denotes the same value (under the id guard):
the same head, and element by element the same denotation -/
theorem roundtrip {tbl : Table} (h : TableOK tbl) (i : Int) (rest : List Term) (h0 : 0 ≤ i) (h255 : i ≤ 255)
    (hg : idGuard tbl (.tuple (.int i :: rest)) = true) :
    ∃ m u, parse tbl (.tuple (.int i :: rest)) = .ok m ∧ toTerm tbl m = some u ∧ intoTerm tbl m = some u ∧
      u.den = (Term.tuple (.int i :: rest)).den := by
  have ok := okParts h
  have hi : ((i.toNat : Nat) : Int) = i := by omega
  simp only [idGuard] at hg
  simp only [parse, h0, h255, and_self, if_true]
  cases hsel : selectArm tbl (fromU8 tbl i.toNat) (rest.length + 1) with
  | none =>
    refine ⟨_, .tuple (.int i :: rest), rfl, ?_, ?_, rfl⟩ <;> simp [toTerm, intoTerm, serialise, hi]
  | some a =>
    simp only [hsel, List.all_eq_true] at hg
    obtain ⟨hmem, hty, har⟩ := selectArm_some hsel
    have haok := ok.fromOK a hmem
    simp only [fromArmOK] at haok
    cases hb : findTo tbl.toArms a.variant with
    | none => simp [hb] at haok
    | some b =>
      simp only [hb, Bool.and_eq_true, decide_eq_true_eq, List.all_eq_true] at haok
      obtain ⟨⟨⟨hhead, hlen⟩, hmo⟩, hidx⟩ := haok
      have hdisc : enumDisc tbl b.head = some i.toNat := by
        have := ok.tryInv (i.toNat, a.ty) (fromU8_some hty)
        rw [hhead]; exact this
      have hlen' : (Term.int i :: rest).length = a.arity := by simp [har]
      obtain ⟨fs, hfs⟩ := evalFields_ok (.int i :: rest) a.fields (fun p hp =>
        evalSrc_ok (by rw [hlen']; exact hidx p hp) (hg p hp))
      obtain ⟨ts, houts, hden⟩ :=
        evalOuts_of_match (.int i :: rest) a.fields fs hfs hg b.outs 1 hmo (by rw [hlen']; omega)
      simp only [List.drop_succ_cons, List.drop_zero] at hden
      have hto : toTerm tbl (.known a.variant fs) = some (.tuple (.int i :: ts)) := by
        simp [toTerm, serialise, hb, hdisc, houts, hi]
      refine ⟨.known a.variant fs, .tuple (.int i :: ts), by simp [hfs], hto, ?_, ?_⟩
      · rw [into_eq_to h]; exact hto
      · simp only [Term.den, Term.denL, hden]

/-- anything that is not a tuple headed by `Integer 0..255` is rejected with an error, for every table -/
theorem rejects (tbl : Table) (t : Term) (h : tagged t = false) : parse tbl t = .error .err := by
  unfold tagged at h
  split at h
  · rename_i i rest
    simp at h
    simp only [parse]
    split
    · rename_i hc; exact absurd hc.2 (by have := h hc.1; omega)
    · rfl
  · rename_i hne
    unfold parse
    split <;> first | rfl | (exfalso; exact hne _ _ rfl)

theorem evalSrc_no_panic {els : List Term} {s : Src} (hi : s.idx < els.length) : evalSrc els s ≠ .error .panic := by
  cases s with
  | elem i =>
    simp only [Src.idx] at hi
    simp [evalSrc, List.getElem?_eq_getElem hi]
  | uid i =>
    simp only [Src.idx] at hi
    simp only [evalSrc, List.getElem?_eq_getElem hi]
    cases unlinkIdFromTerm els[i] <;> simp

theorem evalFields_no_panic (els : List Term) :
    ∀ (flds : List (String × Src)), (∀ p ∈ flds, p.2.idx < els.length) → evalFields els flds ≠ .error .panic := by
  intro flds
  induction flds with
  | nil => intro _; simp [evalFields]
  | cons p r ih =>
    intro hp
    obtain ⟨g, s⟩ := p
    have hs := evalSrc_no_panic (hp (g, s) (by simp))
    have ihr := ih (fun q hq => hp q (List.mem_cons_of_mem _ hq))
    simp only [evalFields]
    cases h1 : evalSrc els s with
    | error e => simp only [ne_eq, Except.error.injEq]; intro he; subst he; exact hs h1
    | ok v =>
      cases h2 : evalFields els r with
      | error e => simp only [ne_eq, Except.error.injEq]; intro he; subst he; exact ihr h2
      | ok vs => simp

/-- with a consistent table no index is out of bounds: `from_term` never panics -/
theorem no_panic {tbl : Table} (h : TableOK tbl) (t : Term) : parse tbl t ≠ .error .panic := by
  have ok := okParts h
  unfold parse
  split
  · simp
  · rename_i raw rest
    split
    · cases hsel : selectArm tbl (fromU8 tbl raw.toNat) (rest.length + 1) with
      | none => simp
      | some a =>
        obtain ⟨hmem, _, har⟩ := selectArm_some hsel
        have haok := ok.fromOK a hmem
        simp only [fromArmOK] at haok
        cases hb : findTo tbl.toArms a.variant with
        | none => simp [hb] at haok
        | some b =>
          simp only [hb, Bool.and_eq_true, decide_eq_true_eq, List.all_eq_true] at haok
          have hidx := haok.2
          have hlen' : (Term.int raw :: rest).length = a.arity := by simp [har]
          have := evalFields_no_panic (.int raw :: rest) a.fields (by rw [hlen']; exact hidx)
          cases he : evalFields (.int raw :: rest) a.fields with
          | error e =>
            simp only [he]
            intro hp; injection hp with hp; subst hp; exact this he
          | ok fs =>
            simp only [he]
            intro hp; cases hp
    · simp
  · simp

/-! ### serialise, go through the wire, parse -/

theorem lookup_mapFields (w : Term → Term) : ∀ (fs : List (String × FVal)) (f : String),
    lookup (mapFields w fs) f = (lookup fs f).map (FVal.map w) := by
  intro fs
  induction fs with
  | nil => intro f; rfl
  | cons p r ih =>
    intro f
    obtain ⟨g, x⟩ := p
    simp only [mapFields, lookup]
    split
    · rfl
    · exact ih f

theorem lookup_some_of_isSome {α : Type} {l : List (String × α)} {f : String} (h : (lookup l f).isSome = true) :
    ∃ v, lookup l f = some v := by
  cases hl : lookup l f with
  | none => simp [hl] at h
  | some v => exact ⟨v, rfl⟩

theorem evalOuts_pointwise (fs : List (String × FVal)) :
    ∀ (outs : List Out), (∀ o ∈ outs, ∃ t, evalOut fs o = some t) →
      ∃ ts : List Term, evalOuts fs outs = some ts ∧ ts.length = outs.length ∧
        ∀ (k : Nat) (o : Out), outs[k]? = some o → ∃ t, ts[k]? = some t ∧ evalOut fs o = some t := by
  intro outs
  induction outs with
  | nil => intro _; exact ⟨[], rfl, rfl, by intro k o h; simp at h⟩
  | cons o os ih =>
    intro h
    obtain ⟨t, ht⟩ := h o (by simp)
    obtain ⟨ts, hts, hlen, hpt⟩ := ih (fun q hq => h q (List.mem_cons_of_mem _ hq))
    refine ⟨t :: ts, by simp [evalOuts, ht, hts], by simp [hlen], ?_⟩
    intro k o' hk
    cases k with
    | zero => simp at hk; subst hk; exact ⟨t, by simp, ht⟩
    | succ k => simp at hk; simpa using hpt k o' hk

theorem matchFlds_mem (outs : List Out) : ∀ (flds : List (String × Src)), matchFlds outs flds = true →
    ∀ f s, (f, s) ∈ flds →
      (∀ k, s = .elem k → 1 ≤ k ∧ outs[k - 1]? = some (.fld f)) ∧
      (∀ k, s = .uid k → 1 ≤ k ∧ outs[k - 1]? = some (.uid f)) := by
  intro flds
  induction flds with
  | nil => intro _ f s h; simp at h
  | cons p r ih =>
    intro hm f s hmem
    obtain ⟨g, src⟩ := p
    cases src with
    | elem j =>
      simp only [matchFlds, Bool.and_eq_true, decide_eq_true_eq] at hm
      rcases List.mem_cons.mp hmem with h1 | h1
      · simp at h1
        obtain ⟨hf, hs⟩ := h1
        subst hf; subst hs
        exact ⟨fun k hk => (by cases hk; exact hm.1), fun k hk => (by cases hk)⟩
      · exact ih hm.2 f s h1
    | uid j =>
      simp only [matchFlds, Bool.and_eq_true, decide_eq_true_eq] at hm
      rcases List.mem_cons.mp hmem with h1 | h1
      · simp at h1
        obtain ⟨hf, hs⟩ := h1
        subst hf; subst hs
        exact ⟨fun k hk => (by cases hk), fun k hk => (by cases hk; exact hm.1)⟩
      · exact ih hm.2 f s h1

theorem evalFields_pointwise (w : Term → Term) (els : List Term) (fs : List (String × FVal))
    (flds : List (String × Src))
    (hp : ∀ p ∈ flds, ∃ x, lookup fs p.1 = some x ∧ evalSrc els p.2 = .ok (x.map w)) :
    ∃ fs', evalFields els flds = .ok fs' ∧
      (∀ f, (lookup flds f).isSome = true → lookup fs' f = (lookup fs f).map (FVal.map w)) ∧
      (∀ f, lookup flds f = none → lookup fs' f = none) := by
  obtain ⟨fs', hfs'⟩ := evalFields_ok els flds (fun p hp' => by
    obtain ⟨x, _, hx⟩ := hp p hp'
    exact ⟨_, hx⟩)
  refine ⟨fs', hfs', ?_, fun f hf => evalFields_lookup_none els flds fs' f hfs' hf⟩
  intro f hf
  obtain ⟨s, hs⟩ := lookup_some_of_isSome hf
  obtain ⟨v, hv, hl⟩ := evalFields_lookup els flds fs' f s hfs' hs
  obtain ⟨x, hx, hx2⟩ := hp (f, s) (lookup_mem _ _ _ hs)
  rw [hx2] at hv
  injection hv with hv
  rw [hl, hx, ← hv]
  rfl

/-- every structured message serialises, and what comes back from a transparent wire parses to the same variant
with the same (wire-mapped) value in every field -/
theorem serialise_wire_parse {tbl : Table} (h : TableOK tbl) (w : Term → Term) (hw : Transparent w)
    (v : String) (fs : List (String × FVal)) (hm : wellTyped tbl (.known v fs) = true) :
    ∃ t m', toTerm tbl (.known v fs) = some t ∧ intoTerm tbl (.known v fs) = some t ∧
      parse tbl (w t) = .ok m' ∧ Msg.Same m' (Msg.mapTerms w (.known v fs)) := by
  have ok := okParts h
  simp only [wellTyped] at hm
  cases hds : lookup tbl.variants v with
  | none => simp [hds] at hm
  | some ds =>
    simp only [hds, Bool.and_eq_true, List.all_eq_true] at hm
    obtain ⟨hall, hex⟩ := hm
    have hv := ok.varOK (v, ds) (lookup_mem _ _ _ hds)
    simp only [variantOK] at hv
    cases hb : findTo tbl.toArms v with
    | none => simp [hb] at hv
    | some b =>
      cases hc : findTo tbl.intoArms v with
      | none => simp [hb, hc] at hv
      | some c =>
        simp only [hb, hc, Bool.and_eq_true, decide_eq_true_eq, List.all_eq_true] at hv
        obtain ⟨⟨_, houts⟩, hv⟩ := hv
        cases hd : enumDisc tbl b.head with
        | none => simp [hd] at hv
        | some d =>
          simp only [hd, Bool.and_eq_true, decide_eq_true_eq] at hv
          obtain ⟨hd255, hv⟩ := hv
          cases hsel : selectArm tbl (fromU8 tbl d) (b.outs.length + 1) with
          | none => simp [hsel] at hv
          | some a =>
            simp only [hsel, Bool.and_eq_true, decide_eq_true_eq, List.all_eq_true] at hv
            obtain ⟨⟨⟨hav, hmf⟩, hcov⟩, hsub⟩ := hv
            -- the serialiser writes every element
            have hev : ∀ o ∈ b.outs, ∃ t, evalOut fs o = some t := by
              intro o ho
              have := houts o ho
              simp only [List.mem_map] at this
              obtain ⟨p, hp, hpo⟩ := this
              have hfo := hall p hp
              obtain ⟨f, u⟩ := p
              simp only [fieldOk] at hfo
              subst hpo
              cases u with
              | false =>
                simp only [outOfDecl, Bool.false_eq_true, if_false, evalOut]
                cases hl : lookup fs f with
                | none => simp [hl] at hfo
                | some x => cases x with
                  | term t => exact ⟨t, rfl⟩
                  | uid n => simp [hl] at hfo
              | true =>
                simp only [outOfDecl, if_true, evalOut]
                cases hl : lookup fs f with
                | none => simp [hl] at hfo
                | some x => cases x with
                  | term t => simp [hl] at hfo
                  | uid n => exact ⟨_, rfl⟩
            obtain ⟨ts, hts, htlen, htpt⟩ := evalOuts_pointwise fs b.outs hev
            have hto : toTerm tbl (.known v fs) = some (.tuple (.int (d : Int) :: ts)) := by
              simp [toTerm, serialise, hb, hd, hts]
            have hwt : w (.tuple (.int (d : Int) :: ts)) = .tuple (.int (d : Int) :: ts.map w) := by
              rw [hw.tuple]
              simp only [List.map_cons]
              rw [hw.small (d : Int) (by omega) (by omega)]
            -- the parser reads every field back
            have hpw : ∀ p ∈ a.fields, ∃ x, lookup fs p.1 = some x ∧
                evalSrc (.int (d : Int) :: ts.map w) p.2 = .ok (x.map w) := by
              intro p hp
              obtain ⟨f, s⟩ := p
              obtain ⟨h1, h2⟩ := matchFlds_mem b.outs a.fields hmf f s hp
              cases s with
              | elem k =>
                obtain ⟨hk1, hko⟩ := h1 k rfl
                obtain ⟨t, htk, hte⟩ := htpt (k - 1) _ hko
                simp only [evalOut] at hte
                cases hl : lookup fs f with
                | none => simp [hl] at hte
                | some x => cases x with
                  | uid n => simp [hl] at hte
                  | term t' =>
                    simp [hl] at hte
                    subst hte
                    refine ⟨_, rfl, ?_⟩
                    have hk : k = (k - 1) + 1 := by omega
                    rw [hk]
                    simp [evalSrc, List.getElem?_cons_succ, List.getElem?_map, htk, FVal.map]
              | uid k =>
                obtain ⟨hk1, hko⟩ := h2 k rfl
                obtain ⟨t, htk, hte⟩ := htpt (k - 1) _ hko
                simp only [evalOut] at hte
                cases hl : lookup fs f with
                | none => simp [hl] at hte
                | some x => cases x with
                  | term t' => simp [hl] at hte
                  | uid n =>
                    simp [hl] at hte
                    subst hte
                    -- the id is below 2^64: its declaration is `u64`
                    have hn : n < 2 ^ 64 := by
                      have hmem := houts _ (List.mem_of_getElem? hko)
                      simp only [List.mem_map] at hmem
                      obtain ⟨p, hp', hpo⟩ := hmem
                      have hfo := hall p hp'
                      obtain ⟨g, u⟩ := p
                      cases u with
                      | false => simp [outOfDecl] at hpo
                      | true =>
                        simp [outOfDecl] at hpo
                        subst hpo
                        simp [fieldOk, hl] at hfo
                        exact hfo
                    refine ⟨_, rfl, ?_⟩
                    have hk : k = (k - 1) + 1 := by omega
                    rw [hk]
                    simp [evalSrc, List.getElem?_cons_succ, List.getElem?_map, htk, FVal.map, unlinkId_back hw hn]
            obtain ⟨fs', hfs', hsome, hnone⟩ := evalFields_pointwise w _ fs a.fields hpw
            have hparse : parse tbl (w (.tuple (.int (d : Int) :: ts))) = .ok (.known a.variant fs') := by
              rw [hwt]
              have h0 : (0 : Int) ≤ (d : Int) ∧ (d : Int) ≤ 255 := by omega
              simp only [parse, h0, and_self, if_true, Int.toNat_natCast, List.length_map, htlen, hsel, hfs']
            refine ⟨_, _, hto, by rw [into_eq_to h]; exact hto, hparse, ?_⟩
            simp only [Msg.mapTerms, Msg.Same]
            refine ⟨hav, ?_⟩
            intro f
            rw [lookup_mapFields]
            cases hla : lookup a.fields f with
            | some s => exact hsome f (by simp [hla])
            | none =>
              rw [hnone f hla]
              cases hlf : lookup fs f with
              | none => rfl
              | some x =>
                exfalso
                have h1 := hex (f, x) (lookup_mem _ _ _ hlf)
                obtain ⟨u, hu⟩ := lookup_some_of_isSome h1
                have h2 := hcov (f, u) (lookup_mem _ _ _ hu)
                simp [hla] at h2

/-! ### the protocol's notion of an admissible control tuple implies the guard -/

theorem idGuard_of_shape {tbl : Table} (h : TableOK tbl)
    (hids : ∀ a ∈ tbl.fromArms, Spec.idsAtSpec tbl a = true) (t : Term) (hs : Spec.shape t = .control) :
    tagged t = true ∧ idGuard tbl t = true := by
  have ok := okParts h
  unfold Spec.shape at hs
  split at hs
  · rename_i i rest
    split at hs
    · rename_i hc
      refine ⟨by simp [tagged, hc], ?_⟩
      simp only [idGuard]
      cases hsel : selectArm tbl (fromU8 tbl i.toNat) (rest.length + 1) with
      | none => rfl
      | some a =>
        simp only [List.all_eq_true]
        intro p hp
        obtain ⟨hmem, hty, har⟩ := selectArm_some hsel
        have hdisc := ok.tryInv (i.toNat, a.ty) (fromU8_some hty)
        have hat := hids a hmem
        simp only [Spec.idsAtSpec, List.all_eq_true] at hat
        have hp' := hat p hp
        obtain ⟨f, src⟩ := p
        cases src with
        | elem k => rfl
        | uid k =>
          simp only [hdisc, decide_eq_true_eq] at hp'
          rw [har] at hp'
          simp only [hp'] at hs
          simp only [srcIdOk]
          split at hs
          · rename_i e he
            simp only [he]
            simp only [Spec.intOf] at hs
            split at hs
            · rename_i v hv
              simp only [hv]
              split at hs
              · rename_i hr; simp only [decide_eq_true_eq]; exact hr
              · cases hs
            · cases hs
          · cases hs
    · cases hs
  · cases hs

end Edp.Control
