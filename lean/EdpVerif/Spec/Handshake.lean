import EdpVerif.Basic.Bytes
import EdpVerif.Basic.Utf8
import EdpVerif.Basic.Md5
/-
Specification of the distribution handshake as seen from the connecting side (DESIGN.md Appendix B.4,
erl_dist_protocol "Distribution Handshake"), written from the protocol and not from the Rust code:

  * the byte layout of every message (`n`/`N` send_name, `s` status, `N` challenge, `c` complement, `r` reply, `a` ack);
    messages this side SENDS carry their 2-byte length prefix (the state machine emits it itself),
    messages this side RECEIVES are given without it (the transport strips it);
  * the digest `MD5 (cookie ++ decimal challenge)` with the hash as a parameter;
  * the API vocabulary `Op` and the protocol automaton of the connecting side (`connStep`): which event is allowed in
    which phase, which challenge this side has issued in the handshake in progress, what it emits, what kills the
    handshake, and the capability intersection;
  * the capability-flag bits and message tags the protocol assigns.
Core Lean only (linked into the driver).
-/
namespace Edp.Spec.Handshake
open Edp

/-! ### digest -/

/-- `u32::to_string`: decimal digits, no sign, no padding -/
def decimal (n : Nat) : Bytes := (Nat.toDigits 10 n).map fun c => UInt8.ofNat c.toNat

/-- the handshake digest with the hash function as a parameter -/
def digestWith (hash : Bytes → Bytes) (cookie : Bytes) (challenge : Nat) : Bytes :=
  hash (cookie ++ decimal challenge)

/-- the handshake digest: MD5 (cookie ++ decimal challenge) -/
def digest (cookie : Bytes) (challenge : Nat) : Bytes := digestWith Md5.md5 cookie challenge

#guard decimal 0 == [48]
#guard decimal 4294967295 == [52, 50, 57, 52, 57, 54, 55, 50, 57, 53]

/-! ### layouts of the messages this side sends (with the 2-byte length) -/

/-- old-style send_name: `'n' version:u16(=5) flags:u32 name` (low 32 flag bits) -/
def sendNameOld (flags : Nat) (name : Bytes) : Bytes :=
  be16 (7 + name.length) ++ [110] ++ be16 5 ++ be32 (flags % 4294967296) ++ name

/-- new-style send_name: `'N' flags:u64 creation:u32 nlen:u16 name` -/
def sendNameNew (flags creation : Nat) (name : Bytes) : Bytes :=
  be16 (15 + name.length) ++ [78] ++ be64 flags ++ be32 creation ++ be16 name.length ++ name

/-- complement: `'c' flagsHigh:u32 creation:u32` -/
def complement (flags creation : Nat) : Bytes :=
  be16 9 ++ [99] ++ be32 (flags / 4294967296) ++ be32 creation

/-- challenge reply: `'r' challenge:u32 digest:16` -/
def reply (challenge : Nat) (dig : Bytes) : Bytes :=
  be16 21 ++ [114] ++ be32 challenge ++ dig

/-! ### layouts of the messages the accepting side sends (with the 2-byte length) -/

/-- status: `'s' status` with the status as text -/
def status (text : Bytes) : Bytes := be16 (1 + text.length) ++ [115] ++ text

/-- challenge: `'N' flags:u64 challenge:u32 creation:u32 nlen:u16 name` -/
def challenge (flags chal creation : Nat) (name : Bytes) : Bytes :=
  be16 (19 + name.length) ++ [78] ++ be64 flags ++ be32 chal ++ be32 creation ++ be16 name.length ++ name

/-- challenge ack: `'a' digest:16` -/
def ack (dig : Bytes) : Bytes := be16 17 ++ [97] ++ dig

/-! ### parsing received messages (length prefix already stripped) -/

inductive Status | ok | okSimultaneous | nok | notAllowed | alive
deriving DecidableEq, Repr

def Status.accepts : Status → Bool
  | .ok => true
  | .okSimultaneous => true
  | _ => false

def txtOk : Bytes := [111, 107]
def txtOkSimultaneous : Bytes := [111, 107, 95, 115, 105, 109, 117, 108, 116, 97, 110, 101, 111, 117, 115]
def txtNok : Bytes := [110, 111, 107]
def txtNotAllowed : Bytes := [110, 111, 116, 95, 97, 108, 108, 111, 119, 101, 100]
def txtAlive : Bytes := [97, 108, 105, 118, 101]

#guard txtOk == "ok".toUTF8.toList
#guard txtOkSimultaneous == "ok_simultaneous".toUTF8.toList
#guard txtNok == "nok".toUTF8.toList
#guard txtNotAllowed == "not_allowed".toUTF8.toList
#guard txtAlive == "alive".toUTF8.toList

/-- the status a connecting side that did not ask for a dynamic name can receive -/
def parseStatus : Bytes → Option Status
  | [] => none
  | t :: text =>
    if t ≠ 115 then none
    else if text = txtOk then some .ok
    else if text = txtOkSimultaneous then some .okSimultaneous
    else if text = txtNok then some .nok
    else if text = txtNotAllowed then some .notAllowed
    else if text = txtAlive then some .alive
    else none

structure ChallengeMsg where
  flags : Nat
  challenge : Nat
  creation : Nat
  name : Bytes
deriving DecidableEq, Repr

/-- `'N' flags:u64 challenge:u32 creation:u32 nlen:u16 name` (name: `nlen` bytes of UTF-8; later bytes ignored) -/
def parseChallenge : Bytes → Option ChallengeMsg
  | [] => none
  | t :: r =>
    if t ≠ 78 then none else
    match rdN 8 r with
    | none => none
    | some (flags, r1) =>
      match rdN 4 r1 with
      | none => none
      | some (chal, r2) =>
        match rdN 4 r2 with
        | none => none
        | some (cr, r3) =>
          match rdN 2 r3 with
          | none => none
          | some (nlen, r4) =>
            if nlen ≤ r4.length ∧ validUtf8 (r4.take nlen) = true then some ⟨flags, chal, cr, r4.take nlen⟩ else none

/-- `'a' digest:16` -/
def parseAck : Bytes → Option Bytes
  | [] => none
  | t :: r => if t = 97 ∧ 16 ≤ r.length then some (r.take 16) else none

/-! ### parsing what this side emitted (a peer's view; with the 2-byte length) -/

/-- a reply as a peer reads it: exactly `00 15 'r' challenge:4 digest:16` -/
def parseReply (bs : Bytes) : Option (Nat × Bytes) :=
  match rdN 2 bs with
  | some (len, t :: r) =>
    if len = 21 ∧ t = 114 ∧ r.length = 20 then
      match rdN 4 r with
      | some (c, d) => some (c, d)
      | none => none
    else none
  | _ => none

/-- an old-style send_name as a peer reads it: `(flags low 32, name)` -/
def parseSendNameOld (bs : Bytes) : Option (Nat × Bytes) :=
  match rdN 2 bs with
  | some (len, t :: r) =>
    if t = 110 ∧ len = 1 + r.length then
      match rdN 2 r with
      | some (ver, r1) =>
        match rdN 4 r1 with
        | some (fl, name) => if ver = 5 then some (fl, name) else none
        | none => none
      | none => none
    else none
  | _ => none

/-! ### the API vocabulary and the connecting side's protocol automaton -/

/-- one event per public method of the handshake API (the `chal` of `handleChallenge` is the value the
clock-derived generator returned inside that call) -/
inductive Op
  | beginConnect
  | prepareSendName
  | handleStatus (bytes : Bytes)
  | prepareComplement
  | handleChallenge (bytes : Bytes) (chal : Nat)
  | prepareChallengeReply
  | handleChallengeAck (bytes : Bytes)
  | disconnect
deriving DecidableEq, Repr

def Op.isBegin : Op → Bool | .beginConnect => true | _ => false
def Op.isSendName : Op → Bool | .prepareSendName => true | _ => false
def Op.isStatus : Op → Bool | .handleStatus _ => true | _ => false
def Op.isChallenge : Op → Bool | .handleChallenge _ _ => true | _ => false
def Op.isReply : Op → Bool | .prepareChallengeReply => true | _ => false
def Op.isAck : Op → Bool | .handleChallengeAck _ => true | _ => false
def Op.isDisconnect : Op → Bool | .disconnect => true | _ => false

/-- where the connecting side is in the handshake (erl_dist_protocol, "Distribution Handshake", steps 2-8 as seen
from A). The challenges live in the phase that needs them: `challenged ours theirs` (the peer's challenge arrived,
this side generated its own, the reply is due), `replied ours` (the reply went out, the ack is due). -/
inductive Phase
  | idle
  | begun
  | nameSent
  | accepted
  | challenged (ours theirs : Nat)
  | replied (ours : Nat)
  | established
  | dead
deriving DecidableEq, Repr

/-- the connecting side: its phase and the negotiated capability set (kept until `disconnect`) -/
structure Conn where
  phase : Phase
  neg : Option Nat
deriving DecidableEq, Repr

def Conn.empty : Conn := ⟨.idle, none⟩

/-- what the connecting side is configured with -/
structure Side where
  name : Bytes
  cookie : Bytes
  flags : Nat
  creation : Nat

/-- the outcome of one API event: success, a message to put on the wire, or an error -/
inductive Resp
  | ok
  | sent (b : Bytes)
  | error
deriving DecidableEq, Repr

/-- The protocol automaton of the connecting side. Every event is accepted only in the phase the protocol puts it in
(anything else is an error that changes nothing); a refusal status, an unparsable message or a wrong digest kills
the handshake (`dead`), from where only `disconnect` leads on; `established` is entered by exactly one edge: an ack
carrying `dg cookie ours` while the reply with `ours` is outstanding. `dg` is the digest function. -/
def connStep (p : Side) (dg : Bytes → Nat → Bytes) (h : Conn) : Op → Conn × Resp
  | .disconnect => (Conn.empty, .ok)
  | .beginConnect =>
    match h.phase with
    | .idle => ({ h with phase := .begun }, .ok)
    | _ => (h, .error)
  | .prepareSendName =>
    match h.phase with
    | .begun =>
      if p.name.length ≤ 255 then ({ h with phase := .nameSent }, .sent (sendNameOld p.flags p.name))
      else ({ h with phase := .dead }, .error)
    | _ => (h, .error)
  | .handleStatus b =>
    match h.phase with
    | .nameSent =>
      match parseStatus b with
      | some st => if st.accepts then ({ h with phase := .accepted }, .ok) else ({ h with phase := .dead }, .error)
      | none => ({ h with phase := .dead }, .error)
    | _ => (h, .error)
  | .prepareComplement =>
    match h.phase with
    | .accepted => (h, .sent (complement p.flags p.creation))
    | _ => (h, .error)
  | .handleChallenge b c =>
    match h.phase with
    | .accepted =>
      match parseChallenge b with
      | some m => (⟨.challenged c m.challenge, some (m.flags &&& p.flags)⟩, .ok)
      | none => ({ h with phase := .dead }, .error)
    | _ => (h, .error)
  | .prepareChallengeReply =>
    match h.phase with
    | .challenged c t => ({ h with phase := .replied c }, .sent (reply c (dg p.cookie t)))
    | _ => (h, .error)
  | .handleChallengeAck b =>
    match h.phase with
    | .replied c =>
      if parseAck b = some (dg p.cookie c) then ({ h with phase := .established }, .ok)
      else ({ h with phase := .dead }, .error)
    | _ => (h, .error)

def connRun (p : Side) (dg : Bytes → Nat → Bytes) (h : Conn) (ops : List Op) : Conn :=
  ops.foldl (fun h op => (connStep p dg h op).1) h

/-- what each event of a sequence answers -/
def connResps (p : Side) (dg : Bytes → Nat → Bytes) : Conn → List Op → List Resp
  | _, [] => []
  | h, op :: rest => (connStep p dg h op).2 :: connResps p dg (connStep p dg h op).1 rest

/-! ### capability flags and message tags, as the protocol assigns them -/

/-- `DFLAG_*` of erl_dist_protocol ("Distribution Flags"), by the name flags.rs uses, as bit positions -/
def protocolFlagBit : List (String × Nat) := [
  ("PUBLISHED", 0), ("ATOM_CACHE", 1), ("EXTENDED_REFERENCES", 2), ("DIST_MONITOR", 3), ("FUN_TAGS", 4),
  ("DIST_MONITOR_NAME", 5), ("HIDDEN_ATOM_CACHE", 6), ("NEW_FUN_TAGS", 7), ("EXTENDED_PIDS_PORTS", 8),
  ("EXPORT_PTR_TAG", 9), ("BIT_BINARIES", 10), ("NEW_FLOATS", 11), ("UNICODE_IO", 12), ("DIST_HDR_ATOM_CACHE", 13),
  ("SMALL_ATOM_TAGS", 14), ("UTF8_ATOMS", 16), ("MAP_TAG", 17), ("BIG_CREATION", 18), ("SEND_SENDER", 19),
  ("BIG_SEQTRACE_LABELS", 20), ("EXIT_PAYLOAD", 22), ("FRAGMENTS", 23), ("HANDSHAKE_23", 24), ("UNLINK_ID", 25),
  ("SPAWN", 32), ("NAME_ME", 33), ("V4_NC", 34), ("ALIAS", 35)]

/-- the value the protocol gives the capability called `name` -/
def protocolFlag (name : String) : Option Nat := (protocolFlagBit.lookup name).map fun b => 2 ^ b

/-- the capabilities a node must announce to be accepted by OTP 26 (`DFLAG_DIST_MANDATORY`: the OTP 25 set plus
`V4_NC` and `UNLINK_ID`) -/
def mandatoryOtp26 : List String := [
  "EXTENDED_REFERENCES", "FUN_TAGS", "EXTENDED_PIDS_PORTS", "UTF8_ATOMS", "NEW_FUN_TAGS", "BIG_CREATION",
  "NEW_FLOATS", "MAP_TAG", "EXPORT_PTR_TAG", "BIT_BINARIES", "HANDSHAKE_23", "V4_NC", "UNLINK_ID"]

/-- what a current OTP node announces when it accepts (SPAWN, V4_NC, ALIAS in the high word; FRAGMENTS is bit 23) -/
def otpAcceptorFlags : Nat := 0xd07df7fbd

#guard protocolFlag "FRAGMENTS" == some 0x800000
#guard protocolFlag "SPAWN" == some 0x100000000
#guard protocolFlag "ALIAS" == some 0x800000000
#guard (["SPAWN", "V4_NC", "ALIAS", "FRAGMENTS", "UNLINK_ID", "HANDSHAKE_23", "PUBLISHED"].all fun n =>
  match protocolFlag n with | some v => otpAcceptorFlags &&& v == v | none => false)
#guard (match protocolFlag "NAME_ME" with | some v => otpAcceptorFlags &&& v == 0 | none => false)

/-- message tags: `n` old send_name, `N` new send_name and challenge, `s` status, `c` complement, `r` reply, `a` ack -/
def tagNameOld : Nat := 110
def tagNameNew : Nat := 78
def tagStatus : Nat := 115
def tagComplement : Nat := 99
def tagReply : Nat := 114
def tagAck : Nat := 97
/-- the version field of the old send_name -/
def versionOld : Nat := 5

#guard [tagNameOld, tagNameNew, tagStatus, tagComplement, tagReply, tagAck] == "nNscra".toUTF8.toList.map (·.toNat)

end Edp.Spec.Handshake
