/-
Specification oracle for C20, written from the Elixir documentation and not from the Rust code.

* `first..last//step` (Elixir `Range`): the integers `first + i*step`, `i = 0, 1, …`, that do not pass `last`;
  empty when the step points away from `last` (and, as the Rust type allows it, when the step is 0).
  `Range.size/1`, `in` and `Enum.to_list/1` are `count`, `mem` and `elems`.
* struct fields: an Elixir struct with integer fields converts to a value whose fields are those integers.
Everything is over unbounded `Int`; nothing here knows about 64-bit arithmetic.
-/
namespace Edp.Spec.Range

/-- `Range.size(first..last//step)` -/
def count (first last step : Int) : Nat :=
  if step > 0 then (if first > last then 0 else ((last - first) / step + 1).toNat)
  else if step < 0 then (if first < last then 0 else ((first - last) / (-step) + 1).toNat)
  else 0

/-- `v in first..last//step` -/
def mem (first last step v : Int) : Bool :=
  if step > 0 then decide (first ≤ v ∧ v ≤ last ∧ (v - first) % step = 0)
  else if step < 0 then decide (last ≤ v ∧ v ≤ first ∧ (first - v) % (-step) = 0)
  else false

/-- `Enum.to_list(first..last//step)` -/
def elems (first last step : Int) : List Int :=
  (List.range (count first last step)).map fun (i : Nat) => first + (i : Int) * step

/-- `Enum.at(range, i)` -/
def nth (first step : Int) (i : Nat) : Int := first + (i : Int) * step

end Edp.Spec.Range

/-
`Calendar.ISO` (Elixir documentation: `valid_date?/3`, `valid_time?/4`, `leap_year?/1`, `days_in_month/2`): the
proleptic Gregorian calendar. A year is a leap year when it is divisible by 4 and not by 100, or by 400;
months are 1..12; February has 29 days in a leap year and 28 otherwise, April, June, September and November have 30,
the others 31; hours 0..23, minutes and seconds 0..59 (no leap seconds), microseconds 0..999_999 with a precision 0..6.
-/
namespace Edp.Spec.Cal

def leap (y : Int) : Prop := (4 ∣ y ∧ ¬ 100 ∣ y) ∨ 400 ∣ y
instance (y : Int) : Decidable (leap y) := by unfold leap; infer_instance

def daysIn (y m : Int) : Int :=
  if m = 2 then (if leap y then 29 else 28)
  else if m = 4 ∨ m = 6 ∨ m = 9 ∨ m = 11 then 30
  else 31

def validDate (y m d : Int) : Prop := 1 ≤ m ∧ m ≤ 12 ∧ 1 ≤ d ∧ d ≤ daysIn y m
instance (y m d : Int) : Decidable (validDate y m d) := by unfold validDate; infer_instance

def validTime (h mi s us p : Int) : Prop :=
  0 ≤ h ∧ h ≤ 23 ∧ 0 ≤ mi ∧ mi ≤ 59 ∧ 0 ≤ s ∧ s ≤ 59 ∧ 0 ≤ us ∧ us ≤ 999999 ∧ 0 ≤ p ∧ p ≤ 6
instance (h mi s us p : Int) : Decidable (validTime h mi s us p) := by unfold validTime; infer_instance

end Edp.Spec.Cal
