import EdpVerif.Lemmas.Recv
/-!
C06, header mode: what a frame does to the connection when its DISTRIBUTION HEADER is accepted and its BODY is not.

`decode_with_atom_cache` parses the header into the connection's cache in place and only then reads the terms; an error
in the terms does not take the header's entries back. The peer cannot know that the body was refused: it has announced
the entries and refers to them as existing entries from then on. So "a malformed frame yields an error for that frame
only; every later frame is still delivered intact" NEEDS the header of a refused frame to be applied. This file proves
that it is, for every history of a conforming sender in which any number of messages arrive with arbitrary bytes in
place of their terms (`Item.bad`).
-/
namespace Edp.Recv
open Edp Edp.Spec.Peer Edp.Spec.DistHeader Edp.DistHeader Edp.Props.C14

/-- the terms after a distribution header (the tail of `decode_with_atom_cache`): the control term, then — if bytes
remain — the payload term, after which nothing may remain; `c` is the table `ATOM_CACHE_REF` reads -/
def termsOf (x : Ext) (c : PosTable) (fuel : Nat) (body : Bytes) : Except DErr (Term × Option Term) :=
  match dec x { cache := c } fuel 0 body with
  | .error e => .error e
  | .ok (t, rest) =>
    if rest.isEmpty then .ok (t, none) else
    match dec x { cache := c } fuel 0 rest with
    | .error e => .error e
    | .ok (p, []) => .ok (t, some p)
    | .ok (_, more) => .error (.trailing more.length)

/-- `decode_with_atom_cache` on a `131, 68` frame: the header first — into the cache, whatever follows —, then the terms -/
theorem decodeWithAtomCache_header (x : Ext) (c : Cache) (r : Bytes) :
    decodeWithAtomCache x c (131 :: 68 :: r) =
      ((parseHeader c r).1,
        match (parseHeader c r).2 with
        | .error e => .error e
        | .ok body => termsOf x (parseHeader c r).1.atoms ((131 :: 68 :: r).length + 1 + x.extra) body) := by
  simp only [decodeWithAtomCache]
  have h131 : ((131 : UInt8) != 131) = false := by decide
  have h68 : ((68 : UInt8) == 68) = true := by decide
  simp only [h131, Bool.false_eq_true, ↓reduceIte, h68]
  rcases hp : parseHeader c r with ⟨c1, e | body⟩
  · simp
  · simp only [termsOf]
    generalize (131 :: 68 :: r).length + 1 + x.extra = fuel
    rcases hd : dec x { cache := c1.atoms } fuel 0 body with e | ⟨t, rest⟩
    · simp
    · by_cases hre : rest.isEmpty = true
      · simp [hre]
      · simp only [hre, Bool.false_eq_true, ↓reduceIte]
        rcases hd2 : dec x { cache := c1.atoms } fuel 0 rest with e | ⟨p, more⟩
        · simp
        · cases more <;> simp

/-- the bytes that stand in the place of the terms cannot be read as control term [+ payload term] under ANY position
table: truncated terms, an unknown tag, a payload nested too deep, bytes left over, nothing at all -/
def BodyRefused (x : Ext) (body : Bytes) : Prop :=
  ∀ (c : PosTable) (fuel : Nat), ∃ e, e ≠ DErr.panic ∧ termsOf x c fuel body = .error e

theorem bodyRefused_nil (x : Ext) : BodyRefused x [] := by
  intro c fuel
  refine ⟨.err, by simp, ?_⟩
  cases fuel <;> simp [termsOf, dec]

/-- what reaches the receiver for one message of the sender: the message as meant, or its header followed by arbitrary
bytes (`bad`: the sender's `long`/`es`, then `body`) -/
inductive Item where
  | good (h : CSent) (fr : Framing)
  | bad (long : Bool) (es : List Entry) (body : Bytes) (fr : Framing)

/-- the message as C14 sees it (its header and the bytes that follow) -/
def Item.c14 : Item → Props.C14.Msg
  | .good h _ => h.c14
  | .bad long es body _ => (long, es, body)

def Item.framing : Item → Framing
  | .good _ fr => fr
  | .bad _ _ _ fr => fr

/-- the frame on the wire: whole (`131, 68, header, …`) or as the only fragment of a sequence (`131, 69, seq, 1, header, …`) -/
def Item.frame : Item → Bytes
  | .good h fr => h.framed fr
  | .bad long es body .whole => withHeader (sendHeader long es) { ctl := body, pay := none }
  | .bad long es body (.single seq) => fragFirst seq 1 (sendHeader long es) body

/-- the sequence ids the single-fragment items use are 64-bit and the assembler holds nothing for them -/
def ItemsFree (a : Frag.Assembler) (items : List Item) : Prop :=
  ∀ it ∈ items, ∀ seq, it.framing = .single seq → seq < 2 ^ 64 ∧ Frag.lookup seq a.pending = none

/-- what the calls return, item by item: a message as meant is delivered as meant; a frame with a refused body costs
exactly ONE result, and that is an error whenever the body cannot be read under any table -/
def Matches (x : Ext) : List Item → List Res → Prop
  | [], [] => True
  | .good h _ :: its, r :: rs => r = h.m.expected ∧ Matches x its rs
  | .bad _ _ body _ :: its, r :: rs => (BodyRefused x body → r = .err) ∧ Matches x its rs
  | _, _ => False

theorem finishE_error (tbl : Control.Table) (e : DErr) (h : e ≠ .panic) : finishE tbl (.error e) = .err := by
  cases e <;> simp_all [finishE, resOfDErr]

/-- a whole frame with the sender's header and ANY bytes after it: the header is applied to the cache — the result is one
entry, an error when the bytes cannot be read -/
theorem recv_bad_whole (x : Ext) (tbl : Control.Table) (now : Nat) (s : St) (long : Bool) (es : List Entry) (body : Bytes)
    (h1 : (parseHeader s.cache (sendHeader long es ++ body)).2 = .ok body) :
    ∃ r, recv x tbl now s (131 :: 68 :: (sendHeader long es ++ body)) =
        ({ cache := (parseHeader s.cache (sendHeader long es ++ body)).1, asm := (expire now s).asm }, some r) ∧
      (BodyRefused x body → r = .err) := by
  rw [recv_header_frame, recvHeader]
  have hc : (expire now s).cache = s.cache := rfl
  rw [hc, decodeWithAtomCache_header, h1]
  refine ⟨_, rfl, ?_⟩
  intro hb
  obtain ⟨e, he, hee⟩ := hb (parseHeader s.cache (sendHeader long es ++ body)).1.atoms
    ((131 :: 68 :: (sendHeader long es ++ body)).length + 1 + x.extra)
  simp only [hee]
  exact finishE_error tbl e he

theorem recv_bad (x : Ext) (tbl : Control.Table) (now : Nat) (s : St) (long : Bool) (es : List Entry) (body : Bytes)
    (fr : Framing) (h1 : (parseHeader s.cache (sendHeader long es ++ body)).2 = .ok body)
    (hfree : ∀ seq, fr = .single seq → seq < 2 ^ 64 ∧ Frag.lookup seq s.asm.pending = none) :
    ∃ r, recv x tbl now s (Item.frame (.bad long es body fr)) =
        ({ cache := (parseHeader s.cache (sendHeader long es ++ body)).1, asm := (expire now s).asm }, some r) ∧
      (BodyRefused x body → r = .err) := by
  have hw := recv_bad_whole x tbl now s long es body h1
  cases fr with
  | whole =>
    have e : Item.frame (.bad long es body .whole) = 131 :: 68 :: (sendHeader long es ++ body) := by
      simp [Item.frame, withHeader, Wire.terms]
    rw [e]; exact hw
  | single seq =>
    obtain ⟨hs, h0⟩ := hfree seq rfl
    obtain ⟨nb, rest, hh⟩ := sendHeader_cons long es
    have e1 : Item.frame (.bad long es body (.single seq)) =
        131 :: 69 :: (be64 seq ++ be64 1 ++ nb :: (rest ++ body)) := by
      simp [Item.frame, fragFirst, hh]
    have e2 : 131 :: 68 :: (sendHeader long es ++ body) = 131 :: 68 :: nb :: (rest ++ body) := by simp [hh]
    rw [e1, recv_single_fragment x tbl now s seq nb _ hs h0, ← e2]
    exact hw

/-- HISTORIES WITH REFUSED BODIES: a conforming sender's messages, each whole or as a single fragment, ticks anywhere, any
clock readings, ANY NUMBER OF THEM ARRIVING WITH ARBITRARY BYTES IN PLACE OF THEIR TERMS: every message that arrives as
meant is delivered as meant, every other one costs exactly one result, and the connection's cache agrees with the
sender's after every frame — the refused ones included -/
theorem outs_items (x : Ext) (tbl : Control.Table) (tfs : List TFrame) :
    ∀ (items : List Item) (s : St) (sndr : Slots),
    SlotsAgree s.cache sndr → ConformingSeq sndr (items.map Item.c14) →
    (∀ h fr, Item.good h fr ∈ items → h.TermsConform x tbl) →
    ItemsFree s.asm items → WithTicks (bodies tfs) (items.map Item.frame) →
    Matches x items ((outs x tbl s tfs).filterMap id) ∧
      SlotsAgree (after x tbl s tfs).cache (slotsAfter sndr (items.map Item.c14)) := by
  induction tfs with
  | nil =>
    intro items s sndr ha _ _ _ hw
    have : items = [] := by simpa [WithTicks, bodies] using hw.symm
    subst this
    exact ⟨trivial, ha⟩
  | cons tf rest ih =>
    intro items s sndr ha hc ht hfree hw
    obtain ⟨t, f⟩ := tf
    have hfree' : ∀ its', (∀ p ∈ its', p ∈ items) → ItemsFree (expire t s).asm its' := by
      intro its' hsub p hp seq hseq
      obtain ⟨h1, h2⟩ := hfree p (hsub p hp) seq hseq
      exact ⟨h1, lookup_expire_none t s seq h2⟩
    rcases withTicks_cons hw with ⟨rfl, hw'⟩ | ⟨_, fr, hfr, hw'⟩
    · simp only [outs, after, recv_tick]
      rw [List.filterMap_cons]
      exact ih items (expire t s) sndr ha hc ht (hfree' items (fun _ h => h)) hw'
    · cases items with
      | nil => simp at hfr
      | cons it its =>
        simp only [List.map_cons, List.cons.injEq] at hfr
        obtain ⟨rfl, rfl⟩ := hfr
        have hres := C14_history _ s.cache sndr ha hc
        cases it with
        | good h fr =>
          obtain ⟨hn, hconf, hv, hrest⟩ := hc
          obtain ⟨h1, h2, _⟩ := hres
          have hnext := C14_cache_tracks_sender h.long s.cache sndr h.es h.m.wire.terms hn hconf hv ha
          have hr := recv_cached x tbl t s h fr h1 h2 (ht h fr (by simp))
            (fun seq hseq => hfree (.good h fr) (by simp) seq hseq)
          have hr' : recv x tbl t s (Item.frame (.good h fr)) = _ := hr
          simp only [outs, after, hr']
          rw [List.filterMap_cons]
          simp only [id_eq]
          obtain ⟨ih1, ih2⟩ := ih its { cache := (parseHeader s.cache (h.header ++ h.m.wire.terms)).1, asm := (expire t s).asm }
            (sendSlots sndr h.es) hnext hrest (fun h' fr' hm => ht h' fr' (by simp [hm]))
            (hfree' its (fun _ hm => by simp [hm])) hw'
          exact ⟨⟨rfl, ih1⟩, ih2⟩
        | bad long es body fr =>
          obtain ⟨hn, hconf, hv, hrest⟩ := hc
          obtain ⟨h1, _, _⟩ := hres
          have hnext := C14_cache_tracks_sender long s.cache sndr es body hn hconf hv ha
          obtain ⟨r, hr, hrr⟩ := recv_bad x tbl t s long es body fr h1
            (fun seq hseq => hfree (.bad long es body fr) (by simp) seq hseq)
          simp only [outs, after, hr]
          rw [List.filterMap_cons]
          simp only [id_eq]
          obtain ⟨ih1, ih2⟩ := ih its { cache := (parseHeader s.cache (sendHeader long es ++ body)).1, asm := (expire t s).asm }
            (sendSlots sndr es) hnext hrest (fun h' fr' hm => ht h' fr' (by simp [hm]))
            (hfree' its (fun _ hm => by simp [hm])) hw'
          exact ⟨⟨hrr, ih1⟩, ih2⟩

end Edp.Recv
