import EdpVerif.Drv.Etf
import EdpVerif.Impl.Framing
namespace Edp.Drv
open Edp Edp.Framing

namespace C05

/-- tail-recursive hex parser (frames of 64 KiB arrive as one token) -/
def unhexTR : List Char → Bytes → Option Bytes
  | [], acc => some acc.reverse
  | [_], _ => none
  | a :: b :: r, acc =>
    match hexVal a, hexVal b with
    | some x, some y => unhexTR r (UInt8.ofNat (x * 16 + y) :: acc)
    | _, _ => none

def getBytes (s : String) : Except String Bytes :=
  if s == "-" then .ok [] else
  match unhexTR s.toList [] with
  | some b => .ok b
  | none => .error "bad-hex"

def getMode (s : String) : Except String Mode :=
  if s == "h" then .ok .handshake else if s == "d" then .ok .distribution else .error "bad-mode"

def getEv (t : String) : Except String Ev :=
  match t.toList with
  | ['p'] => .ok .pending
  | ['e'] => .ok .eof
  | ['f'] => .ok .fail
  | ['s'] => .ok .stall
  | 'c' :: r =>
    match unhexTR r [] with
    | some b => .ok (.chunk b)
    | none => .error "bad-chunk"
  | _ => .error "bad-event"

def getEvs (s : String) : Except String (List Ev) :=
  if s == "-" then .ok [] else (s.splitOn ",").mapM getEv

def getWEv (t : String) : Except String WEv :=
  match t.toList with
  | ['p'] => .ok .pending
  | ['f'] => .ok .fail
  | ['s'] => .ok .stall
  | 'a' :: r =>
    match (String.ofList r).toNat? with
    | some k => .ok (.accept k)
    | none => .error "bad-accept"
  | _ => .error "bad-wevent"

def getWEvs (s : String) : Except String (List WEv) :=
  if s == "-" then .ok [] else (s.splitOn ",").mapM getWEv

def getFEv (t : String) : Except String FEv :=
  match t.toList with
  | ['d'] => .ok .done
  | ['p'] => .ok .pending
  | ['f'] => .ok .fail
  | ['s'] => .ok .stall
  | _ => .error "bad-fevent"

def getFEvs (s : String) : Except String (List FEv) :=
  if s == "-" then .ok [] else (s.splitOn ",").mapM getFEv

def getTOp (t : String) : Except String TOp :=
  match t.toList with
  | ['c'] => .ok .connect
  | ['m', 'h'] => .ok (.setMode .handshake)
  | ['m', 'd'] => .ok (.setMode .distribution)
  | ['x'] => .ok .close
  | ['t'] => .ok .takeRead
  | ['i'] => .ok .isConnected
  | ['h'] => .ok .hasWrite
  | 'r' :: r => match unhexTR r [] with
    | some b => .ok (.read b)
    | none => .error "bad-op"
  | 'w' :: r => match unhexTR r [] with
    | some b => .ok (.write b)
    | none => .error "bad-op"
  | 'q' :: r => match unhexTR r [] with
    | some b => .ok (.writeRaw b)
    | none => .error "bad-op"
  | _ => .error "bad-op"

def getMsgs (s : String) : Except String (List Bytes) :=
  if s == "-" then .ok [] else
  (s.splitOn ",").mapM fun t =>
    match t.toList with
    | 'm' :: r =>
      match unhexTR r [] with
      | some b => .ok b
      | none => .error "bad-msg"
    | _ => .error "bad-msg"

def hexArg (b : Bytes) : String := if b.isEmpty then "-" else hexOf b

def showRErr (cap : Nat) : RErr → String
  | .eof => "err-eof"
  | .io => "err-io"
  | .timeout => "err-timeout"
  | .tooLarge n => "err-toolarge:" ++ toString n ++ ":" ++ toString cap

def showRes (cap : Nat) : Except RErr Bytes → String
  | .ok b => "ok=" ++ hexArg b
  | .error e => showRErr cap e

def showWErr : WErr → String
  | .writeZero => "err-writezero"
  | .io => "err-io"
  | .timeout => "err-timeout"

def showWRes : Except WErr Unit → String
  | .ok () => "ok"
  | .error e => showWErr e

def showTRes (cap : Nat) : TRes → String
  | .unit => "u"
  | .bool b => if b then "true" else "false"
  | .noStream => "nostream"
  | .msgs ms => if ms.isEmpty then "none" else "+".intercalate (ms.map (showRes cap))
  | .wire b => "wire=" ++ hexArg b

/-- the harness observes what reached the peer per connection (read to end of stream when the transport lets go of
the socket), not per write: results of the operations, then `|`, then the wire of every connection in order -/
def trText (cap : Nat) : TState → List TOp → List String → Bytes → List Bytes → String
  | st, [], out, cur, wires =>
    let wires := if st.wr then wires ++ [cur] else wires
    " ".intercalate out ++ " | " ++ (if wires.isEmpty then "-" else ",".intercalate (wires.map hexArg))
  | st, op :: r, out, cur, wires =>
    let (st', res) := tstep cap st op
    let ended := match op with
      | .connect => st.wr
      | .close => st.wr
      | _ => false
    let wires' := if ended then wires ++ [cur] else wires
    let cur' := if ended then [] else cur
    match res with
    | .wire b => trText cap st' r (out ++ ["ok"]) (cur' ++ b) wires'
    | x => trText cap st' r (out ++ [showTRes cap x]) cur' wires'

def isPrefixOf : Bytes → Bytes → Bool
  | [], _ => true
  | _ :: _, [] => false
  | a :: x, b :: y => a == b && isPrefixOf x y

/-- what the harness prints for one body returned by the second copy: the payload of `112 ++ ctl ++ 131,109,len32,data`,
or the class of the error the rest of the function raises. `none` = keep going, `some` = the call failed. -/
def rhToken (ctl : Bytes) (body : Bytes) : String × Bool :=
  match classifyBody body with
  | .empty => ("err-empty", true)
  | .badMarker _ => ("err-protocol", true)
  | .pass rest =>
    if rest.take ctl.length == ctl then
      match rest.drop ctl.length with
      | 131 :: 109 :: r =>
        match rdN 4 r with
        | some (n, d) => if d.length == n then ("ok=" ++ hexArg d, false) else ("err-decode", true)
        | none => ("err-decode", true)
      | _ => ("err-decode", true)
    else ("err-decode", true)

def rhTokens (ctl : Bytes) : List (Except RErr Bytes) → List String
  | [] => []
  | .error .timeout :: r => "err-timeout" :: rhTokens ctl r
  | .error e :: _ => [showRErr connCap e]
  | .ok b :: r =>
    match rhToken ctl b with
    | (t, true) => [t]
    | (t, false) => t :: rhTokens ctl r

def isClean : List Ev → Bool
  | [] => true
  | .chunk bs :: r => !bs.isEmpty && isClean r
  | .pending :: r => isClean r
  | _ :: _ => false

end C05

open C05 in
/-- driver requests of property C05 -/
def handleC05 : List String → Option String
  | ["c05frame", m, h] => some <| run do
    let m ← getMode m
    let b ← getBytes h
    pure ("ok " ++ hexOf (frame m b))
  | ["c05write", m, h, s] => some <| run do
    let m ← getMode m
    let b ← getBytes h
    let s ← getWEvs s
    let o := writeFramed m b s
    let r := match o.res with
      | .ok () => "ok"
      | .error e => showWErr e
    let c := if o.chunks.isEmpty then "-" else ",".intercalate (o.chunks.map hexOf)
    pure (r ++ " " ++ c ++ " " ++ toString o.flushes)
  | ["c05read", m, e] => some <| run do
    let m ← getMode m
    let evs ← getEvs e
    pure (" ".intercalate ((readAll framingCap m evs).map (showRes framingCap)))
  | ["c05readt", m, e] => some <| run do
    let m ← getMode m
    let evs ← getEvs e
    pure (" ".intercalate ((readRetry framingCap m evs).map (showRes framingCap)))
  | ["c05rht", ctl, e] => some <| run do
    let ctl ← getBytes ctl
    let evs ← getEvs e
    pure (" ".intercalate (rhTokens ctl (recvRetry connCap evs)))
  | ["c05rh", ctl, e] => some <| run do
    let ctl ← getBytes ctl
    let evs ← getEvs e
    pure (" ".intercalate (rhTokens ctl (recvAll connCap evs)))
  -- the hypotheses of C05_split_invariance hold for this case and its conclusion evaluates as stated
  | ["c05split", m, ms, e] => some <| run do
    let m ← getMode m
    let msgs ← getMsgs ms
    let evs ← getEvs e
    if !isClean evs then pure "FAIL script-not-clean"
    else if payload evs != (msgs.map (frame m)).flatten then pure "FAIL payload-is-not-the-frames"
    else if !msgs.all (fun x => decide (fits m x) && x.length ≤ framingCap) then pure "FAIL message-does-not-fit"
    else if (readAll framingCap m evs).map (showRes framingCap)
        == (msgs.map fun x => "ok=" ++ hexArg x) ++ ["err-eof"] then pure "ok"
    else pure "FAIL model-readAll-differs"
  | ["c05writef", m, h, s, f] => some <| run do
    let m ← getMode m
    let b ← getBytes h
    let s ← getWEvs s
    let f ← getFEvs f
    let o := writeFramed m b s f
    let c := if o.chunks.isEmpty then "-" else ",".intercalate (o.chunks.map hexOf)
    pure (showWRes o.res ++ " " ++ c ++ " " ++ toString o.flushes)
  | ["c05writem", m, ms, s, f] => some <| run do
    let m ← getMode m
    let msgs ← getMsgs ms
    let s ← getWEvs s
    let f ← getFEvs f
    let o := writeMany m msgs s f
    let c := if o.2.isEmpty then "-" else ",".intercalate (o.2.map hexOf)
    pure ((if o.1.isEmpty then "-" else ",".intercalate (o.1.map showWRes)) ++ " " ++ c)
  -- what a peer reads from the wire the writes left behind (each accepted chunk arrives as one read)
  | ["c05wrread", m, ms, s, f] => some <| run do
    let m ← getMode m
    let msgs ← getMsgs ms
    let s ← getWEvs s
    let f ← getFEvs f
    let o := writeMany m msgs s f
    pure (" ".intercalate ((readAll framingCap m (o.2.map .chunk)).map (showRes framingCap)))
  -- Spec oracle on the implementation's wire: it is a prefix of the protocol's frames of the messages (all of them when `all`)
  | ["c05wireprop", m, ms, w, all] => some <| run do
    let m ← getMode m
    let msgs ← getMsgs ms
    let w ← getBytes w
    let want := (msgs.map fun x => beN (if m == .handshake then 2 else 4) x.length ++ x).flatten
    if !msgs.all (fun x => decide (fits m x)) then pure "FAIL message-does-not-fit"
    else if all == "all" then pure (if w == want then "ok" else "FAIL wire-is-not-the-frames")
    else pure (if isPrefixOf w want then "ok" else "FAIL wire-is-not-a-prefix-of-the-frames")
  | ["c05tr", ops] => some <| run do
    let ops ← (ops.splitOn ",").mapM getTOp
    pure (trText framingCap TState.new ops [] [] [])
  | _ => none

end Edp.Drv
