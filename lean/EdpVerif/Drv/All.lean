import EdpVerif.Drv.Etf
namespace Edp.Drv

def handle (args : List String) : String :=
  match handleEtf args with
  | some r => r
  | none => "bad-op unknown"

end Edp.Drv
