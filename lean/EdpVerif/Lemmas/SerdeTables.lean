import EdpVerif.Impl.Serde
/-!
C15: the model's type-mapping tables, computed from the model itself by probing — which constructor `ser` builds for the
values a `serialize_*` method receives, which constructors `de` accepts where a `deserialize_*` method is called — to be
compared with the tables the translator extracts from ser.rs / de.rs (Generated/Misc.lean, `C15_SER_TOP`, `C15_SER_PARTS`,
`C15_DE_ARMS`).  Changing an arm in the source changes the generated table and fails the comparison in Props/C15.lean.
-/
namespace Edp.SerdeTables
open Edp Edp.Serde

def ctorOf : Term → String
  | .atom _ => "Atom" | .int _ => "Integer" | .float _ => "Float" | .bin _ => "Binary" | .str _ => "String"
  | .list _ => "List" | .nil => "Nil" | .tuple _ => "Tuple" | .map _ => "Map" | .big _ _ => "BigInt" | _ => "Other"

mutual
/-- every constructor occurring in a term -/
def ctors : Term → List String
  | .list l => "List" :: ctorsL l
  | .tuple l => "Tuple" :: ctorsL l
  | .map kvs => "Map" :: ctorsKV kvs
  | t => [ctorOf t]
def ctorsL : List Term → List String
  | [] => []
  | t :: ts => ctors t ++ ctorsL ts
def ctorsKV : List (Term × Term) → List String
  | [] => []
  | (k, v) :: r => ctors k ++ ctors v ++ ctorsKV r
end

def sameSet (a b : List String) : Bool := a.all b.contains && b.all a.contains

def nx : Bytes := [120]
def ny : Bytes := [121]

/-- values that reach each `serialize_*` method / compound serializer (payloads are floats, so that the constructors of the
container itself can be told from those of its content) -/
def serProbes : List (String × List Val) := [
  ("bool", [.bool true, .bool false]),
  ("i8", [.int .i8 (-128), .int .i8 127]), ("i16", [.int .i16 (-32768), .int .i16 32767]),
  ("i32", [.int .i32 (-2147483648), .int .i32 2147483647]),
  ("i64", [.int .i64 (-9223372036854775808), .int .i64 0, .int .i64 9223372036854775807]),
  ("u8", [.int .u8 0, .int .u8 255]), ("u16", [.int .u16 65535]), ("u32", [.int .u32 4294967295]),
  ("u64", [.int .u64 0, .int .u64 9223372036854775807, .int .u64 9223372036854775808, .int .u64 18446744073709551615]),
  ("f32", [.f32 0]), ("f64", [.f64 0]), ("char", [.char 97]), ("str", [.string [97]]), ("bytes", [.bytes [1]]),
  ("none", [.none]), ("unit", [.unit]), ("unit_struct", [.unitStruct nx]), ("unit_variant", [.variant nx nx .unit]),
  ("newtype_variant", [.variant nx nx (.newtype [] (.f64 0))]),
  ("SerializeSeq", [.seq [], .seq [.f64 0]]),
  ("SerializeTuple", [.tuple [.f64 0]]),
  ("SerializeTupleStruct", [.tupleStruct nx [.f64 0]]),
  ("SerializeTupleVariant", [.variant nx nx (.tuple [.f64 0])]),
  ("SerializeMap", [.map [(.f64 0, .f64 0)]]),
  ("SerializeStruct", [.struct nx [(nx, .f64 0)]]),
  ("SerializeStructVariant", [.variant nx nx (.struct [] [(nx, .f64 0)])])]

def probesOf (m : String) : List Val := (serProbes.lookup m).getD []

/-- the outermost constructors the model's `ser` builds for the method's values -/
def modelTop (m : String) : List String := ((probesOf m).map fun v => ctorOf (ser v)).eraseDups

/-- all constructors the model's `ser` builds for the method's values, the float payload excepted -/
def modelParts (m : String) : List String := (((probesOf m).flatMap fun v => ctors (ser v)).eraseDups).filter (· != "Float")

def okB {α} : SRes α → Bool
  | .ok _ => true
  | .error _ => false

/-- the model's counterpart of each `deserialize_*` method: the Rust type whose `Deserialize` calls it -/
def deAcc : List (String × (Term → Bool)) := [
  ("bool", fun t => okB (de .bool t)),
  ("i8", fun t => okB (de (.int .i8) t)), ("i16", fun t => okB (de (.int .i16) t)), ("i32", fun t => okB (de (.int .i32) t)),
  ("i64", fun t => okB (de (.int .i64) t)), ("u8", fun t => okB (de (.int .u8) t)), ("u16", fun t => okB (de (.int .u16) t)),
  ("u32", fun t => okB (de (.int .u32) t)), ("u64", fun t => okB (de (.int .u64) t)),
  ("f32", fun t => okB (de .f32 t)), ("f64", fun t => okB (de .f64 t)), ("char", fun t => okB (de .char t)),
  ("str", fun t => okB (de .string t)), ("string", fun t => okB (de .string t)),
  ("bytes", fun t => okB (de .bytes t)), ("byte_buf", fun t => okB (de .bytes t)),
  ("unit", fun t => okB (de .unit t)), ("unit_struct", fun t => okB (de (.unitStruct nx) t)),
  ("seq", fun t => okB (de (.seq .f64) t)), ("tuple", fun t => okB (de (.tuple [.f64]) t)),
  ("tuple_struct", fun t => okB (de (.tupleStruct nx [.f64]) t)),
  ("map", fun t => okB (de (.map .f64 .f64) t)), ("struct", fun t => okB (de (.struct nx []) t)),
  ("enum", fun t => okB (de (.enum nx [(nx, .unit), (ny, .newtype [] .f64)]) t)),
  ("identifier", isOkStr)]

/-- small terms of every constructor of the serde fragment -/
def termProbes : List (String × List Term) := [
  ("Atom", [.atom sTrue, .atom sNil, .atom sUndefined, .atom nx]),
  ("Integer", [.int 0]), ("BigInt", [.big false [1]]), ("Float", [.float 0]),
  ("Binary", [.bin [97], .bin []]), ("String", [.str [97]]),
  ("List", [.list [.float 0]]), ("Nil", [.nil]),
  ("Tuple", [.tuple [.float 0], .tuple [.atom ny, .float 0], .tuple []]),
  ("Map", [.map [], .map [(.float 0, .float 0)]])]

/-- the constructors the model accepts where the method is called -/
def modelAccepts (m : String) : List String :=
  match deAcc.lookup m with
  | some f => (termProbes.filter fun p => p.2.any f).map (·.1)
  | none => []

/-- what a constructor can look like after `decode ∘ encode` -/
def wireCtors : String → List String
  | "Integer" => ["Integer", "BigInt"]
  | "String" => ["Binary"]
  | "List" => ["List", "Nil"]
  | c => [c]

/-- which `deserialize_*` reads what which `serialize_*` wrote (std / derived `Serialize`-`Deserialize` pairs) -/
def pairs : List (String × String) := [
  ("bool", "bool"), ("i8", "i8"), ("i16", "i16"), ("i32", "i32"), ("i64", "i64"), ("u8", "u8"), ("u16", "u16"),
  ("u32", "u32"), ("u64", "u64"), ("f32", "f32"), ("f64", "f64"), ("char", "char"), ("str", "str"), ("str", "string"),
  ("str", "identifier"), ("bytes", "bytes"), ("bytes", "byte_buf"), ("unit", "unit"), ("unit_struct", "unit_struct"),
  ("unit_variant", "enum"), ("newtype_variant", "enum"), ("SerializeSeq", "seq"), ("SerializeTuple", "tuple"),
  ("SerializeTupleStruct", "tuple_struct"), ("SerializeTupleVariant", "enum"), ("SerializeMap", "map"),
  ("SerializeStruct", "struct"), ("SerializeStructVariant", "enum")]

/-- on two tables: every constructor the writer produces is, as it is and in every form the wire can give it, among the
constructors the reader matches on -/
def allAccepted (serTop deArms : List (String × List String)) : Bool :=
  pairs.all fun p =>
    match serTop.lookup p.1, deArms.lookup p.2 with
    | some cs, some ds => cs.all fun c => ds.contains c && (wireCtors c).all ds.contains
    | _, _ => false

end Edp.SerdeTables
