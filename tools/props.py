"""Per-property configuration for check.py."""

COMMON_ASSUME = [
    "Spec modules are a faithful transcription of erl_ext_dist / erl_dist_protocol (OTP 26/27)",
    "the hand-written Impl model is the code on the inputs the correspondence run did not reach",
    "nom `complete` combinators fail without panicking on short input",
]

PROPS = {
    "C01": {
        "module": "EdpVerif.Props.C01",
        "domains": ["c01"],
        "tables": ["Tags"],
        "assumptions": COMMON_ASSUME,
    },
}
