//! One PRNG state for every random choice (splitmix64), so a run replays exactly from VERIF_SEED.
pub struct Rng(pub u64);

impl Rng {
    pub fn new(seed: u64) -> Self {
        Rng(seed.wrapping_mul(0x9E3779B97F4A7C15) ^ 0xD1B54A32D192ED03)
    }
    pub fn next(&mut self) -> u64 {
        self.0 = self.0.wrapping_add(0x9E3779B97F4A7C15);
        let mut z = self.0;
        z = (z ^ (z >> 30)).wrapping_mul(0xBF58476D1CE4E5B9);
        z = (z ^ (z >> 27)).wrapping_mul(0x94D049BB133111EB);
        z ^ (z >> 31)
    }
    pub fn below(&mut self, n: u64) -> u64 {
        if n == 0 { 0 } else { self.next() % n }
    }
    pub fn range(&mut self, lo: u64, hi: u64) -> u64 {
        lo + self.below(hi - lo + 1)
    }
    pub fn chance(&mut self, num: u64, den: u64) -> bool {
        self.below(den) < num
    }
    pub fn pick<'a, T>(&mut self, xs: &'a [T]) -> &'a T {
        &xs[self.below(xs.len() as u64) as usize]
    }
    pub fn bytes(&mut self, n: usize) -> Vec<u8> {
        (0..n).map(|_| self.next() as u8).collect()
    }
    pub fn shuffle<T>(&mut self, xs: &mut [T]) {
        for i in (1..xs.len()).rev() {
            let j = self.below(i as u64 + 1) as usize;
            xs.swap(i, j);
        }
    }
}
